#!/bin/sh
# usage: mut.sh <patch file> <props (comma separated)>   -- applies the patch to a scratch copy of /repo and runs the analyzer on it
set -e
PATCH="$1"; PROPS="$2"
D=$(mktemp -d /tmp/allmut.XXXXXX)
trap 'rm -rf "$D"' EXIT
rsync -a --exclude .git /repo/ "$D"/
( cd "$D" && patch -p1 -s < "$PATCH" ) || { echo "PATCH DOES NOT APPLY"; exit 3; }
export GOFLAGS=-mod=mod GOPROXY=off GOSUMDB=off GOTOOLCHAIN=local; unset GOWORK
${ALLIANCECHECK:-/verif/bin/alliancecheck} -repo "$D" -verif /verif -property "$PROPS" -no-evidence | sed "s|$D/||g"
