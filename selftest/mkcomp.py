#!/usr/bin/env python3
"""mkcomp.py <name> <props> <expect> <base patch> <file> <old> <new> [...]: composite mutant = base refactor + textual mutation; diff against /repo"""
import sys,os,json,subprocess,tempfile,shutil
name,props,expect,base=sys.argv[1:5]; edits=sys.argv[5:]
d=tempfile.mkdtemp(prefix='/tmp/mkcomp.')
subprocess.run(['rsync','-a','--exclude','.git','/repo/',d+'/'],check=True)
subprocess.run(['patch','-p1','-s','-i',base],cwd=d,check=True)
for i in range(0,len(edits),3):
    f,old,new=edits[i:i+3]
    src=open(os.path.join(d,f)).read()
    if src.count(old)!=1: sys.exit(f"'{old}' occurs {src.count(old)} times in {f}")
    open(os.path.join(d,f),'w').write(src.replace(old,new))
r=subprocess.run(['go','build','./x/alliance/...'],cwd=d,capture_output=True,text=True)
if r.returncode!=0: print(r.stderr[:500]); sys.exit('does not build')
out=subprocess.run(['diff','-ruN','--exclude=.git','/repo/x',d+'/x'],capture_output=True,text=True).stdout
out=out.replace('/repo/x','a/x').replace(d+'/x','b/x')
import re
out=re.sub(r'^diff -ruN.*\n','',out,flags=re.M)
open(f'/verif/mutants/{name}.patch','w').write(out)
idx=json.load(open('/verif/mutants/index.json'))
idx[name]={'kind':'mutant','props':props.split(','),'expect':expect,'what':'mutation on top of a refactored tree ('+os.path.basename(base)+')'}
json.dump(dict(sorted(idx.items())),open('/verif/mutants/index.json','w'),indent=1)
shutil.rmtree(d); print('wrote',name)
