#!/bin/sh
# regenerates manifest_texts.json (from `alliancecheck -dump metas`) and MANIFEST.json; validates against the schema
set -e
cd /verif
BIN=${ALLIANCECHECK:-/verif/bin/alliancecheck}
$BIN -dump metas > /tmp/metas.$$.json
python3 - /tmp/metas.$$.json <<'PY'
import json,sys
m=json.load(open(sys.argv[1]))['metas']
pre="Static analysis of the type-checked source (go/types + go/ssa) without executing it. DECIDED on every path of the anchored functions: "
tech="custom static analysis on go/ssa: canonical value identity (reaching-definition memory model), dominance and must-follow on success paths, normalised guard facts, effect summaries and who-may tables, iteration-completeness of reviewed loops, key-layout extraction, reviewed-reference formula trees, staleness of by-value record copies, error-origin closure, and for every effect of every function in scope the escape edges / dominating facts / argument tuples compared with a table generated from the reviewed tree (X.skips, X.guards, X.args, X.fields)"
out={}
for k,v in m.items():
    out[k]={"level":pre+v['explanation']+" NOT DECIDED (numeric/global clauses of the property): "+v['not_decided']+" Level `other`: structural necessary conditions, not a proof of the behavioural statement.",
            "technique":tech+"; rules: "+v['rules']}
json.dump(out,open('/verif/manifest_texts.json','w'),indent=1)
PY
rm -f /tmp/metas.$$.json
python3 gen_manifest.py C01,C02,C03,C04,C05,C06,C07,C08,C09,C10,C11,C12,C13,C14,C15,C16,C17,C18,C19,C20
python3-vt -c "
import json,jsonschema
jsonschema.validate(json.load(open('/verif/MANIFEST.json')),json.load(open('/root/.vp/MANIFEST.schema.json')));print('manifest valid')"
