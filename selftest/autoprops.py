#!/usr/bin/env python3
"""autoprops.py <mutant names...>: sets the props of corpus mutants to the properties under which the current binary reports them"""
import sys,json,subprocess,re,os
idx=json.load(open('/verif/mutants/index.json'))
env=dict(os.environ)
for name in sys.argv[1:]:
    out=subprocess.run(['/verif/selftest/mut.sh',f'/verif/mutants/{name}.patch','all'],capture_output=True,text=True,env=env).stdout
    props=sorted(set(re.findall(r'^VIOLATION property=(C\d\d)',out,re.M)))
    if not props:
        print(name,'NOT DETECTED'); continue
    idx[name]['props']=props
    print(name,props)
json.dump(dict(sorted(idx.items())),open('/verif/mutants/index.json','w'),indent=1)
