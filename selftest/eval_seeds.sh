#!/bin/sh
# usage: eval_seeds.sh <prefix> [ids...]  -- for each /tmp/<prefix>_<ID> that has _out/patch.diff: show the patch (added/removed lines)
# and what the checks report (own property first, then all properties)
P="$1"; shift
IDS="$@"; [ -z "$IDS" ] && IDS=$(ls -d /tmp/${P}_C* 2>/dev/null | sed "s|/tmp/${P}_||")
for id in $IDS; do
  f=/tmp/${P}_$id/_out/patch.diff
  [ -s "$f" ] || { echo "=== $id: no patch yet"; continue; }
  echo "=== $id"
  grep "^[+-]" "$f" | grep -v "^+++\|^---" | head -${LINES_MAX:-40}
  echo "--- own property:"
  timeout 300 /verif/selftest/mut.sh "$f" $id 2>&1 | grep "VIOLATION:\|UNDECIDED:\|PATCH" | sort -u | cut -c1-230
  echo "--- other properties:"
  timeout 300 /verif/selftest/mut.sh "$f" all 2>&1 | grep "VIOLATION:\|UNDECIDED:" | sort -u | cut -c1-160 | head -8
done
