#!/usr/bin/env python3
"""mkmut.py <kind> <name> <props> <expected rule substring> <file> <old> <new> [<file> <old> <new> ...]
kind: mutant (must be detected) | refactor (behaviour-preserving: must stay silent)
Creates /verif/mutants/<name>.patch (unified diff against /repo's working tree) and records it in mutants/index.json."""
import sys, os, json, difflib
kind, name, props, expect = sys.argv[1:5]
edits = sys.argv[5:]
assert len(edits) % 3 == 0 and edits
out = []
bycontent = {}
for i in range(0, len(edits), 3):
    f, old, new = edits[i:i+3]
    old = old.encode().decode('unicode_escape'); new = new.encode().decode('unicode_escape')
    src = bycontent.get(f) or open(os.path.join('/repo', f)).read()
    if src.count(old) != 1:
        sys.exit(f"'{old}' occurs {src.count(old)} times in {f}")
    bycontent[f] = src.replace(old, new)
for f, dst in bycontent.items():
    src = open(os.path.join('/repo', f)).read()
    out += list(difflib.unified_diff(src.splitlines(True), dst.splitlines(True), 'a/'+f, 'b/'+f))
os.makedirs('/verif/mutants', exist_ok=True)
open(f'/verif/mutants/{name}.patch', 'w').write(''.join(out))
idxp = '/verif/mutants/index.json'
idx = json.load(open(idxp)) if os.path.exists(idxp) else {}
idx[name] = {"kind": kind, "props": props.split(','), "expect": expect}
json.dump(dict(sorted(idx.items())), open(idxp, 'w'), indent=1)
print("wrote", name)
