#!/usr/bin/env python3
"""save_seeds.py <worktree prefix> <suffix> <round> <history.json>
Stores verified seeded changes from /tmp/<prefix>_<ID> worktrees into /verif/seeded/<ID><suffix>/ and registers each
as mutants/seeded_<ID><suffix>.patch.  history.json: {ID: "detection history text"}."""
import sys, os, json, shutil, subprocess, glob
prefix, suffix, rnd, histf = sys.argv[1:5]
hist = json.load(open(histf))
idxp = '/verif/mutants/index.json'
idx = json.load(open(idxp))
for w in sorted(glob.glob(f'/tmp/{prefix}_C??')):
    pid = w.rsplit('_', 1)[1]
    out = f'{w}/_out'
    log = open(f'{out}/verify.log').read()
    res = [l for l in log.splitlines() if l.startswith(('BUILD', 'SUITE', 'DEMO'))]
    good = res == ['BUILD ok', 'SUITE-WITH-CHANGE ok', 'DEMO-WITH-CHANGE fails (good)', 'DEMO-WITHOUT-CHANGE passes (good)']
    if not good:
        print('SKIP (not verified):', pid, res); continue
    dst = f'/verif/seeded/{pid}{suffix}'
    os.makedirs(dst, exist_ok=True)
    shutil.copy(f'{out}/patch.diff', f'{dst}/patch.diff')
    demos = glob.glob(f'{out}/*_test.go')
    for d in demos:
        shutil.copy(d, dst)
    meta = json.load(open(f'{out}/meta.json'))
    meta['round'] = int(rnd)
    meta['origin'] = 'independent sub-agent given only the property text and a scratch worktree'
    meta['verified_by_me'] = {'how': 'selftest/verify_seed.sh', 'result': res}
    now = subprocess.run(['/verif/selftest/mut.sh', f'{dst}/patch.diff', pid], capture_output=True, text=True).stdout
    nowl = sorted(set(l.strip() for l in now.splitlines() if 'VIOLATION:' in l or 'UNDECIDED:' in l))
    meta['detection'] = {'history': hist.get(pid, ''), 'now': nowl}
    json.dump(meta, open(f'{dst}/meta.json', 'w'), indent=1)
    shutil.copy(f'{dst}/patch.diff', f'/verif/mutants/seeded_{pid}{suffix}.patch')
    idx[f'seeded_{pid}{suffix}'] = {'kind': 'mutant', 'props': [pid], 'expect': ''}
    print(pid, 'saved;', len(nowl), 'violations now')
json.dump(dict(sorted(idx.items())), open(idxp, 'w'), indent=1)
