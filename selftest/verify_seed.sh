#!/bin/sh
# usage: verify_seed.sh <worktree> ; verifies a seeded change independently: builds, existing suite passes with it,
# demo test fails with it and passes without it. Writes <worktree>/_out/verify.log
W="$1"; cd "$W" || exit 2
export GOFLAGS=-mod=mod GOPROXY=off GOSUMDB=off GOTOOLCHAIN=local; unset GOWORK
L="$W/_out/verify.log"; : > "$L"
git checkout -q -- x/alliance/tests/benchmark/benchmark_genesis.json 2>/dev/null
DEMO=$(git status --short | grep '^??' | grep '_test.go' | awk '{print $2}')
PKGS=$(for f in $DEMO; do echo "./$(dirname $f)/"; done | sort -u)
TESTS=$(grep -h '^func Test' $DEMO | sed 's/func \(Test[A-Za-z0-9_]*\).*/\1/' | paste -sd'|')
echo "demo files: $DEMO ; tests: $TESTS ; pkgs: $PKGS" >> "$L"
git diff -- . ':(exclude)_out' > /tmp/verify_$$.patch
[ -s /tmp/verify_$$.patch ] || { echo "NO SOURCE CHANGE" >> "$L"; exit 1; }
go build ./... >> "$L" 2>&1 && echo "BUILD ok" >> "$L" || { echo "BUILD FAILED" >> "$L"; exit 1; }
# existing suite with the change (demo tests skipped)
if go test -vet=off -count=1 -skip "^($TESTS)\$" ./x/alliance/... ./custom/... ./app/... >> "$L" 2>&1; then echo "SUITE-WITH-CHANGE ok" >> "$L"; else echo "SUITE-WITH-CHANGE FAILED" >> "$L"; fi
git checkout -q -- x/alliance/tests/benchmark/benchmark_genesis.json 2>/dev/null
if go test -vet=off -count=1 -run "^($TESTS)\$" $PKGS >> "$L" 2>&1; then echo "DEMO-WITH-CHANGE passes (BAD)" >> "$L"; else echo "DEMO-WITH-CHANGE fails (good)" >> "$L"; fi
git apply -R /tmp/verify_$$.patch
if go test -vet=off -count=1 -run "^($TESTS)\$" $PKGS >> "$L" 2>&1; then echo "DEMO-WITHOUT-CHANGE passes (good)" >> "$L"; else echo "DEMO-WITHOUT-CHANGE fails (BAD)" >> "$L"; fi
git apply /tmp/verify_$$.patch; rm -f /tmp/verify_$$.patch
grep -E "^(BUILD|SUITE|DEMO)" "$L"
