#!/bin/sh
# usage: combine_seed_on_base.sh <scratch repo with base refactor committed and seed in _out/patch.diff> <base refactor patch> <out combined diff>
# builds the diff of (base refactor + seeded change) against /repo
W="$1"; BASE="$2"; OUT="$3"
D=$(mktemp -d /tmp/comb.XXXXXX)
trap 'rm -rf "$D"' EXIT
rsync -a --exclude .git /repo/ "$D"/
( cd "$D" && patch -p1 -s < "$BASE" && patch -p1 -s < "$W/_out/patch.diff" ) || { echo "COMBINE FAILED"; exit 3; }
diff -ruN -x .git /repo "$D" | sed "s|^--- /repo/|--- a/|; s|^+++ $D/|+++ b/|; s|^diff -ruN -x .git /repo/\(\S*\) .*|diff --git a/\1 b/\1|" > "$OUT"
