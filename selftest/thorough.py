#!/usr/bin/env python3
"""Thorough tier of one property.

1. runs the analysis on the repository (writes the evidence file, tier=thorough);
2. sensitivity self-test: every mutant patch of mutants/index.json tagged with the property is applied to a
   scratch copy of the repository (outside /repo and /verif, removed afterwards) and analysed in a separate
   process; the run must report a violation whose rule name contains the expected substring;
3. specificity self-test: every behaviour-preserving "refactor" patch tagged with the property must leave the
   verdicts unchanged (no violation that the unmodified tree does not have).
The results are merged into the evidence file.  A mutant that is not detected, or a refactor that raises an
alarm, makes the check fail (kind "selftest"): a checker that lost its teeth or grew false ones must not pass."""
import json, os, subprocess, sys, tempfile, shutil, time, re
from concurrent.futures import ThreadPoolExecutor

pid, repo = sys.argv[1], sys.argv[2]
verif = os.path.dirname(os.path.dirname(os.path.abspath(__file__)))
binp = os.environ.get("ALLIANCECHECK_BIN") or os.path.join(verif, "bin", "alliancecheck")
env = dict(os.environ, GOFLAGS="-mod=mod", GOPROXY="off", GOSUMDB="off", GOTOOLCHAIN="local")
env.pop("GOWORK", None)
t0 = time.time()

base = subprocess.run([binp, "-repo", repo, "-verif", verif, "-property", pid, "-tier", "thorough"], capture_output=True, text=True, env=env)
sys.stdout.write(base.stdout)
rc = base.returncode

def verdicts(out):
    return sorted(set(re.findall(r"^\s+(?:VIOLATION|UNDECIDED): (.*)$", out, re.M)))

base_v = verdicts(base.stdout)
idx = json.load(open(os.path.join(verif, "mutants", "index.json")))
cases = [(n, m) for n, m in sorted(idx.items()) if pid in m["props"]]

def run_case(item):
    name, m = item
    d = tempfile.mkdtemp(prefix="allmut.")
    try:
        subprocess.run(["rsync", "-a", "--exclude", ".git", repo.rstrip("/") + "/", d + "/"], check=True)
        if m.get("generator"):
            # generated variant: the analyzer's own source transformer (every local variable / parameter renamed)
            genv = dict(env, ALLIANCECHECK_NOINLINE="1")
            p = subprocess.run([binp, "-repo", d, "-verif", verif, "-dump", m["generator"]], capture_output=True, text=True, env=genv)
            if p.returncode != 0 or "renamed" not in p.stdout:
                return name, m, "skipped", "generator failed on the tree under test"
        else:
            p = subprocess.run(["patch", "-p1", "-s", "--no-backup-if-mismatch", "-i", os.path.join(verif, "mutants", name + ".patch")], cwd=d, capture_output=True, text=True)
            if p.returncode != 0:
                return name, m, "skipped", "patch does not apply to the tree under test"
        try:
            r = subprocess.run([binp, "-repo", d, "-verif", verif, "-property", pid, "-no-evidence"], capture_output=True, text=True, env=env, timeout=400)
        except subprocess.TimeoutExpired:
            return name, m, "MISSED" if m["kind"] == "mutant" else "ALARM", "analyzer timed out on the variant"
        out = r.stdout.replace(d + "/", "")
        v = verdicts(out)
        new = [x for x in v if x not in base_v]
        if m["kind"] == "mutant":
            hit = [x for x in new if m["expect"] in x]
            if "cannot load" in out:
                return name, m, "skipped", "variant does not type-check"
            if hit:
                return name, m, "detected", hit[0]
            if new:
                return name, m, "detected", "(by another rule than the expected %s) %s" % (m["expect"], new[0])
            return name, m, "MISSED", "no new violation"
        else:
            return name, m, ("silent" if not new else "ALARM"), "; ".join(new)
    finally:
        shutil.rmtree(d, ignore_errors=True)

results = []
with ThreadPoolExecutor(max_workers=6) as ex:
    for res in ex.map(run_case, cases):
        results.append(res)

sel = {"mutants": 0, "detected": 0, "refactors": 0, "silent": 0, "skipped": 0, "cases": []}
bad = []
for name, m, status, detail in results:
    sel["cases"].append({"name": name, "kind": m["kind"], "expect": m["expect"], "status": status, "detail": detail[:300]})
    if status == "skipped":
        sel["skipped"] += 1
    elif m["kind"] == "mutant":
        sel["mutants"] += 1
        sel["detected"] += status == "detected"
        if status != "detected":
            bad.append((name, status, detail))
    else:
        sel["refactors"] += 1
        sel["silent"] += status == "silent"
        if status != "silent":
            bad.append((name, status, detail))
print("selftest %s: %d/%d mutants detected, %d/%d refactors silent, %d skipped" % (pid, sel["detected"], sel["mutants"], sel["silent"], sel["refactors"], sel["skipped"]))

evp = os.path.join(verif, "evidence", pid + ".json")
try:
    ev = json.load(open(evp))
    ev["coverage"]["selftest"] = sel
    ev["wall_s"] = round(time.time() - t0, 2)
    json.dump(ev, open(evp, "w"), indent=1)
except Exception as e:
    print("cannot update evidence:", e)
    rc = 1
for i, (name, status, detail) in enumerate(bad):
    os.makedirs(os.path.join(verif, "evidence", "violations"), exist_ok=True)
    path = os.path.join(verif, "evidence", "violations", "%s-selftest-%02d.json" % (pid, i + 1))
    json.dump({"property": pid, "kind": "selftest", "variant": name, "status": status, "detail": detail}, open(path, "w"), indent=1)
    print("  SELFTEST %s: %s (%s)" % (status, name, detail[:200]))
    print("VIOLATION property=%s replay=%s" % (pid, path))
    rc = 1
sys.exit(rc)
