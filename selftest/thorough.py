#!/usr/bin/env python3
"""thorough tier placeholder: runs the quick analysis with tier=thorough (self-test corpus is added later)."""
import os, sys, subprocess
pid, repo = sys.argv[1], sys.argv[2]
sys.exit(subprocess.call(["./bin/alliancecheck","-repo",repo,"-verif",os.getcwd(),"-property",pid,"-tier","thorough"]))
