#!/usr/bin/env python3
"""corpus_rule.py <rule substring> <refactor|mutant> [name prefix]
Runs the analyzer (all properties) on every variant of mutants/index.json of the given kind and prints, per variant,
the violations/undecided verdicts whose rule name contains the substring and that the unchanged tree does not have.
Development aid: measures the false alarms (refactor) or the reach (mutant) of one rule over the whole corpus."""
import json, os, subprocess, sys, tempfile, shutil, re
from concurrent.futures import ThreadPoolExecutor
rule, kind = sys.argv[1], sys.argv[2]
prefix = sys.argv[3] if len(sys.argv) > 3 else ''
verif = '/verif'; repo = '/repo'; binp = os.environ.get('ALLIANCECHECK') or verif + '/bin/alliancecheck'
env = dict(os.environ, GOFLAGS='-mod=mod', GOPROXY='off', GOSUMDB='off', GOTOOLCHAIN='local'); env.pop('GOWORK', None)
idx = json.load(open(verif + '/mutants/index.json'))
def verdicts(out):
    return sorted(set(l.strip() for l in out.splitlines() if re.match(r'\s+(VIOLATION|UNDECIDED): ', l) and rule in l))
base = verdicts(subprocess.run([binp, '-repo', repo, '-verif', verif, '-property', 'all', '-no-evidence'], capture_output=True, text=True, env=env).stdout)
def run(name):
    m = idx[name]
    d = tempfile.mkdtemp(prefix='allmut.')
    try:
        subprocess.run(['rsync', '-a', '--exclude', '.git', repo + '/', d + '/'], check=True)
        if m.get('generator'):
            p = subprocess.run([binp, '-repo', d, '-verif', verif, '-dump', m['generator']], capture_output=True, text=True, env=dict(env, ALLIANCECHECK_NOINLINE='1'))
        else:
            p = subprocess.run(['patch', '-p1', '-s', '--no-backup-if-mismatch', '-i', f'{verif}/mutants/{name}.patch'], cwd=d, capture_output=True, text=True)
            if p.returncode != 0:
                return name, ['(patch does not apply)']
        r = subprocess.run([binp, '-repo', d, '-verif', verif, '-property', 'all', '-no-evidence'], capture_output=True, text=True, env=env, timeout=600)
        return name, [v for v in verdicts(r.stdout.replace(d + '/', '')) if v not in base]
    finally:
        shutil.rmtree(d, ignore_errors=True)
names = [n for n, m in sorted(idx.items()) if m['kind'] == kind and n.startswith(prefix)]
hit = 0
with ThreadPoolExecutor(max_workers=int(os.environ.get('JOBS', '8'))) as ex:
    for name, vs in ex.map(run, names):
        if vs:
            hit += 1
            print(name)
            for v in vs:
                print('   ', v[:260])
print(f'{hit} of {len(names)} {kind} variants have new {rule} verdicts')
