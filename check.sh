#!/bin/sh
# usage: check.sh <property id> <quick|thorough>
# Analyses /repo's current working tree (type-checked source -> SSA); exits 0 iff every
# obligation of the property is discharged or covered by an open entry of known_findings.json.
cd "$(dirname "$0")"
export GOFLAGS=-mod=mod GOPROXY=off GOSUMDB=off GOTOOLCHAIN=local
unset GOWORK
ID="$1"; TIER="${2:-${VERIF_TIER:-quick}}"
REPO="${VERIF_REPO:-/repo}"
if [ ! -x bin/alliancecheck ] || [ -n "$(find analyzer -name '*.go' -newer bin/alliancecheck 2>/dev/null | head -1)" ]; then
  sh ./setup.sh >/dev/null || { echo "VIOLATION property=$ID replay=/verif/setup.sh"; exit 1; }
fi
rm -f evidence/violations/"$ID"-*.json
if [ "$TIER" = thorough ]; then
  exec python3 selftest/thorough.py "$ID" "$REPO"
fi
exec ./bin/alliancecheck -repo "$REPO" -verif "$(pwd)" -property "$ID" -tier quick
