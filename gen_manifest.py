#!/usr/bin/env python3
"""Regenerates MANIFEST.json from the list of claimed properties (kept here) - run after adding rules."""
import json, sys
CLAIMED = sys.argv[1].split(',') if len(sys.argv) > 1 else []
props=[json.loads(l) for l in open('/verif/properties.jsonl')]
texts = json.load(open('/verif/manifest_texts.json')) if __import__('os').path.exists('/verif/manifest_texts.json') else {}
checks=[]
for p in props:
    pid=p['id']
    if pid in CLAIMED:
        t=texts.get(pid,{})
        checks.append({"property_id":pid,"quick_cmd":f"./check.sh {pid} quick","thorough_cmd":f"./check.sh {pid} thorough",
          "evidence_file":f"/verif/evidence/{pid}.json",
          "replay_cmd_template":"cat {path}","engine":"alliancecheck",
          "level_claimed":{"category":"other","text":t.get("level","static analysis of the type-checked source (go/types + go/ssa): structural necessary conditions of the property are decided on every path of the anchored functions; the numeric/global clauses of the property are NOT decided (listed in the evidence explanation and DESIGN.md section 4)"),"design_ref":"DESIGN.md section 4 "+pid},
          "level_note":"trusted: go/types, golang.org/x/tools v0.29.0 (go/packages, go/ssa), reviewed tables in analyzer/*.go, assumptions A1 (tx atomicity) and A2 (external keeper contracts)",
          "technique":t.get("technique","custom static analysis over go/ssa: dominance, must-follow on success paths, canonical value identity, effect summaries, who-may tables")})
na=[{"property_id":p['id'],"reason":"rules under construction (DESIGN.md section 8 build order); no check is registered yet"} for p in props if p['id'] not in CLAIMED]
m={"version":1,"setup_cmd":"sh ./setup.sh",
 "hooks":{"guard":"verif","enable":"none needed: the analysis reads source; no hook exists in /repo","baseline_off_cmd":"cd /repo && go test -mod=mod -vet=off -count=1 -timeout 25m ./...","source_commits":[],"add_only":True},
 "engines":[{"name":"alliancecheck","path":"/verif/analyzer","serves_properties":CLAIMED,"kind_free_text":"repository-specific static analyzer (go/packages + go/types + go/ssa), no execution of the module"}],
 "checks":checks,"not_applicable":na,
 "notes":"Every check analyses /repo's working tree on each run. Known defects are listed in known_findings.json and reported as KNOWN-FINDING lines."}
json.dump(m,open('/verif/MANIFEST.json','w'),indent=1)
print("claimed",len(checks),"not_applicable",len(na))
