#!/bin/sh
# Builds the analyzer from files on disk only (module cache; no network).
set -e
cd "$(dirname "$0")"
export GOFLAGS=-mod=mod GOPROXY=off GOSUMDB=off GOTOOLCHAIN=local
unset GOWORK
mkdir -p bin evidence
(cd analyzer && go build -o ../bin/alliancecheck .)
echo "built bin/alliancecheck"
