#!/bin/sh
# Builds the analyzer from files on disk only (module cache; no network), then loads /repo once so that
# the build cache holds the export data the loader asks `go list -export` for (a cold first load is ~50 s,
# a warm one ~2 s; twenty cold loads side by side would run into the analyzer's 240 s watchdog).
set -e
cd "$(dirname "$0")"
export GOFLAGS=-mod=mod GOPROXY=off GOSUMDB=off GOTOOLCHAIN=local
unset GOWORK
mkdir -p bin evidence
(cd analyzer && go build -o ../bin/alliancecheck .)
echo "built bin/alliancecheck"
./bin/alliancecheck -repo "${VERIF_REPO:-/repo}" -verif "$(pwd)" -property C19 -tier quick -no-evidence >/dev/null 2>&1 || true
echo "loader cache warm"
