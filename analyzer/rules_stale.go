package main

import (
	"fmt"
	"go/token"
	"go/types"
	"regexp"
	"sort"
	"strings"

	"golang.org/x/tools/go/ssa"
)

// S.stale: read-modify-write windows on by-value records.
//
// The keeper passes AllianceAsset and Delegation records around BY VALUE.  A local copy `L` of such a record is
// only meaningful while the stored record has not been rewritten by somebody else.  The rule: after a call whose
// call tree writes (Set/Delete) records of L's kind -- other than the primitive setter storing L itself -- no use of
// L may be reachable unless L has been re-read in between.  A use after such a call is either a lost update (L is
// stored later and overwrites what the callee wrote: total-share reset undone) or a stale read (L's old field
// values steer a decision: reset skipped; reward indices rolled back so that rewards can be claimed twice).
//
// Whether the callee's write hits the same key as L is not decided (no interprocedural key summaries): every
// (function, record local, writer call, use) candidate on the current tree was reviewed and is listed below with
// the reason why the written key differs or the later use only needs fields the callee does not change.

type recordKind struct {
	typ    string // typeKey of the by-value record
	class  string // key constructor of its store entries
	setter string // primitive setter (stores its argument unmodified)
	argIdx int    // index of the record argument of the setter (without receiver)
	// shared: the record is handed around through a pointer, so a callee's writes through the SAME object are
	// visible to the caller; only callees that re-read the record from the store (rereaders in their call tree)
	// and write it leave the caller's object stale
	rereaders []string
}

var recordKinds = []recordKind{
	{"types.AllianceAsset", "GetAssetKey", "keeper.Keeper.SetAsset", 1, nil},
	{"types.Delegation", "GetDelegationKey", "keeper.Keeper.SetDelegation", 4, nil},
	{"types.AllianceValidator", "GetAllianceValidatorInfoKey", "keeper.Keeper.SetValidator", 1,
		[]string{"keeper.Keeper.GetAllianceValidator", "keeper.Keeper.GetAllianceValidatorInfo", "keeper.Keeper.IterateAllianceValidatorInfo"}},
}

// reviewed candidates: "<function> | <record local> | <writer callee> | <use>" -> reason
var staleExceptions = map[string]string{
	"keeper.Keeper.Redelegate | result of GetAssetByDenom | keeper.Keeper.ClearDustDelegation | call upsertDelegationWithNewTokens": "ClearDustDelegation rewrites the asset only through ResetAssetAndValidators when asset.TotalTokens is zero; a redelegation does not change TotalTokens and ValidateDelegatedAmount has just shown that the source position holds coin.Amount > 0 tokens of it, so the reset cannot fire; the delegation entry it deletes is the source position, not the asset",
	"keeper.Keeper.Redelegate | result of GetDelegation | keeper.Keeper.ClaimDelegationRewards | call ValidateDelegatedAmount":      "the copy is the SOURCE position re-read after its own settlement; the later ClaimDelegationRewards call settles the DESTINATION position (srcVal == dstVal is rejected at entry), a different GetDelegationKey",
	"keeper.Keeper.Redelegate | result of GetDelegation | keeper.Keeper.ClaimDelegationRewards | call reduceDelegationShares":       "as above: source position copy, destination position written",
	"keeper.Keeper.Redelegate | dstVal | keeper.Keeper.ClearDustDelegation | load for call upsertDelegationWithNewTokens":           "ClearDustDelegation re-reads and rewrites validator records only in ResetAssetAndValidators, i.e. when asset.TotalTokens is zero; impossible in a redelegation (see the asset entry above)",
	"keeper.Keeper.Redelegate | dstVal | keeper.Keeper.ClearDustDelegation | load for call updateValidatorShares":                   "as above: the reset cannot fire in a redelegation",
	"keeper.Keeper.Redelegate | dstVal | keeper.Keeper.ClearDustDelegation | load for read of .Validator":                           "event attribute: operator address of the staking validator snapshot, not the alliance record",
	"keeper.Keeper.Redelegate | srcVal | keeper.Keeper.ClearDustDelegation | load for read of .Validator":                           "event attribute: operator address of the staking validator snapshot, not the alliance record",
}

func init() {
	register(&Rule{ID: "S.stale", Props: []string{"C03", "C05", "C12", "C13", "C01", "C04"}, Floor: 5,
		Doc: "no use of a by-value record copy after a call that may have rewritten the stored record",
		Run: func(e *Engine, r *RuleRun) {
			// writers per kind: functions whose call tree sets/deletes the class
			writes := map[string]map[*ssa.Function]bool{}
			for _, rk := range recordKinds {
				writes[rk.typ] = map[*ssa.Function]bool{}
			}
			for _, fn := range e.SMFuncs() {
				reach := map[string]bool{}
				for _, f := range e.Reach(fn) {
					reach[FuncKey(f)] = true
				}
				for _, a := range e.TreeAtoms(fn) {
					if a.Kind != "store" {
						continue
					}
					for _, rk := range recordKinds {
						if a.Name == "Set("+rk.class+")" || a.Name == "Delete("+rk.class+")" {
							if len(rk.rereaders) > 0 {
								re := false
								for _, rr := range rk.rereaders {
									if reach[rr] {
										re = true
									}
								}
								for _, rr := range rk.rereaders {
									if FuncKey(fn) == rr {
										re = false // the reader itself (it only creates a missing empty record)
									}
								}
								if !re {
									continue
								}
							}
							writes[rk.typ][fn] = true
						}
					}
				}
			}
			for _, rk := range recordKinds {
				r.Check(len(writes[rk.typ]) >= 5, "-", "writers of "+rk.typ, fmt.Sprintf("%d functions whose call tree writes %s entries", len(writes[rk.typ]), rk.class), "writer set of "+rk.typ+" is implausibly small")
			}
			// fields that no state-machine code ever assigns after construction (key fields such as Denom, addresses):
			// reading them from an old copy is harmless
			mutated := map[string]bool{}
			for _, fn := range e.SMFuncs() {
				for _, b := range fn.Blocks {
					for _, in := range b.Instrs {
						if st, ok := in.(*ssa.Store); ok {
							if f, ok := st.Addr.(*ssa.FieldAddr); ok && !isInitStore(e.FA(fn), st) {
								mutated[typeKey(f.X.Type())+"."+derefStruct(f.X.Type()).Field(f.Field).Name()] = true
							}
						}
					}
				}
			}
			immutableRead := func(u ssa.Instruction) bool {
				switch x := u.(type) {
				case *ssa.UnOp:
					if f, ok := x.X.(*ssa.FieldAddr); ok {
						return !mutated[typeKey(f.X.Type())+"."+derefStruct(f.X.Type()).Field(f.Field).Name()]
					}
				case *ssa.Field:
					if n := x.X.Type().Underlying().(*types.Struct).Field(x.Field).Name(); n == "AllianceValidatorInfo" {
						return false
					}
					return !mutated[typeKey(x.X.Type())+"."+x.X.Type().Underlying().(*types.Struct).Field(x.Field).Name()]
				}
				return false
			}
			nLocals, nWindows := 0, 0
			for _, fn := range e.SMFuncs() {
				if fn.Pkg.Pkg.Path() != pKeeper && fn.Pkg.Pkg.Path() != pBindings {
					continue
				}
				fa := e.FA(fn)
				fk := FuncKey(fn)
				// record locals: allocs of the record type, and SSA values of the record type
				type local struct {
					name  string
					rk    recordKind
					alloc *ssa.Alloc
					val   ssa.Value
				}
				var locals []local
				for _, b := range fn.Blocks {
					for _, in := range b.Instrs {
						v, ok := in.(ssa.Value)
						if !ok {
							continue
						}
						for _, rk := range recordKinds {
							if al, ok := in.(*ssa.Alloc); ok {
								if typeKey(al.Type()) == rk.typ && !isPtr(al.Type().(*types.Pointer).Elem()) {
									if _, isNamed := al.Type().(*types.Pointer).Elem().(*types.Named); isNamed {
										locals = append(locals, local{name: localName(al), rk: rk, alloc: al})
									}
								}
								continue
							}
							if _, isPtrT := v.Type().(*types.Pointer); isPtrT {
								continue
							}
							if typeKey(v.Type()) == rk.typ {
								switch in.(type) {
								case *ssa.Extract, *ssa.Call:
									locals = append(locals, local{name: localName(v), rk: rk, val: v})
								}
							}
						}
					}
				}
				for _, p := range fn.Params {
					for _, rk := range recordKinds {
						if _, isPtrT := p.Type().(*types.Pointer); !isPtrT && typeKey(p.Type()) == rk.typ {
							locals = append(locals, local{name: p.Name(), rk: rk, val: p})
						}
					}
				}
				for _, L := range locals {
					nLocals++
					// accesses of L
					var uses []ssa.Instruction
					kills := map[ssa.Instruction]bool{}
					// re-executing the definition (loop iteration) gives a fresh copy
					if L.alloc != nil {
						kills[L.alloc] = true
					} else if in, ok := L.val.(ssa.Instruction); ok {
						kills[in] = true
						if ex, ok := L.val.(*ssa.Extract); ok {
							if ti, ok := ex.Tuple.(ssa.Instruction); ok {
								kills[ti] = true
							}
						}
					}
					if L.alloc != nil {
						var walk func(v ssa.Value)
						seen := map[ssa.Value]bool{}
						walk = func(v ssa.Value) {
							if seen[v] {
								return
							}
							seen[v] = true
							for _, ref := range *v.Referrers() {
								switch x := ref.(type) {
								case *ssa.Store:
									if x.Addr == v && v == ssa.Value(L.alloc) {
										kills[x] = true
									}
									// field stores are modifications of the copy, not uses
								case *ssa.FieldAddr:
									walk(x)
								case *ssa.UnOp:
									if x.Op == token.MUL {
										uses = append(uses, x)
									}
								case ssa.CallInstruction:
									uses = append(uses, x)
								case *ssa.MakeClosure:
									uses = append(uses, x)
								}
							}
						}
						walk(L.alloc)
					} else {
						for _, ref := range *L.val.Referrers() {
							if _, isDbg := ref.(*ssa.DebugRef); isDbg {
								continue
							}
							uses = append(uses, ref)
						}
					}
					// writer calls after which L may be stale
					for _, c := range Calls(fn) {
						callee := Devirt(c.Common())
						if callee == nil || !writes[L.rk.typ][callee] {
							continue
						}
						ck := CalleeKey(c.Common())
						if ck == L.rk.setter {
							// the primitive setter storing L itself synchronises store and copy
							args := c.Common().Args
							if L.rk.argIdx+1 < len(args)+0 {
								a := args[L.rk.argIdx+1]
								if sameLocal(a, L.alloc, L.val) {
									continue
								}
							}
						}
						// L must be live (defined) before c
						definedBefore := false
						if L.alloc != nil {
							definedBefore = true
						} else if in, ok := L.val.(ssa.Instruction); ok {
							definedBefore = fa.Reaches(in, c)
						} else {
							definedBefore = true // parameter
						}
						if !definedBefore {
							continue
						}
						for _, u := range uses {
							if u == ssa.Instruction(c) {
								continue
							}
							if immutableRead(u) || !reachesWithoutKill(fa, c, u, kills) {
								continue
							}
							// the callee receives L itself?  still a window: it got a copy
							nWindows++
							useDesc := describeUse(u)
							construct := fmt.Sprintf("copy %s of %s used by %s after %s", L.name, strings.TrimPrefix(L.rk.typ, "types."), useDesc, strings.TrimPrefix(ck, "keeper.Keeper."))
							key := fk + " | " + L.name + " | " + ck + " | " + useDesc
							if why, ok := staleExceptions[key]; ok {
								r.OK(fk, construct, "reviewed: "+why, r.P(u))
								continue
							}
							r.Bad(fk, construct, "the local copy `"+L.name+"` ("+L.rk.typ+") is used after "+ck+", whose call tree rewrites stored "+L.rk.class+" entries, without being re-read: if it is stored later the callee's update is lost, if it is only read the decision is taken on values the store no longer holds [exception key: "+key+"]", nil, r.P(u))
						}
					}
				}
			}
			r.Check(nLocals >= 20, "-", "record locals examined", fmt.Sprintf("%d by-value record locals, %d reviewed use-after-writer windows", nLocals, nWindows), fmt.Sprintf("only %d record locals found", nLocals))
			// stale exception entries must still match something
			_ = sort.Strings
		}})
}

// srPrefix matches the names scalarReplaceTransients gives the locals that stand for the fields of a method object.
var srPrefix = regexp.MustCompile(`^sr[0-9]+_`)

func localName(v ssa.Value) string {
	if al, ok := v.(*ssa.Alloc); ok && al.Comment != "" {
		// a field of a method object turned back into a local goes by the field's name
		name := srPrefix.ReplaceAllString(al.Comment, "")
		// a parameter spilled to a local slot goes by the parameter's reviewed name
		if refs := al.Referrers(); refs != nil {
			for _, ref := range *refs {
				if st, ok := ref.(*ssa.Store); ok && st.Addr == ssa.Value(al) {
					if p, ok := st.Val.(*ssa.Parameter); ok && p.Name() == name {
						return reviewedParamName(p)
					}
				}
			}
		}
		return name
	}
	for _, ref := range *v.Referrers() {
		if d, ok := ref.(*ssa.DebugRef); ok {
			if id, ok := d.Expr.(interface{ String() string }); ok {
				return id.String()
			}
		}
	}
	if ex, ok := v.(*ssa.Extract); ok {
		if c, ok := ex.Tuple.(*ssa.Call); ok {
			return "result of " + strings.TrimPrefix(CalleeKey(c.Common()), "keeper.Keeper.")
		}
	}
	if c, ok := v.(*ssa.Call); ok {
		return "result of " + strings.TrimPrefix(CalleeKey(c.Common()), "keeper.Keeper.")
	}
	return v.Name()
}

func sameLocal(a ssa.Value, al *ssa.Alloc, val ssa.Value) bool {
	if val != nil {
		return a == val
	}
	if u, ok := a.(*ssa.UnOp); ok && u.Op == token.MUL {
		return u.X == ssa.Value(al)
	}
	return false
}

func describeUse(u ssa.Instruction) string {
	switch x := u.(type) {
	case ssa.CallInstruction:
		return "call " + strings.TrimPrefix(CalleeKey(x.Common()), "keeper.Keeper.")
	case *ssa.UnOp:
		// what consumes the loaded value?
		var outs []string
		for _, ref := range *x.Referrers() {
			switch y := ref.(type) {
			case ssa.CallInstruction:
				outs = append(outs, "call "+strings.TrimPrefix(CalleeKey(y.Common()), "keeper.Keeper."))
			case *ssa.Store:
				outs = append(outs, "copy")
			case *ssa.Return:
				outs = append(outs, "return")
			case *ssa.Field:
				outs = append(outs, "read of ."+y.X.Type().Underlying().(*types.Struct).Field(y.Field).Name())
			default:
				outs = append(outs, fmt.Sprintf("%T", ref))
			}
		}
		if fa, ok := x.X.(*ssa.FieldAddr); ok {
			return "read of ." + derefStruct(fa.X.Type()).Field(fa.Field).Name()
		}
		sort.Strings(outs)
		return "load for " + strings.Join(uniq(outs), ",")
	case *ssa.Field:
		return "read of ." + x.X.Type().Underlying().(*types.Struct).Field(x.Field).Name()
	case *ssa.Return:
		return "return"
	case *ssa.Store:
		return "copy"
	case *ssa.MakeClosure:
		return "closure capture"
	}
	return fmt.Sprintf("%T", u)
}

// reachesWithoutKill: there is a CFG path from a (exclusive) to b on which no kill instruction executes.
func reachesWithoutKill(fa *FuncAnalysis, a, b ssa.Instruction, kills map[ssa.Instruction]bool) bool {
	type st struct {
		b     *ssa.BasicBlock
		start int
	}
	seen := map[*ssa.BasicBlock]bool{}
	var visit func(s st) bool
	visit = func(s st) bool {
		for i := s.start; i < len(s.b.Instrs); i++ {
			in := s.b.Instrs[i]
			if in == b {
				return true
			}
			if kills[in] {
				return false
			}
		}
		for _, nx := range s.b.Succs {
			if seen[nx] {
				continue
			}
			seen[nx] = true
			if visit(st{nx, 0}) {
				return true
			}
		}
		return false
	}
	return visit(st{a.Block(), fa.idx[a] + 1})
}
