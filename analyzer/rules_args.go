package main

import (
	"fmt"
	"go/types"
	"sort"
	"strings"

	"golang.org/x/tools/go/ssa"
)

// X.args - what every effect is given.
//
// The pair rules of the catalogue compare the value handed to a hand-picked effect with the value recorded next to
// it.  This rule is the same statement for every effect of every function in scope, with the reviewed tree as the
// reference: the tuple of arguments of each effectful call (rendered from the canonical value terms, three levels
// deep, without local names, positions or call ordinals; loop-carried and joined values by the rendered set of their
// inputs) must be one of the tuples that the reviewed tree passes to the same effect in the same function
// (baselineArgs, generated with the skip table).  A wrong variable of the right type, another denomination, the
// requested instead of the returned amount, a key built from another address, a copy with other fields overridden -
// anything that changes WHAT an effect is applied to - is a new tuple.  Reordering or duplicating calls is not.

// deepTerm renders a canonical term as an S-expression, `depth` levels deep.  Anything the value model does not
// resolve (opaque memory, out-parameters, allocations, closures), anything below the depth limit, and constants of a
// named type that the reviewed tree does not have (a flag that became an enum) is the wildcard `_`; the index of an
// element access is dropped (range and index loops number their elements differently).
func deepTerm(fa *FuncAnalysis, t *Term, depth int) string {
	if t == nil {
		return "_"
	}
	if c := constName(t); (c == "0" || c == "1") && t.Op != "const" {
		return c + "dec" // math.ZeroInt() / math.LegacyZeroDec() / package-level copies of them
	}
	switch t.Op {
	case "param":
		return "$" + t.Name
	case "fv":
		// a captured variable by its type: names are the author's, and the type tells which of the enclosing function's
		// values it is in all but contrived cases
		if t.Val != nil {
			return "^" + typeKey(t.Val.Type())
		}
		return "^" + srPrefix.ReplaceAllString(t.Name, "")
	case "global":
		return t.Name
	case "const":
		if c, ok := t.Val.(*ssa.Const); ok {
			if _, basic := c.Type().(*types.Basic); !basic {
				if k := typeKey(c.Type()); strings.HasPrefix(k, "types.") || strings.HasPrefix(k, "keeper.") || strings.HasPrefix(k, "alliance.") {
					if !baselineTypes[k] {
						return "_"
					}
				}
			}
		}
		return strings.ReplaceAll(t.Name, " ", "\\s")
	case "zero":
		return "zero"
	}
	if depth <= 0 {
		return "_"
	}
	kids := func(ts []*Term, d int) string {
		var as []string
		for _, a := range ts {
			as = append(as, deepTerm(fa, a, d))
		}
		return strings.Join(as, " ")
	}
	switch t.Op {
	case "field":
		b := deepTerm(fa, t.Args[0], depth)
		if b == "_" {
			return "_"
		}
		name := t.Name
		if len(name) > 0 && name[0] >= 'a' && name[0] <= 'z' && t.Val != nil {
			name = "<dep>" // an unexported field (a dependency of a keeper, server or plugin struct): the callee names it
		}
		return "(. " + b + " " + name + ")"
	case "index":
		b := deepTerm(fa, t.Args[0], depth-1)
		if b == "_" {
			return "_"
		}
		if len(t.Args) > 1 && t.Args[1].Op == "const" {
			// a fixed position (`Entries[0]`) is not "the element the loop is at"
			return "(elem" + t.Args[1].Name + " " + b + ")"
		}
		return "(elem " + b + ")"
	case "deref":
		return deepTerm(fa, t.Args[0], depth)
	case "extract":
		b := deepTerm(fa, t.Args[0], depth)
		if b == "_" {
			return "_"
		}
		if strings.HasPrefix(b, "(valaddr ") && t.Name == "0" {
			return b
		}
		return "(# " + b + " " + t.Name + ")"
	case "call", "ncall", "builtin":
		// the operator address of an alliance validator, however it is obtained: AllianceValidator.GetValAddress is
		// ValAddressFromBech32(v.Validator.OperatorAddress) (types/validator.go), Validator.GetOperator the same field
		as := t.CallArgsT()
		switch {
		case t.Name == "types.AllianceValidator.GetValAddress" && len(as) == 1:
			return "(valaddr " + deepTerm(fa, as[0], depth-1) + ")"
		case t.Name == "sdk.ValAddressFromBech32" && len(as) == 1:
			if o := operatorOf(as[0]); o != nil {
				return "(valaddr " + deepTerm(fa, o, depth-1) + ")"
			}
		case (t.Name == "sdk.NewDecCoins" || t.Name == "sdk.NewCoins") && len(as) == 1 && as[0].Op == "const" && as[0].Name == "nil":
			return "(list)" // the empty set, as a constructor call without arguments or as an empty literal
		}
		return strings.TrimSpace("("+t.Name+" "+kids(as, depth-1)) + ")"
	case "binop":
		return "(" + t.Name + " " + kids(t.Args[:2], depth-1) + ")"
	case "unop", "conv":
		return "(" + strings.ReplaceAll(t.Name, " ", "") + " " + deepTerm(fa, t.Args[0], depth-1) + ")"
	case "list":
		return strings.TrimSpace("(list "+kids(t.Args, depth-1)) + ")"
	case "override":
		b := deepTerm(fa, t.Args[0], depth-1)
		if b == "_" {
			return "_"
		}
		if b == "nil" {
			b = "zero" // a fresh record, by value or through new(T) / &T{}
		}
		var sets []string
		for _, a := range t.Args[1:] {
			sets = append(sets, "(:= "+a.Name+" "+deepTerm(fa, a.Args[0], depth-1)+")")
		}
		sort.Strings(sets)
		return "(with " + b + " " + strings.Join(sets, " ") + ")"
	case "phi":
		if phi, ok := t.Instr.(*ssa.Phi); ok && fa != nil {
			set := map[string]bool{}
			for _, ed := range phi.Edges {
				if ed == ssa.Value(phi) {
					continue
				}
				set[deepTerm(fa, fa.Term(ed), depth-1)] = true
			}
			if set["_"] {
				return "_"
			}
			var es []string
			for s := range set {
				es = append(es, s)
			}
			sort.Strings(es)
			if len(es) == 1 {
				return es[0]
			}
			return "(phi " + strings.Join(es, " ") + ")"
		}
	}
	return "_"
}

// operatorOf: t is X.Validator.OperatorAddress or X.Validator.GetOperator() for some X; returns X.
func operatorOf(t *Term) *Term {
	strip := func(x *Term) *Term {
		for x != nil && x.Op == "deref" {
			x = x.Args[0]
		}
		return x
	}
	t = strip(t)
	if t.Op == "field" && t.Name == "OperatorAddress" {
		if v := strip(t.Args[0]); v.Op == "field" && v.Name == "Validator" {
			return v.Args[0]
		}
	}
	if (t.Op == "call" || t.Op == "ncall") && t.Name == "stakingtypes.Validator.GetOperator" {
		if as := t.CallArgsT(); len(as) == 1 {
			if v := strip(as[0]); v.Op == "field" && v.Name == "Validator" {
				return v.Args[0]
			}
		}
	}
	return nil
}

// sigUnchanged: fn still has the parameter types of the reviewed tree (receiver included).
// configDefaults: constructors of default parameters and of the default genesis state - their values are deployment
// choices (another default delay or interval is a configuration change, not a change of what an effect is applied to).
var configDefaults = map[string]bool{"types.NewParams": true, "types.DefaultParams": true, "types.DefaultGenesisState": true, "alliance.DefaultGenesisState": true}

func sigUnchanged(fn *ssa.Function) bool {
	if configDefaults[FuncKey(fn)] {
		return false
	}
	base, ok := baselineParams[FuncKey(fn)]
	if !ok {
		return len(fn.Params) == 0
	}
	if len(base) != len(fn.Params) {
		return false
	}
	for i, p := range fn.Params {
		if base[i][1] != typeKey(p.Type())+ptrMark(p.Type()) {
			return false
		}
	}
	return true
}

// sx is a parsed S-expression.
type sx struct {
	atom string
	kids []*sx
}

func parseSx(s string) *sx {
	pos := 0
	var parse func() *sx
	parse = func() *sx {
		for pos < len(s) && s[pos] == ' ' {
			pos++
		}
		if pos >= len(s) {
			return &sx{atom: ""}
		}
		if s[pos] == '(' {
			pos++
			n := &sx{}
			for {
				for pos < len(s) && s[pos] == ' ' {
					pos++
				}
				if pos >= len(s) {
					return n
				}
				if s[pos] == ')' {
					pos++
					return n
				}
				n.kids = append(n.kids, parse())
			}
		}
		st := pos
		inq := false
		for pos < len(s) {
			c := s[pos]
			if c == '"' && (pos == st || s[pos-1] != '\\') {
				inq = !inq
			}
			if !inq && (c == ' ' || c == ')' || c == '(') {
				break
			}
			pos++
		}
		return &sx{atom: s[st:pos]}
	}
	return parse()
}

func (n *sx) String() string {
	if len(n.kids) == 0 && n.atom != "" {
		return n.atom
	}
	var parts []string
	for _, k := range n.kids {
		parts = append(parts, k.String())
	}
	return "(" + strings.Join(parts, " ") + ")"
}

// phiAlternatives flattens a joined value `(phi a (phi b c))` into a, b, c.
func phiAlternatives(n *sx) []*sx {
	if len(n.kids) > 0 && n.kids[0].atom == "phi" && len(n.kids[0].kids) == 0 {
		var out []*sx
		for _, k := range n.kids[1:] {
			out = append(out, phiAlternatives(k)...)
		}
		return out
	}
	return []*sx{n}
}

// sxMatch: equal up to the wildcard `_` on either side.
func sxMatch(a, b *sx) bool {
	if (a.atom == "_" && len(a.kids) == 0) || (b.atom == "_" && len(b.kids) == 0) {
		return true
	}
	if a.atom != b.atom || len(a.kids) != len(b.kids) {
		return false
	}
	for i := range a.kids {
		if !sxMatch(a.kids[i], b.kids[i]) {
			return false
		}
	}
	return true
}

func (e *Engine) argTable() map[string]map[string][]string {
	tab := map[string]map[string][]string{}
	for _, fn := range e.SMFuncs() {
		if len(fn.Blocks) == 0 || e.isGenerated(fn.Pos()) {
			continue
		}
		sites := e.effectAndValueSites(fn)
		delete(sites, "value:builtin.append")
		if len(sites) == 0 || !sigUnchanged(topFunc(fn)) {
			continue
		}
		fa := e.FA(fn)
		row := map[string][]string{}
		for k, ins := range sites {
			set := map[string]bool{}
			for _, in := range ins {
				c, ok := in.(ssa.CallInstruction)
				if !ok {
					continue
				}
				if callee := Devirt(c.Common()); callee != nil && callee.Pkg != nil && smPkgs[callee.Pkg.Pkg.Path()] && !sigUnchanged(callee) {
					continue // a reviewed function with other parameters: judged by the rules anchored at it
				}
				var as []string
				for _, a := range CallArgs(c.Common()) {
					if strings.HasPrefix(k, "value:") {
						// operands of a value step: which FIELD of which parameter (or of whatever record) is added or
						// subtracted - computed operands are `_` (their own steps are compared where they are made)
						as = append(as, operandPath(fa.Term(a)))
					} else {
						as = append(as, deepTerm(fa, fa.Term(a), 3))
					}
				}
				if rv := CallRecv(c.Common()); rv != nil && strings.HasPrefix(k, "value:") {
					as = append([]string{operandPath(fa.Term(rv))}, as...)
				}
				set["("+strings.Join(as, " ")+")"] = true
			}
			var list []string
			for s := range set {
				list = append(list, s)
			}
			sort.Strings(list)
			row[k] = list
		}
		tab[FuncKey(fn)] = row
	}
	return tab
}

func dumpArgs(e *Engine) {
	tab := e.argTable()
	fmt.Println()
	fmt.Println("// For every state-machine function and every effect it calls: the argument tuples it passes (rules_args.go, X.args).")
	fmt.Println("var baselineArgs = map[string]map[string][]string{")
	var fks []string
	for k := range tab {
		fks = append(fks, k)
	}
	sort.Strings(fks)
	for _, fk := range fks {
		var eks []string
		for k := range tab[fk] {
			eks = append(eks, k)
		}
		sort.Strings(eks)
		fmt.Printf("\t%q: {\n", fk)
		for _, ek := range eks {
			var qs []string
			for _, s := range tab[fk][ek] {
				qs = append(qs, fmt.Sprintf("%q", s))
			}
			fmt.Printf("\t\t%q: {%s},\n", ek, strings.Join(qs, ", "))
		}
		fmt.Println("\t},")
	}
	fmt.Println("}")
}

func init() {
	var props []string
	for p := range skipPropGroups {
		props = append(props, p)
	}
	sort.Strings(props)
	for _, prop := range props {
		prop := prop
		register(&Rule{ID: "X.args." + prop, Props: []string{prop}, Floor: 5,
			Doc: "every effect of every function in the property's call trees is given the values the reviewed tree gives it",
			Run: func(e *Engine, r *RuleRun) {
				r.rule = &Rule{ID: "X.args", Props: []string{prop}, Floor: 5}
				inScope := e.scopeOf(prop)
				tab := e.argTable()
				var fks []string
				for k := range tab {
					if inScope[k] {
						fks = append(fks, k)
					}
				}
				sort.Strings(fks)
				for _, fk := range fks {
					base, reviewed := baselineArgs[fk]
					if !reviewed {
						continue
					}
					fn := e.Fn(fk)
					var eks []string
					for k := range tab[fk] {
						eks = append(eks, k)
					}
					sort.Strings(eks)
					for _, ek := range eks {
						allowed, known := base[ek]
						if !known {
							continue
						}
						var extra []string
						for _, s := range tab[fk][ek] {
							ps, hit := parseSx(s), false
							for _, a := range allowed {
								if sxMatch(ps, parseSx(a)) {
									hit = true
									break
								}
							}
							if !hit {
								extra = append(extra, s)
							}
						}
						construct := "arguments of " + ek
						if len(extra) == 0 {
							r.OK(fk, construct, fmt.Sprintf("one of the %d reviewed argument tuples", len(allowed)), e.Pos(fn.Pos()))
						} else {
							r.BadAt(fk, construct, "this effect is applied to other values than in the reviewed tree: "+strings.Join(extra, " ; ")+" - reviewed: "+strings.Join(allowed, " ; "), nil, extra, e.Pos(fn.Pos()))
						}
					}
				}
			}})
	}
}

// X.fields - what every field of a state record is set to.
//
// The last general clause: for every store into a field of a record type of x/alliance/types (an asset total, a
// delegation's shares, the balance of a queue entry, a validator's share lists, ...) in a function of the property's call
// trees, the value stored - rendered like the arguments of X.args - must match one of the values the reviewed tree stores
// into the same field in the same function.  X.args sees such a value only when the record is handed to an effect as a
// whole; entries of a decoded bucket and records shared through pointers are changed in place and written back through
// a marshaller that the value model does not look into.

func (e *Engine) fieldTable() map[string]map[string][]string {
	tab := map[string]map[string][]string{}
	for _, fn := range e.SMFuncs() {
		if len(fn.Blocks) == 0 || e.isGenerated(fn.Pos()) || !sigUnchanged(topFunc(fn)) {
			continue
		}
		fa := e.FA(fn)
		row := map[string]map[string]bool{}
		for _, a := range e.DirectAtoms(fn) {
			if a.Kind != "fieldwrite" || strings.HasSuffix(strings.SplitN(a.Name, ".", 2)[0], "Event") {
				continue // events are not state
			}
			st, ok := a.Instr.(*ssa.Store)
			if !ok {
				continue
			}
			if row[a.Name] == nil {
				row[a.Name] = map[string]bool{}
			}
			// a value chosen on several paths is the set of its alternatives (one store of a joined value and one
			// store per branch are the same thing); storing a field's own current value back is no change
			self := ""
			if fad, ok := st.Addr.(*ssa.FieldAddr); ok {
				if stt := derefStruct(fad.X.Type()); stt != nil {
					self = deepTerm(fa, &Term{Op: "field", Name: stt.Field(fad.Field).Name(), Args: []*Term{fa.Term(fad.X)}}, 3)
				}
			}
			for _, alt := range phiAlternatives(parseSx(deepTerm(fa, fa.Term(st.Val), 4))) {
				if as := alt.String(); as != self || self == "_" {
					row[a.Name][as] = true
				}
			}
		}
		if len(row) == 0 {
			continue
		}
		out := map[string][]string{}
		for k, set := range row {
			// an accumulation starts from nothing: `var xs []T` (nil) and an empty literal are the same start
			hasAppend := false
			for s := range set {
				if strings.HasPrefix(s, "(builtin.append ") {
					hasAppend = true
				}
			}
			var list []string
			for s := range set {
				if hasAppend && (s == "nil" || s == "(list)") {
					continue
				}
				list = append(list, s)
			}
			sort.Strings(list)
			out[k] = list
		}
		tab[FuncKey(fn)] = out
	}
	return tab
}

func dumpFields(e *Engine) {
	tab := e.fieldTable()
	fmt.Println()
	fmt.Println("// For every state-machine function and every record field it stores into: the values stored (rules_args.go, X.fields).")
	fmt.Println("var baselineFields = map[string]map[string][]string{")
	var fks []string
	for k := range tab {
		fks = append(fks, k)
	}
	sort.Strings(fks)
	for _, fk := range fks {
		var eks []string
		for k := range tab[fk] {
			eks = append(eks, k)
		}
		sort.Strings(eks)
		fmt.Printf("\t%q: {\n", fk)
		for _, ek := range eks {
			var qs []string
			for _, s := range tab[fk][ek] {
				qs = append(qs, fmt.Sprintf("%q", s))
			}
			fmt.Printf("\t\t%q: {%s},\n", ek, strings.Join(qs, ", "))
		}
		fmt.Println("\t},")
	}
	fmt.Println("}")
}

func init() {
	var props []string
	for p := range skipPropGroups {
		props = append(props, p)
	}
	sort.Strings(props)
	for _, prop := range props {
		prop := prop
		register(&Rule{ID: "X.fields." + prop, Props: []string{prop}, Floor: 2,
			Doc: "every field of a state record is set to one of the values the reviewed tree sets it to in the same function",
			Run: func(e *Engine, r *RuleRun) {
				r.rule = &Rule{ID: "X.fields", Props: []string{prop}, Floor: 2}
				inScope := e.scopeOf(prop)
				tab := e.fieldTable()
				var fks []string
				for k := range tab {
					if inScope[k] {
						fks = append(fks, k)
					}
				}
				sort.Strings(fks)
				for _, fk := range fks {
					base, reviewed := baselineFields[fk]
					if !reviewed {
						continue
					}
					fn := e.Fn(fk)
					var eks []string
					for k := range tab[fk] {
						eks = append(eks, k)
					}
					sort.Strings(eks)
					for _, ek := range eks {
						allowed, known := base[ek]
						if !known {
							continue
						}
						var extra []string
						for _, s := range tab[fk][ek] {
							ps, hit := parseSx(s), false
							for _, a := range allowed {
								if sxMatch(ps, parseSx(a)) {
									hit = true
									break
								}
							}
							if !hit {
								extra = append(extra, s)
							}
						}
						construct := "values stored into " + ek
						if len(extra) == 0 {
							r.OK(fk, construct, fmt.Sprintf("one of the %d reviewed values", len(allowed)), e.Pos(fn.Pos()))
						} else {
							r.BadAt(fk, construct, "this field is set to another value than in the reviewed tree: "+strings.Join(extra, " ; ")+" - reviewed: "+strings.Join(allowed, " ; "), nil, extra, e.Pos(fn.Pos()))
						}
					}
				}
			}})
	}
}

// operandPath renders an operand of a value step by its access path only: parameters, constants and the field names
// on the way; any computed part is `_`.  `validator.ValidatorShares` of a validator that was looked up is `(. _ ValidatorShares)`.
func operandPath(t *Term) string {
	if t == nil {
		return "_"
	}
	if c := constName(t); (c == "0" || c == "1") && t.Op != "const" {
		return c + "dec"
	}
	switch t.Op {
	case "param":
		return "$" + t.Name
	case "const", "global":
		return strings.ReplaceAll(t.Name, " ", "\\s")
	case "field":
		return "(. " + operandPath(t.Args[0]) + " " + t.Name + ")"
	case "deref":
		return operandPath(t.Args[0])
	case "index":
		return "(elem " + operandPath(t.Args[0]) + ")"
	case "list":
		var as []string
		for _, a := range t.Args {
			as = append(as, operandPath(a))
		}
		return strings.TrimSpace("(list "+strings.Join(as, " ")) + ")"
	case "call", "ncall":
		// constructors that only wrap their operands
		switch t.Name {
		case "sdk.NewDecCoins", "sdk.NewCoins", "sdk.NewDecCoinFromDec", "sdk.NewCoin", "sdk.DecCoins", "sdk.Coins":
			var as []string
			for _, a := range t.CallArgsT() {
				as = append(as, operandPath(a))
			}
			return "(" + t.Name + " " + strings.Join(as, " ") + ")"
		}
	case "conv":
		return operandPath(t.Args[0])
	}
	return "_"
}
