package main

import (
	"fmt"
	"go/token"
	"go/types"
	"sort"
	"strings"

	"golang.org/x/tools/go/ssa"
)

// C19.nomemstate: the state machine keeps no state in process memory.  Every value that influences a state
// transition must come from the store (branch-aware) or from the message; a write to memory that outlives the call
// -- a package-level variable, or an object reachable through a pointer held by a long-lived service value (the
// keepers, msg/query servers, hooks, app modules) -- makes the result depend on what the process executed before
// (discarded branches, simulations, restarts), which is not part of the state.
//
// The rule classifies the root of every store / map update in the state-machine packages:
//   local    fresh allocation or by-value copy           -> fine
//   global   package-level variable of a module package  -> violation (outside init / registration helpers)
//   service  reached through >= 1 pointer from a parameter or receiver of a service type -> violation
// Service types are read from the code: named struct types of the module that (transitively) hold the alliance
// Keeper, and the Keeper types themselves.

var memStateExceptions = map[string]string{
	"bankkeeper.Keeper.RegisterKeepers | service": "wiring-time setter called once from app.go before the first block; it stores the two keepers the bank wrapper needs (circular construction order)",
}

func (e *Engine) serviceTypes() map[string]bool {
	svc := map[string]bool{"keeper.Keeper": true, "bankkeeper.Keeper": true}
	changed := true
	for changed {
		changed = false
		for p := range smPkgs {
			pkg := e.ByPath[p]
			if pkg == nil {
				continue
			}
			sc := pkg.Types.Scope()
			for _, name := range sc.Names() {
				tn, ok := sc.Lookup(name).(*types.TypeName)
				if !ok {
					continue
				}
				st, ok := tn.Type().Underlying().(*types.Struct)
				if !ok {
					continue
				}
				k := typeKey(tn.Type())
				if svc[k] || e.transientType(tn) {
					continue
				}
				for i := 0; i < st.NumFields(); i++ {
					if svc[typeKey(st.Field(i).Type())] {
						svc[k] = true
						changed = true
						break
					}
				}
			}
		}
	}
	return svc
}

// mentionsType: t is, points to, or is built from (slice, array, map, chan, struct field, function result) the named type n.
func mentionsType(t types.Type, n *types.TypeName, depth int) bool {
	if depth > 6 {
		return false
	}
	switch u := t.(type) {
	case *types.Named:
		if u.Obj() == n {
			return true
		}
		for i := 0; u.TypeArgs() != nil && i < u.TypeArgs().Len(); i++ {
			if mentionsType(u.TypeArgs().At(i), n, depth+1) {
				return true
			}
		}
		return false
	case *types.Pointer:
		return mentionsType(u.Elem(), n, depth+1)
	case *types.Slice:
		return mentionsType(u.Elem(), n, depth+1)
	case *types.Array:
		return mentionsType(u.Elem(), n, depth+1)
	case *types.Chan:
		return mentionsType(u.Elem(), n, depth+1)
	case *types.Map:
		return mentionsType(u.Key(), n, depth+1) || mentionsType(u.Elem(), n, depth+1)
	case *types.Struct:
		for i := 0; i < u.NumFields(); i++ {
			if mentionsType(u.Field(i).Type(), n, depth+1) {
				return true
			}
		}
	case *types.Signature:
		for i := 0; i < u.Params().Len(); i++ {
			if mentionsType(u.Params().At(i).Type(), n, depth+1) {
				return true
			}
		}
		for i := 0; i < u.Results().Len(); i++ {
			if mentionsType(u.Results().At(i).Type(), n, depth+1) {
				return true
			}
		}
	}
	return false
}

// transientType: a struct type that the reviewed tree does not have, that is unexported, and whose values provably live
// no longer than the call that builds them: no package-level variable, no field of another (non-transient) named type
// and no function-typed declaration mentions it, no value of it is converted to an interface, stored through a pointer
// that is not a local cell, sent on a channel, captured by a `go` / `defer`red closure or returned by an exported
// function. Such a type is the "method object" of a refactoring (the locals of one long function turned into the fields
// of a struct that lives for one call); holding a Keeper does not make it a long-lived service value.
func (e *Engine) transientType(tn *types.TypeName) bool {
	if e.transient == nil {
		e.transient = map[*types.TypeName]bool{}
	}
	if v, ok := e.transient[tn]; ok {
		return v
	}
	e.transient[tn] = false
	res := e.computeTransient(tn)
	e.transient[tn] = res
	return res
}

func (e *Engine) computeTransient(tn *types.TypeName) bool {
	if tn.Exported() || tn.Pkg() == nil || !smPkgs[tn.Pkg().Path()] {
		return false
	}
	if baselineTypes[alias(tn.Pkg().Path())+"."+tn.Name()] {
		return false
	}
	if _, ok := tn.Type().Underlying().(*types.Struct); !ok {
		return false
	}
	// declarations
	for p := range smPkgs {
		pkg := e.ByPath[p]
		if pkg == nil {
			continue
		}
		sc := pkg.Types.Scope()
		for _, name := range sc.Names() {
			switch o := sc.Lookup(name).(type) {
			case *types.Var:
				if mentionsType(o.Type(), tn, 0) {
					return false
				}
			case *types.TypeName:
				if o == tn {
					continue
				}
				if mentionsType(o.Type().Underlying(), tn, 0) && !e.transientType(o) {
					return false
				}
			case *types.Func:
				if o.Exported() {
					sig := o.Type().(*types.Signature)
					if mentionsType(sig, tn, 0) {
						return false
					}
				}
			}
		}
	}
	is := func(t types.Type) bool { return mentionsType(t, tn, 0) }
	for _, fn := range e.SMFuncs() {
		// exported methods of other types returning it
		if fn.Object() != nil && fn.Object().Exported() && is(fn.Signature) {
			if recv := fn.Signature.Recv(); recv == nil || typeKey(recv.Type()) != typeKey(tn.Type()) {
				return false
			}
		}
		for _, b := range fn.Blocks {
			for _, in := range b.Instrs {
				switch x := in.(type) {
				case *ssa.MakeInterface:
					if is(x.X.Type()) {
						return false
					}
				case *ssa.Send:
					if is(x.X.Type()) {
						return false
					}
				case *ssa.Go:
					return false
				case *ssa.Store:
					if !is(x.Val.Type()) {
						continue
					}
					// storing a value of the type: only into local cells (possibly fields of local cells of transient types)
					a := x.Addr
					for {
						if fa, ok := a.(*ssa.FieldAddr); ok {
							a = fa.X
							continue
						}
						if ia, ok := a.(*ssa.IndexAddr); ok {
							a = ia.X
							continue
						}
						break
					}
					if _, ok := a.(*ssa.Alloc); !ok {
						return false
					}
				case *ssa.MapUpdate:
					if is(x.Value.Type()) || is(x.Key.Type()) {
						return false
					}
				}
			}
		}
	}
	return true
}

type memRoot struct {
	kind   string // local | global | service | param | unknown
	desc   string
	derefs int
}

func isPtr(t types.Type) bool {
	_, ok := t.Underlying().(*types.Pointer)
	return ok
}

func (e *Engine) memRoots(fn *ssa.Function, v ssa.Value, derefs int, depth int, svc map[string]bool, seen map[ssa.Value]bool) []memRoot {
	if depth > 12 || seen[v] {
		return nil
	}
	seen[v] = true
	rec := func(x ssa.Value, d int) []memRoot { return e.memRoots(fn, x, d, depth+1, svc, seen) }
	switch x := v.(type) {
	case *ssa.FieldAddr:
		d := derefs
		if _, isAlloc := x.X.(*ssa.Alloc); !isAlloc {
			d++ // address computed through a pointer value
		}
		return rec(x.X, d)
	case *ssa.IndexAddr:
		d := derefs
		if _, isAlloc := x.X.(*ssa.Alloc); !isAlloc {
			d++
		}
		return rec(x.X, d)
	case *ssa.Field:
		return rec(x.X, derefs)
	case *ssa.Index:
		return rec(x.X, derefs)
	case *ssa.Lookup:
		return rec(x.X, derefs+1)
	case *ssa.Slice:
		return rec(x.X, derefs)
	case *ssa.ChangeType:
		return rec(x.X, derefs)
	case *ssa.Convert:
		return rec(x.X, derefs)
	case *ssa.MakeInterface:
		return rec(x.X, derefs)
	case *ssa.ChangeInterface:
		return rec(x.X, derefs)
	case *ssa.TypeAssert:
		return rec(x.X, derefs)
	case *ssa.Phi:
		var out []memRoot
		for _, ed := range x.Edges {
			out = append(out, rec(ed, derefs)...)
		}
		return out
	case *ssa.UnOp:
		if x.Op != token.MUL {
			return []memRoot{{kind: "local"}}
		}
		// a load: where does the loaded pointer come from?
		base := x.X
		for {
			if fa, ok := base.(*ssa.FieldAddr); ok {
				base = fa.X
				continue
			}
			if ia, ok := base.(*ssa.IndexAddr); ok {
				base = ia.X
				continue
			}
			break
		}
		if al, ok := base.(*ssa.Alloc); ok {
			// values stored into the local (whole-variable stores): the spilled parameter, a copied struct, ...
			var out []memRoot
			for _, ref := range *al.Referrers() {
				if st, ok := ref.(*ssa.Store); ok && st.Addr == ssa.Value(al) {
					out = append(out, rec(st.Val, derefs)...)
				}
			}
			if len(out) == 0 {
				return []memRoot{{kind: "local"}}
			}
			return out
		}
		return rec(x.X, derefs)
	case *ssa.Alloc:
		return []memRoot{{kind: "local"}}
	case *ssa.Global:
		if x.Pkg != nil && (smPkgs[x.Pkg.Pkg.Path()]) {
			return []memRoot{{kind: "global", desc: x.Pkg.Pkg.Name() + "." + x.Name(), derefs: derefs}}
		}
		return []memRoot{{kind: "unknown", desc: "foreign global " + x.Name()}}
	case *ssa.Parameter:
		tk := typeKey(x.Type())
		if svc[tk] {
			return []memRoot{{kind: "service", desc: x.Name() + " " + tk, derefs: derefs}}
		}
		return []memRoot{{kind: "param", desc: x.Name() + " " + tk, derefs: derefs}}
	case *ssa.FreeVar:
		// resolve through the enclosing function's closure binding
		par := fn.Parent()
		if par == nil {
			return []memRoot{{kind: "unknown", desc: "free variable"}}
		}
		idx := -1
		for i, fv := range fn.FreeVars {
			if fv == x {
				idx = i
			}
		}
		var out []memRoot
		for _, b := range par.Blocks {
			for _, in := range b.Instrs {
				if mc, ok := in.(*ssa.MakeClosure); ok && mc.Fn == ssa.Value(fn) && idx >= 0 && idx < len(mc.Bindings) {
					out = append(out, e.memRoots(par, mc.Bindings[idx], derefs, depth+1, svc, map[ssa.Value]bool{})...)
				}
			}
		}
		if len(out) == 0 {
			return []memRoot{{kind: "unknown", desc: "free variable"}}
		}
		return out
	case *ssa.Call, *ssa.Extract, *ssa.MakeMap, *ssa.MakeSlice, *ssa.Const, *ssa.MakeClosure, *ssa.BinOp:
		return []memRoot{{kind: "local"}}
	}
	return []memRoot{{kind: "unknown", desc: fmt.Sprintf("%T", v)}}
}

func init() {
	register(&Rule{ID: "C19.nomemstate", Props: []string{"C19"}, Floor: 3,
		Doc: "no state in process memory: no write to package-level variables or to memory reachable from the long-lived service values",
		Run: func(e *Engine, r *RuleRun) {
			svc := e.serviceTypes()
			var names []string
			for k := range svc {
				names = append(names, k)
			}
			sort.Strings(names)
			r.Check(len(names) >= 6, "-", "service types (read from the struct declarations)", strings.Join(names, ", "), fmt.Sprintf("only %d service types found: %s", len(names), strings.Join(names, ", ")))
			nStores, nFuncs := 0, 0
			type key struct{ fk, c string }
			reported := map[key]bool{}
			for _, fn := range e.SMFuncs() {
				fk := FuncKey(fn)
				top := topFunc(fn)
				if top.Name() == "init" || strings.HasPrefix(top.Name(), "init#") {
					continue
				}
				nFuncs++
				check := func(in ssa.Instruction, addr ssa.Value, what string) {
					nStores++
					if _, ok := addr.(*ssa.Alloc); ok {
						return
					}
					// the address is either computed from a variable (field / element of it) or is itself a pointer VALUE that
					// was loaded or extracted from somewhere (`*k.flag = true` with k.flag a *bool): writing through such a
					// value is one dereference
					d0 := 0
					switch addr.(type) {
					case *ssa.FieldAddr, *ssa.IndexAddr, *ssa.Global:
					default:
						d0 = 1
					}
					for _, rt := range e.memRoots(fn, addr, d0, 0, svc, map[ssa.Value]bool{}) {
						bad := false
						switch rt.kind {
						case "global":
							bad = true
						case "service":
							bad = rt.derefs >= 1
						}
						if !bad {
							continue
						}
						construct := what + " to " + rt.kind + " memory: " + rt.desc
						k := key{fk, construct}
						if reported[k] {
							continue
						}
						reported[k] = true
						if why, ok := memStateExceptions[FuncKey(top)+" | "+rt.kind]; ok {
							r.OK(fk, construct, "reviewed exception: "+why, r.P(in))
							continue
						}
						// constructors build the service value
						if strings.HasPrefix(top.Name(), "New") && top.Signature.Recv() == nil {
							r.OK(fk, construct, "constructor", r.P(in))
							continue
						}
						r.Bad(fk, construct, "state-machine code writes to memory that outlives the call ("+rt.desc+"): a later transition can read a value that is not part of the state (it survives discarded branches, differs after a restart, and differs between nodes that executed different simulations), so the same block on the same state no longer gives the same result", nil, r.P(in))
					}
				}
				for _, b := range fn.Blocks {
					for _, in := range b.Instrs {
						switch x := in.(type) {
						case *ssa.Store:
							check(in, x.Addr, "store")
						case *ssa.MapUpdate:
							check(in, x.Map, "map update")
						case ssa.CallInstruction:
							// methods of sync / atomic types: shared mutable memory by construction
							if cal := Devirt(x.Common()); cal != nil && cal.Pkg != nil {
								p := cal.Pkg.Pkg.Path()
								if p == "sync" || p == "sync/atomic" {
									r.Bad(fk, "call of "+p+"."+cal.Name(), "synchronisation primitive in state-machine code: shared mutable process memory", nil, r.P(in))
								}
							}
						}
					}
				}
			}
			r.Check(nStores >= 300 && nFuncs >= 200, "-", "stores classified", fmt.Sprintf("%d stores / map updates in %d state-machine functions classified; none reaches a package-level variable or service-held memory", nStores, nFuncs), fmt.Sprintf("only %d stores in %d functions seen", nStores, nFuncs))
			// struct declarations: a service type must not hold maps, slices, channels, sync values or pointers to
			// module-declared mutable structs other than other service types
			for _, k := range names {
				pkgAlias, name, _ := strings.Cut(k, ".")
				var tn *types.TypeName
				for p := range smPkgs {
					if alias(p) == pkgAlias && e.ByPath[p] != nil {
						if o, ok := e.ByPath[p].Types.Scope().Lookup(name).(*types.TypeName); ok {
							tn = o
						}
					}
				}
				if tn == nil {
					continue
				}
				st := tn.Type().Underlying().(*types.Struct)
				for i := 0; i < st.NumFields(); i++ {
					f := st.Field(i)
					ft := f.Type()
					bad := ""
					switch u := ft.Underlying().(type) {
					case *types.Map:
						bad = "a map"
					case *types.Chan:
						bad = "a channel"
					case *types.Pointer:
						if n, ok := u.Elem().(*types.Named); ok && n.Obj().Pkg() != nil && smPkgs[n.Obj().Pkg().Path()] && !svc[typeKey(n)] {
							if _, isStruct := n.Underlying().(*types.Struct); isStruct {
								bad = "a pointer to the module's own mutable struct " + typeKey(n)
							}
						}
						// a pointer to a plain value (*bool, *int, *string, *[]T): a mutable cell shared by every copy of the
						// service value
						switch u.Elem().Underlying().(type) {
						case *types.Basic, *types.Slice, *types.Map, *types.Array:
							bad = "a pointer to a plain value (" + types.TypeString(ft, func(p *types.Package) string { return p.Name() }) + ")"
						}
					}
					if n, ok := ft.(*types.Named); ok && n.Obj().Pkg() != nil && (n.Obj().Pkg().Path() == "sync" || n.Obj().Pkg().Path() == "sync/atomic") {
						bad = "a " + n.Obj().Pkg().Path() + " value"
					}
					construct := "field " + f.Name() + " of service type"
					if bad != "" {
						r.Bad(k, construct, "the long-lived "+k+" holds "+bad+" ("+f.Name()+"): process memory shared by every call and every state branch", nil, e.Pos(f.Pos()))
					} else {
						r.OK(k, construct, "interface / value / service-typed field: "+types.TypeString(ft, func(p *types.Package) string { return p.Name() }), e.Pos(f.Pos()))
					}
				}
			}
		}})
}
