package main

import (
	"fmt"
	"go/ast"
	"go/token"
	"go/types"
	"sort"
	"strings"

	"golang.org/x/tools/go/packages"
)

// etaExpandMethodValues rewrites, in the source overlay, a method value `x.m` of a NEW unexported method that is
// passed around as a callback into the closure `func(a..) R { return x.m(a..) }`, so that the helper inliner can put
// the method's body back where a reviewed closure used to be.  x must be a local variable that is not assigned
// again (a method value binds the receiver when it is evaluated, a closure reads it when it is called).
func etaExpandMethodValues(pkgs []*packages.Package, src func(string) []byte) (map[string][]byte, []string) {
	type edit struct {
		a, e int
		text string
	}
	out := map[string][]byte{}
	var notes []string
	for _, p := range pkgs {
		if !smPkgs[p.PkgPath] || p.TypesInfo == nil {
			continue
		}
		info := p.TypesInfo
		// new unexported methods
		isNew := map[types.Object]bool{}
		for i, f := range p.Syntax {
			if i >= len(p.CompiledGoFiles) {
				continue
			}
			for _, d := range f.Decls {
				fd, ok := d.(*ast.FuncDecl)
				if !ok || fd.Recv == nil || fd.Body == nil || ast.IsExported(fd.Name.Name) {
					continue
				}
				key := declKey(p.PkgPath, fd)
				if baselineFuncs[key] || funcRenames[key] != "" {
					continue
				}
				if o := info.Defs[fd.Name]; o != nil {
					isNew[o] = true
				}
			}
		}
		if len(isNew) == 0 {
			continue
		}
		for i, f := range p.Syntax {
			if i >= len(p.CompiledGoFiles) {
				continue
			}
			fname := p.CompiledGoFiles[i]
			text := src(fname)
			if text == nil {
				continue
			}
			imports := map[string]string{}
			for _, im := range f.Imports {
				path := strings.Trim(im.Path.Value, "\"")
				name := ""
				if im.Name != nil {
					name = im.Name.Name
				} else if ip := p.Imports[path]; ip != nil {
					name = ip.Name
				}
				if name != "" && name != "_" && name != "." {
					imports[path] = name
				}
			}
			qualFail := false
			qual := func(pk *types.Package) string {
				if pk == p.Types {
					return ""
				}
				if n, ok := imports[pk.Path()]; ok {
					return n
				}
				qualFail = true
				return pk.Name()
			}
			var edits []edit
			for _, d := range f.Decls {
				fd, ok := d.(*ast.FuncDecl)
				if !ok || fd.Body == nil {
					continue
				}
				called := map[*ast.SelectorExpr]bool{}
				ast.Inspect(fd.Body, func(nd ast.Node) bool {
					if c, ok := nd.(*ast.CallExpr); ok {
						if se, ok := ast.Unparen(c.Fun).(*ast.SelectorExpr); ok {
							called[se] = true
						}
					}
					return true
				})
				ast.Inspect(fd.Body, func(nd ast.Node) bool {
					se, ok := nd.(*ast.SelectorExpr)
					if !ok || called[se] {
						return true
					}
					sel := info.Selections[se]
					if sel == nil || sel.Kind() != types.MethodVal || !isNew[sel.Obj()] {
						return true
					}
					x, ok := se.X.(*ast.Ident)
					if !ok {
						return true
					}
					xo, _ := info.Uses[x].(*types.Var)
					if xo == nil || xo.Parent() == p.Types.Scope() {
						return true
					}
					// x is assigned once (its definition) and its address is not taken
					stable := true
					ast.Inspect(fd.Body, func(b ast.Node) bool {
						switch y := b.(type) {
						case *ast.AssignStmt:
							for _, l := range y.Lhs {
								root := l
								for {
									switch r := root.(type) {
									case *ast.SelectorExpr:
										root = r.X
										continue
									case *ast.IndexExpr:
										root = r.X
										continue
									case *ast.ParenExpr:
										root = r.X
										continue
									}
									break
								}
								if id, ok := root.(*ast.Ident); ok && info.Uses[id] == types.Object(xo) {
									stable = false
								}
							}
						case *ast.UnaryExpr:
							if id, ok := ast.Unparen(y.X).(*ast.Ident); ok && y.Op == token.AND && info.Uses[id] == types.Object(xo) {
								stable = false
							}
						case *ast.IncDecStmt:
							if id, ok := y.X.(*ast.Ident); ok && info.Uses[id] == types.Object(xo) {
								stable = false
							}
						}
						return true
					})
					if !stable {
						return true
					}
					sig, ok := sel.Type().(*types.Signature)
					if !ok || sig.Variadic() {
						return true
					}
					var ps, as []string
					for j := 0; j < sig.Params().Len(); j++ {
						n := fmt.Sprintf("eta%d", j)
						ps = append(ps, n+" "+types.TypeString(sig.Params().At(j).Type(), qual))
						as = append(as, n)
					}
					res := ""
					if sig.Results().Len() == 1 {
						res = " " + types.TypeString(sig.Results().At(0).Type(), qual)
					} else if sig.Results().Len() > 1 {
						var rs []string
						for j := 0; j < sig.Results().Len(); j++ {
							rs = append(rs, types.TypeString(sig.Results().At(j).Type(), qual))
						}
						res = " (" + strings.Join(rs, ", ") + ")"
					}
					call := x.Name + "." + se.Sel.Name + "(" + strings.Join(as, ", ") + ")"
					body := call
					if sig.Results().Len() > 0 {
						body = "return " + call
					}
					edits = append(edits, edit{p.Fset.Position(se.Pos()).Offset, p.Fset.Position(se.End()).Offset,
						"func(" + strings.Join(ps, ", ") + ")" + res + " {\n" + body + "\n}"})
					return true
				})
			}
			if len(edits) == 0 || qualFail {
				continue
			}
			sort.Slice(edits, func(i, j int) bool { return edits[i].a > edits[j].a })
			nb := append([]byte{}, text...)
			for _, e := range edits {
				nb = append(append(append([]byte{}, nb[:e.a]...), []byte(e.text)...), nb[e.e:]...)
			}
			out[fname] = nb
			notes = append(notes, fmt.Sprintf("%d method values of new methods turned into closures in %s", len(edits), fname[strings.LastIndex(fname, "/")+1:]))
		}
	}
	return out, notes
}
