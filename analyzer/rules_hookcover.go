package main

import (
	"fmt"
	"sort"
	"strings"

	"golang.org/x/tools/go/ssa"
)

// C10.hookcover: every x/staking call site of a primitive that changes a validator's power is covered by a
// staking hook whose alliance implementation schedules a rebalance (Q-hook), before the primitive on every path
// to it or after it on every success path.  x/staking/keeper is read from the module cache on every run.

var stakingPowerPrimitives = []string{
	"stakingkeeper.Keeper.AddValidatorTokensAndShares",    // validator.Tokens up
	"stakingkeeper.Keeper.RemoveValidatorTokensAndShares", // validator.Tokens down
	"stakingkeeper.Keeper.RemoveValidatorTokens",          // slash burn
}

// functions that change a validator's bond status / existence themselves: they must call a Q-hook on every success path
var stakingStatusChangers = []string{
	"stakingkeeper.Keeper.bondValidator",
	"stakingkeeper.Keeper.BeginUnbondingValidator",
	"stakingkeeper.Keeper.RemoveValidator",
}

// reviewed infeasible-path exceptions
var hookCoverExceptions = map[string]string{
	"stakingkeeper.Keeper.Slash | stakingkeeper.Keeper.RemoveValidatorTokens": "BeforeValidatorSlashed is under `if validator.Tokens.IsPositive()`... the hook is called when effectiveFraction is positive and RemoveValidatorTokens(tokensToBurn) is reached with tokensToBurn = min(remaining, validator.Tokens); the path that skips the hook has Tokens == 0, hence tokensToBurn == 0 and no power change",
}

func (e *Engine) qHooks() map[string]bool {
	q := map[string]bool{}
	for _, fn := range e.SMFuncs() {
		k := FuncKey(fn)
		if !strings.HasPrefix(k, "keeper.Hooks.") || fn.Parent() != nil || len(fn.Blocks) == 0 {
			continue
		}
		qs := queueCalls(fn)
		if len(qs) > 0 && e.FA(fn).EntryMustPass(qs) == nil {
			q[strings.TrimPrefix(k, "keeper.Hooks.")] = true
		}
	}
	return q
}

// qSites: call sites in staking function fn that guarantee a Q-hook: direct hook invocations or calls of staking
// functions all of whose success paths invoke one (depth-limited).
func (e *Engine) qSites(fn *ssa.Function, q map[string]bool, depth int, memo map[*ssa.Function]bool) []ssa.Instruction {
	var out []ssa.Instruction
	for _, c := range Calls(fn) {
		k := CalleeKey(c.Common())
		if strings.HasPrefix(k, "stakingtypes.StakingHooks.") && q[strings.TrimPrefix(k, "stakingtypes.StakingHooks.")] {
			out = append(out, c)
			continue
		}
		callee := Devirt(c.Common())
		if callee == nil || callee.Blocks == nil || callee.Pkg == nil || callee.Pkg.Pkg.Path() != pStakingKeep || depth >= 3 || callee == fn {
			continue
		}
		ok, seen := memo[callee]
		if !seen {
			memo[callee] = false
			inner := e.qSites(callee, q, depth+1, memo)
			ok = len(inner) > 0 && e.FA(callee).EntryMustPass(inner) == nil
			memo[callee] = ok
		}
		if ok {
			out = append(out, c)
		}
	}
	return out
}

func init() {
	register(&Rule{ID: "C10.hookcover", Props: []string{"C10"}, Floor: 6,
		Doc: "every x/staking call site of a power-changing primitive is covered by a staking hook whose alliance implementation schedules a rebalance",
		Run: func(e *Engine, r *RuleRun) {
			q := e.qHooks()
			var qs []string
			for h := range q {
				qs = append(qs, h)
			}
			sort.Strings(qs)
			r.Check(len(qs) >= 5, "keeper.Hooks", "Q-hooks (read from hooks.go)", "hooks that always schedule a rebalance: "+strings.Join(qs, ", "), fmt.Sprintf("only %d alliance hooks always schedule a rebalance: %s", len(qs), strings.Join(qs, ", ")))
			memo := map[*ssa.Function]bool{}
			nSites := 0
			for _, fn := range e.SrcFuncs {
				if fn.Pkg.Pkg.Path() != pStakingKeep || fn.Parent() != nil {
					continue
				}
				fa := e.FA(fn)
				for _, c := range CallsTo(fn, stakingPowerPrimitives...) {
					nSites++
					fk := FuncKey(fn)
					prim := CalleeKey(c.Common())
					construct := "staking call site of " + strings.TrimPrefix(prim, "stakingkeeper.Keeper.")
					sites := e.qSites(fn, q, 0, memo)
					before := fa.MustPassThrough(nil, c, sites) == nil && len(sites) > 0
					after := len(sites) > 0 && fa.MustFollow(c, sites) == nil
					if before || after {
						how := "before it on every path"
						if !before {
							how = "after it on every success path"
						}
						var names []string
						for _, s := range sites {
							names = append(names, strings.TrimPrefix(strings.TrimPrefix(CalleeKey(s.(ssa.CallInstruction).Common()), "stakingtypes.StakingHooks."), "stakingkeeper.Keeper."))
						}
						r.OK(fk, construct, "covered "+how+" by "+strings.Join(uniq(names), ", "), r.P(c))
					} else if why, ok := hookCoverExceptions[fk+" | "+prim]; ok {
						r.OK(fk, construct, "reviewed infeasible path: "+why, r.P(c))
					} else {
						r.Bad(fk, construct, "x/staking changes a validator's tokens here on a path on which no staking hook is invoked whose alliance implementation schedules a rebalance ("+strings.Join(qs, ", ")+"): alliance voting power stays stale after this native staking operation", nil, r.P(c))
					}
				}
			}
			r.Check(nSites >= 3, "stakingkeeper", "primitive call sites found", fmt.Sprintf("%d call sites of power-changing primitives in x/staking/keeper", nSites), fmt.Sprintf("only %d call sites found: x/staking/keeper was not loaded as expected", nSites))
			for _, k := range stakingStatusChangers {
				fn := e.Fn(k)
				if fn == nil {
					r.Undecided(k, "anchor", "staking function not found in the loaded x/staking/keeper")
					continue
				}
				sites := e.qSites(fn, q, 0, memo)
				// from the first state change of the function (a store delete of the validator record), else from entry
				from := fn.Blocks[0].Instrs[0]
				if dels := CallsTo(fn, "corestore.KVStore.Delete", "storetypes.KVStore.Delete"); len(dels) > 0 {
					from = dels[0]
				}
				ok := len(sites) > 0 && e.FA(fn).MustFollow(from, sites) == nil
				r.Check(ok, k, "status change invokes a Q-hook on every success path", "covered", "a validator's bond status / existence changes here without any hook whose alliance implementation schedules a rebalance", e.Pos(fn.Pos()))
			}
		}})
}
