package main

import (
	"fmt"
	"go/ast"
	"go/format"
	"go/token"
	"go/types"
	"sort"
	"strings"
)

// Method objects back to locals.
//
// "Replace method with method object" turns the locals of a long function into the fields of a struct that lives
// for one call (`d := &takeRateDeduction{k: k, ctx: ctx}; d.loadIntervals(); d.deductFromAssets(assets); ..`).  Once
// the methods are inlined, the function is the one it was, except that what used to be locals are fields of a
// struct behind a pointer: SSA keeps them in memory, and every rule that follows a value (the accumulator that is
// sent, the counter that is tested) loses it.  The overlay turns such a struct back into one local per field.
//
// A variable takes part when its type is T or *T for a struct type T that the reviewed tree does not have and whose
// values provably do not outlive the call (Engine.transientType), it is defined exactly once, by
//
//	&T{..} | new(T) | another such pointer variable | &v           (pointers: all of them name ONE object)
//	T{..}  | nothing (zero value) | another such value variable | *p   (values: a copy, an object of its own)
//
// and every other mention of it is a field selection `x.f` (or a call of a method promoted from an embedded field, or
// `_ = x`).  One mention of another kind (the value handed to a function, returned, compared, a method of T itself
// that was not inlined) leaves the object, and the objects copied from it, as written.

type srObject struct {
	id     int
	tn     *types.TypeName
	st     *types.Struct
	bad    string
	defPos token.Pos
}

func scalarReplaceTransients(e *Engine, src func(string) []byte) (map[string][]byte, []string) {
	overlay := map[string][]byte{}
	var notes []string
	seq := 0
	for _, p := range e.Pkgs {
		if !smPkgs[p.PkgPath] || p.TypesInfo == nil {
			continue
		}
		info := p.TypesInfo
		transient := func(t types.Type) (*types.TypeName, *types.Struct, bool) {
			ptr := false
			if pt, ok := t.(*types.Pointer); ok {
				t, ptr = pt.Elem(), true
			}
			n, ok := t.(*types.Named)
			if !ok || n.TypeArgs() != nil && n.TypeArgs().Len() > 0 {
				return nil, nil, false
			}
			st, ok := n.Underlying().(*types.Struct)
			if !ok || !e.transientType(n.Obj()) {
				return nil, nil, false
			}
			return n.Obj(), st, ptr
		}
		for i, f := range p.Syntax {
			if i >= len(p.CompiledGoFiles) {
				continue
			}
			fname := p.CompiledGoFiles[i]
			if strings.HasSuffix(fname, ".pb.go") || strings.HasSuffix(fname, ".pb.gw.go") {
				continue
			}
			text := src(fname)
			if text == nil {
				continue
			}
			off := func(pos token.Pos) int { return p.Fset.Position(pos).Offset }
			imports := map[string]string{}
			for _, im := range f.Imports {
				path := strings.Trim(im.Path.Value, "\"")
				name := ""
				if im.Name != nil {
					name = im.Name.Name
				} else if ip := p.Imports[path]; ip != nil {
					name = ip.Name
				}
				if name != "" && name != "_" && name != "." {
					imports[path] = name
				}
			}
			type edit struct {
				a, b int
				text string
			}
			var edits []edit
			for _, d := range f.Decls {
				fd, ok := d.(*ast.FuncDecl)
				if !ok || fd.Body == nil {
					continue
				}
				// candidate variables and their single definitions
				type vdef struct {
					obj   types.Object
					ptr   bool
					tn    *types.TypeName
					st    *types.Struct
					stmt  ast.Stmt // statement that defines it (replaced)
					init  ast.Expr // nil: zero value
					ndefs int
				}
				vars := map[types.Object]*vdef{}
				var order []*vdef
				note := func(id *ast.Ident, init ast.Expr, st ast.Stmt) {
					o := info.Defs[id]
					if o == nil {
						return
					}
					tn, stt, ptr := transient(o.Type())
					if tn == nil {
						return
					}
					if v := vars[o]; v != nil {
						v.ndefs++
						return
					}
					v := &vdef{obj: o, ptr: ptr, tn: tn, st: stt, stmt: st, init: init, ndefs: 1}
					vars[o] = v
					order = append(order, v)
				}
				var visitList func(list []ast.Stmt)
				visitList = func(list []ast.Stmt) {
					for _, st := range list {
						switch x := st.(type) {
						case *ast.AssignStmt:
							if x.Tok == token.DEFINE && len(x.Lhs) == 1 && len(x.Rhs) == 1 {
								if id, ok := x.Lhs[0].(*ast.Ident); ok {
									note(id, x.Rhs[0], st)
								}
							}
						case *ast.DeclStmt:
							if gd, ok := x.Decl.(*ast.GenDecl); ok && gd.Tok == token.VAR && len(gd.Specs) == 1 {
								if vs, ok := gd.Specs[0].(*ast.ValueSpec); ok && len(vs.Names) == 1 {
									if len(vs.Values) == 1 {
										note(vs.Names[0], vs.Values[0], st)
									} else if len(vs.Values) == 0 {
										note(vs.Names[0], nil, st)
									}
								}
							}
						}
					}
				}
				ast.Inspect(fd.Body, func(n ast.Node) bool {
					switch x := n.(type) {
					case *ast.BlockStmt:
						visitList(x.List)
					case *ast.CaseClause:
						visitList(x.Body)
					case *ast.CommClause:
						visitList(x.Body)
					}
					return true
				})
				if len(vars) == 0 {
					continue
				}
				// any other definition of a transient-typed variable (parameters, multi-assign, range) is not a candidate and
				// its mentions count as whole-value uses of whatever they copy: handled below since they are not in vars
				// objects
				objOf := map[types.Object]*srObject{}
				var objs []*srObject
				newObj := func(v *vdef) *srObject {
					seq++
					o := &srObject{id: seq, tn: v.tn, st: v.st, defPos: v.stmt.Pos()}
					objs = append(objs, o)
					return o
				}
				copyFrom := map[*srObject]*srObject{} // value object initialised from another object
				resolveIdent := func(e ast.Expr) types.Object {
					if id, ok := ast.Unparen(e).(*ast.Ident); ok {
						return info.Uses[id]
					}
					return nil
				}
				changed := true
				for rounds := 0; changed && rounds < 10; rounds++ {
					changed = false
					for _, v := range order {
						if objOf[v.obj] != nil || v.ndefs != 1 {
							continue
						}
						init := v.init
						if init != nil {
							init = ast.Unparen(init)
						}
						switch {
						case v.ptr:
							switch x := init.(type) {
							case *ast.UnaryExpr:
								if x.Op != token.AND {
									break
								}
								if cl, ok := ast.Unparen(x.X).(*ast.CompositeLit); ok {
									if tv := info.TypeOf(cl); tv != nil && types.Identical(tv, v.obj.Type().(*types.Pointer).Elem()) {
										objOf[v.obj] = newObj(v)
										changed = true
									}
								} else if so := resolveIdent(x.X); so != nil && vars[so] != nil && !vars[so].ptr && objOf[so] != nil {
									objOf[v.obj] = objOf[so]
									changed = true
								}
							case *ast.CallExpr:
								if id, ok := x.Fun.(*ast.Ident); ok && id.Name == "new" && info.Uses[id] == types.Universe.Lookup("new") {
									objOf[v.obj] = newObj(v)
									changed = true
								}
							case *ast.Ident:
								if so := info.Uses[x]; so != nil && vars[so] != nil && vars[so].ptr && objOf[so] != nil {
									objOf[v.obj] = objOf[so]
									changed = true
								}
							}
						default:
							switch x := init.(type) {
							case nil:
								objOf[v.obj] = newObj(v)
								changed = true
							case *ast.CompositeLit:
								objOf[v.obj] = newObj(v)
								changed = true
							case *ast.Ident:
								if so := info.Uses[x]; so != nil && vars[so] != nil && !vars[so].ptr && objOf[so] != nil {
									o := newObj(v)
									copyFrom[o] = objOf[so]
									objOf[v.obj] = o
									changed = true
								}
							case *ast.StarExpr:
								if so := resolveIdent(x.X); so != nil && vars[so] != nil && vars[so].ptr && objOf[so] != nil {
									o := newObj(v)
									copyFrom[o] = objOf[so]
									objOf[v.obj] = o
									changed = true
								}
							}
						}
					}
				}
				if len(objs) == 0 {
					continue
				}
				// mentions
				okIdent := map[*ast.Ident]bool{} // definition sites and accepted mentions
				dropStmt := map[ast.Stmt]bool{}  // `_ = x`
				type selUse struct {
					sel   *ast.SelectorExpr
					obj   *srObject
					deref bool
				}
				var sels []selUse
				markBad := func(o types.Object, why string) {
					if so := objOf[o]; so != nil && so.bad == "" {
						so.bad = why
					}
				}
				// accepted: x.f / (*x).f with f a field path starting at a direct field of T
				ast.Inspect(fd.Body, func(n ast.Node) bool {
					switch x := n.(type) {
					case *ast.SelectorExpr:
						base := ast.Unparen(x.X)
						deref := false
						if se, ok := base.(*ast.StarExpr); ok {
							base, deref = ast.Unparen(se.X), true
						}
						id, ok := base.(*ast.Ident)
						if !ok {
							return true
						}
						o := info.Uses[id]
						so := objOf[o]
						if so == nil {
							return true
						}
						sel := info.Selections[x]
						if sel == nil {
							return true
						}
						switch sel.Kind() {
						case types.FieldVal:
							okIdent[id] = true
							sels = append(sels, selUse{x, so, deref})
						case types.MethodVal:
							if len(sel.Index()) > 1 {
								okIdent[id] = true
								sels = append(sels, selUse{x, so, deref})
							}
						}
					case *ast.AssignStmt:
						if x.Tok == token.ASSIGN && len(x.Lhs) == 1 && len(x.Rhs) == 1 {
							if l, ok := x.Lhs[0].(*ast.Ident); ok && l.Name == "_" {
								if id, ok := ast.Unparen(x.Rhs[0]).(*ast.Ident); ok && objOf[info.Uses[id]] != nil {
									okIdent[id] = true
									dropStmt[x] = true
								}
							}
						}
					}
					return true
				})
				// initialisers that mention family variables (alias / copy definitions)
				for _, v := range order {
					if objOf[v.obj] == nil || v.init == nil {
						continue
					}
					ast.Inspect(v.init, func(n ast.Node) bool {
						if id, ok := n.(*ast.Ident); ok && objOf[info.Uses[id]] != nil {
							switch x := ast.Unparen(v.init).(type) {
							case *ast.Ident:
								if x == id {
									okIdent[id] = true
								}
							case *ast.StarExpr:
								if ast.Unparen(x.X) == ast.Expr(id) {
									okIdent[id] = true
								}
							case *ast.UnaryExpr:
								if x.Op == token.AND && ast.Unparen(x.X) == ast.Expr(id) {
									okIdent[id] = true
								}
							}
						}
						return true
					})
				}
				ast.Inspect(fd.Body, func(n ast.Node) bool {
					if id, ok := n.(*ast.Ident); ok {
						if o := info.Uses[id]; o != nil && objOf[o] != nil && !okIdent[id] {
							markBad(o, fmt.Sprintf("%s is used as a whole (%s)", id.Name, p.Fset.Position(id.Pos())))
						}
					}
					return true
				})
				// variables that were candidates by type but got no object (reassigned, unsupported initialiser): what they
				// are initialised from is used as a whole
				for _, v := range order {
					if objOf[v.obj] != nil {
						continue
					}
					if v.init != nil {
						ast.Inspect(v.init, func(n ast.Node) bool {
							if id, ok := n.(*ast.Ident); ok {
								if o := info.Uses[id]; o != nil && objOf[o] != nil {
									markBad(o, "copied into a variable that is not replaced")
								}
							}
							return true
						})
					}
				}
				// a copy of an object that stays as written cannot be initialised
				for ch := true; ch; {
					ch = false
					for o, from := range copyFrom {
						if from.bad != "" && o.bad == "" {
							o.bad = "copied from an object that is left as written"
							ch = true
						}
					}
				}
				// ... and an object that is left as written must keep its copies' initialisers valid: a copy `var y T = x`
				// with y replaced and x kept reads x's fields, which still exist: fine.
				good := 0
				for _, o := range objs {
					if o.bad == "" {
						good++
					} else {
						notes = append(notes, fmt.Sprintf("%s in %s: fields not turned into locals (%s)", o.tn.Name(), fd.Name.Name, o.bad))
					}
				}
				if good == 0 {
					continue
				}
				qualFail := ""
				qual := func(pk *types.Package) string {
					if pk == p.Types {
						return ""
					}
					if nme, ok := imports[pk.Path()]; ok {
						return nme
					}
					qualFail = pk.Path()
					return pk.Name()
				}
				fieldVar := func(o *srObject, fi int) string {
					return fmt.Sprintf("sr%d_%s", o.id, o.st.Field(fi).Name())
				}
				var fnEdits []edit
				var selEdits []edit
				for _, su := range sels {
					if su.obj.bad != "" {
						continue
					}
					sel := info.Selections[su.sel]
					first := sel.Index()[0]
					if len(sel.Index()) == 1 {
						selEdits = append(selEdits, edit{off(su.sel.Pos()), off(su.sel.End()), fieldVar(su.obj, first)})
					} else {
						selEdits = append(selEdits, edit{off(su.sel.X.Pos()), off(su.sel.X.End()), fieldVar(su.obj, first)})
					}
				}
				sort.SliceStable(selEdits, func(i, j int) bool { return selEdits[i].a > selEdits[j].a })
				// sub: source text of [a, e) with the field selections inside it rewritten
				sub := func(a, e int) string {
					t := append([]byte{}, text[a:e]...)
					for _, se := range selEdits { // descending
						if se.a >= a && se.b <= e {
							t = append(append(append([]byte{}, t[:se.a-a]...), []byte(se.text)...), t[se.b-a:]...)
						}
					}
					return string(t)
				}
				var replaced [][2]int
				// definitions
				for _, v := range order {
					o := objOf[v.obj]
					if o == nil || o.bad != "" {
						continue
					}
					var sb strings.Builder
					isOwner := o.defPos == v.stmt.Pos()
					if isOwner {
						done := map[int]bool{}
						emit := func(fi int, val string) {
							name := fieldVar(o, fi)
							ft := types.TypeString(o.st.Field(fi).Type(), qual)
							if val == "" {
								fmt.Fprintf(&sb, "var %s %s\n_ = %s\n", name, ft, name)
							} else {
								fmt.Fprintf(&sb, "var %s %s = %s\n_ = %s\n", name, ft, val, name)
							}
							done[fi] = true
						}
						var lit *ast.CompositeLit
						if v.init != nil {
							switch x := ast.Unparen(v.init).(type) {
							case *ast.CompositeLit:
								lit = x
							case *ast.UnaryExpr:
								lit, _ = ast.Unparen(x.X).(*ast.CompositeLit)
							}
						}
						litOK := true
						if lit != nil {
							for xi, el := range lit.Elts {
								fi := xi
								val := el
								if kv, ok := el.(*ast.KeyValueExpr); ok {
									kid, ok := kv.Key.(*ast.Ident)
									if !ok {
										litOK = false
										break
									}
									fi = -1
									for k := 0; k < o.st.NumFields(); k++ {
										if o.st.Field(k).Name() == kid.Name {
											fi = k
										}
									}
									val = kv.Value
								}
								if fi < 0 || fi >= o.st.NumFields() {
									litOK = false
									break
								}
								emit(fi, sub(off(val.Pos()), off(val.End())))
							}
						}
						if !litOK {
							o.bad = "literal not understood"
							continue
						}
						if from := copyFrom[o]; from != nil {
							for fi := 0; fi < o.st.NumFields(); fi++ {
								if from.bad == "" {
									emit(fi, fieldVar(from, fi))
								}
							}
						}
						for fi := 0; fi < o.st.NumFields(); fi++ {
							if !done[fi] {
								emit(fi, "")
							}
						}
					}
					fnEdits = append(fnEdits, edit{off(v.stmt.Pos()), off(v.stmt.End()), sb.String()})
					replaced = append(replaced, [2]int{off(v.stmt.Pos()), off(v.stmt.End())})
				}
				for st := range dropStmt {
					as := st.(*ast.AssignStmt)
					id := ast.Unparen(as.Rhs[0]).(*ast.Ident)
					if o := objOf[info.Uses[id]]; o != nil && o.bad == "" {
						fnEdits = append(fnEdits, edit{off(st.Pos()), off(st.End()), ""})
					}
				}
				for _, se := range selEdits {
					inside := false
					for _, r := range replaced {
						if se.a >= r[0] && se.b <= r[1] {
							inside = true
						}
					}
					if !inside {
						fnEdits = append(fnEdits, se)
					}
				}
				if qualFail != "" {
					notes = append(notes, fmt.Sprintf("%s: a field type of package %s cannot be named in this file", fd.Name.Name, qualFail))
					continue
				}
				// objects that turned bad while emitting: drop the function's edits altogether
				stillOK := true
				for _, o := range objs {
					if o.bad == "literal not understood" {
						stillOK = false
					}
				}
				if !stillOK {
					continue
				}
				edits = append(edits, fnEdits...)
				for _, o := range objs {
					if o.bad == "" {
						notes = append(notes, fmt.Sprintf("%s in %s: fields turned into locals sr%d_*", o.tn.Name(), fd.Name.Name, o.id))
					}
				}
			}
			if len(edits) == 0 {
				continue
			}
			sort.SliceStable(edits, func(i, j int) bool { return edits[i].a > edits[j].a })
			okF := true
			for i := 1; i < len(edits); i++ {
				if edits[i].b > edits[i-1].a {
					okF = false
				}
			}
			if !okF {
				notes = append(notes, "overlapping scalar replacements in "+fname+": file left as written")
				continue
			}
			for _, ed := range edits {
				text = append(append(append([]byte{}, text[:ed.a]...), []byte(ed.text)...), text[ed.b:]...)
			}
			if out, err := format.Source(text); err == nil {
				text = out
			}
			overlay[fname] = text
		}
	}
	sort.Strings(notes)
	return overlay, notes
}
