package main

import (
	"fmt"
	"sort"
	"strings"

	"golang.org/x/tools/go/ssa"
)

var readOnlyStaking = map[string]bool{"GetValidator": true, "UnbondingTime": true, "BondDenom": true, "TotalBondedTokens": true,
	"GetDelegation": true, "ValidateUnbondAmount": true, "IterateDelegatorDelegations": true, "GetDelegatorBonded": true, "GetAllValidators": true}

func isEffect(a Atom) bool {
	switch a.Kind {
	case "store", "bank", "distr":
		return true
	case "staking":
		return !readOnlyStaking[a.Name]
	}
	return false
}

// effectInstrs returns the instructions of fn (and its closures) that have an effect directly or through
// the call tree of a static in-scope callee.
func (e *Engine) effectInstrs(fn *ssa.Function) []Atom {
	var out []Atom
	for _, f := range WithClosures(fn) {
		for _, a := range e.DirectAtoms(f) {
			if isEffect(a) {
				out = append(out, a)
			}
		}
		for _, c := range Calls(f) {
			callee := Devirt(c.Common())
			if callee == nil || callee.Blocks == nil || callee.Pkg == nil || !smPkgs[callee.Pkg.Pkg.Path()] || e.isGenerated(callee.Pos()) {
				continue
			}
			for _, a := range e.TreeAtoms(callee) {
				if isEffect(a) {
					out = append(out, Atom{Kind: "via", Name: FuncKey(callee) + " -> " + a.String(), Fn: f, Instr: c})
					break
				}
			}
		}
	}
	return out
}

// authGuard: instruction in is dominated by "GetAuthority() == msg.Authority".
func authGuarded(fa *FuncAnalysis, in ssa.Instruction) bool {
	return fa.HasGuard(in, func(g Guard) bool {
		if g.Cond.Op != "binop" || (g.Cond.Name != "!=" && g.Cond.Name != "==") {
			return false
		}
		if (g.Cond.Name == "!=") == g.Pos {
			return false
		}
		a, b := g.Cond.Args[0], g.Cond.Args[1]
		isAuth := func(t *Term) bool { return t.IsCall("keeper.Keeper.GetAuthority") }
		isMsg := func(t *Term) bool {
			return t.Op == "field" && t.Name == "Authority" && t.Args[0].Op == "deref" && t.Args[0].Args[0].Op == "param"
		}
		return (isAuth(a) && isMsg(b)) || (isAuth(b) && isMsg(a))
	})
}

// fieldConstraint: facts required at the persist call for the value stored into an asset field.
type reqFact struct{ op, b string }

func init() {
	handlers := []string{"keeper.MsgServer.CreateAlliance", "keeper.MsgServer.UpdateAlliance", "keeper.MsgServer.DeleteAlliance", "keeper.MsgServer.UpdateParams"}

	register(&Rule{ID: "C16.auth", Props: []string{"C16"}, Floor: 6,
		Doc: "in every governance handler each effect is dominated by the authority comparison",
		Run: func(e *Engine, r *RuleRun) {
			for _, h := range handlers {
				fn := r.Need(h)
				if fn == nil {
					continue
				}
				fa := e.FA(fn)
				effs := e.effectInstrs(fn)
				if len(effs) == 0 {
					r.Bad(h, "effects", "handler has no effect at all (cannot be the governance handler)", nil, e.Pos(fn.Pos()))
				}
				for _, a := range effs {
					if a.Fn != fn {
						r.Undecided(h, "effect in closure: "+a.Name, "effects inside closures of a governance handler are not supported by the rule", r.P(a.Instr))
						continue
					}
					name := a.Name
					if a.Kind != "via" {
						name = a.String()
					}
					if i := strings.Index(name, " -> "); i >= 0 {
						name = name[:i]
					}
					r.Check(authGuarded(fa, a.Instr), h, "effect "+name, "dominated by the authority comparison", "a state change is reachable before/without the authority check (GetAuthority() == msg.Authority does not dominate it)", r.P(a.Instr))
				}
			}
			if g := r.Need("keeper.Keeper.GetAuthority"); g != nil {
				fa := e.FA(g)
				ok := true
				for _, ret := range Returns(g) {
					t := fa.Term(ret.Results[0])
					if !(t.Op == "field" && t.Name == "authorityAddr" && t.Args[0].Op == "param") {
						ok = false
					}
				}
				r.Check(ok, FuncKey(g), "returns the configured authority", "returns the receiver's authorityAddr field", "GetAuthority does not return the keeper's configured authority field", e.Pos(g.Pos()))
			}
			// authorityAddr is written only by NewKeeper
			n := 0
			for _, fn := range e.SMFuncs() {
				for _, b := range fn.Blocks {
					for _, in := range b.Instrs {
						if st, ok := in.(*ssa.Store); ok {
							if f, ok := st.Addr.(*ssa.FieldAddr); ok && typeKey(f.X.Type()) == "keeper.Keeper" {
								if s := derefStruct(f.X.Type()); s != nil && s.Field(f.Field).Name() == "authorityAddr" {
									n++
									r.Check(FuncKey(fn) == "keeper.NewKeeper", FuncKey(fn), "write Keeper.authorityAddr", "set once at construction", "the configured authority is overwritten outside NewKeeper", r.P(in))
								}
							}
						}
					}
				}
			}
			r.Check(n == 1, "keeper.NewKeeper", "authority set at construction", "one write", fmt.Sprintf("%d writes of Keeper.authorityAddr", n))
		}})

	register(&Rule{ID: "C16.legacy", Props: []string{"C16"}, Floor: 6,
		Doc: "legacy proposal path only forwards to the message handlers",
		Run: func(e *Engine, r *RuleRun) {
			pairs := map[string]string{"keeper.Keeper.CreateAlliance": "keeper.MsgServer.CreateAlliance", "keeper.Keeper.UpdateAlliance": "keeper.MsgServer.UpdateAlliance", "keeper.Keeper.DeleteAlliance": "keeper.MsgServer.DeleteAlliance"}
			var keys []string
			for k := range pairs {
				keys = append(keys, k)
			}
			sort.Strings(keys)
			for _, k := range keys {
				fn := r.Need(k)
				if fn == nil {
					continue
				}
				okOnly := true
				n := 0
				for _, a := range e.effectInstrs(fn) {
					if a.Kind == "via" && strings.HasPrefix(a.Name, pairs[k]+" -> ") {
						n++
						continue
					}
					okOnly = false
					r.Bad(k, "effect outside the handler", "legacy proposal entry point has an effect that does not go through "+pairs[k]+": "+a.Name, nil, r.P(a.Instr))
				}
				if okOnly {
					r.Check(n == 1, k, "forwards to "+pairs[k], "only effect is the call of the message handler", fmt.Sprintf("%d calls of the handler", n))
				}
				for _, c := range e.CallersOf(k) {
					ck := FuncKey(c.Fn)
					r.Check(ck == "alliance.NewAllianceProposalHandler$1", ck, "caller of "+k, "gov proposal handler", "legacy entry point "+k+" is called from "+ck, r.P(c.Instr))
				}
			}
		}})

	register(&Rule{ID: "C16.validate", Props: []string{"C16", "C17", "C09"}, Floor: 16,
		Doc: "values persisted into asset parameters satisfy the validity constraints at the persist point",
		Run: func(e *Engine, r *RuleRun) {
			type site struct{ fn, callee string }
			for _, s := range []site{{"keeper.MsgServer.CreateAlliance", "keeper.Keeper.SetAsset"}, {"keeper.MsgServer.UpdateAlliance", "keeper.Keeper.UpdateAllianceAsset"}} {
				fn := r.Need(s.fn)
				if fn == nil {
					continue
				}
				fa := e.FA(fn)
				c := r.One(fn, "persisting call", s.callee)
				if c == nil {
					continue
				}
				asset := argT(fa, c, 1)
				val := func(path string) *Term {
					_, v := ovrGet(asset, path)
					if v == nil {
						// nested: .RewardWeightRange := X  => X.Min
						if strings.HasPrefix(path, ".RewardWeightRange.") {
							if _, rv := ovrGet(asset, ".RewardWeightRange"); rv != nil {
								return mkField(rv, strings.TrimPrefix(path, ".RewardWeightRange."))
							}
						}
					}
					return v
				}
				need := func(field string, v *Term, desc string, alts ...[]reqFact) {
					if v == nil {
						r.Bad(s.fn, field, "the persisted asset does not take "+field+" from the request (cannot locate the stored value)", nil, r.P(c))
						return
					}
					for _, alt := range alts {
						all := true
						for _, q := range alt {
							b := q.b
							if !fa.HasFact(c, constName(v), q.op, b) && !(q.op == "notnil" && hasUnary(fa, c, v, "notnil")) {
								all = false
							}
						}
						if all {
							r.OK(s.fn, field+": "+desc, "dominating rejections establish it for the stored value "+v.String(), r.P(c))
							return
						}
					}
					r.Bad(s.fn, field+": "+desc, "the value stored into "+field+" ("+v.String()+") is not constrained by a dominating rejection of invalid values before it is persisted", nil, r.P(c))
				}
				tr, rw, cr, ci := val(".TakeRate"), val(".RewardWeight"), val(".RewardChangeRate"), val(".RewardChangeInterval")
				mn, mx := val(".RewardWeightRange.Min"), val(".RewardWeightRange.Max")
				need("TakeRate", tr, "not nil", []reqFact{{"notnil", ""}})
				need("TakeRate", tr, ">= 0", []reqFact{{">=", "0"}})
				need("TakeRate", tr, "< 1", []reqFact{{"<", "1"}})
				need("RewardWeight", rw, "not nil", []reqFact{{"notnil", ""}})
				need("RewardWeight", rw, ">= 0", []reqFact{{">=", "0"}})
				if mn != nil && mx != nil {
					need("RewardWeight", rw, ">= range.min", []reqFact{{">=", constName(mn)}})
					need("RewardWeight", rw, "<= range.max", []reqFact{{"<=", constName(mx)}})
				} else {
					r.Bad(s.fn, "RewardWeightRange", "the persisted asset's weight range is not taken from the request", nil, r.P(c))
				}
				need("RewardChangeRate", cr, "> 0", []reqFact{{">", "0"}}, []reqFact{{"!=", "0"}, {">=", "0"}})
				need("RewardChangeInterval", ci, ">= 0", []reqFact{{">=", "0"}})
			}
		}})

	register(&Rule{ID: "C16.whitelist", Props: []string{"C16", "C01"}, Floor: 3,
		Doc: "UpdateAllianceAsset persists the stored record with only whitelisted fields overwritten",
		Run: func(e *Engine, r *RuleRun) {
			fn := r.Need("keeper.Keeper.UpdateAllianceAsset")
			if fn == nil {
				return
			}
			fk, fa := FuncKey(fn), e.FA(fn)
			white := map[string]bool{".TakeRate": true, ".RewardWeight": true, ".RewardChangeRate": true, ".RewardChangeInterval": true, ".LastRewardChangeTime": true, ".RewardWeightRange": true}
			sets := CallsTo(fn, "keeper.Keeper.SetAsset")
			r.Check(len(sets) == 1, fk, "single persist", "one SetAsset", fmt.Sprintf("%d SetAsset calls", len(sets)))
			for _, c := range sets {
				a := argT(fa, c, 1)
				base, _ := ovrGet(a, "")
				okBase := base.Op == "extract" && base.Name == "0" && base.Args[0].IsCall("keeper.Keeper.GetAssetByDenom")
				if okBase {
					args := base.Args[0].CallArgsT()
					okBase = len(args) >= 3 && args[2].Op == "field" && args[2].Name == "Denom" && args[2].Args[0].Op == "param"
				}
				r.Check(okBase, fk, "persists the stored record", "base value is GetAssetByDenom(newAsset.Denom)", "the record persisted is not the stored asset of the update's denom: "+base.String(), r.P(c))
				for _, p := range ovrPaths(a) {
					top := p
					if i := strings.Index(p[1:], "."); i >= 0 {
						top = p[:i+1]
					}
					r.Check(white[top], fk, "overwrites "+p, "whitelisted field", "an asset update overwrites "+p+", which is not an updatable parameter (staked total, share total, denom, start time and initialisation flag must be preserved)", r.P(c))
				}
			}
		}})

	register(&Rule{ID: "C16.notbonddenom", Props: []string{"C01", "C02", "C11", "C17"}, Floor: 1,
		Doc: "the staking bond denom cannot be whitelisted as an alliance asset",
		Run: func(e *Engine, r *RuleRun) {
			// CompleteUnbondings burns the module account's whole bond-denom balance every block (virtual staking tokens);
			// with an alliance on the bond denom that balance is the delegators' principal and their pending unbondings.
			fn := r.Need("keeper.MsgServer.CreateAlliance")
			if fn == nil {
				return
			}
			fk, fa := FuncKey(fn), e.FA(fn)
			c := r.One(fn, "persisting call", "keeper.Keeper.SetAsset")
			if c == nil {
				return
			}
			ok := fa.HasGuard(c, func(g Guard) bool {
				if g.Cond.Op != "binop" || (g.Cond.Name != "==" && g.Cond.Name != "!=") {
					return false
				}
				// true edge of !=, false edge of ==
				if (g.Cond.Name == "==") == g.Pos {
					return false
				}
				a, b := g.Cond.Args[0], g.Cond.Args[1]
				isDenom := func(t *Term) bool {
					return strings.HasSuffix(t.String(), "$msg).Denom") || strings.HasSuffix(t.String(), "$msg.Denom")
				}
				isBond := func(t *Term) bool {
					found := false
					t.Walk(func(x *Term) {
						if x.IsCall("types.StakingKeeper.BondDenom") {
							found = true
						}
					})
					return found
				}
				return (isDenom(a) && isBond(b)) || (isDenom(b) && isBond(a))
			})
			r.Check(ok, fk, "creation rejects the staking bond denom", "SetAsset dominated by msg.Denom != stakingKeeper.BondDenom()", "MsgCreateAlliance accepts the staking bond denom: the end blocker burns every bond-denom coin the module account holds as left-over virtual staking tokens, i.e. the delegators' principal and pending unbondings; custody falls short, the matured unbonding cannot be paid and the end blocker fails", r.P(c))
		}})

	register(&Rule{ID: "C16.immutable", Props: []string{"C16"}, Floor: 3,
		Doc: "nothing in the call tree of an asset update writes the fields an update must preserve, moves custody or rewrites the module parameters",
		Run: func(e *Engine, r *RuleRun) {
			preserved := map[string]bool{"AllianceAsset.TotalTokens": true, "AllianceAsset.TotalValidatorShares": true, "AllianceAsset.Denom": true, "AllianceAsset.RewardStartTime": true, "AllianceAsset.IsInitialized": true}
			for _, entry := range []string{"keeper.Keeper.UpdateAllianceAsset", "keeper.MsgServer.UpdateAlliance", "keeper.Keeper.UpdateAlliance"} {
				fn := r.Need(entry)
				if fn == nil {
					continue
				}
				bad := 0
				nAtoms := 0
				for _, f := range e.Reach(fn) {
					for _, a := range e.DirectAtoms(f) {
						nAtoms++
						switch {
						case a.Kind == "fieldwrite" && preserved[a.Name]:
							if st, ok := a.Instr.(*ssa.Store); ok && isInitStore(e.FA(f), st) {
								continue
							}
							bad++
							r.Bad(entry, "call tree writes "+a.Name, "an asset update reaches a write of "+a.Name+" (in "+FuncKey(f)+"): an update must never alter the staked total, share total, denom, start time or initialisation flag", nil, r.P(a.Instr))
						case a.Kind == "bank" && (strings.Contains(a.Name, "(alliance->") || strings.Contains(a.Name, "MintCoins") || strings.Contains(a.Name, "BurnCoins")):
							bad++
							r.Bad(entry, "call tree moves custody: "+a.Name, "an asset update reaches a bank call that moves coins out of the custody account / mints / burns (in "+FuncKey(f)+")", nil, r.P(a.Instr))
						case a.Kind == "store" && (a.Name == "Set(ParamsKey)" || strings.HasPrefix(a.Name, "Delete(GetAssetKey")):
							bad++
							r.Bad(entry, "call tree writes "+a.Name, "an asset update reaches "+a.Name+" (in "+FuncKey(f)+"): the module parameters (take-rate clock) and the asset's existence are not part of an update", nil, r.P(a.Instr))
						}
					}
				}
				if bad == 0 {
					r.OK(entry, "call tree preserves totals, denom, start time, custody and parameters", fmt.Sprintf("%d effect atoms in the call tree examined", nAtoms), e.Pos(fn.Pos()))
				}
			}
		}})

	register(&Rule{ID: "C16.delete", Props: []string{"C16"}, Floor: 4,
		Doc: "an asset is deleted only while nothing is staked in it",
		Run: func(e *Engine, r *RuleRun) {
			for _, c := range e.CallersOf("keeper.Keeper.deleteAsset") {
				ck := FuncKey(c.Fn)
				r.Check(ck == "keeper.Keeper.DeleteAsset", ck, "caller of deleteAsset", "only DeleteAsset", "raw asset deletion is called from "+ck+", bypassing the zero-stake test", r.P(c.Instr))
			}
			if fn := r.Need("keeper.Keeper.DeleteAsset"); fn != nil {
				fa := e.FA(fn)
				for _, c := range CallsTo(fn, "keeper.Keeper.deleteAsset") {
					tt := "$asset.TotalTokens"
					r.Check(fa.HasFact(c, tt, "<=", "0"), FuncKey(fn), "deletion requires zero stake", "dominated by the rejection of TotalTokens > 0", "the store delete is not dominated by the rejection of assets that still have staked tokens", r.P(c))
					r.Check(argT(fa, c, 1).String() == "$asset.Denom", FuncKey(fn), "deletes the tested asset", "denom of the tested asset", "deletes "+argT(fa, c, 1).String(), r.P(c))
				}
			}
			for _, c := range e.CallersOf("keeper.Keeper.DeleteAsset") {
				ck := FuncKey(c.Fn)
				fa := e.FA(c.Fn)
				a := argT(fa, c.Instr.(ssa.CallInstruction), 1)
				ok := ck == "keeper.MsgServer.DeleteAlliance" && a.Op == "extract" && a.Args[0].IsCall("keeper.Keeper.GetAssetByDenom")
				r.Check(ok, ck, "caller of DeleteAsset", "governance handler passing the asset freshly loaded from the store", "DeleteAsset is called from "+ck+" with "+a.String()+" (must be the stored record, so that the zero-stake test sees the real total)", r.P(c.Instr))
			}
		}})

	register(&Rule{ID: "C16.once", Props: []string{"C16"}, Floor: 2,
		Doc: "a denom is whitelisted only when no asset with that denom exists",
		Run: func(e *Engine, r *RuleRun) {
			fn := r.Need("keeper.MsgServer.CreateAlliance")
			if fn == nil {
				return
			}
			fk, fa := FuncKey(fn), e.FA(fn)
			c := r.One(fn, "persisting call", "keeper.Keeper.SetAsset")
			if c == nil {
				return
			}
			_, denom := ovrGet(argT(fa, c, 1), ".Denom")
			ok := denom != nil && fa.HasGuard(c, func(g Guard) bool {
				if g.Pos || g.Cond.Op != "extract" || g.Cond.Name != "1" || !g.Cond.Args[0].IsCall("keeper.Keeper.GetAssetByDenom") {
					return false
				}
				a := g.Cond.Args[0].CallArgsT()
				return len(a) >= 3 && a[2].Eq(denom)
			})
			r.Check(ok, fk, "create only if absent", "SetAsset is on the not-found branch of GetAssetByDenom(the new asset's denom)", "an existing asset of the same denom can be overwritten (the creation is not dominated by a failed lookup of the same denom)", r.P(c))
			_, tt := ovrGet(argT(fa, c, 1), ".TotalTokens")
			_, ts := ovrGet(argT(fa, c, 1), ".TotalValidatorShares")
			r.Check(tt != nil && tt.IsCall("math.ZeroInt") && ts != nil && ts.IsCall("math.LegacyZeroDec"), fk, "new asset starts empty", "zero staked total and zero share total", "a new asset is created with non-zero totals", r.P(c))
		}})

	register(&Rule{ID: "C16.privileged", Props: []string{"C16", "C17", "C14"}, Floor: 14,
		Doc: "privileged setters have only the reviewed callers",
		Run: func(e *Engine, r *RuleRun) {
			tables := map[string]map[string]string{
				"keeper.Keeper.SetParams": {
					"keeper.MsgServer.UpdateParams":        "governance (C16.auth, C17.accept)",
					"keeper.Keeper.SetLastRewardClaimTime": "take-rate clock: re-stores loaded parameters with a new clock value",
					"keeper.Keeper.InitGenesis":            "genesis import",
					"migv5.Migrate$1":                      "migration from the params subspace",
				},
				"keeper.Keeper.UpdateAllianceAsset": {
					"keeper.MsgServer.UpdateAlliance":      "governance (C16.validate)",
					"keeper.Keeper.RewardWeightChangeHook": "decay step (C14.clamp)",
				},
				"keeper.Keeper.SetAsset": {
					"keeper.Keeper.InitializeAllianceAssets":          "sets IsInitialized",
					"keeper.Keeper.UpdateAllianceAsset":               "whitelisted update (C16.whitelist)",
					"keeper.Keeper.DeductAssetsWithTakeRate":          "take rate (C01.pair.takerate)",
					"keeper.Keeper.Delegate":                          "C01.pair.delegate",
					"keeper.Keeper.Undelegate":                        "C01.pair.undelegate",
					"keeper.Keeper.ResetAssetAndValidators":           "dust reset (C03.reset)",
					"keeper.Keeper.SlashValidator":                    "C06.scale",
					"keeper.MsgServer.CreateAlliance":                 "new asset (C16.once)",
					"keeper.Keeper.InitGenesis":                       "genesis import",
					"migv4.migrateAssetsWithDefaultRewardWeightRange": "v4 migration",
				},
				"keeper.Keeper.SetLastRewardClaimTime": {
					"keeper.Keeper.DeductAssetsWithTakeRate": "take-rate clock (C09.n, C09.clock)",
				},
			}
			var tk []string
			for k := range tables {
				tk = append(tk, k)
			}
			sort.Strings(tk)
			for _, callee := range tk {
				for _, c := range e.CallersOf(callee) {
					ck := FuncKey(c.Fn)
					if why, ok := tables[callee][ck]; ok {
						r.OK(ck, "calls "+callee, "reviewed caller: "+why, r.P(c.Instr))
					} else {
						r.Bad(ck, "calls "+callee, "privileged setter "+callee+" is called from a function outside the reviewed caller table", nil, r.P(c.Instr))
					}
				}
			}
		}})
}

func hasUnary(fa *FuncAnalysis, in ssa.Instruction, v *Term, op string) bool {
	for _, f := range fa.FactsAt(in) {
		if f.B == "" && f.Op == op && f.A == v.String() {
			return true
		}
	}
	return false
}
