package main

import (
	"go/constant"
	"go/token"
	"go/types"
	"sort"
	"strconv"
	"strings"

	"golang.org/x/tools/go/ssa"
)

// Dominates: instruction a is executed before b on every path that reaches b.
func (fa *FuncAnalysis) Dominates(a, b ssa.Instruction) bool {
	if a == nil || b == nil {
		return false
	}
	ba, bb := a.Block(), b.Block()
	if ba == nil || bb == nil || ba.Parent() != bb.Parent() {
		return false
	}
	if ba == bb {
		return fa.idx[a] < fa.idx[b]
	}
	return ba.Dominates(bb)
}

// Guard is one branch fact known to hold at an instruction.
type Guard struct {
	Cond *Term // the condition value (negations stripped)
	Pos  bool  // cond is true (false: cond is false)
	If   *ssa.If
}

func (g Guard) String() string {
	if g.Pos {
		return g.Cond.String()
	}
	return "!" + g.Cond.String()
}

// GuardsOf returns the branch facts that hold on every path reaching instruction in (block-level).
func (fa *FuncAnalysis) GuardsOf(in ssa.Instruction) []Guard {
	return fa.GuardsOfBlock(in.Block())
}

func (fa *FuncAnalysis) GuardsOfBlock(b *ssa.BasicBlock) []Guard {
	return fa.guardsOfBlock(b, 0)
}

// nilClass classifies an SSA value as provably nil ("nil"), provably non-nil ("nonnil") or unknown ("").
func nilClass(v ssa.Value) string {
	switch x := v.(type) {
	case *ssa.Const:
		if x.Value == nil {
			return "nil"
		}
		return "nonnil"
	case *ssa.MakeInterface:
		return "nonnil"
	case *ssa.Call:
		if k := CalleeKey(x.Common()); isErrCtor(k) {
			return "nonnil"
		}
	case *ssa.Extract:
		return ""
	}
	return ""
}

// phiCompat: cond tests a phi whose incoming values are classifiable constants (`p != nil`, `p == nil`, a boolean p,
// or a negation of these).  It returns the phi and the indices of the predecessors whose incoming value is compatible
// with the test having the outcome takenTrue (unknown values are compatible with both outcomes).
func phiCompat(cond ssa.Value, takenTrue bool) (*ssa.Phi, []int) {
	for {
		u, ok := cond.(*ssa.UnOp)
		if !ok || u.Op != token.NOT {
			break
		}
		cond, takenTrue = u.X, !takenTrue
	}
	var compat []int
	switch x := cond.(type) {
	case *ssa.Phi:
		for i, ed := range x.Edges {
			c, ok := ed.(*ssa.Const)
			if !ok || c.Value == nil || c.Value.Kind() != constant.Bool {
				compat = append(compat, i)
				continue
			}
			if constant.BoolVal(c.Value) == takenTrue {
				compat = append(compat, i)
			}
		}
		return x, compat
	case *ssa.BinOp:
		if x.Op != token.EQL && x.Op != token.NEQ {
			return nil, nil
		}
		var phi *ssa.Phi
		if p, ok := x.X.(*ssa.Phi); ok && nilClass(x.Y) == "nil" {
			phi = p
		} else if p, ok := x.Y.(*ssa.Phi); ok && nilClass(x.X) == "nil" {
			phi = p
		}
		if phi == nil {
			return nil, nil
		}
		wantNil := (x.Op == token.EQL) == takenTrue
		for i, ed := range phi.Edges {
			switch nilClass(ed) {
			case "nil":
				if wantNil {
					compat = append(compat, i)
				}
			case "nonnil":
				if !wantNil {
					compat = append(compat, i)
				}
			default:
				compat = append(compat, i)
			}
		}
		return phi, compat
	}
	return nil, nil
}

// PhiCase is one way a value defined by (nested) phis can come about: the value, the predecessor blocks chosen on
// the way (outermost first), and for every join block met the predecessors that remain possible.
type PhiCase struct {
	T        *Term
	Preds    []*ssa.BasicBlock
	Joins    []*ssa.BasicBlock // Joins[i] is the join block that Preds[i] enters
	Restrict map[*ssa.BasicBlock]map[int]bool
}

// PhiCases expands a phi term into its cases.  Choosing a predecessor of a join block fixes every phi of that block,
// and the branch conditions that guard the chosen predecessor restrict the predecessors of earlier joins when they
// test a phi of classifiable constants (`if deleted`, `if err != nil` after an inlined helper): the cases of
// `x = phi(zero, f(y))` with `y = phi(a, b)` under `if ok` with `ok = phi(false, true)` are {zero, f(b)}.
func (fa *FuncAnalysis) PhiCases(t *Term, restrict map[*ssa.BasicBlock]map[int]bool, depth int) []PhiCase {
	phi, _ := t.Instr.(*ssa.Phi)
	if t.Op != "phi" || phi == nil || depth > 5 {
		return []PhiCase{{T: t, Restrict: restrict}}
	}
	pb := phi.Block()
	var out []PhiCase
	for i, ed := range phi.Edges {
		if al, ok := restrict[pb]; ok && !al[i] {
			continue
		}
		r2 := map[*ssa.BasicBlock]map[int]bool{}
		for k, v := range restrict {
			r2[k] = v
		}
		r2[pb] = map[int]bool{i: true}
		pred := pb.Preds[i]
		feasible := true
		narrow := func(cond ssa.Value, taken bool) {
			q, compat := phiCompat(cond, taken)
			if q == nil {
				return
			}
			set := map[int]bool{}
			for _, c := range compat {
				if al, ok := r2[q.Block()]; !ok || al[c] {
					set[c] = true
				}
			}
			if len(set) == 0 {
				feasible = false
			}
			r2[q.Block()] = set
		}
		// the edge pred -> pb, and the branches that dominate pred
		if len(pred.Succs) == 2 && pred.Succs[0] != pred.Succs[1] {
			if iff, ok := pred.Instrs[len(pred.Instrs)-1].(*ssa.If); ok {
				narrow(iff.Cond, pred.Succs[0] == pb)
			}
		}
		for d := pred.Idom(); d != nil; d = d.Idom() {
			if len(d.Instrs) == 0 {
				continue
			}
			iff, ok := d.Instrs[len(d.Instrs)-1].(*ssa.If)
			if !ok || d.Succs[0] == d.Succs[1] {
				continue
			}
			e0, e1 := edgeDominates(d, d.Succs[0], pred), edgeDominates(d, d.Succs[1], pred)
			if e0 != e1 {
				narrow(iff.Cond, e0)
			}
		}
		if !feasible {
			continue
		}
		for _, c := range fa.PhiCases(fa.Term(ed), r2, depth+1) {
			c.Preds = append([]*ssa.BasicBlock{pred}, c.Preds...)
			c.Joins = append([]*ssa.BasicBlock{pb}, c.Joins...)
			out = append(out, c)
		}
	}
	return out
}

// phiCorrelated: the block is entered through an edge that tests a phi against nil (`if err != nil` after a join, the
// shape that an inlined `if err := helper(...); err != nil` produces).  When every incoming value of the phi is
// provably nil or provably non-nil, the test tells which predecessors control came from, and the facts common to
// those predecessors hold as well.
func (fa *FuncAnalysis) phiCorrelated(iff *ssa.If, takenTrue bool, depth int) []Guard {
	if depth > 3 {
		return nil
	}
	phi, compat := phiCompat(iff.Cond, takenTrue)
	if phi == nil {
		return nil
	}
	if len(compat) == 0 || len(compat) == len(phi.Edges) {
		return nil
	}
	// facts common to all compatible predecessors (including the edge into the join block)
	var common map[string]Guard
	pb := phi.Block()
	for _, i := range compat {
		pred := pb.Preds[i]
		gs := fa.guardsOfBlock(pred, depth+1)
		for k, s := range pred.Succs {
			if s == pb {
				if g, ok := fa.EdgeFact(pred, k); ok && len(pred.Succs) == 2 && pred.Succs[0] != pred.Succs[1] {
					gs = append(gs, g)
				}
			}
		}
		set := map[string]Guard{}
		for _, g := range gs {
			set[g.String()] = g
		}
		if common == nil {
			common = set
			continue
		}
		for k := range common {
			if _, ok := set[k]; !ok {
				delete(common, k)
			}
		}
	}
	var out []Guard
	var keys []string
	for k := range common {
		keys = append(keys, k)
	}
	sort.Strings(keys)
	for _, k := range keys {
		out = append(out, common[k])
	}
	// a short-circuit value (`a && b` evaluated as a value, as a tagless switch case does): when the only compatible
	// predecessor carries a non-constant value, control came from there and that value has the tested outcome
	if len(compat) == 1 {
		cond, pol := iff.Cond, takenTrue
		for {
			u, ok := cond.(*ssa.UnOp)
			if !ok || u.Op != token.NOT {
				break
			}
			cond, pol = u.X, !pol
		}
		if _, isBoolPhi := cond.(*ssa.Phi); isBoolPhi {
			ed := phi.Edges[compat[0]]
			if _, isConst := ed.(*ssa.Const); !isConst {
				t := fa.Term(ed)
				for t.Op == "unop" && t.Name == "!" {
					t = t.Args[0]
					pol = !pol
				}
				out = append(out, Guard{Cond: t, Pos: pol, If: iff})
			}
		}
	}
	return out
}

var helperDepth int

func (fa *FuncAnalysis) guardsOfBlock(b *ssa.BasicBlock, depth int) []Guard {
	var out []Guard
	for d := b.Idom(); d != nil; d = d.Idom() {
		if len(d.Instrs) == 0 {
			continue
		}
		iff, ok := d.Instrs[len(d.Instrs)-1].(*ssa.If)
		if !ok {
			continue
		}
		s0, s1 := d.Succs[0], d.Succs[1]
		if s0 == s1 {
			continue
		}
		e0 := edgeDominatesLive(fa, d, s0, b)
		e1 := edgeDominatesLive(fa, d, s1, b)
		if e0 == e1 {
			continue
		}
		cond := iff.Cond
		pos := e0
		t := fa.Term(cond)
		for t.Op == "unop" && t.Name == "!" {
			t = t.Args[0]
			pos = !pos
		}
		g := Guard{Cond: t, Pos: pos, If: iff}
		out = append(out, g)
		out = append(out, fa.phiCorrelated(iff, e0, depth)...)
		// a predicate helper of the module in the condition (`if k.isChargeable(asset, t)`): what its outcome implies
		// holds as well (an extracted `a && b && c` gives a, b, c on the true edge)
		if curEngine != nil && helperDepth < 2 && (t.Op == "call" || t.Op == "ncall") && !(onlyNewHelperGuards && baselineFuncs[t.Name]) {
			helperDepth++
			for _, hg := range curEngine.helperGuards(g) {
				hg.If = iff
				out = append(out, hg)
			}
			helperDepth--
		}
	}
	return out
}

// onlyNewHelperGuards: while set, the outcome of a predicate that the reviewed tree already has is a fact by itself and is
// not expanded into the facts of its body (X.guards: a reviewed predicate is judged where it is defined).
var onlyNewHelperGuards bool

// edgeDominates: every path from function entry to b uses the CFG edge d->s.
func edgeDominates(d, s, b *ssa.BasicBlock) bool {
	return edgeDominatesLive(nil, d, s, b)
}

// edgeDominatesLive: as edgeDominates, but entries of s through edges that branch on a constant condition the other
// way (edgeDead) do not count.
func edgeDominatesLive(fa *FuncAnalysis, d, s, b *ssa.BasicBlock) bool {
	if !s.Dominates(b) {
		return false
	}
	if fa != nil {
		for _, p := range s.Preds {
			if p == d || s.Dominates(p) {
				continue
			}
			dead := false
			for si, sb := range p.Succs {
				if sb == s && fa.edgeDead(p, si) {
					dead = true
				}
			}
			if !dead {
				return false
			}
		}
		return true
	}
	// s dominates b; the edge d->s dominates b iff every predecessor of s other than d is dominated by s
	// (i.e. is a back edge into s), otherwise s can be entered without taking d->s.
	for _, p := range s.Preds {
		if p == d {
			continue
		}
		if !s.Dominates(p) {
			return false
		}
	}
	return true
}

// HasGuard: some guard at `in` satisfies pred.
func (fa *FuncAnalysis) HasGuard(in ssa.Instruction, pred func(Guard) bool) bool {
	for _, g := range fa.GuardsOf(in) {
		if pred(g) {
			return true
		}
	}
	return false
}

// ---------------------------------------------------------------- exits

// errResultIndex returns the index of the trailing error result, or -1.
func errResultIndex(fn *ssa.Function) int {
	res := fn.Signature.Results()
	if res.Len() == 0 {
		return -1
	}
	last := res.At(res.Len() - 1).Type()
	if types.Identical(last, types.Universe.Lookup("error").Type()) {
		return res.Len() - 1
	}
	return -1
}

// IsErrorExit: the return provably returns a non-nil error.
func (fa *FuncAnalysis) IsErrorExit(r *ssa.Return) bool {
	i := errResultIndex(fa.Fn)
	if i < 0 || i >= len(r.Results) {
		return false
	}
	return fa.provablyNonNil(r.Results[i], r, 0)
}

func (fa *FuncAnalysis) provablyNonNil(v ssa.Value, at ssa.Instruction, depth int) bool {
	if depth > 4 {
		return false
	}
	switch x := v.(type) {
	case *ssa.Const:
		return x.Value != nil
	case *ssa.MakeInterface:
		return true
	case *ssa.Phi:
		for _, ed := range x.Edges {
			if !fa.provablyNonNil(ed, at, depth+1) {
				return false
			}
		}
		return len(x.Edges) > 0
	}
	t := fa.Term(v)
	// the value itself (seen through local variables) is an error constructor or a registered sentinel
	if (t.Op == "call" || t.Op == "ncall") && isErrCtor(t.Name) {
		return true
	}
	if t.Op == "global" && strings.Contains(t.Name, ".Err") {
		return true
	}
	if t.Op == "const" && t.Name != "nil" {
		return true
	}
	if t.Op == "phi" {
		if p, ok := t.Instr.(*ssa.Phi); ok && ssa.Value(p) != v {
			return fa.provablyNonNil(p, at, depth+1)
		}
	}
	// dominated by the true edge of (v != nil) / false edge of (v == nil), compared by term
	for _, g := range fa.GuardsOf(at) {
		if g.Cond.Op != "binop" {
			continue
		}
		a, b := g.Cond.Args[0], g.Cond.Args[1]
		var other *Term
		if a.Eq(t) {
			other = b
		} else if b.Eq(t) {
			other = a
		} else {
			continue
		}
		if other.Op != "const" || other.Name != "nil" {
			continue
		}
		if (g.Cond.Name == "!=" && g.Pos) || (g.Cond.Name == "==" && !g.Pos) {
			return true
		}
	}
	return false
}

func isErrCtor(k string) bool {
	switch k {
	case "fmt.Errorf", "errors.New", "status.Errorf", "status.Error", "errorsmod.Wrap", "errorsmod.Wrapf",
		"errorsmod.Error.Wrap", "errorsmod.Error.Wrapf", "errorsmod.Register":
		return true
	}
	return false
}

// Returns lists the return instructions of fn.
func Returns(fn *ssa.Function) []*ssa.Return {
	var out []*ssa.Return
	for _, b := range fn.Blocks {
		if len(b.Instrs) == 0 || b == fn.Recover {
			continue
		}
		if r, ok := b.Instrs[len(b.Instrs)-1].(*ssa.Return); ok {
			out = append(out, r)
		}
	}
	return out
}

// SuccessExits: returns that may return a nil error (all returns when fn has no error result).
func (fa *FuncAnalysis) SuccessExits() []*ssa.Return {
	var out []*ssa.Return
	for _, r := range Returns(fa.Fn) {
		if !fa.IsErrorExit(r) {
			out = append(out, r)
		}
	}
	return out
}

// MustFollow checks that every CFG path from `from` to a success exit passes one of the `targets`.
// It returns a counter-example path (block trail ending in the offending return) or nil.
func (fa *FuncAnalysis) MustFollow(from ssa.Instruction, targets []ssa.Instruction) []string {
	return fa.mustReach(from, targets, func(r *ssa.Return) bool { return !fa.IsErrorExit(r) })
}

// EntryMustPass: every success path through the function passes one of targets (the first instruction included).
func (fa *FuncAnalysis) EntryMustPass(targets []ssa.Instruction) []string {
	first := fa.Fn.Blocks[0].Instrs[0]
	for _, t := range targets {
		if t == first {
			return nil
		}
	}
	return fa.MustFollow(first, targets)
}

// MustFollowAllExits: same, but every return counts (entry points where errors are not rolled back).
func (fa *FuncAnalysis) MustFollowAllExits(from ssa.Instruction, targets []ssa.Instruction) []string {
	return fa.mustReach(from, targets, func(r *ssa.Return) bool { return true })
}

// EdgeFact returns the branch fact established by taking successor i of block b.
func (fa *FuncAnalysis) EdgeFact(b *ssa.BasicBlock, i int) (Guard, bool) {
	if len(b.Instrs) == 0 || len(b.Succs) != 2 || b.Succs[0] == b.Succs[1] {
		return Guard{}, false
	}
	iff, ok := b.Instrs[len(b.Instrs)-1].(*ssa.If)
	if !ok {
		return Guard{}, false
	}
	pos := i == 0
	t := fa.Term(iff.Cond)
	for t.Op == "unop" && t.Name == "!" {
		t = t.Args[0]
		pos = !pos
	}
	return Guard{Cond: t, Pos: pos, If: iff}, true
}

func (fa *FuncAnalysis) mustReach(from ssa.Instruction, targets []ssa.Instruction, counts func(*ssa.Return) bool) []string {
	return fa.mustReachPruned(from, targets, counts, nil)
}

// mustReachPruned: as mustReach, but CFG edges whose branch fact satisfies prune are not followed
// (used for exits that are exempt under a stated condition, e.g. "the accumulator is empty").
func (fa *FuncAnalysis) mustReachPruned(from ssa.Instruction, targets []ssa.Instruction, counts func(*ssa.Return) bool, prune func(Guard) bool) []string {
	tset := map[ssa.Instruction]bool{}
	for _, t := range targets {
		tset[t] = true
	}
	// The search is path-sensitive in one respect: it remembers which error values were tested non-nil
	// on the way, so that `if err != nil || cond { return x, err }` is an error exit when entered through
	// the err != nil edge.
	type node struct {
		b      *ssa.BasicBlock
		start  int
		nonnil string
		pred   *ssa.BasicBlock // block the walk came from (nil at the start)
	}
	seen := map[string]bool{}
	type crumb struct {
		b    *ssa.BasicBlock
		prev *crumb
	}
	var bad *ssa.Return
	var badCrumb *crumb
	ei := errResultIndex(fa.Fn)
	var visit func(n node, c *crumb) bool
	visit = func(n node, c *crumb) bool {
		for i := n.start; i < len(n.b.Instrs); i++ {
			in := n.b.Instrs[i]
			if tset[in] {
				return false
			}
			if r, ok := in.(*ssa.Return); ok {
				if ei >= 0 && ei < len(r.Results) && n.nonnil != "" {
					if strings.Contains(n.nonnil, "\x00"+fa.Term(r.Results[ei]).String()+"\x00") {
						return false // returns an error known to be non-nil on this path
					}
				}
				// single-exit style (`if err == nil { err = g() }; return err`): the error returned is a phi of this
				// block; on this path it is the value of the edge the walk came in through
				if ei >= 0 && ei < len(r.Results) && n.pred != nil {
					if phi, isPhi := r.Results[ei].(*ssa.Phi); isPhi && phi.Block() == n.b {
						for pi, p := range n.b.Preds {
							if p != n.pred || pi >= len(phi.Edges) {
								continue
							}
							ev := phi.Edges[pi]
							if strings.Contains(n.nonnil, "\x00"+fa.Term(ev).String()+"\x00") {
								return false
							}
							if len(p.Instrs) > 0 && fa.provablyNonNil(ev, p.Instrs[len(p.Instrs)-1], 0) {
								return false
							}
						}
					}
				}
				if counts(r) {
					bad, badCrumb = r, c
					return true
				}
				return false
			}
			if _, ok := in.(*ssa.Panic); ok {
				return false
			}
		}
		for i, s := range n.b.Succs {
			if fa.edgeDead(n.b, i) {
				continue
			}
			nn := n.nonnil
			if g, ok := fa.EdgeFact(n.b, i); ok {
				if prune != nil && prune(g) {
					continue
				}
				if g.Cond.Op == "binop" && g.Cond.Args[1].Op == "const" && g.Cond.Args[1].Name == "nil" &&
					((g.Cond.Name == "!=" && g.Pos) || (g.Cond.Name == "==" && !g.Pos)) {
					if f := "\x00" + g.Cond.Args[0].String() + "\x00"; !strings.Contains(nn, f) {
						nn += f
					}
				}
			}
			key := strconv.Itoa(s.Index) + "|" + nn
			if len(s.Instrs) > 0 {
				if _, isPhi := s.Instrs[0].(*ssa.Phi); isPhi {
					if _, isRet := s.Instrs[len(s.Instrs)-1].(*ssa.Return); isRet {
						key += "|from" + strconv.Itoa(n.b.Index) // what a return block returns depends on the edge
					}
				}
			}
			if seen[key] {
				continue
			}
			seen[key] = true
			if visit(node{s, 0, nn, n.b}, &crumb{s, c}) {
				return true
			}
		}
		return false
	}
	start := from.Block()
	if visit(node{start, fa.idx[from] + 1, "", nil}, nil) {
		var trail []string
		for c := badCrumb; c != nil; c = c.prev {
			trail = append([]string{blockLabel(fa, c.b)}, trail...)
		}
		trail = append([]string{blockLabel(fa, start) + " (from " + fa.e.InstrPos(from) + ")"}, trail...)
		trail = append(trail, "return at "+fa.e.InstrPos(bad))
		return trail
	}
	return nil
}

func blockLabel(fa *FuncAnalysis, b *ssa.BasicBlock) string {
	pos := "-"
	for _, in := range b.Instrs {
		if in.Pos().IsValid() {
			pos = fa.e.Pos(in.Pos())
			break
		}
	}
	return "b" + itoa(b.Index) + "[" + b.Comment + " " + pos + "]"
}

func itoa(i int) string { return strconv.Itoa(i) }

// Reaches: there is a CFG path from a to b (a before b).
func (fa *FuncAnalysis) Reaches(a, b ssa.Instruction) bool {
	if a.Block() == b.Block() && fa.idx[a] < fa.idx[b] {
		return true
	}
	seen := map[*ssa.BasicBlock]bool{}
	var dfs func(x *ssa.BasicBlock) bool
	dfs = func(x *ssa.BasicBlock) bool {
		for si, s := range x.Succs {
			if fa.edgeDead(x, si) {
				continue
			}
			if s == b.Block() {
				return true
			}
			if !seen[s] {
				seen[s] = true
				if dfs(s) {
					return true
				}
			}
		}
		return false
	}
	return dfs(a.Block())
}

// RetCase is one way a function result comes about: a returned value with the branch facts that hold when it is
// returned.  `if c { return a }; return b` and `if c { x = a } else { x = b }; return x` have the same cases.
type RetCase struct {
	T      *Term
	Ret    *ssa.Return
	Guards []Guard
}

// ReturnCases lists the cases of result idx over all returns, expanding results that are phis (single-exit style).
func (fa *FuncAnalysis) ReturnCases(idx int) []RetCase {
	var out []RetCase
	for _, ret := range Returns(fa.Fn) {
		if idx >= len(ret.Results) {
			continue
		}
		t := fa.Term(ret.Results[idx])
		base := fa.GuardsOf(ret)
		if t.Op != "phi" {
			out = append(out, RetCase{T: t, Ret: ret, Guards: base})
			continue
		}
		for _, pc := range fa.PhiCases(t, nil, 0) {
			gs := append([]Guard{}, base...)
			for i, pred := range pc.Preds {
				gs = append(gs, fa.GuardsOfBlock(pred)...)
				if len(pred.Succs) == 2 && pred.Succs[0] != pred.Succs[1] {
					for si, sb := range pred.Succs {
						if sb == pc.Joins[i] {
							if g, ok := fa.EdgeFact(pred, si); ok {
								gs = append(gs, g)
							}
						}
					}
				}
			}
			out = append(out, RetCase{T: pc.T, Ret: ret, Guards: gs})
		}
	}
	return out
}

// ValueCases: the cases of a value used at instruction `at` (see ReturnCases): one case for a plain value, one per
// feasible combination of incoming values for a phi, each with the branch facts of its predecessors.
func (fa *FuncAnalysis) ValueCases(t *Term, at ssa.Instruction) []RetCase {
	base := fa.GuardsOf(at)
	if t.Op != "phi" {
		return []RetCase{{T: t, Guards: base}}
	}
	var out []RetCase
	for _, pc := range fa.PhiCases(t, nil, 0) {
		gs := append([]Guard{}, base...)
		for i, pred := range pc.Preds {
			gs = append(gs, fa.GuardsOfBlock(pred)...)
			if len(pred.Succs) == 2 && pred.Succs[0] != pred.Succs[1] {
				for si, sb := range pred.Succs {
					if sb == pc.Joins[i] {
						if g, ok := fa.EdgeFact(pred, si); ok {
							gs = append(gs, g)
							if iff, isIf := lastInstr(pred).(*ssa.If); isIf {
								gs = append(gs, fa.phiCorrelated(iff, si == 0, 0)...)
							}
						}
					}
				}
			}
		}
		out = append(out, RetCase{T: pc.T, Guards: gs})
	}
	return out
}

// HasCaseGuard: some guard of the case satisfies pred.
func (c RetCase) HasCaseGuard(pred func(Guard) bool) bool {
	for _, g := range c.Guards {
		if pred(g) {
			return true
		}
	}
	return false
}

// constBool: the value of a condition term that is a compile-time constant as far as the analysis can see: true/false
// literals, a boolean field of a zero-valued local struct (an options parameter that every caller leaves at its zero
// value and that was turned into a local), and negations of these.
func constBool(t *Term) (val, known bool) {
	switch {
	case t.Op == "const" && (t.Name == "true" || t.Name == "false"):
		return t.Name == "true", true
	case t.Op == "unop" && t.Name == "!" && len(t.Args) == 1:
		v, k := constBool(t.Args[0])
		return !v, k
	case t.Op == "field" && len(t.Args) == 1:
		r := t.Args[0]
		for r.Op == "field" && len(r.Args) == 1 {
			r = r.Args[0]
		}
		if r.Op == "zero" {
			if t.Val != nil {
				if b, ok := t.Val.Type().Underlying().(*types.Basic); ok && b.Kind() == types.Bool {
					return false, true
				}
				return false, false
			}
			return false, true
		}
	}
	return false, false
}

// edgeDead: the i-th successor edge of b cannot be taken because b branches on a constant condition.
func (fa *FuncAnalysis) edgeDead(b *ssa.BasicBlock, i int) bool {
	if len(b.Succs) != 2 || len(b.Instrs) == 0 {
		return false
	}
	iff, ok := b.Instrs[len(b.Instrs)-1].(*ssa.If)
	if !ok {
		return false
	}
	if _, isBool := iff.Cond.Type().Underlying().(*types.Basic); !isBool {
		return false
	}
	v, known := constBool(fa.Term(iff.Cond))
	if !known {
		return false
	}
	// Succs[0] is taken when the condition is true
	return (i == 0) != v
}
