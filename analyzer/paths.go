package main

import (
	"go/token"
	"go/types"
	"sort"
	"strconv"
	"strings"

	"golang.org/x/tools/go/ssa"
)

// Dominates: instruction a is executed before b on every path that reaches b.
func (fa *FuncAnalysis) Dominates(a, b ssa.Instruction) bool {
	if a == nil || b == nil {
		return false
	}
	ba, bb := a.Block(), b.Block()
	if ba == nil || bb == nil || ba.Parent() != bb.Parent() {
		return false
	}
	if ba == bb {
		return fa.idx[a] < fa.idx[b]
	}
	return ba.Dominates(bb)
}

// Guard is one branch fact known to hold at an instruction.
type Guard struct {
	Cond *Term // the condition value (negations stripped)
	Pos  bool  // cond is true (false: cond is false)
	If   *ssa.If
}

func (g Guard) String() string {
	if g.Pos {
		return g.Cond.String()
	}
	return "!" + g.Cond.String()
}

// GuardsOf returns the branch facts that hold on every path reaching instruction in (block-level).
func (fa *FuncAnalysis) GuardsOf(in ssa.Instruction) []Guard {
	return fa.GuardsOfBlock(in.Block())
}

func (fa *FuncAnalysis) GuardsOfBlock(b *ssa.BasicBlock) []Guard {
	return fa.guardsOfBlock(b, 0)
}

// nilClass classifies an SSA value as provably nil ("nil"), provably non-nil ("nonnil") or unknown ("").
func nilClass(v ssa.Value) string {
	switch x := v.(type) {
	case *ssa.Const:
		if x.Value == nil {
			return "nil"
		}
		return "nonnil"
	case *ssa.MakeInterface:
		return "nonnil"
	case *ssa.Call:
		if k := CalleeKey(x.Common()); isErrCtor(k) {
			return "nonnil"
		}
	case *ssa.Extract:
		return ""
	}
	return ""
}

// phiCorrelated: the block is entered through an edge that tests a phi against nil (`if err != nil` after a join, the
// shape that an inlined `if err := helper(...); err != nil` produces).  When every incoming value of the phi is
// provably nil or provably non-nil, the test tells which predecessors control came from, and the facts common to
// those predecessors hold as well.
func (fa *FuncAnalysis) phiCorrelated(iff *ssa.If, takenTrue bool, depth int) []Guard {
	if depth > 3 {
		return nil
	}
	bo, ok := iff.Cond.(*ssa.BinOp)
	if !ok || (bo.Op != token.EQL && bo.Op != token.NEQ) {
		return nil
	}
	var phi *ssa.Phi
	if p, ok := bo.X.(*ssa.Phi); ok && nilClass(bo.Y) == "nil" {
		phi = p
	} else if p, ok := bo.Y.(*ssa.Phi); ok && nilClass(bo.X) == "nil" {
		phi = p
	}
	if phi == nil {
		return nil
	}
	wantNil := (bo.Op == token.EQL) == takenTrue
	var compat []int
	for i, ed := range phi.Edges {
		switch nilClass(ed) {
		case "nil":
			if wantNil {
				compat = append(compat, i)
			}
		case "nonnil":
			if !wantNil {
				compat = append(compat, i)
			}
		default:
			// unknown value: it may be either, so this predecessor is compatible with both outcomes
			compat = append(compat, i)
		}
	}
	if len(compat) == 0 || len(compat) == len(phi.Edges) {
		return nil
	}
	// facts common to all compatible predecessors (including the edge into the join block)
	var common map[string]Guard
	pb := phi.Block()
	for _, i := range compat {
		pred := pb.Preds[i]
		gs := fa.guardsOfBlock(pred, depth+1)
		for k, s := range pred.Succs {
			if s == pb {
				if g, ok := fa.EdgeFact(pred, k); ok && len(pred.Succs) == 2 && pred.Succs[0] != pred.Succs[1] {
					gs = append(gs, g)
				}
			}
		}
		set := map[string]Guard{}
		for _, g := range gs {
			set[g.String()] = g
		}
		if common == nil {
			common = set
			continue
		}
		for k := range common {
			if _, ok := set[k]; !ok {
				delete(common, k)
			}
		}
	}
	var out []Guard
	var keys []string
	for k := range common {
		keys = append(keys, k)
	}
	sort.Strings(keys)
	for _, k := range keys {
		out = append(out, common[k])
	}
	return out
}

func (fa *FuncAnalysis) guardsOfBlock(b *ssa.BasicBlock, depth int) []Guard {
	var out []Guard
	for d := b.Idom(); d != nil; d = d.Idom() {
		if len(d.Instrs) == 0 {
			continue
		}
		iff, ok := d.Instrs[len(d.Instrs)-1].(*ssa.If)
		if !ok {
			continue
		}
		s0, s1 := d.Succs[0], d.Succs[1]
		if s0 == s1 {
			continue
		}
		e0 := edgeDominates(d, s0, b)
		e1 := edgeDominates(d, s1, b)
		if e0 == e1 {
			continue
		}
		cond := iff.Cond
		pos := e0
		t := fa.Term(cond)
		for t.Op == "unop" && t.Name == "!" {
			t = t.Args[0]
			pos = !pos
		}
		out = append(out, Guard{Cond: t, Pos: pos, If: iff})
		out = append(out, fa.phiCorrelated(iff, e0, depth)...)
	}
	return out
}

// edgeDominates: every path from function entry to b uses the CFG edge d->s.
func edgeDominates(d, s, b *ssa.BasicBlock) bool {
	if !s.Dominates(b) {
		return false
	}
	// s dominates b; the edge d->s dominates b iff every predecessor of s other than d is dominated by s
	// (i.e. is a back edge into s), otherwise s can be entered without taking d->s.
	for _, p := range s.Preds {
		if p == d {
			continue
		}
		if !s.Dominates(p) {
			return false
		}
	}
	return true
}

// HasGuard: some guard at `in` satisfies pred.
func (fa *FuncAnalysis) HasGuard(in ssa.Instruction, pred func(Guard) bool) bool {
	for _, g := range fa.GuardsOf(in) {
		if pred(g) {
			return true
		}
	}
	return false
}

// ---------------------------------------------------------------- exits

// errResultIndex returns the index of the trailing error result, or -1.
func errResultIndex(fn *ssa.Function) int {
	res := fn.Signature.Results()
	if res.Len() == 0 {
		return -1
	}
	last := res.At(res.Len() - 1).Type()
	if types.Identical(last, types.Universe.Lookup("error").Type()) {
		return res.Len() - 1
	}
	return -1
}

// IsErrorExit: the return provably returns a non-nil error.
func (fa *FuncAnalysis) IsErrorExit(r *ssa.Return) bool {
	i := errResultIndex(fa.Fn)
	if i < 0 || i >= len(r.Results) {
		return false
	}
	return fa.provablyNonNil(r.Results[i], r, 0)
}

func (fa *FuncAnalysis) provablyNonNil(v ssa.Value, at ssa.Instruction, depth int) bool {
	if depth > 4 {
		return false
	}
	switch x := v.(type) {
	case *ssa.Const:
		return x.Value != nil
	case *ssa.MakeInterface:
		return true
	case *ssa.Phi:
		for _, ed := range x.Edges {
			if !fa.provablyNonNil(ed, at, depth+1) {
				return false
			}
		}
		return len(x.Edges) > 0
	}
	t := fa.Term(v)
	// the value itself (seen through local variables) is an error constructor or a registered sentinel
	if (t.Op == "call" || t.Op == "ncall") && isErrCtor(t.Name) {
		return true
	}
	if t.Op == "global" && strings.Contains(t.Name, ".Err") {
		return true
	}
	if t.Op == "const" && t.Name != "nil" {
		return true
	}
	if t.Op == "phi" {
		if p, ok := t.Instr.(*ssa.Phi); ok && ssa.Value(p) != v {
			return fa.provablyNonNil(p, at, depth+1)
		}
	}
	// dominated by the true edge of (v != nil) / false edge of (v == nil), compared by term
	for _, g := range fa.GuardsOf(at) {
		if g.Cond.Op != "binop" {
			continue
		}
		a, b := g.Cond.Args[0], g.Cond.Args[1]
		var other *Term
		if a.Eq(t) {
			other = b
		} else if b.Eq(t) {
			other = a
		} else {
			continue
		}
		if other.Op != "const" || other.Name != "nil" {
			continue
		}
		if (g.Cond.Name == "!=" && g.Pos) || (g.Cond.Name == "==" && !g.Pos) {
			return true
		}
	}
	return false
}

func isErrCtor(k string) bool {
	switch k {
	case "fmt.Errorf", "errors.New", "status.Errorf", "status.Error", "errorsmod.Wrap", "errorsmod.Wrapf",
		"errorsmod.Error.Wrap", "errorsmod.Error.Wrapf", "errorsmod.Register":
		return true
	}
	return false
}

// Returns lists the return instructions of fn.
func Returns(fn *ssa.Function) []*ssa.Return {
	var out []*ssa.Return
	for _, b := range fn.Blocks {
		if len(b.Instrs) == 0 || b == fn.Recover {
			continue
		}
		if r, ok := b.Instrs[len(b.Instrs)-1].(*ssa.Return); ok {
			out = append(out, r)
		}
	}
	return out
}

// SuccessExits: returns that may return a nil error (all returns when fn has no error result).
func (fa *FuncAnalysis) SuccessExits() []*ssa.Return {
	var out []*ssa.Return
	for _, r := range Returns(fa.Fn) {
		if !fa.IsErrorExit(r) {
			out = append(out, r)
		}
	}
	return out
}

// MustFollow checks that every CFG path from `from` to a success exit passes one of the `targets`.
// It returns a counter-example path (block trail ending in the offending return) or nil.
func (fa *FuncAnalysis) MustFollow(from ssa.Instruction, targets []ssa.Instruction) []string {
	return fa.mustReach(from, targets, func(r *ssa.Return) bool { return !fa.IsErrorExit(r) })
}

// EntryMustPass: every success path through the function passes one of targets (the first instruction included).
func (fa *FuncAnalysis) EntryMustPass(targets []ssa.Instruction) []string {
	first := fa.Fn.Blocks[0].Instrs[0]
	for _, t := range targets {
		if t == first {
			return nil
		}
	}
	return fa.MustFollow(first, targets)
}

// MustFollowAllExits: same, but every return counts (entry points where errors are not rolled back).
func (fa *FuncAnalysis) MustFollowAllExits(from ssa.Instruction, targets []ssa.Instruction) []string {
	return fa.mustReach(from, targets, func(r *ssa.Return) bool { return true })
}

// EdgeFact returns the branch fact established by taking successor i of block b.
func (fa *FuncAnalysis) EdgeFact(b *ssa.BasicBlock, i int) (Guard, bool) {
	if len(b.Instrs) == 0 || len(b.Succs) != 2 || b.Succs[0] == b.Succs[1] {
		return Guard{}, false
	}
	iff, ok := b.Instrs[len(b.Instrs)-1].(*ssa.If)
	if !ok {
		return Guard{}, false
	}
	pos := i == 0
	t := fa.Term(iff.Cond)
	for t.Op == "unop" && t.Name == "!" {
		t = t.Args[0]
		pos = !pos
	}
	return Guard{Cond: t, Pos: pos, If: iff}, true
}

func (fa *FuncAnalysis) mustReach(from ssa.Instruction, targets []ssa.Instruction, counts func(*ssa.Return) bool) []string {
	return fa.mustReachPruned(from, targets, counts, nil)
}

// mustReachPruned: as mustReach, but CFG edges whose branch fact satisfies prune are not followed
// (used for exits that are exempt under a stated condition, e.g. "the accumulator is empty").
func (fa *FuncAnalysis) mustReachPruned(from ssa.Instruction, targets []ssa.Instruction, counts func(*ssa.Return) bool, prune func(Guard) bool) []string {
	tset := map[ssa.Instruction]bool{}
	for _, t := range targets {
		tset[t] = true
	}
	// The search is path-sensitive in one respect: it remembers which error values were tested non-nil
	// on the way, so that `if err != nil || cond { return x, err }` is an error exit when entered through
	// the err != nil edge.
	type node struct {
		b      *ssa.BasicBlock
		start  int
		nonnil string
	}
	seen := map[string]bool{}
	type crumb struct {
		b    *ssa.BasicBlock
		prev *crumb
	}
	var bad *ssa.Return
	var badCrumb *crumb
	ei := errResultIndex(fa.Fn)
	var visit func(n node, c *crumb) bool
	visit = func(n node, c *crumb) bool {
		for i := n.start; i < len(n.b.Instrs); i++ {
			in := n.b.Instrs[i]
			if tset[in] {
				return false
			}
			if r, ok := in.(*ssa.Return); ok {
				if ei >= 0 && ei < len(r.Results) && n.nonnil != "" {
					if strings.Contains(n.nonnil, "\x00"+fa.Term(r.Results[ei]).String()+"\x00") {
						return false // returns an error known to be non-nil on this path
					}
				}
				if counts(r) {
					bad, badCrumb = r, c
					return true
				}
				return false
			}
			if _, ok := in.(*ssa.Panic); ok {
				return false
			}
		}
		for i, s := range n.b.Succs {
			nn := n.nonnil
			if g, ok := fa.EdgeFact(n.b, i); ok {
				if prune != nil && prune(g) {
					continue
				}
				if g.Cond.Op == "binop" && g.Cond.Args[1].Op == "const" && g.Cond.Args[1].Name == "nil" &&
					((g.Cond.Name == "!=" && g.Pos) || (g.Cond.Name == "==" && !g.Pos)) {
					if f := "\x00" + g.Cond.Args[0].String() + "\x00"; !strings.Contains(nn, f) {
						nn += f
					}
				}
			}
			key := strconv.Itoa(s.Index) + "|" + nn
			if seen[key] {
				continue
			}
			seen[key] = true
			if visit(node{s, 0, nn}, &crumb{s, c}) {
				return true
			}
		}
		return false
	}
	start := from.Block()
	if visit(node{start, fa.idx[from] + 1, ""}, nil) {
		var trail []string
		for c := badCrumb; c != nil; c = c.prev {
			trail = append([]string{blockLabel(fa, c.b)}, trail...)
		}
		trail = append([]string{blockLabel(fa, start) + " (from " + fa.e.InstrPos(from) + ")"}, trail...)
		trail = append(trail, "return at "+fa.e.InstrPos(bad))
		return trail
	}
	return nil
}

func blockLabel(fa *FuncAnalysis, b *ssa.BasicBlock) string {
	pos := "-"
	for _, in := range b.Instrs {
		if in.Pos().IsValid() {
			pos = fa.e.Pos(in.Pos())
			break
		}
	}
	return "b" + itoa(b.Index) + "[" + b.Comment + " " + pos + "]"
}

func itoa(i int) string { return strconv.Itoa(i) }

// Reaches: there is a CFG path from a to b (a before b).
func (fa *FuncAnalysis) Reaches(a, b ssa.Instruction) bool {
	if a.Block() == b.Block() && fa.idx[a] < fa.idx[b] {
		return true
	}
	seen := map[*ssa.BasicBlock]bool{}
	var dfs func(x *ssa.BasicBlock) bool
	dfs = func(x *ssa.BasicBlock) bool {
		for _, s := range x.Succs {
			if s == b.Block() {
				return true
			}
			if !seen[s] {
				seen[s] = true
				if dfs(s) {
					return true
				}
			}
		}
		return false
	}
	return dfs(a.Block())
}
