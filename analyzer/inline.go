package main

import (
	"bytes"
	"fmt"
	"go/ast"
	"go/format"
	"go/token"
	"go/types"
	"os"
	"sort"
	"strings"

	"golang.org/x/tools/go/packages"
)

// Helper inlining (source level, before SSA).
//
// The rules are anchored at the functions of the reviewed tree.  The most common behaviour-preserving edit that moves
// anchored code away is "extract these lines into a new unexported helper".  To stay silent on such edits the loader
// undoes them: every unexported function or method of the state-machine packages that does NOT exist in the reviewed
// tree (baselineFuncs) is inlined at its call sites, in an in-memory overlay of the source files, when that can be done
// by a purely mechanical, semantics-preserving rewrite:
//
//	x, err := k.helper(a, b)      =>      var inl1R0 T0; var inl1R1 error
//	                                      var inl1A0 Keeper = k; var inl1A1 TA = a; var inl1A2 TB = b
//	                                  inl1L:
//	                                      for {
//	                                          var k Keeper = inl1A0; var p TA = inl1A1; var q TB = inl1A2
//	                                          <body, each `return e0, e1` => { inl1R0, inl1R1 = e0, e1; break inl1L }>
//	                                          break inl1L
//	                                      }
//	                                      x, err := inl1R0, inl1R1
//
// Supported call contexts: assignment / definition with the call as the only right-hand side, expression statement,
// `return helper(...)`, and the init statement of a non-chained `if`.  Anything else (helper used as a value, called
// inside an expression, variadic, generic, with defer / go / recover / labels, recursive, or whose body mentions a
// package-level name that a local of the calling function shadows) leaves the helper alone - the rules then see the
// code as it is written, as before.  The rewritten program is type-checked like the original; if it does not
// type-check the loader falls back to the original.  The dead helper declarations stay in the files and are hidden from
// the rules (Engine.deadHelpers).  Positions in reports refer to the rewritten text for files that were rewritten.

// inlSeq numbers the inlined bodies of one Load (labels are function-scoped: the numbers must not repeat between rounds)
var inlSeq int

type inlHelper struct {
	closure  bool // a local function literal bound to a variable (inlineLocalClosures)
	key      string
	decl     *ast.FuncDecl
	file     *ast.File
	filename string
	obj      types.Object
	pkg      *packages.Package
	bad      string
}

type inlSite struct {
	h          *inlHelper
	call       *ast.CallExpr
	stmt       ast.Stmt // statement to rewrite (the if statement for an if-init site)
	inner      ast.Stmt // the assign / expr / return statement that contains the call
	file       *ast.File
	filename   string
	fn         *ast.FuncDecl
	next       ast.Stmt             // the statement that follows stmt in its list, if any
	replEnd    token.Pos            // set when the rewrite also consumes the following statement
	rest       []ast.Stmt           // the statements that follow stmt in its list
	siblings   *[]*inlSite          // all sites of the enclosing function (to keep consumed statements free of other sites)
	loopLabels map[token.Pos]string // labels given to enclosing loops by earlier rewrites of this file
	preEdits   *[]inlEdit           // extra insertions (loop labels) requested by the rewrite
	// imports added to the calling file by earlier rewrites (path -> name)
	addedImports map[string]string
	exprSite     bool // the call itself is replaced by the helper's single return expression
}

type inlEdit struct {
	at   token.Pos
	text string
}

func declKey(pkgPath string, fd *ast.FuncDecl) string {
	k := alias(pkgPath) + "."
	if fd.Recv != nil && len(fd.Recv.List) == 1 {
		t := fd.Recv.List[0].Type
		if s, ok := t.(*ast.StarExpr); ok {
			t = s.X
		}
		if ix, ok := t.(*ast.IndexExpr); ok {
			t = ix.X
		}
		if id, ok := t.(*ast.Ident); ok {
			k += id.Name + "."
		}
	}
	return k + fd.Name.Name
}

// simpleDefer: a statement of the helper's top-level list of the form `defer v.M()` or `defer v()` where v is a name
// that the body never assigns again and never takes the address of.  Such a defer runs when the helper returns, with the
// value v had at the defer statement: the inliner puts the rest of the body in a block of its own and the call behind
// it (every return of the rest leaves through the end of that block).  What is lost is the run of the deferred call
// while a panic unwinds; the state machine's panics abort the transaction and no rule here looks at that.
func simpleDefer(fd *ast.FuncDecl, d *ast.DeferStmt) bool {
	top := false
	for _, st := range fd.Body.List {
		if st == d {
			top = true
		}
	}
	if !top || len(d.Call.Args) != 0 {
		return false
	}
	var v *ast.Ident
	switch f := d.Call.Fun.(type) {
	case *ast.Ident:
		v = f
	case *ast.SelectorExpr:
		if id, ok := f.X.(*ast.Ident); ok {
			v = id
		}
	}
	if v == nil {
		return false
	}
	ok := true
	ast.Inspect(fd.Body, func(n ast.Node) bool {
		switch x := n.(type) {
		case *ast.AssignStmt:
			if x.Tok == token.DEFINE {
				// a redefinition in an inner scope is another variable; in the same scope `v, err := ..` may assign: be strict
				for _, l := range x.Lhs {
					if id, isId := l.(*ast.Ident); isId && id.Name == v.Name && x.Pos() > d.Pos() {
						ok = false
					}
				}
				return true
			}
			for _, l := range x.Lhs {
				if id, isId := l.(*ast.Ident); isId && id.Name == v.Name {
					ok = false
				}
			}
		case *ast.UnaryExpr:
			if id, isId := ast.Unparen(x.X).(*ast.Ident); isId && x.Op == token.AND && id.Name == v.Name {
				ok = false
			}
		case *ast.IncDecStmt:
			if id, isId := x.X.(*ast.Ident); isId && id.Name == v.Name {
				ok = false
			}
		case *ast.RangeStmt:
			for _, e := range []ast.Expr{x.Key, x.Value} {
				if id, isId := e.(*ast.Ident); isId && id.Name == v.Name {
					ok = false
				}
			}
		}
		return true
	})
	return ok
}

func inlinableDecl(fd *ast.FuncDecl) string {
	if fd.Body == nil {
		return "no body"
	}
	if fd.Type.TypeParams != nil && fd.Recv != nil {
		return "generic method"
	}
	if fd.Type.Params != nil {
		for _, f := range fd.Type.Params.List {
			if _, ok := f.Type.(*ast.Ellipsis); ok {
				return "variadic"
			}
		}
	}
	bad := ""
	ast.Inspect(fd.Body, func(n ast.Node) bool {
		switch x := n.(type) {
		case *ast.DeferStmt:
			if !simpleDefer(fd, x) {
				bad = "defer"
			}
		case *ast.GoStmt:
			bad = "go statement"
		case *ast.LabeledStmt:
			bad = "label"
		case *ast.BranchStmt:
			if x.Tok == token.GOTO {
				bad = "goto"
			}
		case *ast.CallExpr:
			if id, ok := x.Fun.(*ast.Ident); ok && id.Name == "recover" {
				bad = "recover"
			}
		}
		return bad == ""
	})
	return bad
}

// inlineNewHelpers returns an overlay (filename -> new content) in which new helpers are inlined, the keys of the
// helpers that were inlined, and notes about helpers that were left alone.
func inlineNewHelpers(pkgs []*packages.Package, src func(string) []byte) (map[string][]byte, []string, []string) {
	overlay := map[string][]byte{}
	var done, notes []string
	// new functions of all state-machine packages (a new exported function may be called from another package of the
	// module: code moved between layers)
	helpers := map[types.Object]*inlHelper{}
	for _, hp := range pkgs {
		if !smPkgs[hp.PkgPath] || hp.TypesInfo == nil {
			continue
		}
		for i, f := range hp.Syntax {
			if i >= len(hp.CompiledGoFiles) {
				continue
			}
			fname := hp.CompiledGoFiles[i]
			if strings.HasSuffix(fname, ".pb.go") || strings.HasSuffix(fname, ".pb.gw.go") {
				continue
			}
			for _, d := range f.Decls {
				fd, ok := d.(*ast.FuncDecl)
				if !ok || fd.Name.Name == "init" || fd.Name.Name == "_" {
					continue
				}
				key := declKey(hp.PkgPath, fd)
				if baselineFuncs[key] || funcRenames[key] != "" {
					continue
				}
				h := &inlHelper{key: key, decl: fd, file: f, filename: fname, obj: hp.TypesInfo.Defs[fd.Name], pkg: hp, bad: inlinableDecl(fd)}
				if h.obj != nil {
					helpers[h.obj] = h
				}
			}
		}
	}
	if len(helpers) == 0 {
		return overlay, done, notes
	}
	noted := map[*inlHelper]bool{}
	for _, p := range pkgs {
		if !smPkgs[p.PkgPath] || p.TypesInfo == nil {
			continue
		}
		info := p.TypesInfo
		// call sites
		var sites []*inlSite
		for i, f := range p.Syntax {
			if i >= len(p.CompiledGoFiles) {
				continue
			}
			fname := p.CompiledGoFiles[i]
			for _, d := range f.Decls {
				fd, ok := d.(*ast.FuncDecl)
				if !ok || fd.Body == nil {
					continue
				}
				findSites(info, helpers, f, fname, fd, &sites)
			}
			// references outside function bodies (package-level vars ...) make a helper non-inlinable
			for _, d := range f.Decls {
				if gd, ok := d.(*ast.GenDecl); ok {
					ast.Inspect(gd, func(n ast.Node) bool {
						if id, ok := n.(*ast.Ident); ok {
							if h := helpers[info.Uses[id]]; h != nil && h.bad == "" {
								h.bad = "referenced at package level"
							}
						}
						return true
					})
				}
			}
		}
		// recursion: a helper whose body calls a helper is handled in a later round (the caller of this function loops)
		for _, s := range sites {
			if s.h.bad != "" {
				continue
			}
			if hh := helpers[info.Defs[s.fn.Name]]; hh != nil && hh == s.h {
				s.h.bad = "recursive"
			}
		}
		bySite := map[string][]*inlSite{}
		used := map[*inlHelper]bool{}
		for _, s := range sites {
			if s.h.bad != "" {
				continue
			}
			// sites inside another new helper: that helper is inlined first in a later round
			if hh := helpers[info.Defs[s.fn.Name]]; hh != nil && hh.bad == "" {
				continue
			}
			bySite[s.filename] = append(bySite[s.filename], s)
			used[s.h] = true
		}
		for _, h := range helpers {
			if h.bad != "" && !noted[h] {
				noted[h] = true
				notes = append(notes, h.key+": not inlined ("+h.bad+")")
			}
		}
		for fname, ss := range bySite {
			text := src(fname)
			if text == nil {
				continue
			}
			// all replacements are generated from the original text, then applied bottom-up
			sitePos := func(x *inlSite) token.Pos {
				if x.exprSite {
					return x.call.Pos()
				}
				return x.stmt.Pos()
			}
			sort.Slice(ss, func(i, j int) bool { return sitePos(ss[i]) > sitePos(ss[j]) })
			okFile := true
			type fileEdit struct {
				a, b int
				text []byte
			}
			var edits []fileEdit
			loopLabels := map[token.Pos]string{}
			addedImports := map[string]string{}
			var pre []inlEdit
			for _, s := range ss {
				inlSeq++
				s.loopLabels, s.preEdits, s.addedImports = loopLabels, &pre, addedImports
				var repl []byte
				var err error
				if s.exprSite {
					repl, err = genExprInline(p, s, src)
				} else {
					repl, err = genInline(p, s, inlSeq, src)
				}
				if err != nil {
					notes = append(notes, s.h.key+": not inlined ("+err.Error()+")")
					s.h.bad = err.Error()
					okFile = false
					break
				}
				if s.exprSite {
					edits = append(edits, fileEdit{p.Fset.Position(s.call.Pos()).Offset, p.Fset.Position(s.call.End()).Offset, repl})
					continue
				}
				a, b := p.Fset.Position(s.stmt.Pos()).Offset, p.Fset.Position(s.stmt.End()).Offset
				if s.replEnd.IsValid() {
					b = p.Fset.Position(s.replEnd).Offset
				}
				if a < 0 || b > len(text) || a > b {
					okFile = false
					break
				}
				edits = append(edits, fileEdit{a, b, repl})
			}
			for _, pe := range pre {
				o := p.Fset.Position(pe.at).Offset
				edits = append(edits, fileEdit{o, o, []byte(pe.text)})
			}
			sort.SliceStable(edits, func(i, j int) bool { return edits[i].a > edits[j].a })
			for i := 1; i < len(edits) && okFile; i++ {
				// edits[i] lies before edits[i-1]: it must end before that one starts (a label insertion at the start of
				// a loop that contains a replaced statement is fine, an insertion inside a replaced range is not)
				if edits[i].b > edits[i-1].a {
					notes = append(notes, "overlapping rewrites in "+fname+": file left as written")
					okFile = false
				}
			}
			if okFile {
				for _, ed := range edits {
					text = append(append(append([]byte{}, text[:ed.a]...), ed.text...), text[ed.b:]...)
				}
			}
			if !okFile {
				continue
			}
			if out, err := format.Source(text); err == nil {
				text = out
			}
			overlay[fname] = text
		}
		for h := range used {
			if h.bad == "" {
				done = append(done, h.key)
			}
		}
	}
	// a helper that could not be inlined at some site stays callable there: its declaration is never removed, so a
	// partly inlined helper is still an equivalent program
	sort.Strings(done)
	sort.Strings(notes)
	return overlay, done, notes
}

func findSites(info *types.Info, helpers map[types.Object]*inlHelper, f *ast.File, fname string, fd *ast.FuncDecl, sites *[]*inlSite) {
	callOf := func(e ast.Expr) (*ast.CallExpr, *inlHelper) {
		c, ok := e.(*ast.CallExpr)
		if !ok {
			return nil, nil
		}
		var id *ast.Ident
		fun := c.Fun
		switch ix := fun.(type) { // explicit instantiation f[T](..)
		case *ast.IndexExpr:
			fun = ix.X
		case *ast.IndexListExpr:
			fun = ix.X
		}
		switch fx := fun.(type) {
		case *ast.Ident:
			id = fx
		case *ast.SelectorExpr:
			id = fx.Sel
		}
		if id == nil {
			return nil, nil
		}
		if h := helpers[info.Uses[id]]; h != nil {
			return c, h
		}
		return nil, nil
	}
	supported := map[*ast.CallExpr]bool{}
	// statement-level forms
	var visitList func(list []ast.Stmt)
	simple := func(st ast.Stmt) (*ast.CallExpr, *inlHelper) {
		switch x := st.(type) {
		case *ast.ExprStmt:
			return callOf(x.X)
		case *ast.AssignStmt:
			if len(x.Rhs) == 1 && (x.Tok == token.ASSIGN || x.Tok == token.DEFINE) {
				return callOf(x.Rhs[0])
			}
		case *ast.ReturnStmt:
			if len(x.Results) == 1 {
				return callOf(x.Results[0])
			}
			// `return &Resp{}, h(..)`: one helper call among results that are otherwise free of calls and effects (the
			// call is then evaluated before them, which cannot be observed)
			var hit *ast.CallExpr
			var hh *inlHelper
			for _, r := range x.Results {
				if c, h := callOf(r); c != nil {
					if hit != nil {
						return nil, nil
					}
					hit, hh = c, h
					continue
				}
				if !pureExpr(r) {
					return nil, nil
				}
			}
			if hit != nil {
				if sg, ok := hh.obj.Type().(*types.Signature); ok && sg.Results().Len() == 1 {
					return hit, hh
				}
			}
		}
		return nil, nil
	}
	visitList = func(list []ast.Stmt) {
		for li, st := range list {
			var next ast.Stmt
			if li+1 < len(list) {
				next = list[li+1]
			}
			if c, h := simple(st); c != nil {
				supported[c] = true
				*sites = append(*sites, &inlSite{h: h, call: c, stmt: st, inner: st, file: f, filename: fname, fn: fd, next: next, rest: list[li+1:], siblings: sites})
			}
			if iff, ok := st.(*ast.IfStmt); ok && iff.Init != nil {
				if c, h := simple(iff.Init); c != nil {
					supported[c] = true
					*sites = append(*sites, &inlSite{h: h, call: c, stmt: iff, inner: iff.Init, file: f, filename: fname, fn: fd})
				}
			}
		}
	}
	ast.Inspect(fd.Body, func(n ast.Node) bool {
		switch x := n.(type) {
		case *ast.BlockStmt:
			visitList(x.List)
		case *ast.CaseClause:
			visitList(x.Body)
		case *ast.CommClause:
			visitList(x.Body)
		}
		return true
	})
	// every other reference to a helper makes it non-inlinable
	ast.Inspect(fd.Body, func(n ast.Node) bool {
		if c, ok := n.(*ast.CallExpr); ok {
			if cc, h := callOf(c); cc != nil && !supported[c] && h.bad == "" {
				if exprHelperBody(h.decl) != nil {
					supported[c] = true
					*sites = append(*sites, &inlSite{h: h, call: c, file: f, filename: fname, fn: fd, exprSite: true})
				} else {
					h.bad = "called inside an expression or an unsupported statement"
				}
			}
			return true
		}
		return true
	})
	called := map[*ast.Ident]bool{}
	ast.Inspect(fd.Body, func(n ast.Node) bool {
		if c, ok := n.(*ast.CallExpr); ok {
			fun := c.Fun
			switch ix := fun.(type) {
			case *ast.IndexExpr:
				fun = ix.X
			case *ast.IndexListExpr:
				fun = ix.X
			}
			switch fx := fun.(type) {
			case *ast.Ident:
				called[fx] = true
			case *ast.SelectorExpr:
				called[fx.Sel] = true
			}
		}
		return true
	})
	ast.Inspect(fd.Body, func(n ast.Node) bool {
		if id, ok := n.(*ast.Ident); ok && !called[id] {
			if h := helpers[info.Uses[id]]; h != nil && h.bad == "" && !h.closure {
				h.bad = "used as a value"
			}
		}
		return true
	})
}

func genInline(p *packages.Package, s *inlSite, n int, src func(string) []byte) ([]byte, error) {
	cinfo := p.TypesInfo
	fset := p.Fset
	h := s.h
	hinfo := cinfo
	if h.pkg != nil && h.pkg.TypesInfo != nil {
		hinfo = h.pkg.TypesInfo
	}
	hscope := p.Types.Scope()
	if h.pkg != nil && h.pkg.Types != nil {
		hscope = h.pkg.Types.Scope()
	}
	crossPkg := h.pkg != nil && h.pkg != p
	// an identifier belongs to the syntax of exactly one package: look it up in both
	usesOf := func(id *ast.Ident) types.Object {
		if o := cinfo.Uses[id]; o != nil {
			return o
		}
		return hinfo.Uses[id]
	}
	defsOf := func(id *ast.Ident) types.Object {
		if o := cinfo.Defs[id]; o != nil {
			return o
		}
		return hinfo.Defs[id]
	}
	sig, ok := h.obj.Type().(*types.Signature)
	if !ok {
		return nil, fmt.Errorf("no signature")
	}
	// a generic helper: the call's instance gives the parameter and result types, and the type arguments that
	// replace the type parameters in the body
	typeArgs := map[types.Object]types.Type{}
	if sig.TypeParams() != nil && sig.TypeParams().Len() > 0 {
		fun := s.call.Fun
		switch ix := fun.(type) {
		case *ast.IndexExpr:
			fun = ix.X
		case *ast.IndexListExpr:
			fun = ix.X
		}
		var cid *ast.Ident
		switch fx := fun.(type) {
		case *ast.Ident:
			cid = fx
		case *ast.SelectorExpr:
			cid = fx.Sel
		}
		inst, okInst := cinfo.Instances[cid]
		if cid == nil || !okInst || inst.TypeArgs == nil || inst.TypeArgs.Len() != sig.TypeParams().Len() {
			return nil, fmt.Errorf("instance of the generic helper not resolved")
		}
		for i := 0; i < sig.TypeParams().Len(); i++ {
			typeArgs[sig.TypeParams().At(i).Obj()] = inst.TypeArgs.At(i)
		}
		isig, okSig := inst.Type.(*types.Signature)
		if !okSig {
			return nil, fmt.Errorf("instance of the generic helper has no signature")
		}
		sig = isig
	}
	hsrc, csrc := src(h.filename), src(s.filename)
	if hsrc == nil || csrc == nil {
		return nil, fmt.Errorf("source not available")
	}
	off := func(pos token.Pos) int { return fset.Position(pos).Offset }
	textOf := func(b []byte, a, e token.Pos) string { return string(b[off(a):off(e)]) }
	// type printing in the caller's file
	imports := map[string]string{}
	for _, im := range s.file.Imports {
		path := strings.Trim(im.Path.Value, "\"")
		name := ""
		if im.Name != nil {
			name = im.Name.Name
		} else if ip := p.Imports[path]; ip != nil {
			name = ip.Name
		}
		if name != "" && name != "_" && name != "." {
			imports[path] = name
		}
	}
	qualFail := ""
	qual := func(pk *types.Package) string {
		if pk == p.Types {
			return ""
		}
		if nme, ok := imports[pk.Path()]; ok {
			return nme
		}
		// a type of a package the calling file does not import: import it there under a fresh name
		if s.addedImports != nil && s.preEdits != nil {
			want := s.addedImports[pk.Path()]
			if want == "" {
				want = fmt.Sprintf("inlimp%d", len(s.addedImports)+1)
				s.addedImports[pk.Path()] = want
				*s.preEdits = append(*s.preEdits, inlEdit{s.file.Name.End(), "\nimport " + want + " \"" + pk.Path() + "\"\n"})
			}
			return want
		}
		qualFail = pk.Path()
		return pk.Name()
	}
	ts := func(t types.Type) string { return types.TypeString(t, qual) }

	// free identifiers of the helper body must not be shadowed by locals of the calling function
	locals := map[string]bool{}
	ast.Inspect(s.fn, func(nd ast.Node) bool {
		if id, ok := nd.(*ast.Ident); ok {
			if o := defsOf(id); o != nil && o.Parent() != p.Types.Scope() {
				locals[id.Name] = true
			}
		}
		return true
	})
	conflict := ""
	ast.Inspect(h.decl.Body, func(nd ast.Node) bool {
		if id, ok := nd.(*ast.Ident); ok {
			if o := usesOf(id); o != nil {
				par := o.Parent()
				if _, isPkg := o.(*types.PkgName); isPkg || par == hscope || par == types.Universe {
					if locals[id.Name] && !(crossPkg && par == hscope) {
						conflict = id.Name
					}
				}
			}
		}
		return true
	})
	if conflict != "" {
		return nil, fmt.Errorf("name %q of the helper body is shadowed in the calling function", conflict)
	}

	pre := fmt.Sprintf("inl%d", n)
	var b bytes.Buffer
	nres := sig.Results().Len()

	// How a `return es` of the helper is rewritten depends on what the call site does with the results.  When the
	// site hands them straight to an error handler that leaves the function, the handler is replicated at every
	// return of the helper, so that error paths leave directly instead of meeting the success paths at a join
	// (which is what the code looked like before the helper was extracted):
	//   direct   `return h(..)`                              return es               -> return es
	//   handler  `if LHS := h(..); COND { ..; return }`      return es               -> if LHS := es; COND { ..; return }
	//   assign   `LHS = h(..)` followed by `if X != nil {..; return }`  return es    -> LHS = es; if X != nil { ..; return }
	//   temps    everything else: result temporaries, read after the inlined body
	terminating := func(blk *ast.BlockStmt) bool {
		if blk == nil || len(blk.List) == 0 {
			return false
		}
		// the block is replicated inside the inlined body, where break/continue/goto would bind differently
		branches := false
		ast.Inspect(blk, func(nd ast.Node) bool {
			if _, ok := nd.(*ast.BranchStmt); ok {
				branches = true
			}
			return true
		})
		if branches {
			return false
		}
		switch x := blk.List[len(blk.List)-1].(type) {
		case *ast.ReturnStmt:
			return true
		case *ast.ExprStmt:
			if c, ok := x.X.(*ast.CallExpr); ok {
				if id, ok := c.Fun.(*ast.Ident); ok && id.Name == "panic" {
					return true
				}
			}
		}
		return false
	}
	mode := "temps"
	// retFmt gives the text that replaces `return es`; parts are the individual result expressions when the return
	// lists them one by one (nil otherwise), exprs the corresponding syntax
	var retFmt func(es string, parts []string, exprs []ast.Expr) string
	var predecl string
	// names used by the replicated handler: helper locals of the same name are renamed
	handlerNames := map[string]bool{}
	noteNames := func(nodes ...ast.Node) {
		for _, nd := range nodes {
			if nd == nil {
				continue
			}
			ast.Inspect(nd, func(x ast.Node) bool {
				if id, ok := x.(*ast.Ident); ok && id.Name != "_" {
					handlerNames[id.Name] = true
				}
				return true
			})
		}
	}
	// testedNil: cond is `X != nil` for an identifier X
	testedOf := func(cond ast.Expr) *ast.Ident {
		be, ok := cond.(*ast.BinaryExpr)
		if !ok || be.Op != token.NEQ {
			return nil
		}
		if id, ok := be.X.(*ast.Ident); ok {
			if nl, ok := be.Y.(*ast.Ident); ok && nl.Name == "nil" && usesOf(nl) == types.Universe.Lookup("nil") {
				return id
			}
		}
		return nil
	}
	// nilClassOf: "nil" for the literal nil, "nonnil" for error constructors and registered sentinel errors (the same
	// policy as provablyNonNil applies to values), "" otherwise
	var guardedNonNil func(e ast.Expr) bool
	nilClassOf := func(e ast.Expr) string {
		e = ast.Unparen(e)
		if guardedNonNil != nil && guardedNonNil(e) {
			return "nonnil"
		}
		switch x := e.(type) {
		case *ast.Ident:
			if x.Name == "nil" && usesOf(x) == types.Universe.Lookup("nil") {
				return "nil"
			}
			if v, ok := usesOf(x).(*types.Var); ok && v.Parent() == v.Pkg().Scope() && strings.HasPrefix(v.Name(), "Err") {
				return "nonnil"
			}
		case *ast.SelectorExpr:
			if v, ok := usesOf(x.Sel).(*types.Var); ok && v.Pkg() != nil && v.Parent() == v.Pkg().Scope() && strings.HasPrefix(v.Name(), "Err") {
				return "nonnil"
			}
		case *ast.CallExpr:
			var fo types.Object
			switch f := ast.Unparen(x.Fun).(type) {
			case *ast.Ident:
				fo = usesOf(f)
			case *ast.SelectorExpr:
				fo = usesOf(f.Sel)
			}
			if fn, ok := fo.(*types.Func); ok && fn.Pkg() != nil {
				switch fn.Pkg().Path() + "." + fn.Name() {
				case "fmt.Errorf", "errors.New", "google.golang.org/grpc/status.Errorf", "google.golang.org/grpc/status.Error",
					"cosmossdk.io/errors.Wrap", "cosmossdk.io/errors.Wrapf", "cosmossdk.io/errors.Register":
					return "nonnil"
				}
			}
		}
		return ""
	}
	typedParts := func(parts []string, exprs []ast.Expr) string {
		// an untyped nil cannot initialise a new variable: give it the result type
		out := make([]string, len(parts))
		for i, pt := range parts {
			out[i] = pt
			if nilClassOf(exprs[i]) == "nil" {
				out[i] = "(" + ts(sig.Results().At(i).Type()) + ")(nil)"
			}
		}
		return strings.Join(out, ", ")
	}
	blanks := func(n int) string { return strings.TrimSuffix(strings.Repeat("_, ", n), ", ") }
	// defers of the helper (all of the simpleDefer form): results go through temporaries, see below
	var defers []*ast.DeferStmt
	for _, st := range h.decl.Body.List {
		if d, ok := st.(*ast.DeferStmt); ok {
			defers = append(defers, d)
		}
	}
	modeStmt := s.stmt
	if len(defers) > 0 {
		modeStmt = nil
	}
	switch st := modeStmt.(type) {
	case *ast.ReturnStmt:
		if s.stmt == s.inner && nres > 0 {
			if len(st.Results) == 1 {
				mode = "direct"
				retFmt = func(es string, _ []string, _ []ast.Expr) string { return "return " + es }
			} else if nres == 1 {
				// `return X, h(..)`: the other results are free of calls and effects (findSites), they are written out
				// next to the helper's result at each of its returns
				var before, after []string
				seen := false
				for _, r := range st.Results {
					if ast.Unparen(r) == ast.Expr(s.call) {
						seen = true
						continue
					}
					t := textOf(csrc, r.Pos(), r.End())
					if seen {
						after = append(after, t)
					} else {
						before = append(before, t)
					}
				}
				if seen {
					for _, r := range st.Results {
						noteNames(r)
					}
					mode = "direct"
					retFmt = func(es string, _ []string, _ []ast.Expr) string {
						return "return " + strings.Join(append(append(append([]string{}, before...), es), after...), ", ")
					}
				}
			}
		}
	case *ast.IfStmt:
		if as, ok := s.inner.(*ast.AssignStmt); ok && (as.Tok == token.DEFINE || as.Tok == token.ASSIGN) && st.Else == nil && terminating(st.Body) && nres > 0 && len(as.Lhs) == nres {
			isAssign := as.Tok == token.ASSIGN
			op := " := "
			if isAssign {
				op = " = "
			}
			lhsOK := true
			var lhsNames []string
			for _, l := range as.Lhs {
				id, ok := l.(*ast.Ident)
				if !ok {
					lhsOK = false
					break
				}
				lhsNames = append(lhsNames, id.Name)
			}
			if lhsOK {
				noteNames(st.Body, st.Cond)
				if isAssign {
					// the assigned variables belong to the caller: helper locals of the same name are renamed
					for _, nm := range lhsNames {
						handlerNames[nm] = true
					}
				}
				lhs := strings.Join(lhsNames, ", ")
				cond := textOf(csrc, st.Cond.Pos(), st.Cond.End())
				body := textOf(csrc, st.Body.Pos(), st.Body.End())
				ti := -1
				if t := testedOf(st.Cond); t != nil {
					for i, nm := range lhsNames {
						if nm == t.Name {
							ti = i
						}
					}
				}
				mode = "handler"
				retFmt = func(es string, parts []string, exprs []ast.Expr) string {
					if parts != nil && ti >= 0 {
						switch nilClassOf(exprs[ti]) {
						case "nil":
							if isAssign {
								return "{ " + lhs + " = " + typedParts(parts, exprs) + "; break " + pre + "L }"
							}
							return "{ " + blanks(nres) + " = " + typedParts(parts, exprs) + "; break " + pre + "L }"
						case "nonnil":
							use := ""
							for _, nm := range lhsNames {
								if nm != "_" {
									use += "_ = " + nm + "; "
								}
							}
							return "{ " + lhs + op + typedParts(parts, exprs) + "; " + use + body + " }"
						}
					}
					if parts != nil {
						es = typedParts(parts, exprs)
					}
					return "{ if " + lhs + op + es + "; " + cond + " " + body + "\nbreak " + pre + "L }"
				}
			}
		}
	case *ast.AssignStmt:
		if rt, ok := s.next.(*ast.ReturnStmt); ok && s.stmt == s.inner && nres > 0 && len(st.Lhs) == nres && st.Tok == token.ASSIGN {
			// `LHS = h(..)` followed by `return E`: every return of the helper assigns and returns; `X != nil` /
			// `X == nil` on an assigned X is folded when the returned value is known to be nil or not
			lhsOK := true
			var lhsNames []string
			for _, l := range st.Lhs {
				id, ok := l.(*ast.Ident)
				if !ok {
					lhsOK = false
					break
				}
				lhsNames = append(lhsNames, id.Name)
			}
			hasCall := false
			ast.Inspect(rt, func(nd ast.Node) bool {
				switch nd.(type) {
				case *ast.CallExpr, *ast.FuncLit:
					hasCall = true
				}
				return true
			})
			if lhsOK && !hasCall {
				noteNames(rt)
				for _, nm := range lhsNames {
					handlerNames[nm] = true
				}
				lhs := strings.Join(lhsNames, ", ")
				retText := textOf(csrc, rt.Pos(), rt.End())
				// single result `X != nil` / `X == nil`
				ti, isNeq := -1, false
				if len(rt.Results) == 1 {
					if be, ok := ast.Unparen(rt.Results[0]).(*ast.BinaryExpr); ok && (be.Op == token.NEQ || be.Op == token.EQL) {
						if id, ok := be.X.(*ast.Ident); ok {
							if nl, ok := be.Y.(*ast.Ident); ok && nl.Name == "nil" && usesOf(nl) == types.Universe.Lookup("nil") {
								for i, nm := range lhsNames {
									if nm == id.Name && nm != "_" {
										ti, isNeq = i, be.Op == token.NEQ
									}
								}
							}
						}
					}
				}
				mode = "assignret"
				s.replEnd = rt.End()
				retFmt = func(es string, parts []string, exprs []ast.Expr) string {
					if parts != nil && ti >= 0 {
						switch nilClassOf(exprs[ti]) {
						case "nil":
							return fmt.Sprintf("{ %s = %s; return %v }", lhs, es, !isNeq)
						case "nonnil":
							return fmt.Sprintf("{ %s = %s; return %v }", lhs, es, isNeq)
						}
					}
					return "{ " + lhs + " = " + es + "; " + retText + " }"
				}
			}
		}
		if mode == "temps" && s.stmt == s.inner && nres > 0 && len(st.Lhs) == nres {
			// `LHS = h(..)` followed by guard statements `if <test of an LHS variable> { ..; return | continue | panic }`:
			// the guards are replicated at every return of the helper (and removed after the call), so that each path of
			// the helper goes where the caller sends it, as it did before the lines were extracted.  Tests of values
			// that the helper returns as literals (nil, an error constructor, true, false) are folded.
			lhsOK := true
			var decl bytes.Buffer
			var lhsNames []string
			lhsIdx := map[string]int{}
			for i, l := range st.Lhs {
				id, ok := l.(*ast.Ident)
				if !ok {
					lhsOK = false
					break
				}
				lhsNames = append(lhsNames, id.Name)
				if id.Name != "_" {
					lhsIdx[id.Name] = i
				}
				if st.Tok == token.DEFINE && id.Name != "_" && defsOf(id) != nil {
					fmt.Fprintf(&decl, "var %s %s\n_ = %s\n", id.Name, ts(sig.Results().At(i).Type()), id.Name)
				}
			}
			type follower struct {
				iff  *ast.IfStmt
				idx  int    // index of the tested LHS variable
				kind string // "nonnil" (X != nil), "nil" (X == nil), "true" (X), "false" (!X)
				body string
				cond string
			}
			var fols []follower
			// the enclosing loop of the call site, for `continue`
			var loop ast.Stmt
			var loopLabel string
			{
				var stack []ast.Node
				ast.Inspect(s.fn.Body, func(nd ast.Node) bool {
					if nd == nil {
						stack = stack[:len(stack)-1]
						return true
					}
					if nd == ast.Node(s.stmt) {
						for i := len(stack) - 1; i >= 0; i-- {
							switch x := stack[i].(type) {
							case *ast.ForStmt, *ast.RangeStmt:
								if loop == nil {
									loop = x.(ast.Stmt)
									if i > 0 {
										if ls, ok := stack[i-1].(*ast.LabeledStmt); ok {
											loopLabel = ls.Label.Name
										}
									}
								}
							case *ast.FuncLit:
								if loop == nil {
									i = -1 // a loop outside the closure is not the target of its continue statements
								}
							case *ast.SwitchStmt, *ast.TypeSwitchStmt, *ast.SelectStmt:
								// continue still binds to the loop; nothing to do
							}
						}
					}
					stack = append(stack, nd)
					return true
				})
			}
			needLabel := false
			if lhsOK {
				for _, fs := range s.rest {
					iff, ok := fs.(*ast.IfStmt)
					if !ok || iff.Init != nil || iff.Else != nil || len(iff.Body.List) == 0 {
						break
					}
					// the test
					f := follower{iff: iff, idx: -1}
					cond := ast.Unparen(iff.Cond)
					switch c := cond.(type) {
					case *ast.BinaryExpr:
						if id, ok := c.X.(*ast.Ident); ok && (c.Op == token.NEQ || c.Op == token.EQL) {
							if nl, ok := c.Y.(*ast.Ident); ok && nl.Name == "nil" && usesOf(nl) == types.Universe.Lookup("nil") {
								if i, ok := lhsIdx[id.Name]; ok {
									f.idx = i
									f.kind = map[token.Token]string{token.NEQ: "nonnil", token.EQL: "nil"}[c.Op]
								}
							}
						}
					case *ast.Ident:
						if i, ok := lhsIdx[c.Name]; ok {
							f.idx, f.kind = i, "true"
						}
					case *ast.UnaryExpr:
						if id, ok := ast.Unparen(c.X).(*ast.Ident); ok && c.Op == token.NOT {
							if i, ok := lhsIdx[id.Name]; ok {
								f.idx, f.kind = i, "false"
							}
						}
					}
					if f.idx < 0 {
						break
					}
					// the body: ends in return / panic / continue, contains no other jump, no closure and no call site
					// of a helper that is being inlined
					okBody := true
					usesContinue := false
					var conts []*ast.BranchStmt
					ast.Inspect(iff.Body, func(nd ast.Node) bool {
						switch x := nd.(type) {
						case *ast.BranchStmt:
							if x.Tok == token.CONTINUE && x.Label == nil && loop != nil {
								usesContinue = true
								conts = append(conts, x)
							} else {
								okBody = false
							}
						case *ast.FuncLit, *ast.LabeledStmt, *ast.ForStmt, *ast.RangeStmt:
							okBody = false
						}
						return true
					})
					switch last := iff.Body.List[len(iff.Body.List)-1].(type) {
					case *ast.ReturnStmt:
					case *ast.BranchStmt:
						if last.Tok != token.CONTINUE {
							okBody = false
						}
					case *ast.ExprStmt:
						c, ok := last.X.(*ast.CallExpr)
						id, ok2 := ast.Unparen(func() ast.Expr {
							if ok {
								return c.Fun
							}
							return last.X
						}()).(*ast.Ident)
						if !ok || !ok2 || id.Name != "panic" {
							okBody = false
						}
					default:
						okBody = false
					}
					if s.siblings != nil {
						for _, o := range *s.siblings {
							if o != s && o.filename == s.filename && o.call.Pos() >= iff.Pos() && o.call.End() <= iff.End() {
								okBody = false
							}
						}
					}
					if !okBody {
						break
					}
					// body text, with `continue` bound to the caller's loop by label
					bt := []byte(textOf(csrc, iff.Body.Pos(), iff.Body.End()))
					if usesContinue {
						needLabel = true
						lab := loopLabel
						if lab == "" {
							lab = s.loopLabels[loop.Pos()]
						}
						if lab == "" {
							lab = fmt.Sprintf("inlLoop%d", off(loop.Pos()))
						}
						sort.Slice(conts, func(i, j int) bool { return conts[i].Pos() > conts[j].Pos() })
						for _, c := range conts {
							o := off(c.End()) - off(iff.Body.Pos())
							bt = append(append(append([]byte{}, bt[:o]...), []byte(" "+lab)...), bt[o:]...)
						}
					}
					f.body = string(bt)
					f.cond = textOf(csrc, iff.Cond.Pos(), iff.Cond.End())
					fols = append(fols, f)
				}
			}
			if lhsOK && len(fols) > 0 {
				if needLabel && loopLabel == "" {
					if s.loopLabels[loop.Pos()] == "" {
						lab := fmt.Sprintf("inlLoop%d", off(loop.Pos()))
						s.loopLabels[loop.Pos()] = lab
						*s.preEdits = append(*s.preEdits, inlEdit{loop.Pos(), lab + ":\n"})
					}
				}
				for _, f := range fols {
					noteNames(f.iff.Body)
				}
				for _, nm := range lhsNames {
					handlerNames[nm] = true
				}
				lhs := strings.Join(lhsNames, ", ")
				mode = "assign"
				predecl = decl.String()
				s.replEnd = fols[len(fols)-1].iff.End()
				boolLit := func(e ast.Expr) string {
					if id, ok := ast.Unparen(e).(*ast.Ident); ok && (id.Name == "true" || id.Name == "false") {
						if _, isConst := usesOf(id).(*types.Const); isConst && usesOf(id).Parent() == types.Universe {
							return id.Name
						}
					}
					return ""
				}
				retFmt = func(es string, parts []string, exprs []ast.Expr) string {
					var sb strings.Builder
					sb.WriteString("{ " + lhs + " = " + es + "\n")
					for _, f := range fols {
						verdict := "" // "taken", "skipped" or unknown
						if parts != nil {
							switch f.kind {
							case "nonnil", "nil":
								if c := nilClassOf(exprs[f.idx]); c != "" {
									verdict = map[bool]string{true: "taken", false: "skipped"}[c == f.kind]
								}
							case "true", "false":
								if c := boolLit(exprs[f.idx]); c != "" {
									verdict = map[bool]string{true: "taken", false: "skipped"}[c == f.kind]
								}
							}
						}
						switch verdict {
						case "skipped":
							continue
						case "taken":
							sb.WriteString(f.body + "\n}")
							return sb.String()
						}
						sb.WriteString("if " + f.cond + " " + f.body + "\n")
					}
					sb.WriteString("break " + pre + "L }")
					return sb.String()
				}
			}
		}
	}
	// a function-typed argument (a callback literal, or a variable bound to one) will be called from the inlined body:
	// its captured variables must not be shadowed there, so every name the helper declares is renamed
	if !h.closure {
		for _, a := range s.call.Args {
			if t := cinfo.TypeOf(a); t != nil {
				if _, isFn := t.Underlying().(*types.Signature); isFn {
					if _, isNil := ast.Unparen(a).(*ast.Ident); isNil && cinfo.Types[a].IsNil() {
						continue
					}
					noteNames(h.decl)
					break
				}
			}
		}
	}
	// helper-local objects whose names the replicated handler uses are renamed
	rename := map[types.Object]string{}
	ast.Inspect(h.decl, func(nd ast.Node) bool {
		if id, ok := nd.(*ast.Ident); ok {
			if o := defsOf(id); o != nil && handlerNames[id.Name] && o != h.obj {
				rename[o] = pre + "_" + id.Name
			}
		}
		return true
	})
	type rep struct {
		a, e int
		text string
	}
	var idReps []rep
	var crossErr error
	ast.Inspect(h.decl.Body, func(nd ast.Node) bool {
		if id, ok := nd.(*ast.Ident); ok {
			o := defsOf(id)
			if o == nil {
				o = usesOf(id)
			}
			if pn, isPkg := o.(*types.PkgName); isPkg && h.filename != s.filename {
				// a package referred to under the helper file's import name: use the calling file's name for it, or
				// import it there under a fresh name
				path := pn.Imported().Path()
				want, okImp := imports[path]
				if !okImp {
					want = s.addedImports[path]
					if want == "" {
						want = fmt.Sprintf("inlimp%d", len(s.addedImports)+1)
						s.addedImports[path] = want
						*s.preEdits = append(*s.preEdits, inlEdit{s.file.Name.End(), "\nimport " + want + " \"" + path + "\"\n"})
					}
				}
				if want != id.Name {
					idReps = append(idReps, rep{off(id.Pos()), off(id.End()), want})
				}
				return true
			}
			if ta, isTP := typeArgs[o]; isTP && o != nil && defsOf(id) == nil {
				idReps = append(idReps, rep{off(id.Pos()), off(id.End()), "(" + ts(ta) + ")"})
				return true
			}
			if crossPkg && o != nil && o.Parent() == hscope && defsOf(id) == nil {
				// a package-level name of the helper's package, used from another package: it must be exported and is
				// written with the calling file's name for that package
				if !o.Exported() {
					crossErr = fmt.Errorf("the helper uses the unexported %s of its package", o.Name())
					return true
				}
				path := h.pkg.PkgPath
				want, okImp := imports[path]
				if !okImp {
					want = s.addedImports[path]
					if want == "" {
						want = fmt.Sprintf("inlimp%d", len(s.addedImports)+1)
						s.addedImports[path] = want
						*s.preEdits = append(*s.preEdits, inlEdit{s.file.Name.End(), "\nimport " + want + " \"" + path + "\"\n"})
					}
				}
				if locals[want] {
					crossErr = fmt.Errorf("package name %q is shadowed in the calling function", want)
				}
				idReps = append(idReps, rep{off(id.Pos()), off(id.End()), want + "." + id.Name})
				return true
			}
			if nn, ok := rename[o]; ok && o != nil {
				idReps = append(idReps, rep{off(id.Pos()), off(id.End()), nn})
			}
		}
		return true
	})
	if crossErr != nil {
		return nil, crossErr
	}
	sort.Slice(idReps, func(i, j int) bool { return idReps[i].a > idReps[j].a })
	// hText: helper source text of [a, e) with the renames applied
	hText := func(a, e token.Pos) string {
		oa, oe := off(a), off(e)
		t := append([]byte{}, hsrc[oa:oe]...)
		for _, r := range idReps { // descending offsets
			if r.a >= oa && r.e <= oe {
				t = append(append(append([]byte{}, t[:r.a-oa]...), []byte(r.text)...), t[r.e-oa:]...)
			}
		}
		return string(t)
	}
	renamed := func(name string, o types.Object) string {
		if nn, ok := rename[o]; ok {
			return nn
		}
		return name
	}
	b.WriteString(predecl)
	var rnames []string
	for i := 0; i < nres; i++ {
		rn := fmt.Sprintf("%sR%d", pre, i)
		rnames = append(rnames, rn)
		if mode == "temps" {
			fmt.Fprintf(&b, "var %s %s\n_ = %s\n", rn, ts(sig.Results().At(i).Type()), rn)
		}
	}
	// receiver and arguments, evaluated once, in order
	type bind struct{ name, typ, tmp string }
	var binds []bind
	if sig.Recv() != nil {
		sel, ok := s.call.Fun.(*ast.SelectorExpr)
		if !ok {
			return nil, fmt.Errorf("method called without a selector")
		}
		rt := sig.Recv().Type()
		expr := textOf(csrc, sel.X.Pos(), sel.X.End())
		et := cinfo.TypeOf(sel.X)
		// a method promoted through embedded fields (`m.helper()` with m a MsgServer that embeds Keeper): spell the
		// path of embedded fields out
		if selection := cinfo.Selections[sel]; selection != nil && len(selection.Index()) > 1 {
			cur := et
			for _, fi := range selection.Index()[:len(selection.Index())-1] {
				if pt, ok := cur.Underlying().(*types.Pointer); ok {
					cur = pt.Elem()
				}
				st, ok := cur.Underlying().(*types.Struct)
				if !ok || fi >= st.NumFields() {
					return nil, fmt.Errorf("embedded receiver path not resolved")
				}
				expr = "(" + expr + ")." + st.Field(fi).Name()
				cur = st.Field(fi).Type()
			}
			et = cur
		}
		_, rp := rt.(*types.Pointer)
		_, ep := et.(*types.Pointer)
		switch {
		case rp && !ep:
			expr = "&(" + expr + ")"
		case !rp && ep:
			expr = "*(" + expr + ")"
		}
		name := "_"
		if len(h.decl.Recv.List) == 1 && len(h.decl.Recv.List[0].Names) == 1 {
			rid := h.decl.Recv.List[0].Names[0]
			name = renamed(rid.Name, defsOf(rid))
		}
		tmp := pre + "A0"
		fmt.Fprintf(&b, "var %s %s = %s\n_ = %s\n", tmp, ts(rt), expr, tmp)
		binds = append(binds, bind{name, ts(rt), tmp})
	}
	var pnames []string
	if h.decl.Type.Params != nil {
		for _, f := range h.decl.Type.Params.List {
			if len(f.Names) == 0 {
				pnames = append(pnames, "_")
			}
			for _, nm := range f.Names {
				pnames = append(pnames, renamed(nm.Name, defsOf(nm)))
			}
		}
	}
	if len(pnames) != sig.Params().Len() || len(s.call.Args) != sig.Params().Len() {
		return nil, fmt.Errorf("argument count")
	}
	for i, a := range s.call.Args {
		tmp := fmt.Sprintf("%sA%d", pre, i+1)
		t := ts(sig.Params().At(i).Type())
		fmt.Fprintf(&b, "var %s %s = %s\n_ = %s\n", tmp, t, textOf(csrc, a.Pos(), a.End()), tmp)
		binds = append(binds, bind{pnames[i], t, tmp})
	}
	if mode == "direct" || mode == "assignret" {
		b.WriteString("{\n")
	} else {
		fmt.Fprintf(&b, "%sL:\nfor {\n", pre)
	}
	for _, bd := range binds {
		if bd.name == "_" {
			continue
		}
		fmt.Fprintf(&b, "var %s %s = %s\n_ = %s\n", bd.name, bd.typ, bd.tmp, bd.name)
	}
	// named results become locals of the inlined body
	var named []string
	if h.decl.Type.Results != nil {
		for _, f := range h.decl.Type.Results.List {
			for _, nm := range f.Names {
				named = append(named, renamed(nm.Name, defsOf(nm)))
			}
		}
	}
	if len(named) > 0 && len(named) != nres {
		return nil, fmt.Errorf("partly named results")
	}
	for i, nm := range named {
		if nm == "_" {
			named[i] = fmt.Sprintf("%sN%d", pre, i)
			nm = named[i]
		}
		fmt.Fprintf(&b, "var %s %s\n_ = %s\n", nm, ts(sig.Results().At(i).Type()), nm)
	}
	// body with returns rewritten (returns inside function literals belong to the literal)
	var reps []rep
	var bad string
	var walk func(nd ast.Node) bool
	var stack []ast.Node
	// guardedNonNil: the return sits in the then-branch of `if X != nil` of the helper, X is not assigned in that
	// branch, and e is X: the value is not nil
	guardedNonNil = func(e ast.Expr) bool {
		id, ok := ast.Unparen(e).(*ast.Ident)
		if !ok {
			return false
		}
		obj := usesOf(id)
		if obj == nil {
			return false
		}
		for i := len(stack) - 1; i > 0; i-- {
			blk, ok := stack[i].(*ast.BlockStmt)
			if !ok {
				continue
			}
			iff, ok := stack[i-1].(*ast.IfStmt)
			if !ok || iff.Body != blk {
				continue
			}
			t := testedOf(iff.Cond)
			if t == nil || usesOf(t) != obj {
				continue
			}
			assigned := false
			ast.Inspect(blk, func(nd ast.Node) bool {
				switch y := nd.(type) {
				case *ast.AssignStmt:
					for _, l := range y.Lhs {
						if li, ok := l.(*ast.Ident); ok && (usesOf(li) == obj || defsOf(li) == obj) {
							assigned = true
						}
					}
				case *ast.UnaryExpr:
					if y.Op == token.AND {
						if li, ok := ast.Unparen(y.X).(*ast.Ident); ok && usesOf(li) == obj {
							assigned = true
						}
					}
				case *ast.FuncLit:
					assigned = true // a closure may write it
				}
				return true
			})
			return !assigned
		}
		return false
	}
	walk = func(nd ast.Node) bool {
		if nd == nil {
			stack = stack[:len(stack)-1]
			return true
		}
		switch x := nd.(type) {
		case *ast.FuncLit:
			return false
		case *ast.ReturnStmt:
			var t, es string
			var parts []string
			var exprs []ast.Expr
			lab := pre + "L"
			for di, d := range defers {
				if x.Pos() > d.End() {
					lab = fmt.Sprintf("%sD%d", pre, di+1)
				}
			}
			switch {
			case nres == 0:
				t = "break " + lab
			case len(x.Results) == nres:
				for _, r := range x.Results {
					parts = append(parts, hText(r.Pos(), r.End()))
					exprs = append(exprs, r)
				}
				es = strings.Join(parts, ", ")
			case len(x.Results) == 1:
				es = hText(x.Results[0].Pos(), x.Results[0].End())
			case len(x.Results) == 0 && len(named) == nres:
				es = strings.Join(named, ", ")
			default:
				bad = "return arity"
			}
			if es != "" {
				if retFmt != nil {
					t = retFmt(es, parts, exprs)
				} else {
					t = "{ " + strings.Join(rnames, ", ") + " = " + es + "; break " + lab + " }"
				}
			}
			reps = append(reps, rep{off(x.Pos()), off(x.End()), t})
			return false
		}
		stack = append(stack, nd)
		return true
	}
	ast.Inspect(h.decl.Body, walk)
	if bad != "" {
		return nil, fmt.Errorf("%s", bad)
	}
	deferTail := ""
	for di, d := range defers {
		lab := fmt.Sprintf("%sD%d", pre, di+1)
		reps = append(reps, rep{off(d.Pos()), off(d.End()), lab + ":\nfor {"})
		deferTail = "\nbreak " + lab + "\n}\n" + hText(d.Call.Pos(), d.Call.End()) + deferTail
	}
	// renames outside the rewritten returns (those inside were applied by hText)
	for _, ir := range idReps {
		inside := false
		for _, r := range reps {
			if ir.a >= r.a && ir.e <= r.e {
				inside = true
				break
			}
		}
		if !inside {
			reps = append(reps, ir)
		}
	}
	ba, be := off(h.decl.Body.Lbrace)+1, off(h.decl.Body.Rbrace)
	body := append([]byte{}, hsrc[ba:be]...)
	sort.Slice(reps, func(i, j int) bool { return reps[i].a > reps[j].a })
	for _, r := range reps {
		body = append(append(append([]byte{}, body[:r.a-ba]...), []byte(r.text)...), body[r.e-ba:]...)
	}
	b.Write(body)
	b.WriteString(deferTail)
	if nres > 0 && len(named) == nres {
		// falling off the end of a function with named results cannot happen (the compiler demands a return)
		_ = named
	}
	if mode == "direct" || mode == "assignret" {
		b.WriteString("\n}\n")
	} else {
		fmt.Fprintf(&b, "\nbreak %sL\n}\n", pre)
	}
	if qualFail != "" {
		return nil, fmt.Errorf("type of package %s is not importable by name in the calling file", qualFail)
	}
	switch mode {
	case "direct", "handler", "assign", "assignret":
		// the statement itself is gone: its work is done at every return of the inlined body
		return b.Bytes(), nil
	}
	// the original statement with the call replaced by the result temporaries
	ca, ce := off(s.call.Pos()), off(s.call.End())
	results := strings.Join(rnames, ", ")
	switch inner := s.inner.(type) {
	case *ast.ExprStmt:
		if s.stmt == s.inner {
			return b.Bytes(), nil
		}
		// `if helper(); cond {` : drop the init
		ia, ie := off(inner.Pos()), off(inner.End())
		sa, se := off(s.stmt.Pos()), off(s.stmt.End())
		st := string(csrc[sa:ia]) + string(csrc[ie:se])
		return []byte("{\n" + b.String() + st + "\n}"), nil
	default:
		_ = inner
	}
	if nres == 0 {
		return nil, fmt.Errorf("call without results used as a value")
	}
	sa, se := off(s.stmt.Pos()), off(s.stmt.End())
	st := string(csrc[sa:ca]) + results + string(csrc[ce:se])
	if s.stmt != s.inner {
		return []byte("{\n" + b.String() + st + "\n}"), nil
	}
	return []byte(b.String() + st), nil
}

// readSource returns a reader of file contents that prefers the overlay.
func readSource(overlay map[string][]byte) func(string) []byte {
	return func(name string) []byte {
		if b, ok := overlay[name]; ok {
			return b
		}
		b, err := os.ReadFile(name)
		if err != nil {
			return nil
		}
		return b
	}
}

// detectRenames: reviewed functions that are gone, matched with new unexported functions of the same package and
// receiver whose parameter types (receiver first) are identical.  Only unique matches in both directions count.
func detectRenames(pkgs []*packages.Package) map[string]string {
	type cand struct{ key, sig string }
	current := map[string]bool{}
	var added []cand
	for _, p := range pkgs {
		if !smPkgs[p.PkgPath] || p.TypesInfo == nil {
			continue
		}
		for _, f := range p.Syntax {
			for _, d := range f.Decls {
				fd, ok := d.(*ast.FuncDecl)
				if !ok || fd.Body == nil {
					continue
				}
				key := declKey(p.PkgPath, fd)
				current[key] = true
				if baselineFuncs[key] || ast.IsExported(fd.Name.Name) {
					continue
				}
				obj, _ := p.TypesInfo.Defs[fd.Name].(*types.Func)
				if obj == nil {
					continue
				}
				sig := obj.Type().(*types.Signature)
				var parts []string
				if sig.Recv() != nil {
					parts = append(parts, typeKey(sig.Recv().Type())+ptrMark(sig.Recv().Type()))
				}
				for i := 0; i < sig.Params().Len(); i++ {
					t := sig.Params().At(i).Type()
					parts = append(parts, typeKey(t)+ptrMark(t))
				}
				added = append(added, cand{key, strings.Join(parts, "|")})
			}
		}
	}
	prefixOf := func(k string) string { return k[:strings.LastIndex(k, ".")+1] }
	out := map[string]string{}
	usedNew := map[string]int{}
	match := map[string][]string{}
	for old := range baselineFuncs {
		if current[old] {
			continue
		}
		bp, ok := baselineParams[old]
		if !ok {
			continue
		}
		var parts []string
		for _, q := range bp {
			parts = append(parts, q[1])
		}
		sig := strings.Join(parts, "|")
		for _, c := range added {
			if prefixOf(c.key) == prefixOf(old) && c.sig == sig {
				match[old] = append(match[old], c.key)
				usedNew[c.key]++
			}
		}
	}
	for old, cs := range match {
		if len(cs) == 1 && usedNew[cs[0]] == 1 {
			out[cs[0]] = old
		}
	}
	// a reviewed function that is gone while a new function of the same package carries its name (a method turned
	// into a function of other parameters, or the reverse): it is the same function as far as the who-may tables and
	// anchors are concerned; its parameters go by their current names
	bareOf := func(k string) string { return k[strings.LastIndex(k, ".")+1:] }
	pkgOf := func(k string) string { return k[:strings.Index(k, ".")] }
	taken := map[string]bool{}
	for _, o := range out {
		taken[o] = true
	}
	for old := range baselineFuncs {
		if current[old] || taken[old] {
			continue
		}
		var cs []string
		for _, c := range added {
			if _, done := out[c.key]; !done && bareOf(c.key) == bareOf(old) && pkgOf(c.key) == pkgOf(old) {
				cs = append(cs, c.key)
			}
		}
		if len(cs) == 1 {
			n := 0
			for o2 := range baselineFuncs {
				if !current[o2] && !taken[o2] && bareOf(o2) == bareOf(old) && pkgOf(o2) == pkgOf(old) {
					n++
				}
			}
			if n == 1 {
				out[cs[0]] = old
				taken[old] = true
			}
		}
	}
	// several functions of one signature renamed together (slashRedelegations/slashUndelegations): pair them by name
	// similarity when one pairing is strictly better than every other
	groups := map[string][]string{} // sorted new keys -> old keys
	for old, cs := range match {
		if len(cs) < 2 {
			continue
		}
		sorted := append([]string{}, cs...)
		sort.Strings(sorted)
		gk := strings.Join(sorted, ",")
		groups[gk] = append(groups[gk], old)
	}
	for gk, olds := range groups {
		news := strings.Split(gk, ",")
		if len(olds) != len(news) || len(news) > 4 {
			continue
		}
		ok := true
		for _, n := range news {
			if usedNew[n] != len(olds) {
				ok = false
			}
		}
		if !ok {
			continue
		}
		sort.Strings(olds)
		base := func(k string) string { return k[strings.LastIndex(k, ".")+1:] }
		best, second := -1, -1
		var bestPerm []int
		perm := make([]int, len(news))
		used := make([]bool, len(news))
		var rec func(i, score int)
		rec = func(i, score int) {
			if i == len(olds) {
				if score > best {
					second = best
					best = score
					bestPerm = append([]int{}, perm...)
				} else if score > second {
					second = score
				}
				return
			}
			for j := range news {
				if !used[j] {
					used[j] = true
					perm[i] = j
					rec(i+1, score+lcsLen(base(olds[i]), base(news[j])))
					used[j] = false
				}
			}
		}
		rec(0, 0)
		if best > second && bestPerm != nil {
			for i, j := range bestPerm {
				out[news[j]] = olds[i]
			}
		}
	}
	return out
}

// lcsLen: length of the longest common subsequence of two names.
func lcsLen(a, b string) int {
	prev := make([]int, len(b)+1)
	for i := 1; i <= len(a); i++ {
		cur := make([]int, len(b)+1)
		for j := 1; j <= len(b); j++ {
			if a[i-1] == b[j-1] {
				cur[j] = prev[j-1] + 1
			} else if prev[j] >= cur[j-1] {
				cur[j] = prev[j]
			} else {
				cur[j] = cur[j-1]
			}
		}
		prev = cur
	}
	return prev[len(b)]
}

// pureExpr: identifiers, literals, selections, composite literals (and their addresses) of such: no calls, no effects.
func pureExpr(e ast.Expr) bool {
	switch x := e.(type) {
	case *ast.Ident, *ast.BasicLit:
		return true
	case *ast.ParenExpr:
		return pureExpr(x.X)
	case *ast.SelectorExpr:
		return pureExpr(x.X)
	case *ast.UnaryExpr:
		if x.Op == token.AND {
			_, ok := ast.Unparen(x.X).(*ast.CompositeLit)
			return ok && pureExpr(x.X)
		}
		return x.Op != token.ARROW && pureExpr(x.X)
	case *ast.CompositeLit:
		for _, el := range x.Elts {
			if kv, ok := el.(*ast.KeyValueExpr); ok {
				el = kv.Value
			}
			if !pureExpr(el) {
				return false
			}
		}
		return true
	}
	return false
}

// exprHelperBody: the single result expression of a helper whose body is one `return expr` (no closures): such a
// helper can be inlined wherever it is called, by substituting the arguments.
func exprHelperBody(fd *ast.FuncDecl) ast.Expr {
	if fd.Body == nil || len(fd.Body.List) != 1 || fd.Type.TypeParams != nil {
		return nil
	}
	rs, ok := fd.Body.List[0].(*ast.ReturnStmt)
	if !ok || len(rs.Results) != 1 {
		return nil
	}
	if fd.Type.Results == nil || fd.Type.Results.NumFields() != 1 {
		return nil
	}
	bad := false
	ast.Inspect(rs.Results[0], func(nd ast.Node) bool {
		if _, ok := nd.(*ast.FuncLit); ok {
			bad = true
		}
		return true
	})
	if bad {
		return nil
	}
	return rs.Results[0]
}

// genExprInline: the text that replaces a call of an expression helper: its return expression with the parameters
// replaced by the (parenthesised) arguments.  Every parameter must be used exactly once, in parameter order, unless
// its argument is free of calls; basic literals are converted to the parameter type.
func genExprInline(p *packages.Package, s *inlSite, src func(string) []byte) ([]byte, error) {
	info := p.TypesInfo
	h := s.h
	expr := exprHelperBody(h.decl)
	if expr == nil {
		return nil, fmt.Errorf("not an expression helper")
	}
	sig, ok := h.obj.Type().(*types.Signature)
	if !ok || sig.Variadic() || s.call.Ellipsis.IsValid() {
		return nil, fmt.Errorf("variadic")
	}
	hsrc, csrc := src(h.filename), src(s.filename)
	if hsrc == nil || csrc == nil {
		return nil, fmt.Errorf("source not available")
	}
	off := func(pos token.Pos) int { return p.Fset.Position(pos).Offset }
	imports := map[string]string{}
	for _, im := range s.file.Imports {
		path := strings.Trim(im.Path.Value, "\"")
		name := ""
		if im.Name != nil {
			name = im.Name.Name
		} else if ip := p.Imports[path]; ip != nil {
			name = ip.Name
		}
		if name != "" && name != "_" && name != "." {
			imports[path] = name
		}
	}
	qualFail := false
	qual := func(pk *types.Package) string {
		if pk == p.Types {
			return ""
		}
		if n, ok := imports[pk.Path()]; ok {
			return n
		}
		qualFail = true
		return pk.Name()
	}
	// parameter objects -> argument text
	type binding struct {
		text string
		pure bool
		uses int
		idx  int
	}
	binds := map[types.Object]*binding{}
	n := 0
	if sig.Recv() != nil {
		sel, ok := ast.Unparen(s.call.Fun).(*ast.SelectorExpr)
		if !ok || len(h.decl.Recv.List) != 1 {
			return nil, fmt.Errorf("method called without a selector")
		}
		if selection := info.Selections[sel]; selection != nil && len(selection.Index()) > 1 {
			return nil, fmt.Errorf("promoted receiver")
		}
		_, rp := sig.Recv().Type().(*types.Pointer)
		_, ep := info.TypeOf(sel.X).(*types.Pointer)
		if rp != ep {
			return nil, fmt.Errorf("receiver indirection differs")
		}
		if len(h.decl.Recv.List[0].Names) == 1 {
			if o := info.Defs[h.decl.Recv.List[0].Names[0]]; o != nil {
				binds[o] = &binding{text: "(" + string(csrc[off(sel.X.Pos()):off(sel.X.End())]) + ")", pure: pureExpr(sel.X), idx: n}
			}
		} else if !pureExpr(sel.X) {
			return nil, fmt.Errorf("unnamed receiver with effects")
		}
		n++
	}
	ai := 0
	if h.decl.Type.Params != nil {
		for _, f := range h.decl.Type.Params.List {
			names := f.Names
			if len(names) == 0 {
				return nil, fmt.Errorf("unnamed parameter")
			}
			for _, nm := range names {
				if ai >= len(s.call.Args) {
					return nil, fmt.Errorf("argument count")
				}
				a := s.call.Args[ai]
				txt := "(" + string(csrc[off(a.Pos()):off(a.End())]) + ")"
				if _, isLit := ast.Unparen(a).(*ast.BasicLit); isLit {
					txt = types.TypeString(sig.Params().At(ai).Type(), qual) + txt
				}
				if o := info.Defs[nm]; o != nil {
					binds[o] = &binding{text: txt, pure: pureExpr(a), idx: n}
				} else if !pureExpr(a) {
					return nil, fmt.Errorf("blank parameter with effects")
				}
				ai++
				n++
			}
		}
	}
	if ai != len(s.call.Args) {
		return nil, fmt.Errorf("argument count")
	}
	// caller locals that would shadow free names of the expression
	locals := map[string]bool{}
	ast.Inspect(s.fn, func(nd ast.Node) bool {
		if id, ok := nd.(*ast.Ident); ok {
			if o := info.Defs[id]; o != nil && o.Parent() != p.Types.Scope() {
				locals[id.Name] = true
			}
		}
		return true
	})
	type rep struct {
		a, e int
		text string
	}
	var reps []rep
	var err error
	lastIdx := -1
	ast.Inspect(expr, func(nd ast.Node) bool {
		id, ok := nd.(*ast.Ident)
		if !ok {
			return true
		}
		o := info.Uses[id]
		if o == nil {
			return true
		}
		if b := binds[o]; b != nil {
			b.uses++
			if !b.pure {
				if b.uses > 1 || b.idx < lastIdx {
					err = fmt.Errorf("argument with calls is used more than once or out of order")
				}
				lastIdx = b.idx
			}
			reps = append(reps, rep{off(id.Pos()), off(id.End()), b.text})
			return true
		}
		if pn, isPkg := o.(*types.PkgName); isPkg {
			want, okImp := imports[pn.Imported().Path()]
			if !okImp {
				err = fmt.Errorf("package %s is not imported in the calling file", pn.Imported().Path())
				return true
			}
			if locals[want] {
				err = fmt.Errorf("name %q is shadowed in the calling function", want)
			}
			if want != id.Name {
				reps = append(reps, rep{off(id.Pos()), off(id.End()), want})
			}
			return true
		}
		if par := o.Parent(); par == p.Types.Scope() || par == types.Universe {
			if locals[id.Name] {
				err = fmt.Errorf("name %q is shadowed in the calling function", id.Name)
			}
		}
		return true
	})
	for _, b := range binds {
		if b.uses == 0 && !b.pure {
			err = fmt.Errorf("an argument with calls is not used by the expression")
		}
	}
	if err != nil {
		return nil, err
	}
	if qualFail {
		return nil, fmt.Errorf("a parameter type is not importable by name in the calling file")
	}
	sort.Slice(reps, func(i, j int) bool { return reps[i].a > reps[j].a })
	ea, ee := off(expr.Pos()), off(expr.End())
	t := append([]byte{}, hsrc[ea:ee]...)
	for _, r := range reps {
		t = append(append(append([]byte{}, t[:r.a-ea]...), []byte(r.text)...), t[r.e-ea:]...)
	}
	// the result has the helper's result type: convert explicitly (untyped constants, interface results)
	rt := types.TypeString(sig.Results().At(0).Type(), qual)
	if qualFail {
		return nil, fmt.Errorf("the result type is not importable by name in the calling file")
	}
	return []byte("(" + rt + ")(" + string(t) + ")"), nil
}

// hoistCondCalls prepares `if h(..) {` and `if !h(..) {` (h a new multi-statement helper with one boolean result) for
// the inliner: the call is moved in front of the if, into a temporary, inside a block of its own.  The condition is
// the first thing an if statement evaluates, so the order of evaluation does not change.  Only plain if statements
// of a statement list are handled (not `else if`).
func hoistCondCalls(pkgs []*packages.Package, src func(string) []byte) (map[string][]byte, []string) {
	isNew := map[types.Object]bool{}
	for _, hp := range pkgs {
		if !smPkgs[hp.PkgPath] || hp.TypesInfo == nil {
			continue
		}
		for i, f := range hp.Syntax {
			if i >= len(hp.CompiledGoFiles) {
				continue
			}
			fname := hp.CompiledGoFiles[i]
			if strings.HasSuffix(fname, ".pb.go") || strings.HasSuffix(fname, ".pb.gw.go") {
				continue
			}
			for _, d := range f.Decls {
				fd, ok := d.(*ast.FuncDecl)
				if !ok || fd.Name.Name == "init" || fd.Name.Name == "_" {
					continue
				}
				key := declKey(hp.PkgPath, fd)
				if baselineFuncs[key] || funcRenames[key] != "" || inlinableDecl(fd) != "" || exprHelperBody(fd) != nil {
					continue
				}
				if o := hp.TypesInfo.Defs[fd.Name]; o != nil {
					if sg, ok := o.Type().(*types.Signature); ok && sg.Results().Len() == 1 {
						if b, ok := sg.Results().At(0).Type().Underlying().(*types.Basic); ok && b.Kind() == types.Bool {
							isNew[o] = true
						}
					}
				}
			}
		}
	}
	// local closures that are only called and give one bool (what an inlined `forEach..(.., func(..) (stop bool))`
	// helper leaves behind): the same treatment, so that inlineLocalClosures finds the call at a statement position
	for _, hp := range pkgs {
		if !smPkgs[hp.PkgPath] || hp.TypesInfo == nil {
			continue
		}
		for _, f := range hp.Syntax {
			for _, d := range f.Decls {
				fd, ok := d.(*ast.FuncDecl)
				if !ok || fd.Body == nil {
					continue
				}
				for _, fam := range closureFamilies(hp, fd) {
					if fam.bad != "" || exprHelperBody(&ast.FuncDecl{Name: ast.NewIdent("_"), Type: fam.lit.Type, Body: fam.lit.Body}) != nil {
						continue
					}
					for o := range fam.vars {
						if sg, ok := o.Type().Underlying().(*types.Signature); ok && sg.Results().Len() == 1 {
							if b, ok := sg.Results().At(0).Type().Underlying().(*types.Basic); ok && b.Kind() == types.Bool {
								isNew[o] = true
							}
						}
					}
				}
			}
		}
	}
	out := map[string][]byte{}
	var notes []string
	if len(isNew) == 0 {
		return out, nil
	}
	n := 0
	for _, p := range pkgs {
		if !smPkgs[p.PkgPath] || p.TypesInfo == nil {
			continue
		}
		info := p.TypesInfo
		for i, f := range p.Syntax {
			if i >= len(p.CompiledGoFiles) {
				continue
			}
			fname := p.CompiledGoFiles[i]
			text := src(fname)
			if text == nil {
				continue
			}
			type edit struct {
				a, e int
				text string
			}
			var edits []edit
			off := func(pos token.Pos) int { return p.Fset.Position(pos).Offset }
			visit := func(list []ast.Stmt) {
				for _, st := range list {
					iff, ok := st.(*ast.IfStmt)
					if !ok || iff.Init != nil {
						continue
					}
					cond := ast.Unparen(iff.Cond)
					neg := ""
					if u, ok := cond.(*ast.UnaryExpr); ok && u.Op == token.NOT {
						neg = "!"
						cond = ast.Unparen(u.X)
					}
					c, ok := cond.(*ast.CallExpr)
					if !ok {
						continue
					}
					var id *ast.Ident
					switch fx := c.Fun.(type) {
					case *ast.Ident:
						id = fx
					case *ast.SelectorExpr:
						id = fx.Sel
					}
					if id == nil || !isNew[info.Uses[id]] {
						continue
					}
					n++
					tmp := fmt.Sprintf("inlc%d", n)
					edits = append(edits, edit{off(iff.Pos()), off(iff.Cond.End()), "{\n" + tmp + " := " + string(text[off(c.Pos()):off(c.End())]) + "\nif " + neg + tmp})
					edits = append(edits, edit{off(iff.End()), off(iff.End()), "\n}"})
				}
			}
			ast.Inspect(f, func(nd ast.Node) bool {
				switch x := nd.(type) {
				case *ast.BlockStmt:
					visit(x.List)
				case *ast.CaseClause:
					visit(x.Body)
				case *ast.CommClause:
					visit(x.Body)
				}
				return true
			})
			if len(edits) == 0 {
				continue
			}
			sort.SliceStable(edits, func(i, j int) bool { return edits[i].a > edits[j].a })
			okF := true
			for i := 1; i < len(edits); i++ {
				if edits[i].e > edits[i-1].a {
					okF = false
				}
			}
			if !okF {
				continue
			}
			nb := append([]byte{}, text...)
			for _, e := range edits {
				nb = append(append(append([]byte{}, nb[:e.a]...), []byte(e.text)...), nb[e.e:]...)
			}
			out[fname] = nb
			notes = append(notes, fmt.Sprintf("helper calls in %d if-conditions of %s moved in front of the if", len(edits)/2, fname[strings.LastIndex(fname, "/")+1:]))
		}
	}
	return out, notes
}
