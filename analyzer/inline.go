package main

import (
	"bytes"
	"fmt"
	"go/ast"
	"go/format"
	"go/token"
	"go/types"
	"os"
	"sort"
	"strings"

	"golang.org/x/tools/go/packages"
)

// Helper inlining (source level, before SSA).
//
// The rules are anchored at the functions of the reviewed tree.  The most common behaviour-preserving edit that moves
// anchored code away is "extract these lines into a new unexported helper".  To stay silent on such edits the loader
// undoes them: every unexported function or method of the state-machine packages that does NOT exist in the reviewed
// tree (baselineFuncs) is inlined at its call sites, in an in-memory overlay of the source files, when that can be done
// by a purely mechanical, semantics-preserving rewrite:
//
//	x, err := k.helper(a, b)      =>      var inl1R0 T0; var inl1R1 error
//	                                      var inl1A0 Keeper = k; var inl1A1 TA = a; var inl1A2 TB = b
//	                                  inl1L:
//	                                      for {
//	                                          var k Keeper = inl1A0; var p TA = inl1A1; var q TB = inl1A2
//	                                          <body, each `return e0, e1` => { inl1R0, inl1R1 = e0, e1; break inl1L }>
//	                                          break inl1L
//	                                      }
//	                                      x, err := inl1R0, inl1R1
//
// Supported call contexts: assignment / definition with the call as the only right-hand side, expression statement,
// `return helper(...)`, and the init statement of a non-chained `if`.  Anything else (helper used as a value, called
// inside an expression, variadic, generic, with defer / go / recover / labels, recursive, or whose body mentions a
// package-level name that a local of the calling function shadows) leaves the helper alone - the rules then see the
// code as it is written, as before.  The rewritten program is type-checked like the original; if it does not
// type-check the loader falls back to the original.  The dead helper declarations stay in the files and are hidden from
// the rules (Engine.deadHelpers).  Positions in reports refer to the rewritten text for files that were rewritten.

type inlHelper struct {
	key      string
	decl     *ast.FuncDecl
	file     *ast.File
	filename string
	obj      types.Object
	pkg      *packages.Package
	bad      string
}

type inlSite struct {
	h        *inlHelper
	call     *ast.CallExpr
	stmt     ast.Stmt // statement to rewrite (the if statement for an if-init site)
	inner    ast.Stmt // the assign / expr / return statement that contains the call
	file     *ast.File
	filename string
	fn       *ast.FuncDecl
}

func declKey(pkgPath string, fd *ast.FuncDecl) string {
	k := alias(pkgPath) + "."
	if fd.Recv != nil && len(fd.Recv.List) == 1 {
		t := fd.Recv.List[0].Type
		if s, ok := t.(*ast.StarExpr); ok {
			t = s.X
		}
		if ix, ok := t.(*ast.IndexExpr); ok {
			t = ix.X
		}
		if id, ok := t.(*ast.Ident); ok {
			k += id.Name + "."
		}
	}
	return k + fd.Name.Name
}

func inlinableDecl(fd *ast.FuncDecl) string {
	if fd.Body == nil {
		return "no body"
	}
	if fd.Type.TypeParams != nil {
		return "generic"
	}
	if fd.Type.Params != nil {
		for _, f := range fd.Type.Params.List {
			if _, ok := f.Type.(*ast.Ellipsis); ok {
				return "variadic"
			}
		}
	}
	bad := ""
	ast.Inspect(fd.Body, func(n ast.Node) bool {
		switch x := n.(type) {
		case *ast.DeferStmt:
			bad = "defer"
		case *ast.GoStmt:
			bad = "go statement"
		case *ast.LabeledStmt:
			bad = "label"
		case *ast.BranchStmt:
			if x.Tok == token.GOTO {
				bad = "goto"
			}
		case *ast.CallExpr:
			if id, ok := x.Fun.(*ast.Ident); ok && id.Name == "recover" {
				bad = "recover"
			}
		}
		return bad == ""
	})
	return bad
}

// inlineNewHelpers returns an overlay (filename -> new content) in which new helpers are inlined, the keys of the
// helpers that were inlined, and notes about helpers that were left alone.
func inlineNewHelpers(pkgs []*packages.Package, src func(string) []byte) (map[string][]byte, []string, []string) {
	overlay := map[string][]byte{}
	var done, notes []string
	counter := 0
	for _, p := range pkgs {
		if !smPkgs[p.PkgPath] || p.TypesInfo == nil {
			continue
		}
		info := p.TypesInfo
		helpers := map[types.Object]*inlHelper{}
		for i, f := range p.Syntax {
			if i >= len(p.CompiledGoFiles) {
				continue
			}
			fname := p.CompiledGoFiles[i]
			if strings.HasSuffix(fname, ".pb.go") || strings.HasSuffix(fname, ".pb.gw.go") {
				continue
			}
			for _, d := range f.Decls {
				fd, ok := d.(*ast.FuncDecl)
				if !ok || ast.IsExported(fd.Name.Name) || fd.Name.Name == "init" || fd.Name.Name == "_" {
					continue
				}
				key := declKey(p.PkgPath, fd)
				if baselineFuncs[key] {
					continue
				}
				h := &inlHelper{key: key, decl: fd, file: f, filename: fname, obj: info.Defs[fd.Name], pkg: p, bad: inlinableDecl(fd)}
				if h.obj != nil {
					helpers[h.obj] = h
				}
			}
		}
		if len(helpers) == 0 {
			continue
		}
		// call sites
		var sites []*inlSite
		for i, f := range p.Syntax {
			if i >= len(p.CompiledGoFiles) {
				continue
			}
			fname := p.CompiledGoFiles[i]
			for _, d := range f.Decls {
				fd, ok := d.(*ast.FuncDecl)
				if !ok || fd.Body == nil {
					continue
				}
				findSites(info, helpers, f, fname, fd, &sites)
			}
			// references outside function bodies (package-level vars ...) make a helper non-inlinable
			for _, d := range f.Decls {
				if gd, ok := d.(*ast.GenDecl); ok {
					ast.Inspect(gd, func(n ast.Node) bool {
						if id, ok := n.(*ast.Ident); ok {
							if h := helpers[info.Uses[id]]; h != nil && h.bad == "" {
								h.bad = "referenced at package level"
							}
						}
						return true
					})
				}
			}
		}
		// recursion: a helper whose body calls a helper is handled in a later round (the caller of this function loops)
		for _, s := range sites {
			if s.h.bad != "" {
				continue
			}
			if hh := helpers[info.Defs[s.fn.Name]]; hh != nil && hh == s.h {
				s.h.bad = "recursive"
			}
		}
		bySite := map[string][]*inlSite{}
		used := map[*inlHelper]bool{}
		for _, s := range sites {
			if s.h.bad != "" {
				continue
			}
			// sites inside another new helper: that helper is inlined first in a later round
			if hh := helpers[info.Defs[s.fn.Name]]; hh != nil && hh.bad == "" {
				continue
			}
			bySite[s.filename] = append(bySite[s.filename], s)
			used[s.h] = true
		}
		for _, h := range helpers {
			if h.bad != "" {
				notes = append(notes, h.key+": not inlined ("+h.bad+")")
			}
		}
		for fname, ss := range bySite {
			text := src(fname)
			if text == nil {
				continue
			}
			// bottom-up so that offsets stay valid
			sort.Slice(ss, func(i, j int) bool { return ss[i].stmt.Pos() > ss[j].stmt.Pos() })
			okFile := true
			for _, s := range ss {
				counter++
				repl, err := genInline(p, s, counter, src)
				if err != nil {
					notes = append(notes, s.h.key+": not inlined ("+err.Error()+")")
					s.h.bad = err.Error()
					okFile = false
					break
				}
				a, b := p.Fset.Position(s.stmt.Pos()).Offset, p.Fset.Position(s.stmt.End()).Offset
				if a < 0 || b > len(text) || a > b {
					okFile = false
					break
				}
				text = append(append(append([]byte{}, text[:a]...), repl...), text[b:]...)
			}
			if !okFile {
				continue
			}
			if out, err := format.Source(text); err == nil {
				text = out
			}
			overlay[fname] = text
		}
		for h := range used {
			if h.bad == "" {
				done = append(done, h.key)
			}
		}
	}
	// a helper that could not be inlined at some site stays callable there: its declaration is never removed, so a
	// partly inlined helper is still an equivalent program
	sort.Strings(done)
	sort.Strings(notes)
	return overlay, done, notes
}

func findSites(info *types.Info, helpers map[types.Object]*inlHelper, f *ast.File, fname string, fd *ast.FuncDecl, sites *[]*inlSite) {
	callOf := func(e ast.Expr) (*ast.CallExpr, *inlHelper) {
		c, ok := e.(*ast.CallExpr)
		if !ok {
			return nil, nil
		}
		var id *ast.Ident
		switch fx := c.Fun.(type) {
		case *ast.Ident:
			id = fx
		case *ast.SelectorExpr:
			id = fx.Sel
		}
		if id == nil {
			return nil, nil
		}
		if h := helpers[info.Uses[id]]; h != nil {
			return c, h
		}
		return nil, nil
	}
	supported := map[*ast.CallExpr]bool{}
	// statement-level forms
	var visitList func(list []ast.Stmt)
	simple := func(st ast.Stmt) (*ast.CallExpr, *inlHelper) {
		switch x := st.(type) {
		case *ast.ExprStmt:
			return callOf(x.X)
		case *ast.AssignStmt:
			if len(x.Rhs) == 1 && (x.Tok == token.ASSIGN || x.Tok == token.DEFINE) {
				return callOf(x.Rhs[0])
			}
		case *ast.ReturnStmt:
			if len(x.Results) == 1 {
				return callOf(x.Results[0])
			}
		}
		return nil, nil
	}
	visitList = func(list []ast.Stmt) {
		for _, st := range list {
			if c, h := simple(st); c != nil {
				supported[c] = true
				*sites = append(*sites, &inlSite{h: h, call: c, stmt: st, inner: st, file: f, filename: fname, fn: fd})
			}
			if iff, ok := st.(*ast.IfStmt); ok && iff.Init != nil {
				if c, h := simple(iff.Init); c != nil {
					supported[c] = true
					*sites = append(*sites, &inlSite{h: h, call: c, stmt: iff, inner: iff.Init, file: f, filename: fname, fn: fd})
				}
			}
		}
	}
	ast.Inspect(fd.Body, func(n ast.Node) bool {
		switch x := n.(type) {
		case *ast.BlockStmt:
			visitList(x.List)
		case *ast.CaseClause:
			visitList(x.Body)
		case *ast.CommClause:
			visitList(x.Body)
		}
		return true
	})
	// every other reference to a helper makes it non-inlinable
	ast.Inspect(fd.Body, func(n ast.Node) bool {
		if c, ok := n.(*ast.CallExpr); ok {
			if cc, h := callOf(c); cc != nil && !supported[c] && h.bad == "" {
				h.bad = "called inside an expression or an unsupported statement"
			}
			return true
		}
		return true
	})
	called := map[*ast.Ident]bool{}
	ast.Inspect(fd.Body, func(n ast.Node) bool {
		if c, ok := n.(*ast.CallExpr); ok {
			switch fx := c.Fun.(type) {
			case *ast.Ident:
				called[fx] = true
			case *ast.SelectorExpr:
				called[fx.Sel] = true
			}
		}
		return true
	})
	ast.Inspect(fd.Body, func(n ast.Node) bool {
		if id, ok := n.(*ast.Ident); ok && !called[id] {
			if h := helpers[info.Uses[id]]; h != nil && h.bad == "" {
				h.bad = "used as a value"
			}
		}
		return true
	})
}

func genInline(p *packages.Package, s *inlSite, n int, src func(string) []byte) ([]byte, error) {
	info := p.TypesInfo
	fset := p.Fset
	h := s.h
	sig, ok := h.obj.Type().(*types.Signature)
	if !ok {
		return nil, fmt.Errorf("no signature")
	}
	hsrc, csrc := src(h.filename), src(s.filename)
	if hsrc == nil || csrc == nil {
		return nil, fmt.Errorf("source not available")
	}
	off := func(pos token.Pos) int { return fset.Position(pos).Offset }
	textOf := func(b []byte, a, e token.Pos) string { return string(b[off(a):off(e)]) }
	// type printing in the caller's file
	imports := map[string]string{}
	for _, im := range s.file.Imports {
		path := strings.Trim(im.Path.Value, "\"")
		name := ""
		if im.Name != nil {
			name = im.Name.Name
		} else if ip := p.Imports[path]; ip != nil {
			name = ip.Name
		}
		if name != "" && name != "_" && name != "." {
			imports[path] = name
		}
	}
	qualFail := ""
	qual := func(pk *types.Package) string {
		if pk == p.Types {
			return ""
		}
		if nme, ok := imports[pk.Path()]; ok {
			return nme
		}
		qualFail = pk.Path()
		return pk.Name()
	}
	ts := func(t types.Type) string { return types.TypeString(t, qual) }

	// free identifiers of the helper body must not be shadowed by locals of the calling function
	locals := map[string]bool{}
	ast.Inspect(s.fn, func(nd ast.Node) bool {
		if id, ok := nd.(*ast.Ident); ok {
			if o := info.Defs[id]; o != nil && o.Parent() != p.Types.Scope() {
				locals[id.Name] = true
			}
		}
		return true
	})
	conflict := ""
	ast.Inspect(h.decl.Body, func(nd ast.Node) bool {
		if id, ok := nd.(*ast.Ident); ok {
			if o := info.Uses[id]; o != nil {
				par := o.Parent()
				if _, isPkg := o.(*types.PkgName); isPkg || par == p.Types.Scope() || par == types.Universe {
					if locals[id.Name] {
						conflict = id.Name
					}
				}
			}
		}
		return true
	})
	if conflict != "" {
		return nil, fmt.Errorf("name %q of the helper body is shadowed in the calling function", conflict)
	}

	pre := fmt.Sprintf("inl%d", n)
	var b bytes.Buffer
	nres := sig.Results().Len()
	var rnames []string
	for i := 0; i < nres; i++ {
		rn := fmt.Sprintf("%sR%d", pre, i)
		rnames = append(rnames, rn)
		fmt.Fprintf(&b, "var %s %s\n_ = %s\n", rn, ts(sig.Results().At(i).Type()), rn)
	}
	// receiver and arguments, evaluated once, in order
	type bind struct{ name, typ, tmp string }
	var binds []bind
	if sig.Recv() != nil {
		sel, ok := s.call.Fun.(*ast.SelectorExpr)
		if !ok {
			return nil, fmt.Errorf("method called without a selector")
		}
		rt := sig.Recv().Type()
		expr := textOf(csrc, sel.X.Pos(), sel.X.End())
		et := info.TypeOf(sel.X)
		_, rp := rt.(*types.Pointer)
		_, ep := et.(*types.Pointer)
		switch {
		case rp && !ep:
			expr = "&(" + expr + ")"
		case !rp && ep:
			expr = "*(" + expr + ")"
		}
		name := "_"
		if len(h.decl.Recv.List) == 1 && len(h.decl.Recv.List[0].Names) == 1 {
			name = h.decl.Recv.List[0].Names[0].Name
		}
		tmp := pre + "A0"
		fmt.Fprintf(&b, "var %s %s = %s\n_ = %s\n", tmp, ts(rt), expr, tmp)
		binds = append(binds, bind{name, ts(rt), tmp})
	}
	var pnames []string
	if h.decl.Type.Params != nil {
		for _, f := range h.decl.Type.Params.List {
			if len(f.Names) == 0 {
				pnames = append(pnames, "_")
			}
			for _, nm := range f.Names {
				pnames = append(pnames, nm.Name)
			}
		}
	}
	if len(pnames) != sig.Params().Len() || len(s.call.Args) != sig.Params().Len() {
		return nil, fmt.Errorf("argument count")
	}
	for i, a := range s.call.Args {
		tmp := fmt.Sprintf("%sA%d", pre, i+1)
		t := ts(sig.Params().At(i).Type())
		fmt.Fprintf(&b, "var %s %s = %s\n_ = %s\n", tmp, t, textOf(csrc, a.Pos(), a.End()), tmp)
		binds = append(binds, bind{pnames[i], t, tmp})
	}
	fmt.Fprintf(&b, "%sL:\nfor {\n", pre)
	for _, bd := range binds {
		if bd.name == "_" {
			continue
		}
		fmt.Fprintf(&b, "var %s %s = %s\n_ = %s\n", bd.name, bd.typ, bd.tmp, bd.name)
	}
	// named results become locals of the inlined body
	var named []string
	if h.decl.Type.Results != nil {
		for _, f := range h.decl.Type.Results.List {
			for _, nm := range f.Names {
				named = append(named, nm.Name)
			}
		}
	}
	if len(named) > 0 && len(named) != nres {
		return nil, fmt.Errorf("partly named results")
	}
	for i, nm := range named {
		if nm == "_" {
			named[i] = fmt.Sprintf("%sN%d", pre, i)
			nm = named[i]
		}
		fmt.Fprintf(&b, "var %s %s\n_ = %s\n", nm, ts(sig.Results().At(i).Type()), nm)
	}
	// body with returns rewritten (returns inside function literals belong to the literal)
	type rep struct {
		a, e int
		text string
	}
	var reps []rep
	var bad string
	var walk func(nd ast.Node) bool
	walk = func(nd ast.Node) bool {
		switch x := nd.(type) {
		case *ast.FuncLit:
			return false
		case *ast.ReturnStmt:
			var t string
			switch {
			case nres == 0:
				t = "break " + pre + "L"
			case len(x.Results) == nres:
				var es []string
				for _, r := range x.Results {
					es = append(es, textOf(hsrc, r.Pos(), r.End()))
				}
				t = "{ " + strings.Join(rnames, ", ") + " = " + strings.Join(es, ", ") + "; break " + pre + "L }"
			case len(x.Results) == 1:
				t = "{ " + strings.Join(rnames, ", ") + " = " + textOf(hsrc, x.Results[0].Pos(), x.Results[0].End()) + "; break " + pre + "L }"
			case len(x.Results) == 0 && len(named) == nres:
				t = "{ " + strings.Join(rnames, ", ") + " = " + strings.Join(named, ", ") + "; break " + pre + "L }"
			default:
				bad = "return arity"
			}
			reps = append(reps, rep{off(x.Pos()), off(x.End()), t})
			return false
		}
		return true
	}
	ast.Inspect(h.decl.Body, walk)
	if bad != "" {
		return nil, fmt.Errorf("%s", bad)
	}
	ba, be := off(h.decl.Body.Lbrace)+1, off(h.decl.Body.Rbrace)
	body := append([]byte{}, hsrc[ba:be]...)
	sort.Slice(reps, func(i, j int) bool { return reps[i].a > reps[j].a })
	for _, r := range reps {
		body = append(append(append([]byte{}, body[:r.a-ba]...), []byte(r.text)...), body[r.e-ba:]...)
	}
	b.Write(body)
	if nres > 0 && len(named) == nres {
		fmt.Fprintf(&b, "\n%s = %s", strings.Join(rnames, ", "), strings.Join(named, ", "))
	}
	fmt.Fprintf(&b, "\nbreak %sL\n}\n", pre)
	if qualFail != "" {
		return nil, fmt.Errorf("type of package %s is not importable by name in the calling file", qualFail)
	}
	// the original statement with the call replaced by the result temporaries
	ca, ce := off(s.call.Pos()), off(s.call.End())
	results := strings.Join(rnames, ", ")
	switch inner := s.inner.(type) {
	case *ast.ExprStmt:
		if s.stmt == s.inner {
			return b.Bytes(), nil
		}
		// `if helper(); cond {` : drop the init
		ia, ie := off(inner.Pos()), off(inner.End())
		sa, se := off(s.stmt.Pos()), off(s.stmt.End())
		st := string(csrc[sa:ia]) + string(csrc[ie:se])
		return []byte("{\n" + b.String() + st + "\n}"), nil
	default:
		_ = inner
	}
	if nres == 0 {
		return nil, fmt.Errorf("call without results used as a value")
	}
	sa, se := off(s.stmt.Pos()), off(s.stmt.End())
	st := string(csrc[sa:ca]) + results + string(csrc[ce:se])
	if s.stmt != s.inner {
		return []byte("{\n" + b.String() + st + "\n}"), nil
	}
	return []byte(b.String() + st), nil
}

// readSource returns a reader of file contents that prefers the overlay.
func readSource(overlay map[string][]byte) func(string) []byte {
	return func(name string) []byte {
		if b, ok := overlay[name]; ok {
			return b
		}
		b, err := os.ReadFile(name)
		if err != nil {
			return nil
		}
		return b
	}
}
