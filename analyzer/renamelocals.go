package main

import (
	"fmt"
	"go/ast"
	"go/token"
	"go/types"
	"os"
	"sort"
)

// renameLocals is a self-test aid (`-dump renamelocals`, scratch copies only): it rewrites the source files of the
// state-machine packages under the loaded directory so that every local variable (and, with params=true, every
// parameter and named result) gets a new name.  The program is unchanged in behaviour; every rule must stay silent.
func renameLocals(e *Engine, params bool) {
	n := 0
	for _, p := range e.Pkgs {
		if !smPkgs[p.PkgPath] {
			continue
		}
		info := p.TypesInfo
		isLocal := func(o types.Object) bool {
			v, ok := o.(*types.Var)
			if !ok || v.IsField() || v.Pkg() == nil || v.Name() == "_" {
				return false
			}
			if v.Parent() == v.Pkg().Scope() || v.Parent() == types.Universe {
				return false
			}
			return true
		}
		// parameters and results: objects defined in function signatures
		sigObj := map[types.Object]bool{}
		for _, f := range p.Syntax {
			ast.Inspect(f, func(nd ast.Node) bool {
				var ft *ast.FuncType
				var recv *ast.FieldList
				switch x := nd.(type) {
				case *ast.FuncDecl:
					ft, recv = x.Type, x.Recv
				case *ast.FuncLit:
					ft = x.Type
				}
				if ft == nil {
					return true
				}
				for _, fl := range []*ast.FieldList{recv, ft.Params, ft.Results} {
					if fl == nil {
						continue
					}
					for _, fd := range fl.List {
						for _, nm := range fd.Names {
							if o := info.Defs[nm]; o != nil {
								sigObj[o] = true
							}
						}
					}
				}
				return true
			})
		}
		implicit := map[types.Object]bool{}
		for _, o := range info.Implicits {
			if isLocal(o) {
				implicit[o] = true
			}
		}
		for i, f := range p.Syntax {
			fname := p.CompiledGoFiles[i]
			src, err := os.ReadFile(fname)
			if err != nil {
				continue
			}
			type rep struct {
				a, e int
				text string
			}
			var reps []rep
			ast.Inspect(f, func(nd ast.Node) bool {
				switch x := nd.(type) {
				case *ast.TypeSwitchStmt:
					// `switch v := x.(type)`: v has no object of its own, the clauses have implicit ones
					if as, ok := x.Assign.(*ast.AssignStmt); ok && len(as.Lhs) == 1 {
						if id, ok := as.Lhs[0].(*ast.Ident); ok && id.Name != "_" {
							reps = append(reps, rep{p.Fset.Position(id.Pos()).Offset, p.Fset.Position(id.End()).Offset, id.Name + "Rn"})
						}
					}
				case *ast.Ident:
					o := info.Defs[x]
					if o == nil {
						o = info.Uses[x]
					}
					if o == nil || !(isLocal(o) || implicit[o]) {
						return true
					}
					if sigObj[o] && !params {
						return true
					}
					reps = append(reps, rep{p.Fset.Position(x.Pos()).Offset, p.Fset.Position(x.End()).Offset, x.Name + "Rn"})
				}
				return true
			})
			if len(reps) == 0 {
				continue
			}
			sort.Slice(reps, func(i, j int) bool { return reps[i].a > reps[j].a })
			out := append([]byte{}, src...)
			last := -1
			for _, r := range reps {
				if r.a == last {
					continue
				}
				last = r.a
				out = append(append(append([]byte{}, out[:r.a]...), []byte(r.text)...), out[r.e:]...)
				n++
			}
			if err := os.WriteFile(fname, out, 0o644); err != nil {
				fmt.Fprintln(os.Stderr, "write:", err)
				os.Exit(2)
			}
		}
	}
	fmt.Printf("renamed %d identifiers\n", n)
}

// swapBranches is a second self-test aid (`-dump swapbranches`, scratch copies only): every `if c { A } else { B }`
// whose else part is a plain block becomes `if !(c) { B } else { A }`.  Behaviour is unchanged.
func swapBranches(e *Engine) {
	n := 0
	for _, p := range e.Pkgs {
		if !smPkgs[p.PkgPath] {
			continue
		}
		for i, f := range p.Syntax {
			fname := p.CompiledGoFiles[i]
			if e.isGenerated(f.Pos()) {
				continue
			}
			src, err := os.ReadFile(fname)
			if err != nil {
				continue
			}
			off := func(pos token.Pos) int { return p.Fset.Position(pos).Offset }
			type rep struct {
				a, e int
				text string
			}
			var reps []rep
			var visit func(nd ast.Node) bool
			visit = func(nd ast.Node) bool {
				iff, ok := nd.(*ast.IfStmt)
				if !ok {
					return true
				}
				els, ok := iff.Else.(*ast.BlockStmt)
				if !ok {
					return true
				}
				// innermost first would need nested rewriting: rewrite only ifs that contain no other rewritable if
				nested := false
				ast.Inspect(iff.Body, func(x ast.Node) bool {
					if y, ok := x.(*ast.IfStmt); ok {
						if _, ok := y.Else.(*ast.BlockStmt); ok {
							nested = true
						}
					}
					return true
				})
				ast.Inspect(els, func(x ast.Node) bool {
					if y, ok := x.(*ast.IfStmt); ok {
						if _, ok := y.Else.(*ast.BlockStmt); ok {
							nested = true
						}
					}
					return true
				})
				if nested {
					return true
				}
				cond := string(src[off(iff.Cond.Pos()):off(iff.Cond.End())])
				body := string(src[off(iff.Body.Pos()):off(iff.Body.End())])
				elseT := string(src[off(els.Pos()):off(els.End())])
				reps = append(reps, rep{off(iff.Cond.Pos()), off(els.End()), "!(" + cond + ") " + elseT + " else " + body})
				return false
			}
			ast.Inspect(f, visit)
			if len(reps) == 0 {
				continue
			}
			sort.Slice(reps, func(i, j int) bool { return reps[i].a > reps[j].a })
			out := append([]byte{}, src...)
			for _, r := range reps {
				out = append(append(append([]byte{}, out[:r.a]...), []byte(r.text)...), out[r.e:]...)
				n++
			}
			if err := os.WriteFile(fname, out, 0o644); err != nil {
				fmt.Fprintln(os.Stderr, "write:", err)
				os.Exit(2)
			}
		}
	}
	fmt.Printf("renamed 0 identifiers; swapped %d if/else statements\n", n)
}

// indexLoops is a third self-test aid (`-dump indexloops`, scratch copies only): every `for k, v := range xs` over a
// slice-typed variable or field that the loop body does not assign becomes the equivalent explicit index loop.
func indexLoops(e *Engine) {
	n := 0
	for _, p := range e.Pkgs {
		if !smPkgs[p.PkgPath] {
			continue
		}
		info := p.TypesInfo
		for i, f := range p.Syntax {
			fname := p.CompiledGoFiles[i]
			if e.isGenerated(f.Pos()) {
				continue
			}
			src, err := os.ReadFile(fname)
			if err != nil {
				continue
			}
			off := func(pos token.Pos) int { return p.Fset.Position(pos).Offset }
			type rep struct {
				a, e int
				text string
			}
			var reps []rep
			ast.Inspect(f, func(nd ast.Node) bool {
				rs, ok := nd.(*ast.RangeStmt)
				if !ok || rs.Tok != token.DEFINE {
					return true
				}
				if _, isSlice := info.TypeOf(rs.X).Underlying().(*types.Slice); !isSlice {
					return true
				}
				// X: identifier or selector chain
				var root *ast.Ident
				x := rs.X
				for root == nil {
					switch y := x.(type) {
					case *ast.Ident:
						root = y
					case *ast.SelectorExpr:
						x = y.X
					default:
						return true
					}
				}
				rootObj := info.Uses[root]
				assigned := false
				ast.Inspect(rs.Body, func(b ast.Node) bool {
					switch y := b.(type) {
					case *ast.AssignStmt:
						for _, l := range y.Lhs {
							ast.Inspect(l, func(z ast.Node) bool {
								if id, ok := z.(*ast.Ident); ok && info.Uses[id] == rootObj {
									assigned = true
								}
								return true
							})
						}
					case *ast.UnaryExpr:
						if y.Op == token.AND {
							assigned = true
						}
					case *ast.FuncLit:
						assigned = true
					}
					return true
				})
				if assigned {
					return true
				}
				n++
				idx := fmt.Sprintf("idxGen%d", n)
				if k, ok := rs.Key.(*ast.Ident); ok && k.Name != "_" {
					idx = k.Name
				}
				xs := string(src[off(rs.X.Pos()):off(rs.X.End())])
				head := fmt.Sprintf("for %s := 0; %s < len(%s); %s++ {", idx, idx, xs, idx)
				if v, ok := rs.Value.(*ast.Ident); ok && v.Name != "_" {
					head += fmt.Sprintf("\n%s := %s[%s]\n_ = %s", v.Name, xs, idx, v.Name)
				}
				reps = append(reps, rep{off(rs.Pos()), off(rs.Body.Lbrace) + 1, head})
				return true
			})
			if len(reps) == 0 {
				continue
			}
			sort.Slice(reps, func(i, j int) bool { return reps[i].a > reps[j].a })
			out := append([]byte{}, src...)
			for _, r := range reps {
				out = append(append(append([]byte{}, out[:r.a]...), []byte(r.text)...), out[r.e:]...)
			}
			if err := os.WriteFile(fname, out, 0o644); err != nil {
				fmt.Fprintln(os.Stderr, "write:", err)
				os.Exit(2)
			}
		}
	}
	fmt.Printf("renamed 0 identifiers; rewrote %d range loops\n", n)
}
