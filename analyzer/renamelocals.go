package main

import (
	"fmt"
	"go/ast"
	"go/types"
	"os"
	"sort"
)

// renameLocals is a self-test aid (`-dump renamelocals`, scratch copies only): it rewrites the source files of the
// state-machine packages under the loaded directory so that every local variable (and, with params=true, every
// parameter and named result) gets a new name.  The program is unchanged in behaviour; every rule must stay silent.
func renameLocals(e *Engine, params bool) {
	n := 0
	for _, p := range e.Pkgs {
		if !smPkgs[p.PkgPath] {
			continue
		}
		info := p.TypesInfo
		isLocal := func(o types.Object) bool {
			v, ok := o.(*types.Var)
			if !ok || v.IsField() || v.Pkg() == nil || v.Name() == "_" {
				return false
			}
			if v.Parent() == v.Pkg().Scope() || v.Parent() == types.Universe {
				return false
			}
			return true
		}
		// parameters and results: objects defined in function signatures
		sigObj := map[types.Object]bool{}
		for _, f := range p.Syntax {
			ast.Inspect(f, func(nd ast.Node) bool {
				var ft *ast.FuncType
				var recv *ast.FieldList
				switch x := nd.(type) {
				case *ast.FuncDecl:
					ft, recv = x.Type, x.Recv
				case *ast.FuncLit:
					ft = x.Type
				}
				if ft == nil {
					return true
				}
				for _, fl := range []*ast.FieldList{recv, ft.Params, ft.Results} {
					if fl == nil {
						continue
					}
					for _, fd := range fl.List {
						for _, nm := range fd.Names {
							if o := info.Defs[nm]; o != nil {
								sigObj[o] = true
							}
						}
					}
				}
				return true
			})
		}
		implicit := map[types.Object]bool{}
		for _, o := range info.Implicits {
			if isLocal(o) {
				implicit[o] = true
			}
		}
		for i, f := range p.Syntax {
			fname := p.CompiledGoFiles[i]
			src, err := os.ReadFile(fname)
			if err != nil {
				continue
			}
			type rep struct {
				a, e int
				text string
			}
			var reps []rep
			ast.Inspect(f, func(nd ast.Node) bool {
				switch x := nd.(type) {
				case *ast.TypeSwitchStmt:
					// `switch v := x.(type)`: v has no object of its own, the clauses have implicit ones
					if as, ok := x.Assign.(*ast.AssignStmt); ok && len(as.Lhs) == 1 {
						if id, ok := as.Lhs[0].(*ast.Ident); ok && id.Name != "_" {
							reps = append(reps, rep{p.Fset.Position(id.Pos()).Offset, p.Fset.Position(id.End()).Offset, id.Name + "Rn"})
						}
					}
				case *ast.Ident:
					o := info.Defs[x]
					if o == nil {
						o = info.Uses[x]
					}
					if o == nil || !(isLocal(o) || implicit[o]) {
						return true
					}
					if sigObj[o] && !params {
						return true
					}
					reps = append(reps, rep{p.Fset.Position(x.Pos()).Offset, p.Fset.Position(x.End()).Offset, x.Name + "Rn"})
				}
				return true
			})
			if len(reps) == 0 {
				continue
			}
			sort.Slice(reps, func(i, j int) bool { return reps[i].a > reps[j].a })
			out := append([]byte{}, src...)
			last := -1
			for _, r := range reps {
				if r.a == last {
					continue
				}
				last = r.a
				out = append(append(append([]byte{}, out[:r.a]...), []byte(r.text)...), out[r.e:]...)
				n++
			}
			if err := os.WriteFile(fname, out, 0o644); err != nil {
				fmt.Fprintln(os.Stderr, "write:", err)
				os.Exit(2)
			}
		}
	}
	fmt.Printf("renamed %d identifiers\n", n)
}
