package main

import (
	"fmt"
	"go/types"
	"sort"
	"strings"

	"golang.org/x/tools/go/ssa"
)

const qRebalance = "keeper.Keeper.QueueAssetRebalanceEvent"

// hooksThatMustQueue: staking hooks after which validator power may have changed (see C10.hookcover for
// the staking-side derivation).  value: the staking primitive that makes it necessary.
var hooksThatMustQueue = map[string]string{
	"keeper.Hooks.AfterDelegationModified":      "Delegate / partial Unbond change validator tokens",
	"keeper.Hooks.BeforeDelegationRemoved":      "full Unbond removes the delegation: RemoveValidatorTokensAndShares is preceded only by BeforeDelegationSharesModified and BeforeDelegationRemoved",
	"keeper.Hooks.AfterValidatorBonded":         "validator enters the bonded set",
	"keeper.Hooks.AfterValidatorBeginUnbonding": "validator leaves the bonded set (jail, unbond)",
	"keeper.Hooks.AfterValidatorRemoved":        "validator record removed",
	"keeper.Hooks.BeforeValidatorSlashed":       "slash burns validator tokens",
}

// queueCalls: call sites in fn that schedule a rebalance: direct calls of QueueAssetRebalanceEvent, or calls of an
// in-scope helper all of whose success paths do (wrappers are followed to depth 3).
func queueCalls(fn *ssa.Function) []ssa.Instruction {
	return mustCallSites(curEngine, fn, qRebalance, 0)
}

var curEngine *Engine

func mustCallSites(e *Engine, fn *ssa.Function, target string, depth int) []ssa.Instruction {
	var out []ssa.Instruction
	for _, c := range Calls(fn) {
		k := CalleeKey(c.Common())
		if k == target {
			out = append(out, c)
			continue
		}
		callee := Devirt(c.Common())
		if e == nil || depth >= 3 || callee == nil || callee.Blocks == nil || callee.Pkg == nil || !smPkgs[callee.Pkg.Pkg.Path()] || callee == fn {
			continue
		}
		inner := mustCallSites(e, callee, target, depth+1)
		if len(inner) == 0 {
			continue
		}
		if e.FA(callee).EntryMustPass(inner) == nil {
			out = append(out, c)
		}
	}
	return out
}

func init() {
	register(&Rule{ID: "C10.triggers", Props: []string{"C10", "C08", "C05"}, Floor: 11,
		Doc: "every power-changing event schedules a rebalance on every success path",
		Run: func(e *Engine, r *RuleRun) {
			var hooks []string
			for h := range hooksThatMustQueue {
				hooks = append(hooks, h)
			}
			sort.Strings(hooks)
			for _, h := range hooks {
				fn := r.Need(h)
				if fn == nil {
					continue
				}
				fa := e.FA(fn)
				qs := queueCalls(fn)
				if len(qs) == 0 {
					r.Bad(h, "queues rebalance", "staking hook does not schedule a voting-power rebalance although "+hooksThatMustQueue[h], nil, e.Pos(fn.Pos()))
					continue
				}
				if trail := fa.MustFollow(fn.Blocks[0].Instrs[0], qs); trail != nil {
					r.Bad(h, "queues rebalance", "the hook can return nil without scheduling a rebalance", trail, e.Pos(fn.Pos()))
				} else {
					r.OK(h, "queues rebalance", "every nil-returning path passes QueueAssetRebalanceEvent ("+hooksThatMustQueue[h]+")", posList(e, qs...)...)
				}
			}
			// user operations: after the validator share mutation
			for _, op := range []string{"keeper.Keeper.Delegate", "keeper.Keeper.Undelegate", "keeper.Keeper.Redelegate"} {
				fn := r.Need(op)
				if fn == nil {
					continue
				}
				fa := e.FA(fn)
				muts := CallsTo(fn, "keeper.Keeper.updateValidatorShares")
				qs := queueCalls(fn)
				if len(muts) == 0 {
					r.Bad(op, "share mutation", "no updateValidatorShares call found", nil, e.Pos(fn.Pos()))
					continue
				}
				bad := false
				for _, m := range muts {
					if trail := fa.MustFollow(m, qs); trail != nil || len(qs) == 0 {
						r.Bad(op, "queues rebalance after share change", "a success path changes validator shares without scheduling a rebalance: voting power stays stale", trail, r.P(m))
						bad = true
						break
					}
				}
				if !bad {
					r.OK(op, "queues rebalance after share change", "every success path after updateValidatorShares passes QueueAssetRebalanceEvent", posList(e, qs...)...)
				}
			}
			// governance weight change
			if fn := r.Need("keeper.Keeper.UpdateAllianceAsset"); fn != nil {
				fa := e.FA(fn)
				fk := FuncKey(fn)
				// the weight store, when the weight differs, must be preceded by the queue call on the differs-branch
				it := r.One(fn, "settle validators", "keeper.Keeper.IterateAllianceValidatorInfo")
				if it != nil {
					if trail := fa.MustFollow(it, queueCalls(fn)); trail != nil {
						r.Bad(fk, "queues rebalance when weight changes", "a weight change can be persisted without scheduling a rebalance", trail, r.P(it))
					} else {
						r.OK(fk, "queues rebalance when weight changes", "the weight-differs branch passes QueueAssetRebalanceEvent on every success path", r.P(it))
					}
					// the branch is taken exactly when the weight differs
					okG := fa.HasGuard(it, func(g Guard) bool {
						return !g.Pos && g.Cond.IsCall("math.LegacyDec.Equal") && strings.HasSuffix(g.Cond.Args[0].String(), ".RewardWeight") && strings.HasSuffix(g.Cond.Args[1].String(), ".RewardWeight") && !g.Cond.Args[0].Eq(g.Cond.Args[1])
					})
					r.Check(okG, fk, "weight-differs branch", "guarded by !new.RewardWeight.Equal(stored.RewardWeight)", "the settle-and-queue branch is not taken exactly when the reward weight differs", r.P(it))
					// every SetAsset with a changed RewardWeight is on a path where either weight equal or branch taken: SetAsset is after the merge;
					// make sure no path from function entry to SetAsset with weight differing avoids the branch: the only way around is the Equal-true edge.
				}
			}
			// decay step
			if fn := r.Need("keeper.Keeper.RewardWeightChangeHook"); fn != nil {
				fa := e.FA(fn)
				fk := FuncKey(fn)
				up := r.One(fn, "apply decayed weight", "keeper.Keeper.UpdateAllianceAsset")
				if up != nil {
					if trail := fa.MustPassThrough(nil, up, queueCalls(fn)); trail != nil || len(queueCalls(fn)) == 0 {
						// acceptable alternative: UpdateAllianceAsset queues itself when the weight differs (it does) - but a clamp may
						// leave the weight equal while the clock advanced; require the explicit queue as today
						r.Bad(fk, "queues rebalance on every decay step", "a decay step can be applied without scheduling a rebalance", trail, r.P(up))
					} else {
						r.OK(fk, "queues rebalance on every decay step", "QueueAssetRebalanceEvent precedes UpdateAllianceAsset on every path", r.P(up))
					}
				}
			}
		}})

	register(&Rule{ID: "C10.order", Props: []string{"C10", "C17", "C01", "C09", "C14"}, Floor: 7,
		Doc: "EndBlocker runs maturing, initialisation, take rate and decay before the rebalance, on the same asset list; rebalance iff flag consumed",
		Run: func(e *Engine, r *RuleRun) {
			fn := r.Need("alliance.EndBlocker")
			if fn == nil {
				return
			}
			fa := e.FA(fn)
			fk := FuncKey(fn)
			order := []string{"keeper.Keeper.CompleteRedelegations", "keeper.Keeper.CompleteUnbondings", "keeper.Keeper.InitializeAllianceAssets", "keeper.Keeper.DeductAssetsHook", "keeper.Keeper.RewardWeightChangeHook", "keeper.Keeper.RebalanceHook"}
			var calls []ssa.CallInstruction
			for _, k := range order {
				c := r.One(fn, "step "+k, k)
				if c == nil {
					return
				}
				calls = append(calls, c)
			}
			reb := calls[len(calls)-1]
			for i, c := range calls[:len(calls)-1] {
				r.Check(fa.Dominates(c, reb), fk, "rebalance after "+order[i], "step dominates the rebalance", "the rebalance can run before/without "+order[i]+": voting power would be computed from stale state", r.P(c), r.P(reb))
			}
			assets := argT(fa, calls[2], 1)
			okA := assets.IsCall("keeper.Keeper.GetAllAssets")
			for _, c := range calls[3:] {
				if !argT(fa, c, 1).Eq(assets) {
					okA = false
				}
			}
			r.Check(okA, fk, "one asset list for all steps", "the same GetAllAssets result (pointers) flows through initialise, take rate, decay and rebalance", "steps do not share one asset list: in-memory updates of earlier steps would be invisible to later ones", r.P(calls[2]))
			if okA {
				ga := assets.Instr
				r.Check(fa.Dominates(calls[1], ga), fk, "asset list loaded after maturing", "GetAllAssets is called after CompleteUnbondings", "asset list is loaded before unbondings complete", r.P(ga))
			}
			if rh := r.Need("keeper.Keeper.RebalanceHook"); rh != nil {
				rfa := e.FA(rh)
				rb := r.One(rh, "rebalance", "keeper.Keeper.RebalanceBondTokenWeights")
				if rb != nil {
					okG := rfa.HasGuard(rb, func(g Guard) bool { return g.Pos && g.Cond.IsCall("keeper.Keeper.ConsumeAssetRebalanceEvent") })
					r.Check(okG, FuncKey(rh), "rebalance iff flag consumed", "RebalanceBondTokenWeights is on the true branch of ConsumeAssetRebalanceEvent", "the rebalance is not conditioned on the consumed flag", r.P(rb))
					r.Check(argT(rfa, rb, 1).Op == "param", FuncKey(rh), "passes the asset list through", "assets parameter", "rebalance receives "+argT(rfa, rb, 1).String(), r.P(rb))
					// the flag-true path must reach the rebalance: every path from the consume call on the true edge
					// every path from the consume call to a success exit passes the rebalance, except through the
					// flag-false edge
					ok2 := false
					for _, cc := range CallsTo(rh, "keeper.Keeper.ConsumeAssetRebalanceEvent") {
						trail := rfa.mustReachPruned(cc, []ssa.Instruction{rb}, func(ret *ssa.Return) bool { return !rfa.IsErrorExit(ret) }, func(g Guard) bool {
							return !g.Pos && g.Cond.IsCall("keeper.Keeper.ConsumeAssetRebalanceEvent")
						})
						ok2 = trail == nil
					}
					r.Check(ok2, FuncKey(rh), "consumed flag always rebalances", "no nil return on the flag-true branch without rebalancing", "the flag can be consumed without running the rebalance", r.P(rb))
				}
			}
			if cons := r.Need("keeper.Keeper.ConsumeAssetRebalanceEvent"); cons != nil {
				cfa := e.FA(cons)
				ok := true
				for _, ret := range Returns(cons) {
					t := cfa.Term(ret.Results[0])
					if t.Op == "const" && t.Name == "true" {
						// must be dominated by a successful Get (b != nil) of the flag key
						if !cfa.HasGuard(ret, func(g Guard) bool {
							return g.Cond.Op == "binop" && ((g.Cond.Name == "==" && !g.Pos) || (g.Cond.Name == "!=" && g.Pos)) && strings.Contains(g.Cond.String(), "KVStore.Get") && g.Cond.Args[1].Name == "nil"
						}) {
							ok = false
						}
					}
				}
				r.Check(ok, FuncKey(cons), "flag read", "returns true only when the flag key is present", "ConsumeAssetRebalanceEvent can return true without the flag being set", e.Pos(cons.Pos()))
			}
		}})

	register(&Rule{ID: "C10.rebalance.guards", Props: []string{"C10", "C14"}, Floor: 6,
		Doc: "RebalanceBondTokenWeights: bonded-only, started-only (re-queue), guarded quotient, zero difference skipped",
		Run: func(e *Engine, r *RuleRun) {
			fn := r.Need("keeper.Keeper.RebalanceBondTokenWeights")
			if fn == nil {
				return
			}
			fk, fa := FuncKey(fn), e.FA(fn)
			// closure: IsBonded decides between the bonded list and the unbonded-share accumulator
			var cl *ssa.Function
			for _, a := range fn.AnonFuncs {
				cl = a
			}
			if cl == nil {
				r.Bad(fk, "validator classification closure", "no closure classifying validators found", nil, e.Pos(fn.Pos()))
			} else {
				cfa := e.FA(cl)
				okB, okU := false, false
				for _, b := range cl.Blocks {
					for _, in := range b.Instrs {
						st, ok := in.(*ssa.Store)
						if !ok {
							continue
						}
						root, _, _ := cfa.addrPath(st.Addr)
						isBondedG := func(pos bool) bool {
							return cfa.HasGuard(st, func(g Guard) bool { return g.Pos == pos && g.Cond.IsCall("stakingtypes.Validator.IsBonded") })
						}
						role := ""
						if fvr := freeVarRoot(st.Addr); fvr != nil {
							if pt, ok := fvr.Type().Underlying().(*types.Pointer); ok {
								switch ts := types.TypeString(pt.Elem(), nil); {
								case strings.HasSuffix(ts, "[]"+pTypes+".AllianceValidator"):
									role = "bonded"
								case strings.HasSuffix(ts, "/types.DecCoins"):
									role = "unbonded"
								}
							}
						}
						_ = root
						if role == "bonded" {
							okB = isBondedG(true)
							if !okB {
								r.Bad(fk, "only bonded validators are adjusted", "a validator is added to the adjustment list without IsBonded() holding", nil, r.P(st))
							}
						}
						if role == "unbonded" {
							okU = isBondedG(false)
							if !okU {
								r.Bad(fk, "unbonded validators' shares are excluded", "shares are added to the unbonded accumulator on a path where the validator may be bonded", nil, r.P(st))
							}
						}
					}
				}
				r.Check(okB, fk, "only bonded validators are adjusted", "append to bondedValidators is on the IsBonded() branch", "no guarded append to the bonded list found")
				r.Check(okU, fk, "unbonded validators' shares are excluded", "unbonded accumulator is on the !IsBonded() branch", "no guarded accumulation of unbonded shares found")
			}
			// started-only: every contribution to expectedBondAmount is dominated by RewardsStarted(BlockTime); the not-started branch re-queues
			// the target is found by its role (the minuend of the amount minted), not by the name of a variable
			targetCluster := map[*ssa.Phi]bool{}
			if exp := rebalanceTarget(fa, fn); exp != nil {
				targetCluster, _ = phiCluster(fa, exp)
			}
			var contrib []ssa.CallInstruction
			for _, c := range CallsTo(fn, "math.LegacyDec.Add") {
				if p, ok := recvT(fa, c).Instr.(*ssa.Phi); ok && recvT(fa, c).Op == "phi" && targetCluster[p] {
					contrib = append(contrib, c)
				}
			}
			if len(contrib) == 0 {
				r.Bad(fk, "contribution site", "cannot find the additions that build the validator's target stake (the minuend of the amount minted)", nil, e.Pos(fn.Pos()))
				return
			}
			for _, c := range contrib {
				started := fa.HasGuard(c, func(g Guard) bool {
					return g.Pos && g.Cond.IsCall("types.AllianceAsset.RewardsStarted") && isBlockTime(g.Cond.Args[1])
				})
				r.Check(started, fk, "assets in warm-up contribute nothing", "contribution dominated by asset.RewardsStarted(BlockTime)", "an asset contributes voting power before its reward start time", r.P(c))
				add := c.Common().Args[1]
				t := fa.Term(add)
				okQ := t.IsCall("math.LegacyDec.Mul") && t.Args[0].IsCall("math.LegacyDec.Quo")
				if okQ {
					num, den := t.Args[0].Args[0], t.Args[0].Args[1]
					okQ = fa.HasFact(c, constName(num), ">", "0") && fa.HasFact(c, constName(den), ">", "0")
					r.Check(okQ, fk, "quotient guarded", "valShares and bondedValidatorShares are positive at the division", "the share quotient is computed without both operands being tested positive", r.P(c))
					// native base: RewardWeight.MulInt(TotalBonded - allianceBonded)
					base := t.Args[1]
					okN := base.IsCall("math.LegacyDec.MulInt") && strings.HasSuffix(base.Args[0].String(), ".RewardWeight") && base.Args[1].IsCall("math.Int.Sub") &&
						base.Args[1].Args[0].Op == "extract" && base.Args[1].Args[0].Args[0].IsCall("types.StakingKeeper.TotalBondedTokens") &&
						base.Args[1].Args[1].Op == "extract" && base.Args[1].Args[1].Args[0].IsCall("keeper.Keeper.GetAllianceBondedAmount")
					r.Check(okN, fk, "target base is rewardWeight x native bonded stake", "RewardWeight.MulInt(TotalBondedTokens - GetAllianceBondedAmount(module))", "the per-asset target is not reward weight x (total bonded - alliance bonded): "+base.String(), r.P(c))
					okD := den.IsCall("math.LegacyDec.Sub") && strings.HasSuffix(den.Args[0].String(), ".TotalValidatorShares") && den.Args[1].IsCall("sdk.DecCoins.AmountOf")
					r.Check(okD, fk, "fraction of bonded shares", "valShares / (asset.TotalValidatorShares - unbonded shares of the denom)", "the validator fraction is not taken over the asset's bonded validator shares: "+den.String(), r.P(c))
					okV := num.IsCall("types.AllianceValidator.ValidatorSharesWithDenom")
					r.Check(okV, fk, "numerator is the validator's share of the asset", "validator.ValidatorSharesWithDenom(asset.Denom)", "numerator is "+num.String(), r.P(c))
				} else {
					r.Bad(fk, "contribution shape", "contribution is not (valShares/bondedShares) * (weight * native): "+t.String(), nil, r.P(c))
				}
			}
			// not-started branch re-queues
			okRq := false
			for _, q := range CallsTo(fn, qRebalance) {
				if fa.HasGuard(q, func(g Guard) bool { return !g.Pos && g.Cond.IsCall("types.AllianceAsset.RewardsStarted") }) {
					okRq = true
				}
			}
			r.Check(okRq, fk, "warm-up re-queues", "a rebalance is queued while an asset has not started", "no re-queue on the not-started branch: voting power would never be granted when the warm-up ends", e.Pos(fn.Pos()))
			// zero difference skipped: mint and unbond are dominated by !IsZero(truncated difference)
			for _, key := range []string{"types.BankKeeper.MintCoins", "types.StakingKeeper.Unbond"} {
				for _, c := range CallsTo(fn, key) {
					ok := fa.HasGuard(c, func(g Guard) bool { return !g.Pos && g.Cond.IsCall("math.Int.IsZero") })
					r.Check(ok, fk, "zero difference skipped before "+strings.TrimPrefix(key, "types."), "dominated by !amount.IsZero()", "staking is called with a possibly zero amount", r.P(c))
				}
			}
		}})

	register(&Rule{ID: "C10.amounts", Props: []string{"C10", "C17", "C11"}, Floor: 4,
		Doc: "the amount minted+delegated / unbonded is exactly the truncated difference between target and current stake, in the branch where that difference is positive",
		Run: func(e *Engine, r *RuleRun) {
			fn := r.Need("keeper.Keeper.RebalanceBondTokenWeights")
			if fn == nil {
				return
			}
			fk, fa := FuncKey(fn), e.FA(fn)
			mint := r.One(fn, "mint", "types.BankKeeper.MintCoins")
			vu := r.One(fn, "validate unbond", "types.StakingKeeper.ValidateUnbondAmount")
			if mint == nil || vu == nil {
				return
			}
			diff := func(t *Term) (a, b *Term, ok bool) {
				if t.IsCall("math.LegacyDec.TruncateInt") && t.Args[0].IsCall("math.LegacyDec.Sub") {
					return t.Args[0].Args[0], t.Args[0].Args[1], true
				}
				return nil, nil, false
			}
			var target, current *Term
			coin := singleCoin(argT(fa, mint, 2))
			if coin != nil && coin.IsCall("sdk.NewCoin") {
				exp, cur, ok := diff(coin.Args[1])
				okG := ok && exp.Op == "phi" && cur.Op == "phi" && fa.HasFact(mint, exp.String(), ">", cur.String())
				if okG {
					target, current = exp, cur
				}
				r.Check(okG, fk, "amount minted = trunc(target - current), where target > current", "(expected - current).TruncateInt() under expected.GT(current)", "the amount minted and delegated is "+coin.Args[1].String()+", not the truncated positive difference between the validator's target and current alliance stake", r.P(mint))
			} else {
				r.Bad(fk, "amount minted", "cannot recognise the minted coin", nil, r.P(mint))
			}
			amt := argT(fa, vu, 3)
			cur, exp, ok := diff(amt)
			// the same two quantities as on the mint side, in the opposite order
			okU := ok && target != nil && exp.Eq(target) && cur.Eq(current) && fa.HasFact(vu, exp.String(), "<", cur.String())
			r.Check(okU, fk, "amount unbonded = trunc(current - target), where target < current", "(current - expected).TruncateInt() under expected.LT(current)", "the amount asked to be unbonded is "+amt.String()+", not the truncated positive difference between current and target: it can exceed what the module's delegation is worth (staking then rejects it and end-of-block fails) or miss the target", r.P(vu))
			// current stake is the token value of the module's own delegation to this validator
			if current != nil {
				_, leaves := phiCluster(fa, current)
				okC := false
				for _, t := range leaves {
					if (t.IsCall("stakingtypes.Validator.TokensFromShares") || t.IsCall("stakingtypes.Validator.TokensFromSharesTruncated")) && len(t.FindCalls("types.StakingKeeper.GetDelegation")) > 0 {
						okC = true
					} else if !t.IsCall("math.LegacyZeroDec") {
						okC = false
						break
					}
				}
				r.Check(okC, fk, "current stake = token value of the module's delegation (zero if none)", "validator.TokensFromShares[Truncated](GetDelegation(module, val).Shares) or 0 (the rounding direction is decided by C17.unbondfits)", "the current alliance stake of the validator is not read from the module's own staking delegation", r.P(mint))
			}
			if target != nil {
				cluster, leaves := phiCluster(fa, target)
				okE := true
				n := 0
				for _, t := range leaves {
					switch {
					case t.IsCall("math.LegacyZeroDec"):
					case t.IsCall("math.LegacyDec.Add") && t.Args[0].Op == "phi":
						if p, ok := t.Args[0].Instr.(*ssa.Phi); ok && cluster[p] {
							n++
						} else {
							okE = false
						}
					default:
						okE = false
					}
				}
				r.Check(okE && n == 1, fk, "target = sum of per-asset contributions starting from zero", "expected := 0; expected = expected.Add(contribution)", "the target stake is not accumulated from zero by adding one contribution per asset", r.P(mint))
			}
		}})

	register(&Rule{ID: "C11.mint", Props: []string{"C11", "C10"}, Floor: 5,
		Doc: "minted amount == delegated amount, for the module address, from the module account; delegate follows mint",
		Run: func(e *Engine, r *RuleRun) {
			fn := r.Need("keeper.Keeper.RebalanceBondTokenWeights")
			if fn == nil {
				return
			}
			fk, fa := FuncKey(fn), e.FA(fn)
			mint := r.One(fn, "mint", "types.BankKeeper.MintCoins")
			del := r.One(fn, "delegate", "types.StakingKeeper.Delegate")
			if mint == nil || del == nil {
				return
			}
			coin := singleCoin(argT(fa, mint, 2))
			okC := coin != nil && coin.IsCall("sdk.NewCoin")
			if !okC {
				r.Bad(fk, "minted coin", "cannot recognise the minted coin: "+argT(fa, mint, 2).String(), nil, r.P(mint))
				return
			}
			r.Check(moduleName(argT(fa, mint, 1)) == "alliance", fk, "minted into the module account", "MintCoins(alliance, ...)", "minted into "+argT(fa, mint, 1).String(), r.P(mint))
			r.Check(coin.Args[0].Op == "extract" && coin.Args[0].Args[0].IsCall("types.StakingKeeper.BondDenom"), fk, "minted denom is the staking denom", "StakingKeeper.BondDenom", "minted denom is "+coin.Args[0].String(), r.P(mint))
			r.Check(argT(fa, del, 2).Eq(coin.Args[1]), fk, "amount delegated == amount minted", "same term", "the amount delegated ("+argT(fa, del, 2).String()+") differs from the amount minted ("+coin.Args[1].String()+"): virtual tokens leak or staking fails", r.P(mint), r.P(del))
			modAddr := argT(fa, del, 1)
			r.Check(modAddr.IsCall("types.AccountKeeper.GetModuleAddress") && moduleName(modAddr.Args[1]) == "alliance", fk, "delegator is the module address", "GetModuleAddress(alliance)", "delegator is "+modAddr.String(), r.P(del))
			r.Check(argT(fa, del, 5).Op == "const" && argT(fa, del, 5).Name == "true", fk, "delegation spends the module account", "subtractAccount = true", "subtractAccount is "+argT(fa, del, 5).String()+": minted coins would stay in the module account", r.P(del))
			r.Check(argT(fa, del, 3).Op == "const" && argT(fa, del, 3).Name == "1", fk, "token source is Unbonded (account)", "stakingtypes.Unbonded", "token source is "+argT(fa, del, 3).String(), r.P(del))
			if trail := fa.MustFollow(mint, []ssa.Instruction{del}); trail != nil {
				// the loop continues to next validators; success exits must pass delegate of this iteration: search within the iteration
				r.Bad(fk, "mint => delegate", "a success path mints virtual tokens without delegating them", trail, r.P(mint))
			} else {
				r.OK(fk, "mint => delegate", "every success path after MintCoins passes StakingKeeper.Delegate", r.P(del))
			}
			r.Check(fa.Dominates(mint, del), fk, "delegate => mint", "Delegate is only reached through MintCoins", "Delegate can run without a preceding mint", r.P(del))
			// delegated validator is the iteration's validator
			vt := argT(fa, del, 4)
			r.Check(vt.Op == "deref" && strings.HasSuffix(vt.Args[0].String(), ".Validator") && loopPhiOf(vt) != nil, fk, "delegates to the iteration's validator", "*validator.Validator of the bonded validator being adjusted", "delegates to "+vt.String(), r.P(del))
		}})

	register(&Rule{ID: "C17.unbondfits", Props: []string{"C17", "C10"}, Floor: 1,
		Doc: "the rebalance values the module's own stake rounding down, so the amount it asks x/staking to unbond never exceeds what the shares are worth",
		Run: func(e *Engine, r *RuleRun) {
			fn := r.Need("keeper.Keeper.RebalanceBondTokenWeights")
			if fn == nil {
				return
			}
			fk, fa := FuncKey(fn), e.FA(fn)
			vu := r.One(fn, "unbond amount validation", "types.StakingKeeper.ValidateUnbondAmount")
			if vu == nil {
				return
			}
			amt := argT(fa, vu, 3)
			// the amount is trunc(current - expected); current must be a round-down valuation of the delegation's shares
			rounded := CallsTo(fn, "stakingtypes.Validator.TokensFromShares")
			truncd := CallsTo(fn, "stakingtypes.Validator.TokensFromSharesTruncated")
			uses := func(calls []ssa.CallInstruction) ssa.CallInstruction {
				for _, c := range calls {
					v, ok := c.(ssa.Value)
					if !ok {
						continue
					}
					// flows into the amount through the currentBondedAmount phi
					hit := false
					amt.Walk(func(x *Term) {
						if x.Op == "phi" {
							if p, ok := x.Instr.(*ssa.Phi); ok {
								for _, ed := range p.Edges {
									if ed == v {
										hit = true
									}
								}
							}
						}
						if x.Instr == ssa.Instruction(c) {
							hit = true
						}
					})
					if hit {
						return c
					}
				}
				return nil
			}
			if c := uses(rounded); c != nil {
				r.Bad(fk, "unbond amount derives from a round-down valuation of the module's shares", "the amount passed to ValidateUnbondAmount is trunc(TokensFromShares(shares) - target): TokensFromShares rounds half-up, so when the target is zero (full unbond) the amount can exceed the value of the shares by a fraction; on a validator whose shares-per-token rate is 2 or more (after slashes) the shares needed for that amount exceed the delegation even after truncation, x/staking answers `invalid shares amount`, the end blocker returns the error in every block (chain halt)", nil, r.P(c))
			} else if c := uses(truncd); c != nil {
				r.OK(fk, "unbond amount derives from a round-down valuation of the module's shares", "TokensFromSharesTruncated", r.P(c))
			} else {
				r.Undecided(fk, "unbond amount derives from a round-down valuation of the module's shares", "cannot find the valuation of the module's delegation that feeds the unbond amount ("+amt.String()+")")
			}
		}})

	register(&Rule{ID: "C11.claimfirst", Props: []string{"C11", "C12", "C13", "C01"}, Floor: 2,
		Doc: "the module's own stake on a validator changes only after that validator's pending rewards were claimed",
		Run: func(e *Engine, r *RuleRun) {
			// x/distribution withdraws a delegator's pending rewards automatically (BeforeDelegationSharesModified)
			// whenever its delegation changes, to the delegator's own account.  For the module's delegation that is
			// the alliance module account: coins that arrive there are neither indexed nor forwarded to the rewards
			// pool, and the end blocker burns every staking-denom coin the module account holds.
			n := 0
			for _, fn := range e.SMFuncs() {
				fk, fa := FuncKey(fn), e.FA(fn)
				for _, c := range CallsTo(fn, "types.StakingKeeper.Delegate", "types.StakingKeeper.Unbond", "types.StakingKeeper.Undelegate", "types.StakingKeeper.BeginRedelegation") {
					del := argT(fa, c, 1)
					if !del.IsCall("types.AccountKeeper.GetModuleAddress") || moduleName(del.Args[1]) != "alliance" {
						continue
					}
					n++
					kind := strings.TrimPrefix(CalleeKey(c.Common()), "types.StakingKeeper.")
					// which validator?
					var val string
					switch kind {
					case "Delegate":
						vt := argT(fa, c, 4)
						if vt.Op == "deref" && strings.HasSuffix(vt.Args[0].String(), ".Validator") {
							val = strings.TrimSuffix(vt.Args[0].String(), ".Validator")
						}
					default:
						va := argT(fa, c, 2)
						if va.Op == "extract" && va.Args[0].IsCall("types.AllianceValidator.GetValAddress") {
							val = va.Args[0].CallArgsT()[0].String()
						}
					}
					construct := "module stake change (" + kind + ") preceded by the validator's reward claim"
					if val == "" {
						r.Undecided(fk, construct, "cannot identify the validator whose module delegation is changed")
						continue
					}
					ok := false
					for _, cl := range CallsTo(fn, "keeper.Keeper.ClaimValidatorRewards") {
						if fa.Dominates(cl, c) && stripOrd(argT(fa, cl, 1).String()) == stripOrd(val) {
							ok = true
						}
					}
					r.Check(ok, fk, construct, "ClaimValidatorRewards("+stripOrd(val)+") dominates the call", "the module's delegation on a validator is changed without first claiming that validator's rewards: x/distribution then withdraws the pending rewards into the module account, where they are not indexed for delegators and are burnt with the staking-denom sweep of the next end blocker", r.P(c))
				}
			}
			r.Check(n >= 2, "-", "module stake changes found", fmt.Sprintf("%d staking calls that change the module's own delegation", n), fmt.Sprintf("only %d found", n))
		}})

	register(&Rule{ID: "C11.burn", Props: []string{"C11", "C10"}, Floor: 5,
		Doc: "burned amount == amount returned by Unbond for the module address; burn follows unbond",
		Run: func(e *Engine, r *RuleRun) {
			fn := r.Need("keeper.Keeper.RebalanceBondTokenWeights")
			if fn == nil {
				return
			}
			fk, fa := FuncKey(fn), e.FA(fn)
			unb := r.One(fn, "unbond", "types.StakingKeeper.Unbond")
			var burn ssa.CallInstruction
			for _, c := range CallsTo(fn, "types.BankKeeper.BurnCoins") {
				burn = c
			}
			if unb == nil || burn == nil {
				if burn == nil {
					r.Bad(fk, "burn", "no BurnCoins call", nil, e.Pos(fn.Pos()))
				}
				return
			}
			coin := singleCoin(argT(fa, burn, 2))
			if coin == nil || !coin.IsCall("sdk.NewCoin") {
				r.Bad(fk, "burned coin", "cannot recognise the burned coin: "+argT(fa, burn, 2).String(), nil, r.P(burn))
				return
			}
			r.Check(moduleName(argT(fa, burn, 1)) == "bonded_tokens_pool", fk, "burned from the bonded pool", "BurnCoins(bonded_tokens_pool)", "burned from "+argT(fa, burn, 1).String(), r.P(burn))
			r.Check(coin.Args[1].Eq(extractT(fa, unb, 0)), fk, "amount burned == amount unbonded", "first result of StakingKeeper.Unbond", "amount burned ("+coin.Args[1].String()+") is not what Unbond returned", r.P(burn))
			r.Check(coin.Args[0].Op == "extract" && coin.Args[0].Args[0].IsCall("types.StakingKeeper.BondDenom"), fk, "burned denom is the staking denom", "BondDenom", "burned denom is "+coin.Args[0].String(), r.P(burn))
			ma := argT(fa, unb, 1)
			r.Check(ma.IsCall("types.AccountKeeper.GetModuleAddress") && moduleName(ma.Args[1]) == "alliance", fk, "unbonds the module's own delegation", "delegator = GetModuleAddress(alliance)", "unbonds for "+ma.String(), r.P(unb))
			sh := argT(fa, unb, 3)
			okS := sh.Op == "extract" && sh.Args[0].IsCall("types.StakingKeeper.ValidateUnbondAmount")
			if okS {
				va := sh.Args[0].CallArgsT()
				okS = va[2].Eq(ma) && va[3].Eq(argT(fa, unb, 2))
			}
			r.Check(okS, fk, "shares from ValidateUnbondAmount of the same delegation", "same delegator and validator", "shares unbonded are "+sh.String(), r.P(unb))
			if trail := fa.MustFollow(unb, []ssa.Instruction{burn}); trail != nil {
				r.Bad(fk, "unbond => burn", "a success path unbonds virtual tokens without burning them (native supply would grow)", trail, r.P(unb))
			} else {
				r.OK(fk, "unbond => burn", "every success path after Unbond passes BurnCoins", r.P(burn))
			}
			r.Check(fa.Dominates(unb, burn), fk, "burn => unbond", "BurnCoins is only reached through Unbond", "the bonded pool can be burned without a preceding Unbond", r.P(burn))
		}})

	register(&Rule{ID: "C11.sweep", Props: []string{"C11"}, Floor: 4,
		Doc: "every success exit of CompleteUnbondings passes the balance-test-and-burn of the staking denom in the module account",
		Run: func(e *Engine, r *RuleRun) {
			fn := r.Need("keeper.Keeper.CompleteUnbondings")
			if fn == nil {
				return
			}
			fk, fa := FuncKey(fn), e.FA(fn)
			gb := r.One(fn, "module balance", "types.BankKeeper.GetBalance")
			burn := r.One(fn, "burn", "types.BankKeeper.BurnCoins")
			if gb == nil || burn == nil {
				return
			}
			addr, denom := argT(fa, gb, 1), argT(fa, gb, 2)
			r.Check(addr.IsCall("types.AccountKeeper.GetModuleAddress") && moduleName(addr.Args[1]) == "alliance", fk, "balance of the module account", "GetModuleAddress(alliance)", "balance of "+addr.String(), r.P(gb))
			r.Check(denom.Op == "extract" && denom.Args[0].IsCall("types.StakingKeeper.BondDenom"), fk, "balance in the staking denom", "BondDenom", "denom is "+denom.String(), r.P(gb))
			c := singleCoin(argT(fa, burn, 2))
			r.Check(c != nil && c.Eq(resultT(fa, gb)) && moduleName(argT(fa, burn, 1)) == "alliance", fk, "burns the whole balance from the module account", "BurnCoins(alliance, [GetBalance result])", "burn argument is "+argT(fa, burn, 2).String()+" from "+argT(fa, burn, 1).String(), r.P(burn))
			okG := fa.HasGuard(burn, func(g Guard) bool {
				return !g.Pos && isCoinZeroTest(g.Cond, resultT(fa, gb))
			})
			r.Check(okG, fk, "burn iff balance non-zero", "guarded by !coin.IsZero()", "burn is not guarded by the non-zero test of the same balance", r.P(burn))
			// every success exit passes the balance read; the only way around the burn is the IsZero edge
			prune := func(g Guard) bool {
				return g.Pos && isCoinZeroTest(g.Cond, resultT(fa, gb))
			}
			if trail := fa.mustReachPruned(fn.Blocks[0].Instrs[0], []ssa.Instruction{burn}, func(ret *ssa.Return) bool { return !fa.IsErrorExit(ret) }, prune); trail != nil {
				r.Bad(fk, "sweep on every success exit", "CompleteUnbondings can succeed without sweeping staking-denom coins from the module account", trail, r.P(burn))
			} else {
				r.OK(fk, "sweep on every success exit", "every success exit passes the burn unless the balance is zero", r.P(burn))
			}
		}})

	register(&Rule{ID: "C11.nouserbond", Props: []string{"C11"}, Floor: 1,
		Doc: "no payment to an account derives from a minted amount or the bond denom",
		Run: func(e *Engine, r *RuleRun) {
			n := 0
			for _, s := range e.bankSitesFound() {
				if !strings.HasPrefix(s.atom, "SendCoinsFromModuleToAccount") {
					continue
				}
				n++
				fa := e.FA(s.fn)
				amt := argT(fa, s.call, 3)
				bad := len(amt.FindCalls("types.StakingKeeper.BondDenom", "types.BankKeeper.MintCoins", "types.StakingKeeper.Unbond")) > 0
				r.Check(!bad, FuncKey(s.fn), "payout "+s.atom, "amount does not derive from the staking denom or a minted/unbonded amount", "a payment to an account derives from virtual staking tokens: "+amt.String(), r.P(s.call))
			}
			_ = n
		}})

	register(&Rule{ID: "C11.supply", Props: []string{"C11", "C10"}, Floor: 4,
		Doc: "bank supply queries subtract the alliance-bonded amount of the module address",
		Run: func(e *Engine, r *RuleRun) {
			for _, k := range []string{"bankkeeper.Keeper.SupplyOf", "bankkeeper.Keeper.TotalSupply"} {
				fn := r.Need(k)
				if fn == nil {
					continue
				}
				fa := e.FA(fn)
				ab := r.One(fn, "alliance bonded amount", "keeper.Keeper.GetAllianceBondedAmount")
				if ab == nil {
					continue
				}
				ma := argT(fa, ab, 1)
				r.Check((ma.Op == "call" || ma.Op == "ncall") && strings.HasSuffix(ma.Name, ".GetModuleAddress") && moduleName(ma.CallArgsT()[len(ma.CallArgsT())-1]) == "alliance", k, "bonded amount of the alliance module address", "GetModuleAddress(alliance)", "bonded amount is computed for "+ma.String(), r.P(ab))
				bonded := extractT(fa, ab, 0)
				// the value returned on success subtracts `bonded`
				found := false
				for _, c := range CallsTo(fn, "math.Int.Sub", "sdk.Coins.Sub") {
					t := resultT(fa, c)
					if t.Contains(bonded) {
						found = true
						// the subtraction result must flow into the response: check a success return contains it or a store of it
						_ = t
					}
				}
				r.Check(found, k, "supply reported net of alliance bonded", "a Sub(...) of the bonded amount exists", "the alliance-bonded amount is not subtracted from the reported supply", r.P(ab))
				if k == "bankkeeper.Keeper.SupplyOf" {
					// subtraction applies exactly when the requested denom is the bond denom
					for _, c := range CallsTo(fn, "math.Int.Sub") {
						// as a relation: `if req.Denom == bondDenom {..}` and `if req.Denom != bondDenom { return }` are the same fact
						okG := false
						for _, rel := range fa.FactsAt(c) {
							if rel.Op != "==" || rel.TA == nil || rel.TB == nil {
								continue
							}
							a, b := rel.TA.String(), rel.TB.String()
							if strings.Contains(a, "BondDenom") {
								a, b = b, a
							}
							if strings.HasSuffix(a, ".Denom") && strings.Contains(b, "BondDenom") {
								okG = true
							}
						}
						r.Check(okG, k, "net only for the staking denom", "guarded by req.Denom == bondDenom", "the subtraction is not conditioned on the requested denom being the staking denom", r.P(c))
					}
				} else {
					for _, c := range CallsTo(fn, "sdk.Coins.Sub") {
						cc := singleCoin(argT(fa, c, 0))
						r.Check(cc != nil && cc.IsCall("sdk.NewCoin") && strings.Contains(cc.Args[0].String(), "BondDenom") && cc.Args[1].Eq(bonded), k, "subtracts (bondDenom, bonded)", "NewCoin(bondDenom, allianceBonded)", "subtracts "+argT(fa, c, 0).String(), r.P(c))
					}
				}
			}
			if fn := r.Need("keeper.Keeper.GetAllianceBondedAmount"); fn != nil {
				var cl *ssa.Function
				for _, a := range fn.AnonFuncs {
					cl = a
				}
				if cl != nil {
					cfa := e.FA(cl)
					ok := false
					for _, c := range CallsTo(cl, "stakingtypes.Validator.TokensFromSharesTruncated") {
						if cfa.HasGuard(c, func(g Guard) bool { return g.Pos && g.Cond.IsCall("stakingtypes.Validator.IsBonded") }) {
							ok = true
						}
					}
					r.Check(ok, FuncKey(fn), "sums bonded validators only", "TokensFromSharesTruncated under IsBonded()", "the bonded amount is not restricted to bonded validators", e.Pos(fn.Pos()))
				}
				fa := e.FA(fn)
				it := r.One(fn, "iterate the delegator's delegations", "types.StakingKeeper.IterateDelegatorDelegations")
				if it != nil {
					r.Check(argT(fa, it, 1).Op == "param", FuncKey(fn), "delegator parameter", "iterates the delegator parameter's delegations", "iterates "+argT(fa, it, 1).String(), r.P(it))
				}
			}
		}})
	_ = fmt.Sprint
}

// phiCluster: the phis reachable from t through phi edges, and the distinct non-phi values that flow into them.
func phiCluster(fa *FuncAnalysis, t *Term) (map[*ssa.Phi]bool, []*Term) {
	cluster := map[*ssa.Phi]bool{}
	var leaves []*Term
	seen := map[string]bool{}
	var visit func(t *Term)
	visit = func(t *Term) {
		if p, ok := t.Instr.(*ssa.Phi); ok && t.Op == "phi" {
			if cluster[p] {
				return
			}
			cluster[p] = true
			for _, ed := range p.Edges {
				visit(fa.Term(ed))
			}
			return
		}
		if !seen[t.String()] {
			seen[t.String()] = true
			leaves = append(leaves, t)
		}
	}
	visit(t)
	return cluster, leaves
}

// rebalanceTarget: the validator's target stake in RebalanceBondTokenWeights, identified by its role: the minuend of
// the truncated difference that is minted.
func rebalanceTarget(fa *FuncAnalysis, fn *ssa.Function) *Term {
	for _, mint := range CallsTo(fn, "types.BankKeeper.MintCoins") {
		coin := singleCoin(argT(fa, mint, 2))
		if coin != nil && coin.IsCall("sdk.NewCoin") {
			t := coin.Args[1]
			if t.IsCall("math.LegacyDec.TruncateInt") && t.Args[0].IsCall("math.LegacyDec.Sub") && t.Args[0].Args[0].Op == "phi" {
				return t.Args[0].Args[0]
			}
		}
	}
	return nil
}

// freeVarRoot: the captured variable that the address is rooted in, if any.
func freeVarRoot(v ssa.Value) *ssa.FreeVar {
	for {
		switch x := v.(type) {
		case *ssa.FieldAddr:
			v = x.X
		case *ssa.IndexAddr:
			v = x.X
		case *ssa.FreeVar:
			return x
		default:
			return nil
		}
	}
}

// isCoinZeroTest: cond is coin.IsZero() / coin.Amount.IsZero() (one spelling after librarySynonym) of the given coin.
func isCoinZeroTest(cond *Term, coin *Term) bool {
	if !cond.IsCall("math.Int.IsZero") || len(cond.Args) == 0 {
		return false
	}
	a := cond.Args[0]
	return a.Op == "field" && a.Name == "Amount" && a.Args[0].Eq(coin)
}
