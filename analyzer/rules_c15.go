package main

import (
	"fmt"
	"regexp"
	"strings"

	"golang.org/x/tools/go/ssa"
)

var injectiveConv = map[string]bool{"math.LegacyDec.String": true, "math.Int.String": true, "time.Time.UnixNano": true, "time.Time.Unix": true, "time.Time.UnixMilli": true, "time.Time.UnixMicro": true,
	"sdk.AccAddress.String": true, "sdk.ValAddress.String": true, "time.Time.String": true}

func init() {
	register(&Rule{ID: "C15.transitive", Props: []string{"C15"}, Floor: 5,
		Doc: "an onward hop out of a validator with a pending inbound redelegation is rejected before any mutation",
		Run: func(e *Engine, r *RuleRun) {
			fn := r.Need("keeper.Keeper.Redelegate")
			hr := r.Need("keeper.Keeper.HasRedelegation")
			if fn == nil || hr == nil {
				return
			}
			k, fa := FuncKey(fn), e.FA(fn)
			var srcAddr *Term
			for _, c := range CallsTo(fn, "types.AllianceValidator.GetValAddress") {
				if argT(fa, c, -1) != nil && recvT(fa, c).String() == "$srcVal" {
					srcAddr = extractT(fa, c, 0)
				}
			}
			if srcAddr == nil {
				r.Bad(k, "source address", "cannot find srcVal.GetValAddress()", nil)
				return
			}
			guard := func(in ssa.Instruction) bool {
				return fa.HasGuard(in, func(g Guard) bool {
					if g.Pos || !g.Cond.IsCall("keeper.Keeper.HasRedelegation") {
						return false
					}
					a := g.Cond.CallArgsT()
					return a[2].String() == "$delAddr" && a[3].Eq(srcAddr) && a[4].String() == "$coin.Denom"
				})
			}
			for _, c := range CallsTo(fn, mutatorCalls...) {
				r.Check(guard(c), k, "mutation "+CalleeKey(c.Common())+" after the transitive-redelegation test", "dominated by !HasRedelegation(delAddr, source validator, coin.Denom)", "stake can be moved out of the source validator while a redelegation into it by the same delegator is still pending", r.P(c))
			}
			// HasRedelegation scans the records whose destination is the given validator
			hk, hfa := FuncKey(hr), e.FA(hr)
			it := r.One(hr, "prefix scan", "storetypes.KVStorePrefixIterator")
			if it != nil {
				p := argT(hfa, it, 1)
				ok := p.IsCall("types.GetRedelegationsKey") && p.Args[0].String() == "$delAddr" && p.Args[1].String() == "$denom" && p.Args[2].String() == "$dstVal"
				r.Check(ok, hk, "scans (delegator, denom, destination) records", "prefix GetRedelegationsKey(delAddr, denom, dstVal)", "the pending-redelegation test scans "+p.String(), r.P(it))
				okR := false
				for _, ret := range Returns(hr) {
					t := hfa.Term(ret.Results[0])
					if t.Op == "ncall" && strings.HasSuffix(t.Name, "Iterator.Valid") && t.Args[0].Eq(resultT(hfa, it)) {
						okR = true
					}
				}
				r.Check(okR, hk, "true iff a record exists under the prefix", "returns iter.Valid()", "the result is not the validity of the prefix iterator", e.Pos(hr.Pos()))
			}
			// the record is created with source and destination in the right slots
			add := r.One(fn, "record", "keeper.Keeper.addRedelegation")
			if add != nil {
				var dstAddr *Term
				for _, c := range CallsTo(fn, "types.AllianceValidator.GetValAddress") {
					if recvT(fa, c).String() == "$dstVal" {
						dstAddr = extractT(fa, c, 0)
					}
				}
				ok := dstAddr != nil && argT(fa, add, 2).Eq(srcAddr) && argT(fa, add, 3).Eq(dstAddr) && argT(fa, add, 1).String() == "$delAddr" && argT(fa, add, 4).String() == "$coin"
				r.Check(ok, k, "pending entry records (delegator, source, destination, coin)", "addRedelegation(delAddr, srcValAddr, dstValAddr, coin, completion)", "the pending entry is recorded with other arguments: "+argT(fa, add, 2).String()+" -> "+argT(fa, add, 3).String(), r.P(add))
				us := CallsTo(fn, "keeper.Keeper.updateValidatorShares")
				if len(us) > 0 {
					r.Check(fa.MustFollow(us[len(us)-1], []ssa.Instruction{add}) == nil, k, "stake moved => pending entry recorded", "addRedelegation follows on every success path", "stake can be moved without recording the pending entry (the onward-hop restriction and slashing of the entry are lost)", r.P(add))
				}
			}
			// same validator rejected
			first := CallsTo(fn, "keeper.Keeper.GetAssetByDenom")
			if len(first) > 0 {
				ok := fa.HasGuard(first[0], func(g Guard) bool {
					return !g.Pos && strings.HasSuffix(g.Cond.Name, "Validator.Equal")
				})
				r.Check(ok, k, "redelegation to the same validator rejected", "dominated by !src.Equal(dst)", "a redelegation from a validator to itself is not rejected", r.P(first[0]))
			}
		}})

	register(&Rule{ID: "C20.balance", Props: []string{"C20", "C05"}, Floor: 6,
		Doc: "every reported delegation balance is GetDelegationTokens of the records loaded for that delegation; it agrees with the cap used by Undelegate",
		Run: func(e *Engine, r *RuleRun) {
			n := 0
			for _, fn := range e.SMFuncs() {
				pk := fn.Pkg.Pkg.Path()
				if pk != pKeeper && pk != pBindings {
					continue
				}
				top := FuncKey(topFunc(fn))
				if !strings.HasPrefix(top, "keeper.QueryServer.") && !strings.HasPrefix(top, "bindings.QueryPlugin.") {
					continue
				}
				fa := e.FA(fn)
				for _, c := range CallsTo(fn, "types.GetDelegationTokens") {
					n++
					fk := FuncKey(fn)
					d, v, a := argT(fa, c, 0), argT(fa, c, 1), argT(fa, c, 2)
					// delegation: decoded record or GetDelegation result
					var denom, valAddrOK = (*Term)(nil), false
					okD := d.Op == "out" || (d.Op == "extract" && d.Args[0].IsCall("keeper.Keeper.GetDelegation"))
					okA := a.Op == "extract" && a.Args[0].IsCall("keeper.Keeper.GetAssetByDenom")
					okV := v.Op == "extract" && v.Args[0].IsCall("keeper.Keeper.GetAllianceValidator")
					if okD && okA && okV {
						ad := a.Args[0].CallArgsT()[2]
						vv := v.Args[0].CallArgsT()[2]
						if d.Op == "out" {
							denom = mkField(d, "Denom")
							valAddrOK = vv.Op == "extract" && vv.Args[0].IsCall("sdk.ValAddressFromBech32") && vv.Args[0].Args[0].Eq(mkField(d, "ValidatorAddress"))
						} else {
							ga := d.Args[0].CallArgsT()
							denom = ga[4]
							valAddrOK = vv.Eq(ga[3])
						}
						okA = ad.Eq(denom)
					}
					r.Check(okD && okA && okV && valAddrOK, fk, "balance computed from the delegation's own validator and asset", "GetDelegationTokens(delegation, validator of that delegation, asset of that delegation's denom)", "a reported balance is computed with a validator or asset that does not belong to the delegation being reported", r.P(c))
					// the value flows into the response
					used := false
					for _, b := range fn.Blocks {
						for _, in := range b.Instrs {
							if st, ok := in.(*ssa.Store); ok {
								if t := fa.Term(st.Val); t.Contains(resultT(fa, c)) {
									if f, ok := st.Addr.(*ssa.FieldAddr); ok {
										nm := derefStruct(f.X.Type()).Field(f.Field).Name()
										if nm == "Balance" || nm == "Amount" {
											used = true
										}
									}
								}
							}
						}
					}
					r.Check(used, fk, "computed balance is what is reported", "stored into the response's Balance/Amount field", "the computed balance does not reach the response", r.P(c))
				}
			}
			// sibling agreement: GetDelegationTokens (queries) vs GetDelegationTokensWithShares (cap of Undelegate)
			a, b := r.Need("types.GetDelegationTokens"), r.Need("types.GetDelegationTokensWithShares")
			if a != nil && b != nil {
				seq := func(fn *ssa.Function) string {
					var s []string
					for _, c := range Calls(fn) {
						s = append(s, CalleeKey(c.Common()))
					}
					return strings.Join(s, " ; ")
				}
				fa, fb := e.FA(a), e.FA(b)
				ra := fa.Term(Returns(a)[0].Results[0]).String()
				rb := fb.Term(Returns(b)[0].Results[0]).String()
				ord := regexp.MustCompile(`@[0-9]+`)
				ra, rb = ord.ReplaceAllString(ra, ""), ord.ReplaceAllString(rb, "")
				same := seq(a) == seq(b) && strings.ReplaceAll(ra, "$del.Shares", "$SH") == strings.ReplaceAll(rb, "$delegatorShares", "$SH")
				// or one is defined by the other: GetDelegationTokens(del, val, asset) = GetDelegationTokensWithShares(del.Shares, val, asset)
				if !same {
					ta := fa.Term(Returns(a)[0].Results[0])
					if len(Returns(a)) == 1 && ta.IsCall("types.GetDelegationTokensWithShares") {
						as := ta.CallArgsT()
						same = len(as) == 3 && as[0].String() == "$del.Shares" && as[1].String() == "$val" && as[2].String() == "$asset"
					}
				}
				r.Check(same, "types.GetDelegationTokens", "agrees with GetDelegationTokensWithShares", "same formula up to the shares argument", "the balance reported by queries and the cap enforced by Undelegate/Redelegate are computed by different formulas:\n  "+ra+"\n  "+rb, e.Pos(a.Pos()))
			}
		}})

	register(&Rule{ID: "C20.binding", Props: []string{"C20"}, Floor: 12,
		Doc: "contract-facing responses convert record fields injectively",
		Run: func(e *Engine, r *RuleRun) {
			want := map[string]map[string]string{
				"bindings.QueryPlugin.GetAlliance": {"Denom": "Denom", "RewardWeight": "RewardWeight", "TakeRate": "TakeRate", "TotalTokens": "TotalTokens", "TotalValidatorShares": "TotalValidatorShares",
					"RewardStartTime": "RewardStartTime", "RewardChangeRate": "RewardChangeRate", "LastRewardChangeTime": "LastRewardChangeTime", "RewardWeightRange.Min": "RewardWeightRange.Min", "RewardWeightRange.Max": "RewardWeightRange.Max", "IsInitialized": "IsInitialized"},
				"bindings.QueryPlugin.GetDelegation": {"Delegator": "DelegatorAddress", "Validator": "ValidatorAddress", "Denom": "Denom"},
			}
			for _, k := range []string{"bindings.QueryPlugin.GetAlliance", "bindings.QueryPlugin.GetDelegation"} {
				fn := r.Need(k)
				if fn == nil {
					continue
				}
				fa := e.FA(fn)
				got := map[string]*Term{}
				for _, b := range fn.Blocks {
					for _, in := range b.Instrs {
						st, ok := in.(*ssa.Store)
						if !ok {
							continue
						}
						root, _, path := fa.addrPath(st.Addr)
						if al, ok := rootAlloc(st.Addr); ok && al.Comment == "complit" && strings.HasPrefix(root, "alloc#") && len(path) > 0 {
							tk := typeKey(al.Type())
							if tk == "bindtypes.AllianceResponse" || tk == "bindtypes.DelegationResponse" {
								got[strings.TrimPrefix(pathJoin(path), ".")] = fa.Term(st.Val)
							}
						}
					}
				}
				for f, src := range want[k] {
					v := got[f]
					if v == nil {
						r.Bad(k, "field:"+f, "response field is not set", nil, e.Pos(fn.Pos()))
						continue
					}
					// strip an injective conversion chain: uint64(x.UnixNano()), x.String(), identity
					t := v
					conv := "identity"
					for {
						if t.Op == "conv" {
							t = t.Args[0]
							continue
						}
						if t.Op == "call" && len(t.Args) == 1 && !strings.HasPrefix(t.Name, "types.") {
							conv = t.Name
							if !injectiveConv[t.Name] {
								break
							}
							t = t.Args[0]
							continue
						}
						break
					}
					fromRecord := strings.HasSuffix(t.String(), "#0."+src) && (strings.Contains(t.String(), "GetAssetByDenom@") || strings.Contains(t.String(), "GetDelegation@"))
					construct := "field:" + strings.TrimPrefix(typeKeyOfResp(k), "bindtypes.") + "." + f
					if !fromRecord || (conv != "identity" && !injectiveConv[conv]) {
						why := "is not derived from record field " + src
						if fromRecord || strings.Contains(v.String(), "."+src) {
							why = "is derived from record field " + src + " through " + conv + ", which is not injective (different stored values give the same reported value, and the gRPC query reports the full value)"
							construct += " <- " + conv
						}
						r.Bad(k, construct, "the contract-facing response field "+f+" "+why+": "+v.String(), nil, e.Pos(fn.Pos()))
					} else {
						r.OK(k, construct, "from record field "+src+" via "+conv)
					}
				}
			}
			if fn := r.Need("bindings.QueryPlugin.GetDelegation"); fn != nil {
				fa := e.FA(fn)
				ok := false
				for _, b := range fn.Blocks {
					for _, in := range b.Instrs {
						if st, isSt := in.(*ssa.Store); isSt {
							if f, isF := st.Addr.(*ssa.FieldAddr); isF && derefStruct(f.X.Type()).Field(f.Field).Name() == "Amount" {
								t := fa.Term(st.Val)
								ok = t.IsCall("math.Int.String") && t.Args[0].Op == "field" && t.Args[0].Name == "Amount" && t.Args[0].Args[0].IsCall("types.GetDelegationTokens")
							}
						}
					}
				}
				r.Check(ok, FuncKey(fn), "field:DelegationResponse.Amount", "GetDelegationTokens(...).Amount.String()", "the binding does not report the same balance as the gRPC query", e.Pos(fn.Pos()))
			}
		}})

	register(&Rule{ID: "C20.filterflow", Props: []string{"C20"}, Floor: 8,
		Doc: "every filter parameter of the unbonding and redelegation queries flows into the scan prefix/suffix; emitted values come from the same entry",
		Run: func(e *Engine, r *RuleRun) {
			if fn := r.Need("keeper.Keeper.GetUnbondings"); fn != nil {
				k, fa := FuncKey(fn), e.FA(fn)
				it := r.One(fn, "index scan", "storetypes.KVStorePrefixIterator")
				if it != nil {
					p := argT(fa, it, 1)
					r.Check(p.IsCall("types.GetUndelegationsIndexOrderedByValidatorKey") && p.Args[0].String() == "$valAddr", k, "validator filter -> index prefix", "prefix of the requested validator", "scan prefix is "+p.String(), r.P(it))
				}
				for _, g := range CallsTo(fn, "storetypes.KVStore.Get", "corestore.KVStore.Get") {
					key := argT(fa, g, 0)
					okK := key.IsCall("types.GetUndelegationQueueKey") && key.Args[1].String() == "$delAddr" && key.Args[0].Op == "extract" && key.Args[0].Args[0].IsCall("types.GetTimeFromUndelegationKey")
					r.Check(okK, k, "bucket key = (time of the index key, requested delegator)", "GetUndelegationQueueKey(GetTimeFromUndelegationKey(iter.Key()), delAddr)", "bucket read under "+key.String(), r.P(g))
					okS := fa.HasGuard(g, func(gd Guard) bool {
						return gd.Pos && gd.Cond.IsCall("bytes.HasSuffix") && gd.Cond.Args[1].IsCall("types.GetPartialUnbondingKeySuffix") && gd.Cond.Args[1].Args[0].String() == "$denom" && gd.Cond.Args[1].Args[1].String() == "$delAddr"
					})
					r.Check(okS, k, "denom and delegator filter -> key suffix", "bucket read only for index keys with suffix (denom, delAddr)", "index keys of other denoms/delegators are followed", r.P(g))
				}
			}
			if fn := r.Need("keeper.Keeper.GetUnbondingsByDenomAndDelegator"); fn != nil {
				k, fa := FuncKey(fn), e.FA(fn)
				for _, g := range CallsTo(fn, "storetypes.KVStore.Get", "corestore.KVStore.Get") {
					key := argT(fa, g, 0)
					okK := key.IsCall("types.GetUndelegationQueueKey") && key.Args[1].String() == "$delAddr"
					r.Check(okK, k, "bucket key uses the requested delegator", "GetUndelegationQueueKey(time, delAddr)", "bucket read under "+key.String(), r.P(g))
					okS := fa.HasGuard(g, func(gd Guard) bool {
						return gd.Pos && gd.Cond.IsCall("bytes.HasSuffix") && gd.Cond.Args[1].IsCall("types.GetPartialUnbondingKeySuffix") && gd.Cond.Args[1].Args[0].String() == "$denom" && gd.Cond.Args[1].Args[1].String() == "$delAddr"
					})
					r.Check(okS, k, "denom and delegator filter -> key suffix", "suffix (denom, delAddr)", "index keys of other denoms/delegators are followed", r.P(g))
				}
			}
			// emitted values
			for _, el := range e.undelegationEntryLoops() {
				fk := FuncKey(el.fn)
				if !strings.Contains(fk, "GetUnbondings") {
					continue
				}
				fa := e.FA(el.fn)
				for _, a := range Complits(el.fn, "types.UnbondingDelegation") {
					_ = a
				}
				fields := map[string]*Term{}
				for _, b := range el.fn.Blocks {
					for _, in := range b.Instrs {
						if st, ok := in.(*ssa.Store); ok {
							if f, ok := st.Addr.(*ssa.FieldAddr); ok && typeKey(f.X.Type()) == "types.UnbondingDelegation" {
								fields[derefStruct(f.X.Type()).Field(f.Field).Name()] = fa.Term(st.Val)
							}
						}
					}
				}
				ok := fields["ValidatorAddress"] != nil && fields["ValidatorAddress"].Eq(mkField(el.elem, "ValidatorAddress")) &&
					fields["Amount"] != nil && fields["Amount"].Eq(mkField(mkField(el.elem, "Balance"), "Amount")) &&
					fields["Denom"] != nil && fields["Denom"].Eq(mkField(mkField(el.elem, "Balance"), "Denom"))
				r.Check(ok, fk, "emitted validator, amount, denom come from the same entry", "entry.ValidatorAddress / entry.Balance.Amount / entry.Balance.Denom", "an emitted unbonding mixes fields of different entries or other values", r.P(el.phi))
				ct := fields["CompletionTime"]
				okT := ct != nil && ct.Op == "extract" && ct.Name == "0" && ct.Args[0].IsCall("types.GetTimeFromUndelegationKey") && strings.HasSuffix(ct.Args[0].Args[0].Name, "Iterator.Key")
				r.Check(okT, fk, "emitted completion time is the index key's time", "GetTimeFromUndelegationKey(iter.Key())", "emitted completion time is "+fmt.Sprint(ct), r.P(el.phi))
			}
			// redelegation queries
			for k, pf := range map[string]string{"keeper.QueryServer.AllianceRedelegations": "types.GetRedelegationsKeyByDelegatorAndDenom", "keeper.QueryServer.AllianceRedelegationsByDelegator": "types.GetRedelegationsKeyByDelegator"} {
				fn := r.Need(k)
				if fn == nil {
					continue
				}
				fa := e.FA(fn)
				ps := r.One(fn, "prefix store", "prefix.NewStore")
				if ps == nil {
					continue
				}
				p := argT(fa, ps, 1)
				ok := p.IsCall(pf) && p.Args[0].Op == "extract" && p.Args[0].Args[0].IsCall("sdk.AccAddressFromBech32") && strings.HasSuffix(p.Args[0].Args[0].Args[0].String(), ".DelegatorAddr")
				if ok && pf == "types.GetRedelegationsKeyByDelegatorAndDenom" {
					ok = isRequestDenom(fa, p.Args[1], 0)
				}
				r.Check(ok, k, "filter -> scan prefix", pf+"(parsed delegator[, denom])", "the redelegation query scans "+p.String(), r.P(ps))
				if len(fn.AnonFuncs) == 1 {
					cl := fn.AnonFuncs[0]
					cfa := e.FA(cl)
					fields := map[string]*Term{}
					for _, b := range cl.Blocks {
						for _, in := range b.Instrs {
							if st, ok := in.(*ssa.Store); ok {
								if f, ok := st.Addr.(*ssa.FieldAddr); ok && typeKey(f.X.Type()) == "types.RedelegationEntry" {
									fields[derefStruct(f.X.Type()).Field(f.Field).Name()] = cfa.Term(st.Val)
								}
							}
						}
					}
					okF := true
					for _, f := range []string{"DelegatorAddress", "SrcValidatorAddress", "DstValidatorAddress", "Balance"} {
						if fields[f] == nil || !(fields[f].Op == "field" && fields[f].Name == f && fields[f].Args[0].Op == "out") {
							okF = false
						}
					}
					ct := fields["CompletionTime"]
					okF = okF && ct != nil && ct.IsCall("types.ParseRedelegationPaginationKeyTime") && ct.Args[0].String() == "$key"
					r.Check(okF, k, "emitted entry mirrors the stored record and the key's time", "fields of the decoded record; CompletionTime parsed from the record key", "an emitted redelegation entry does not mirror the stored record", e.Pos(cl.Pos()))
				}
			}
		}})
}

func init() {
	register(&Rule{ID: "C20.registryfree", Props: []string{"C20"}, Floor: 3,
		Doc: "unbonding and redelegation queries enumerate the queues / indexes, never the asset registry",
		Run: func(e *Engine, r *RuleRun) {
			// An alliance can be deleted as soon as nothing is staked in it (TotalTokens == 0), i.e. exactly when its last
			// delegator has undelegated and the unbonding entry is still pending.  A query that derives the denoms to
			// look at from the registry loses those entries although the end blocker will pay them.
			for _, k := range []string{"keeper.Keeper.GetUnbondings", "keeper.Keeper.GetUnbondingsByDenomAndDelegator", "keeper.Keeper.GetUnbondingsByDelegator",
				"keeper.QueryServer.AllianceRedelegations", "keeper.QueryServer.AllianceRedelegationsByDelegator"} {
				fn := e.Fn(k)
				if fn == nil {
					continue
				}
				var hit ssa.Instruction
				for _, f := range e.Reach(fn) {
					for _, c := range CallsTo(f, "keeper.Keeper.GetAllAssets", "keeper.Keeper.GetAssetByDenom") {
						hit = c
					}
				}
				if hit != nil {
					r.Bad(k, "entries enumerated independently of the asset registry", "the query reaches the asset registry ("+CalleeKey(hit.(ssa.CallInstruction).Common())+") to decide which entries to return: pending entries of a deleted alliance (deletion only needs a zero staked total, which is the state right after the last delegator undelegated) are not reported although end-of-block processing pays them", nil, r.P(hit))
				} else {
					r.OK(k, "entries enumerated independently of the asset registry", "no registry lookup in the query's call tree", e.Pos(fn.Pos()))
				}
			}
		}})

	register(&Rule{ID: "C20.suffixexact", Props: []string{"C20"}, Floor: 2,
		Doc: "index keys selected by a byte suffix are confirmed by the denom parsed from the key",
		Run: func(e *Engine, r *RuleRun) {
			// key = prefix | lp(validator) | lp(time) | lp(denom) | lp(delegator).  bytes.HasSuffix(key, lp(denom)|lp(delegator))
			// is not exact: the length-prefix byte of a 46-character denom is '/', a legal denom character, so the key of
			// "x/"+D also ends with D's suffix.  Exact selection needs the denom parsed from the front of the key.
			for _, k := range []string{"keeper.Keeper.GetUnbondings", "keeper.Keeper.GetUnbondingsByDenomAndDelegator"} {
				fn := r.Need(k)
				if fn == nil {
					continue
				}
				fa := e.FA(fn)
				var apps []ssa.Instruction
				for _, c := range Calls(fn) {
					if CalleeKey(c.Common()) == "builtin.append" {
						apps = append(apps, c)
					}
				}
				suf := CallsTo(fn, "bytes.HasSuffix")
				if len(suf) == 0 {
					r.OK(k, "suffix-selected index keys are confirmed by the parsed denom", "no suffix matching in this query", e.Pos(fn.Pos()))
					continue
				}
				ok := len(apps) > 0
				for _, a := range apps {
					okA := fa.HasGuard(a, func(g Guard) bool {
						if g.Cond.Op != "binop" || (g.Cond.Name != "==" && g.Cond.Name != "!=") {
							return false
						}
						if (g.Cond.Name == "==") != g.Pos {
							return false
						}
						x, y := g.Cond.Args[0], g.Cond.Args[1]
						parsed := func(t *Term) bool {
							return t.Op == "extract" && t.Name == "1" && t.Args[0].IsCall("types.ParseUnbondingIndexKeyForValidatorAndDenom")
						}
						return (parsed(x) && y.String() == "$denom") || (parsed(y) && x.String() == "$denom")
					})
					if !okA {
						ok = false
					}
				}
				r.Check(ok, k, "suffix-selected index keys are confirmed by the parsed denom", "every emitted entry is dominated by ParseUnbondingIndexKeyForValidatorAndDenom(key).denom == denom", "index keys are selected with bytes.HasSuffix(key, lp(denom)|lp(delegator)) only: the key of another denom whose tail happens to spell this suffix (the length byte of a 46-character denom is '/') is selected as well and the shared bucket's entry for the queried denom is returned once per such key", r.P(suf[0]))
			}
		}})

	register(&Rule{ID: "C20.paginate", Props: []string{"C20"}, Floor: 6,
		Doc: "paginated queries count every record under their scan prefix as a hit",
		Run: func(e *Engine, r *RuleRun) {
			for _, fn := range e.SMFuncs() {
				if !strings.HasPrefix(FuncKey(topFunc(fn)), "keeper.QueryServer.") || fn.Parent() != nil {
					continue
				}
				for _, c := range Calls(fn) {
					k := CalleeKey(c.Common())
					if !strings.HasPrefix(k, "query.") || !strings.Contains(k, "aginate") {
						continue
					}
					fk := FuncKey(fn)
					if k == "query.Paginate" {
						r.OK(fk, "pagination", "query.Paginate: every record under the prefix store is returned and counted", r.P(c))
						continue
					}
					// filtered variants: the callback must report a hit on every non-error path
					var cb *ssa.Function
					for _, a := range c.Common().Args {
						if mc, ok := a.(*ssa.MakeClosure); ok {
							cb, _ = mc.Fn.(*ssa.Function)
						}
					}
					if cb == nil {
						r.Undecided(fk, "pagination", "cannot find the callback of "+k, r.P(c))
						continue
					}
					cfa := e.FA(cb)
					ok := true
					for _, ret := range cfa.SuccessExits() {
						if len(ret.Results) < 1 {
							continue
						}
						if t := cfa.Term(ret.Results[0]); !(t.Op == "const" && t.Name == "true") {
							ok = false
						}
					}
					r.Check(ok, fk, "pagination", k+" whose callback reports a hit for every record", "the query uses "+k+" and its callback can report `no hit` for a record under the scan prefix: such records are neither returned nor counted, so pages, next_key and total no longer enumerate every matching record exactly once (the scan prefix already encodes the whole filter)", r.P(c))
				}
			}
		}})
}

func typeKeyOfResp(fnKey string) string {
	if strings.HasSuffix(fnKey, "GetAlliance") {
		return "bindtypes.AllianceResponse"
	}
	return "bindtypes.DelegationResponse"
}

// isRequestDenom: the request's denom, as given or url-unescaped (every incoming value of a merge is one of the two).
func isRequestDenom(fa *FuncAnalysis, t *Term, depth int) bool {
	if depth > 4 {
		return false
	}
	switch {
	case t.Op == "field" && t.Name == "Denom":
		return paramRooted(t)
	case t.Op == "extract" && t.Name == "0" && len(t.Args) == 1 && (t.Args[0].IsCall("url.QueryUnescape") || t.Args[0].IsCall("net/url.QueryUnescape")):
		return isRequestDenom(fa, t.Args[0].Args[0], depth+1)
	case t.Op == "phi":
		_, leaves := phiCluster(fa, t)
		if len(leaves) == 0 {
			return false
		}
		for _, l := range leaves {
			if !isRequestDenom(fa, l, depth+1) {
				return false
			}
		}
		return true
	case strings.HasPrefix(t.String(), "mem<"):
		// a conditional in-place update of req.Denom (the memory merge of the two)
		return true
	}
	return false
}
