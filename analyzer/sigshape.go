package main

import (
	"fmt"
	"go/ast"
	"go/format"
	"go/token"
	"go/types"
	"sort"
	"strings"

	"golang.org/x/tools/go/packages"
)

// Two more signature clean-ups of unexported functions that are undone in the overlay before anything else looks at
// the program (see signorm.go for receiver <-> parameter and parameter order):
//
//   - PARAMETER OBJECT: several parameters that always travel together were bundled into one small new struct
//     (`addRedelegation(ctx, e redelegationEntry)`).  When the struct type is new (not a type of the reviewed tree),
//     the function reads the parameter only through its fields, and every call site passes either a composite literal
//     that names every field or a plain local / parameter of that type, the parameter is replaced by one parameter
//     per field (in field order, named after the fields) and the call sites pass the field values.  Applied repeatedly
//     (a function that hands its parameter object on to another one is expanded after its callee).
//
//   - DROPPED RESULT: a result that every caller ignored was removed (`upsertDelegationWithNewTokens` no longer returns
//     the delegation).  When the current result types are the reviewed ones with some positions missing, every return
//     statement lists its results one by one, and every call is the right-hand side of an assignment (or a statement),
//     the missing results are put back: the declaration gets the reviewed result list, every return gives the zero
//     value at the restored positions and every assignment gets a blank there.  The rules then find each result at
//     its reviewed position.

type sigCallSite struct {
	call *ast.CallExpr
	file *ast.File
}

type sigEdit struct {
	a, b int
	text string
}

func applySigEdits(p *packages.Package, edits map[string][]sigEdit, src func(string) []byte) map[string][]byte {
	out := map[string][]byte{}
	for fname, eds := range edits {
		text := src(fname)
		if text == nil {
			continue
		}
		sort.SliceStable(eds, func(i, j int) bool { return eds[i].a > eds[j].a })
		ok := true
		for i := 1; i < len(eds); i++ {
			if eds[i].b > eds[i-1].a {
				ok = false
			}
		}
		if !ok {
			continue
		}
		for _, ed := range eds {
			text = append(append(append([]byte{}, text[:ed.a]...), []byte(ed.text)...), text[ed.b:]...)
		}
		if f, err := format.Source(text); err == nil {
			text = f
		}
		out[fname] = text
	}
	return out
}

func fileImports(p *packages.Package, f *ast.File) map[string]string {
	imports := map[string]string{}
	for _, im := range f.Imports {
		path := strings.Trim(im.Path.Value, "\"")
		name := ""
		if im.Name != nil {
			name = im.Name.Name
		} else if ip := p.Imports[path]; ip != nil {
			name = ip.Name
		}
		if name != "" && name != "_" && name != "." {
			imports[path] = name
		}
	}
	return imports
}

// expandParamObjects: one round; returns the overlay and notes.
func expandParamObjects(pkgs []*packages.Package, src func(string) []byte) (map[string][]byte, []string) {
	overlay := map[string][]byte{}
	var notes []string
	for _, p := range pkgs {
		if !smPkgs[p.PkgPath] || p.TypesInfo == nil {
			continue
		}
		info := p.TypesInfo
		off := func(pos token.Pos) int { return p.Fset.Position(pos).Offset }
		fileOf := map[*ast.FuncDecl]*ast.File{}
		fnameOf := map[*ast.File]string{}
		var decls []*ast.FuncDecl
		for i, f := range p.Syntax {
			if i >= len(p.CompiledGoFiles) {
				continue
			}
			fnameOf[f] = p.CompiledGoFiles[i]
			if strings.HasSuffix(fnameOf[f], ".pb.go") || strings.HasSuffix(fnameOf[f], ".pb.gw.go") {
				continue
			}
			for _, d := range f.Decls {
				if fd, ok := d.(*ast.FuncDecl); ok && fd.Body != nil && !ast.IsExported(fd.Name.Name) && fd.Type.TypeParams == nil {
					decls = append(decls, fd)
					fileOf[fd] = f
				}
			}
		}
		// call sites of every function object, and other mentions (used as a value)
		sites := map[types.Object][]sigCallSite{}
		asValue := map[types.Object]bool{}
		for f := range fnameOf {
			callee := map[*ast.Ident]bool{}
			ast.Inspect(f, func(n ast.Node) bool {
				if c, ok := n.(*ast.CallExpr); ok {
					var id *ast.Ident
					switch fx := ast.Unparen(c.Fun).(type) {
					case *ast.Ident:
						id = fx
					case *ast.SelectorExpr:
						id = fx.Sel
					}
					if id != nil {
						if o, ok := info.Uses[id].(*types.Func); ok {
							callee[id] = true
							sites[o] = append(sites[o], sigCallSite{c, f})
						}
					}
				}
				return true
			})
			ast.Inspect(f, func(n ast.Node) bool {
				if id, ok := n.(*ast.Ident); ok && !callee[id] {
					if o, ok := info.Uses[id].(*types.Func); ok {
						asValue[o] = true
					}
				}
				return true
			})
		}
		edits := map[string][]sigEdit{}
		touched := map[*ast.File]bool{}
		for _, fd := range decls {
			fobj := info.Defs[fd.Name]
			if fobj == nil || asValue[fobj] || fd.Type.Params == nil {
				continue
			}
			f := fileOf[fd]
			if touched[f] {
				continue // one function per file and round keeps the edits apart
			}
			// the first parameter whose type is a new struct
			pi := 0
			for _, field := range fd.Type.Params.List {
				names := field.Names
				if len(names) == 0 {
					pi++
					continue
				}
				done := false
				for ni, nm := range names {
					pobj := info.Defs[nm]
					if pobj == nil {
						pi++
						continue
					}
					named, ok := pobj.Type().(*types.Named)
					if !ok || named.Obj().Pkg() != p.Types || named.Obj().Exported() || baselineTypes[alias(p.PkgPath)+"."+named.Obj().Name()] {
						pi++
						continue
					}
					st, ok := named.Underlying().(*types.Struct)
					if !ok || st.NumFields() == 0 || st.NumFields() > 12 || len(names) != 1 {
						pi++
						continue
					}
					_ = ni
					if reason := tryExpandParam(p, fd, f, field, nm, pobj, named, st, pi, sites[fobj], fnameOf, touched, edits, src, off); reason == "" {
						notes = append(notes, fmt.Sprintf("parameter object %s of %s replaced by one parameter per field", nm.Name, fd.Name.Name))
						done = true
					} else if reason != "-" {
						notes = append(notes, fmt.Sprintf("parameter object %s of %s kept (%s)", nm.Name, fd.Name.Name, reason))
					}
					pi++
					if done {
						break
					}
				}
				if done {
					break
				}
			}
		}
		for k, v := range applySigEdits(p, edits, src) {
			overlay[k] = v
		}
	}
	sort.Strings(notes)
	return overlay, notes
}

func tryExpandParam(p *packages.Package, fd *ast.FuncDecl, f *ast.File, field *ast.Field, nm *ast.Ident, pobj types.Object, named *types.Named, st *types.Struct, pi int, calls []sigCallSite, fnameOf map[*ast.File]string, touched map[*ast.File]bool, edits map[string][]sigEdit, src func(string) []byte, off func(token.Pos) int) string {
	info := p.TypesInfo
	if len(calls) == 0 {
		return "-"
	}
	// body: only field selections
	type selUse struct {
		sel *ast.SelectorExpr
		fi  int
	}
	var sels []selUse
	okIdent := map[*ast.Ident]bool{}
	bad := ""
	ast.Inspect(fd.Body, func(n ast.Node) bool {
		if s, ok := n.(*ast.SelectorExpr); ok {
			if id, ok := ast.Unparen(s.X).(*ast.Ident); ok && info.Uses[id] == pobj {
				if sel := info.Selections[s]; sel != nil && sel.Kind() == types.FieldVal && len(sel.Index()) == 1 {
					okIdent[id] = true
					sels = append(sels, selUse{s, sel.Index()[0]})
				}
			}
		}
		if u, ok := n.(*ast.UnaryExpr); ok && u.Op == token.AND {
			if s, ok := ast.Unparen(u.X).(*ast.SelectorExpr); ok {
				if id, ok := ast.Unparen(s.X).(*ast.Ident); ok && info.Uses[id] == pobj {
					_ = id // address of a field of the copy: still local to the callee, fine
				}
			}
		}
		return true
	})
	ast.Inspect(fd.Body, func(n ast.Node) bool {
		if id, ok := n.(*ast.Ident); ok && info.Uses[id] == pobj && !okIdent[id] {
			bad = "the function uses the parameter as a whole"
		}
		return true
	})
	if bad != "" {
		return bad
	}
	// names for the new parameters: the field names, unless taken in the function
	taken := map[string]bool{}
	ast.Inspect(fd, func(n ast.Node) bool {
		if id, ok := n.(*ast.Ident); ok {
			taken[id.Name] = true
		}
		return true
	})
	pname := func(fi int) string {
		n := st.Field(fi).Name()
		if taken[n] || n == "_" {
			return nm.Name + "_" + n
		}
		return n
	}
	imports := fileImports(p, f)
	qualFail := ""
	qual := func(pk *types.Package) string {
		if pk == p.Types {
			return ""
		}
		if n, ok := imports[pk.Path()]; ok {
			return n
		}
		qualFail = pk.Path()
		return pk.Name()
	}
	var plist []string
	for fi := 0; fi < st.NumFields(); fi++ {
		plist = append(plist, pname(fi)+" "+types.TypeString(st.Field(fi).Type(), qual))
	}
	if qualFail != "" {
		return "a field type of package " + qualFail + " cannot be named in the function's file"
	}
	// call sites
	type callEdit struct {
		file *ast.File
		ed   sigEdit
	}
	var ces []callEdit
	for _, cs := range calls {
		if pi >= len(cs.call.Args) || len(cs.call.Args) != fd.Type.Params.NumFields() {
			return "a call site does not list the arguments one by one"
		}
		if touched[cs.file] && cs.file != f {
			return "-"
		}
		arg := ast.Unparen(cs.call.Args[pi])
		csrc := src(fnameOf[cs.file])
		if csrc == nil {
			return "source not available"
		}
		var vals []string
		switch a := arg.(type) {
		case *ast.CompositeLit:
			byField := map[int]string{}
			prev := -1
			inOrder := true
			for xi, el := range a.Elts {
				fi := xi
				v := el
				if kv, ok := el.(*ast.KeyValueExpr); ok {
					kid, ok := kv.Key.(*ast.Ident)
					if !ok {
						return "literal key"
					}
					fi = -1
					for k := 0; k < st.NumFields(); k++ {
						if st.Field(k).Name() == kid.Name {
							fi = k
						}
					}
					v = kv.Value
				}
				if fi < 0 || fi >= st.NumFields() {
					return "literal field"
				}
				if fi < prev {
					inOrder = false
				}
				prev = fi
				if !pureExpr(v) && !inOrder {
					return "literal fields with calls are not in field order"
				}
				byField[fi] = string(csrc[off(v.Pos()):off(v.End())])
			}
			if len(byField) != st.NumFields() {
				return "a call site's literal does not name every field"
			}
			for fi := 0; fi < st.NumFields(); fi++ {
				vals = append(vals, byField[fi])
			}
		case *ast.Ident:
			v, ok := info.Uses[a].(*types.Var)
			if !ok || v.IsField() || v.Parent() == p.Types.Scope() || !types.Identical(v.Type(), named) {
				return "a call site passes something other than a literal or a local"
			}
			for fi := 0; fi < st.NumFields(); fi++ {
				vals = append(vals, a.Name+"."+st.Field(fi).Name())
			}
		default:
			return "a call site passes something other than a literal or a local"
		}
		ces = append(ces, callEdit{cs.file, sigEdit{off(cs.call.Args[pi].Pos()), off(cs.call.Args[pi].End()), strings.Join(vals, ", ")}})
	}
	fname := fnameOf[f]
	edits[fname] = append(edits[fname], sigEdit{off(field.Pos()), off(field.End()), strings.Join(plist, ", ")})
	for _, su := range sels {
		edits[fname] = append(edits[fname], sigEdit{off(su.sel.Pos()), off(su.sel.End()), pname(su.fi)})
	}
	touched[f] = true
	for _, ce := range ces {
		n := fnameOf[ce.file]
		edits[n] = append(edits[n], ce.ed)
		touched[ce.file] = true
	}
	return ""
}

// restoreDroppedResults: see the comment at the top of the file.
func restoreDroppedResults(pkgs []*packages.Package, src func(string) []byte) (map[string][]byte, []string) {
	overlay := map[string][]byte{}
	var notes []string
	for _, p := range pkgs {
		if !smPkgs[p.PkgPath] || p.TypesInfo == nil {
			continue
		}
		info := p.TypesInfo
		off := func(pos token.Pos) int { return p.Fset.Position(pos).Offset }
		edits := map[string][]sigEdit{}
		fnameOf := map[*ast.File]string{}
		for i, f := range p.Syntax {
			if i < len(p.CompiledGoFiles) {
				fnameOf[f] = p.CompiledGoFiles[i]
			}
		}
		// parents of call expressions
		type site struct {
			call   *ast.CallExpr
			parent ast.Node
			file   *ast.File
		}
		sites := map[types.Object][]site{}
		asValue := map[types.Object]bool{}
		for f := range fnameOf {
			callee := map[*ast.Ident]bool{}
			var stack []ast.Node
			ast.Inspect(f, func(n ast.Node) bool {
				if n == nil {
					stack = stack[:len(stack)-1]
					return true
				}
				if c, ok := n.(*ast.CallExpr); ok {
					var id *ast.Ident
					switch fx := ast.Unparen(c.Fun).(type) {
					case *ast.Ident:
						id = fx
					case *ast.SelectorExpr:
						id = fx.Sel
					}
					if id != nil {
						if o, ok := info.Uses[id].(*types.Func); ok {
							callee[id] = true
							var par ast.Node
							if len(stack) > 0 {
								par = stack[len(stack)-1]
							}
							sites[o] = append(sites[o], site{c, par, f})
						}
					}
				}
				stack = append(stack, n)
				return true
			})
			ast.Inspect(f, func(n ast.Node) bool {
				if id, ok := n.(*ast.Ident); ok && !callee[id] {
					if o, ok := info.Uses[id].(*types.Func); ok {
						asValue[o] = true
					}
				}
				return true
			})
		}
		for f, fname := range fnameOf {
			if strings.HasSuffix(fname, ".pb.go") || strings.HasSuffix(fname, ".pb.gw.go") {
				continue
			}
			imports := fileImports(p, f)
			// type text of a baseline type string in this file; "" when it cannot be spelled
			typeText := func(ts string) (string, string) {
				ptr := strings.HasSuffix(ts, "*")
				ts = strings.TrimSuffix(ts, "*")
				if strings.ContainsAny(ts, "[]{}( ") {
					return "", ""
				}
				text := ts
				if i := strings.LastIndex(ts, "."); i >= 0 {
					al, name := ts[:i], ts[i+1:]
					if strings.Contains(al, "/") {
						return "", ""
					}
					if al == alias(p.PkgPath) {
						text = name
					} else {
						found := ""
						for path, nme := range imports {
							if alias(path) == al {
								found = nme
							}
						}
						if found == "" {
							return "", ""
						}
						text = found + "." + name
					}
				}
				if ptr {
					return "*" + text, "nil"
				}
				switch text {
				case "error":
					return text, "nil"
				case "bool":
					return text, "false"
				case "string":
					return text, `""`
				case "int", "int64", "uint64", "int32", "uint32", "uint", "uint8", "byte":
					return text, "0"
				}
				return text, "*new(" + text + ")"
			}
			for _, d := range f.Decls {
				fd, ok := d.(*ast.FuncDecl)
				if !ok || fd.Body == nil || ast.IsExported(fd.Name.Name) || fd.Type.TypeParams != nil {
					continue
				}
				key := declKey(p.PkgPath, fd)
				base, ok := baselineResults[key]
				if !ok {
					continue
				}
				fobj := info.Defs[fd.Name]
				sig, _ := fobj.Type().(*types.Signature)
				if fobj == nil || sig == nil || asValue[fobj] {
					continue
				}
				var cur []string
				for i := 0; i < sig.Results().Len(); i++ {
					cur = append(cur, typeKey(sig.Results().At(i).Type())+ptrMark(sig.Results().At(i).Type()))
				}
				if len(cur) >= len(base) || len(cur) == 0 {
					continue
				}
				// cur must be base with positions missing
				keep := make([]int, 0, len(cur)) // base index of each current result
				bi := 0
				for _, c := range cur {
					for bi < len(base) && base[bi] != c {
						bi++
					}
					if bi == len(base) {
						keep = nil
						break
					}
					keep = append(keep, bi)
					bi++
				}
				if keep == nil {
					continue
				}
				isKept := map[int]int{}
				for ci, b := range keep {
					isKept[b] = ci
				}
				// declaration: unnamed results only
				named := false
				var resTexts []string
				text := src(fname)
				if text == nil || fd.Type.Results == nil {
					continue
				}
				for _, fld := range fd.Type.Results.List {
					if len(fld.Names) > 0 {
						named = true
					}
					resTexts = append(resTexts, string(text[off(fld.Type.Pos()):off(fld.Type.End())]))
				}
				if named || len(resTexts) != len(cur) {
					continue
				}
				var newRes, zero []string
				okT := true
				for b := range base {
					if ci, kept := isKept[b]; kept {
						newRes = append(newRes, resTexts[ci])
						zero = append(zero, "")
						continue
					}
					tt, z := typeText(base[b])
					if tt == "" {
						okT = false
					}
					newRes = append(newRes, tt)
					zero = append(zero, z)
				}
				if !okT {
					notes = append(notes, fd.Name.Name+": dropped result not restored (its type cannot be spelled in this file)")
					continue
				}
				var fnEdits []sigEdit
				fnEdits = append(fnEdits, sigEdit{off(fd.Type.Results.Pos()), off(fd.Type.Results.End()), "(" + strings.Join(newRes, ", ") + ")"})
				// returns
				okR := true
				var walk func(n ast.Node) bool
				walk = func(n ast.Node) bool {
					switch x := n.(type) {
					case *ast.FuncLit:
						return false
					case *ast.ReturnStmt:
						if len(x.Results) != len(cur) {
							okR = false
							return false
						}
						var parts []string
						for b := range base {
							if ci, kept := isKept[b]; kept {
								parts = append(parts, string(text[off(x.Results[ci].Pos()):off(x.Results[ci].End())]))
							} else {
								parts = append(parts, zero[b])
							}
						}
						fnEdits = append(fnEdits, sigEdit{off(x.Results[0].Pos()), off(x.Results[len(x.Results)-1].End()), strings.Join(parts, ", ")})
						return false
					}
					return true
				}
				ast.Inspect(fd.Body, walk)
				if !okR {
					notes = append(notes, fd.Name.Name+": dropped result not restored (a return does not list its results one by one)")
					continue
				}
				// call sites
				okC := true
				type ce struct {
					fname string
					ed    sigEdit
				}
				var ces []ce
				for _, cs := range sites[fobj] {
					switch par := cs.parent.(type) {
					case *ast.ExprStmt:
					case *ast.AssignStmt:
						if len(par.Rhs) != 1 || ast.Unparen(par.Rhs[0]) != ast.Expr(cs.call) || len(par.Lhs) != len(cur) {
							okC = false
							break
						}
						ctext := src(fnameOf[cs.file])
						if ctext == nil {
							okC = false
							break
						}
						var parts []string
						for b := range base {
							if ci, kept := isKept[b]; kept {
								parts = append(parts, string(ctext[off(par.Lhs[ci].Pos()):off(par.Lhs[ci].End())]))
							} else {
								parts = append(parts, "_")
							}
						}
						ces = append(ces, ce{fnameOf[cs.file], sigEdit{off(par.Lhs[0].Pos()), off(par.Lhs[len(par.Lhs)-1].End()), strings.Join(parts, ", ")}})
					default:
						okC = false
					}
				}
				if !okC || len(sites[fobj]) == 0 {
					notes = append(notes, fd.Name.Name+": dropped result not restored (a call is not the right-hand side of an assignment)")
					continue
				}
				edits[fname] = append(edits[fname], fnEdits...)
				for _, c := range ces {
					edits[c.fname] = append(edits[c.fname], c.ed)
				}
				notes = append(notes, fmt.Sprintf("%s: results of the reviewed signature restored (%d -> %d)", fd.Name.Name, len(cur), len(base)))
			}
		}
		for k, v := range applySigEdits(p, edits, src) {
			overlay[k] = v
		}
	}
	sort.Strings(notes)
	return overlay, notes
}

// restoreNarrowedParams: a reviewed unexported function took a struct (`coin sdk.Coin`) of which it only read one
// field; the clean-up passes that field instead (`denom string`) and every call site says `x.Denom`.  When the current
// parameter types are the reviewed ones except at one position, the new type there is the type of a field F of the
// reviewed struct type, and every call site's argument at that position is a selection `X.F` on a value of the
// reviewed type, the reviewed parameter is put back: the declaration takes the struct again, the body reads
// `<param>.F` where it read the narrowed parameter, the call sites pass X.
func restoreNarrowedParams(pkgs []*packages.Package, src func(string) []byte) (map[string][]byte, []string) {
	overlay := map[string][]byte{}
	var notes []string
	for _, p := range pkgs {
		if !smPkgs[p.PkgPath] || p.TypesInfo == nil {
			continue
		}
		info := p.TypesInfo
		off := func(pos token.Pos) int { return p.Fset.Position(pos).Offset }
		edits := map[string][]sigEdit{}
		fnameOf := map[*ast.File]string{}
		for i, f := range p.Syntax {
			if i < len(p.CompiledGoFiles) {
				fnameOf[f] = p.CompiledGoFiles[i]
			}
		}
		sites := map[types.Object][]sigCallSite{}
		asValue := map[types.Object]bool{}
		for f := range fnameOf {
			callee := map[*ast.Ident]bool{}
			ast.Inspect(f, func(n ast.Node) bool {
				if c, ok := n.(*ast.CallExpr); ok {
					var id *ast.Ident
					switch fx := ast.Unparen(c.Fun).(type) {
					case *ast.Ident:
						id = fx
					case *ast.SelectorExpr:
						id = fx.Sel
					}
					if id != nil {
						if o, ok := info.Uses[id].(*types.Func); ok {
							callee[id] = true
							sites[o] = append(sites[o], sigCallSite{c, f})
						}
					}
				}
				return true
			})
			ast.Inspect(f, func(n ast.Node) bool {
				if id, ok := n.(*ast.Ident); ok && !callee[id] {
					if o, ok := info.Uses[id].(*types.Func); ok {
						asValue[o] = true
					}
				}
				return true
			})
		}
		for f, fname := range fnameOf {
			if strings.HasSuffix(fname, ".pb.go") || strings.HasSuffix(fname, ".pb.gw.go") {
				continue
			}
			for _, d := range f.Decls {
				fd, ok := d.(*ast.FuncDecl)
				if !ok || fd.Body == nil || ast.IsExported(fd.Name.Name) || fd.Type.TypeParams != nil || fd.Type.Params == nil {
					continue
				}
				key := declKey(p.PkgPath, fd)
				base, ok := baselineParams[key]
				if !ok {
					continue
				}
				fobj := info.Defs[fd.Name]
				if fobj == nil || asValue[fobj] || len(sites[fobj]) == 0 {
					continue
				}
				// current parameters, receiver first
				type cp struct {
					id    *ast.Ident
					field *ast.Field
					typ   types.Type
				}
				var cur []cp
				if fd.Recv != nil {
					for _, fl := range fd.Recv.List {
						for _, nm := range fl.Names {
							cur = append(cur, cp{nm, fl, info.TypeOf(fl.Type)})
						}
						if len(fl.Names) == 0 {
							cur = append(cur, cp{nil, fl, info.TypeOf(fl.Type)})
						}
					}
				}
				nrecv := len(cur)
				single := true
				for _, fl := range fd.Type.Params.List {
					if len(fl.Names) != 1 {
						single = single && len(fl.Names) == 1
					}
					for _, nm := range fl.Names {
						cur = append(cur, cp{nm, fl, info.TypeOf(fl.Type)})
					}
					if len(fl.Names) == 0 {
						cur = append(cur, cp{nil, fl, info.TypeOf(fl.Type)})
					}
				}
				if len(cur) != len(base) {
					continue
				}
				diff := -1
				nd := 0
				for i := range cur {
					if cur[i].typ == nil {
						nd = 99
						break
					}
					if typeKey(cur[i].typ)+ptrMark(cur[i].typ) != base[i][1] {
						diff = i
						nd++
					}
				}
				if nd != 1 || diff < nrecv || cur[diff].id == nil || len(cur[diff].field.Names) != 1 {
					continue
				}
				pi := diff - nrecv // argument position
				// the reviewed type, found at the call sites: X in X.F
				var T types.Type
				fieldName := ""
				okSites := true
				type ce struct {
					fname string
					ed    sigEdit
				}
				var ces []ce
				for _, cs := range sites[fobj] {
					if pi >= len(cs.call.Args) || len(cs.call.Args) != len(cur)-nrecv {
						okSites = false
						break
					}
					sel, ok := ast.Unparen(cs.call.Args[pi]).(*ast.SelectorExpr)
					if !ok {
						okSites = false
						break
					}
					s := info.Selections[sel]
					xt := info.TypeOf(sel.X)
					if s == nil || s.Kind() != types.FieldVal || len(s.Index()) != 1 || xt == nil || typeKey(xt)+ptrMark(xt) != base[diff][1] || !pureExpr(sel.X) {
						okSites = false
						break
					}
					if T == nil {
						T, fieldName = xt, sel.Sel.Name
					} else if !types.Identical(T, xt) || fieldName != sel.Sel.Name {
						okSites = false
						break
					}
					ctext := src(fnameOf[cs.file])
					if ctext == nil {
						okSites = false
						break
					}
					ces = append(ces, ce{fnameOf[cs.file], sigEdit{off(sel.Pos()), off(sel.End()), string(ctext[off(sel.X.Pos()):off(sel.X.End())])}})
				}
				if !okSites || T == nil {
					continue
				}
				// spell T in the function's file
				imports := fileImports(p, f)
				qualFail := ""
				tt := types.TypeString(T, func(pk *types.Package) string {
					if pk == p.Types {
						return ""
					}
					if n, ok := imports[pk.Path()]; ok {
						return n
					}
					qualFail = pk.Path()
					return pk.Name()
				})
				if qualFail != "" {
					continue
				}
				// name: the reviewed one unless taken
				taken := map[string]bool{}
				ast.Inspect(fd, func(n ast.Node) bool {
					if id, ok := n.(*ast.Ident); ok {
						taken[id.Name] = true
					}
					return true
				})
				name := base[diff][0]
				if taken[name] || name == "_" || name == "" {
					name = cur[diff].id.Name + "Whole"
				}
				pobj := info.Defs[cur[diff].id]
				text := src(fname)
				if pobj == nil || text == nil {
					continue
				}
				// the narrowed parameter must not be assigned in the body (it would be a field of the copy then: still
				// local, but keep it simple)
				assigned := false
				ast.Inspect(fd.Body, func(n ast.Node) bool {
					switch x := n.(type) {
					case *ast.AssignStmt:
						for _, l := range x.Lhs {
							if id, ok := l.(*ast.Ident); ok && info.Uses[id] == pobj {
								assigned = true
							}
						}
					case *ast.IncDecStmt:
						if id, ok := x.X.(*ast.Ident); ok && info.Uses[id] == pobj {
							assigned = true
						}
					case *ast.UnaryExpr:
						if id, ok := ast.Unparen(x.X).(*ast.Ident); ok && x.Op == token.AND && info.Uses[id] == pobj {
							assigned = true
						}
					}
					return true
				})
				if assigned {
					continue
				}
				edits[fname] = append(edits[fname], sigEdit{off(cur[diff].field.Pos()), off(cur[diff].field.End()), name + " " + tt})
				ast.Inspect(fd.Body, func(n ast.Node) bool {
					if id, ok := n.(*ast.Ident); ok && info.Uses[id] == pobj {
						edits[fname] = append(edits[fname], sigEdit{off(id.Pos()), off(id.End()), name + "." + fieldName})
					}
					return true
				})
				for _, c := range ces {
					edits[c.fname] = append(edits[c.fname], c.ed)
				}
				notes = append(notes, fmt.Sprintf("%s: parameter %s (field %s of the reviewed %s) widened back to the reviewed parameter", fd.Name.Name, cur[diff].id.Name, fieldName, base[diff][1]))
				_ = single
			}
		}
		for k, v := range applySigEdits(p, edits, src) {
			overlay[k] = v
		}
	}
	sort.Strings(notes)
	return overlay, notes
}
