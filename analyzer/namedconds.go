package main

import (
	"go/ast"
	"go/format"
	"go/token"
	"go/types"
	"sort"
	"strings"

	"golang.org/x/tools/go/packages"
)

// Explaining variables for conditions.
//
//	tooSmall := newAmount.LTE(one)          anything := !coins.Empty() && !coins.IsZero()
//	if tooSmall { continue }                if anything { .. }
//
// give the condition a name.  In SSA the branch is then on a value (for && / || a phi of the short-circuit blocks)
// instead of on the comparison itself, and every rule that reads a guard structurally has to look through it.  The
// overlay puts the expression back into the `if`: a bool local that is defined by `:=` in the statement directly in
// front of an `if` without init, is used exactly once in the whole function, and that use is the `if` condition
// (bare or negated), is replaced by its defining expression.  Nothing is evaluated earlier or later than before.

func inlineNamedConds(pkgs []*packages.Package, src func(string) []byte) (map[string][]byte, []string) {
	overlay := map[string][]byte{}
	var notes []string
	for _, p := range pkgs {
		if !smPkgs[p.PkgPath] || p.TypesInfo == nil {
			continue
		}
		info := p.TypesInfo
		for i, f := range p.Syntax {
			if i >= len(p.CompiledGoFiles) {
				continue
			}
			fname := p.CompiledGoFiles[i]
			if strings.HasSuffix(fname, ".pb.go") || strings.HasSuffix(fname, ".pb.gw.go") {
				continue
			}
			text := src(fname)
			if text == nil {
				continue
			}
			off := func(pos token.Pos) int { return p.Fset.Position(pos).Offset }
			type edit struct {
				a, b int
				text string
			}
			var edits []edit
			for _, d := range f.Decls {
				fd, ok := d.(*ast.FuncDecl)
				if !ok || fd.Body == nil {
					continue
				}
				uses := map[types.Object]int{}
				ast.Inspect(fd.Body, func(n ast.Node) bool {
					if id, ok := n.(*ast.Ident); ok {
						if o := info.Uses[id]; o != nil {
							uses[o]++
						}
					}
					return true
				})
				visit := func(list []ast.Stmt) {
					for li := 0; li+1 < len(list); li++ {
						as, ok := list[li].(*ast.AssignStmt)
						if !ok || as.Tok != token.DEFINE || len(as.Lhs) != 1 || len(as.Rhs) != 1 {
							continue
						}
						id, ok := as.Lhs[0].(*ast.Ident)
						if !ok || id.Name == "_" || strings.HasPrefix(id.Name, "inlc") {
							continue // inlc<N>: temporaries of hoistCondCalls, which does the opposite for helper calls
						}
						o := info.Defs[id]
						if o == nil || uses[o] != 1 {
							continue
						}
						if b, ok := o.Type().Underlying().(*types.Basic); !ok || b.Kind() != types.Bool {
							continue
						}
						iff, ok := list[li+1].(*ast.IfStmt)
						if !ok || iff.Init != nil {
							continue
						}
						cond := ast.Unparen(iff.Cond)
						neg := false
						if u, ok := cond.(*ast.UnaryExpr); ok && u.Op == token.NOT {
							cond, neg = ast.Unparen(u.X), true
						}
						cid, ok := cond.(*ast.Ident)
						if !ok || info.Uses[cid] != o {
							continue
						}
						// only expressions whose shape matters: comparisons, calls, && / || / ! of them
						switch ast.Unparen(as.Rhs[0]).(type) {
						case *ast.BinaryExpr, *ast.CallExpr, *ast.UnaryExpr:
						default:
							continue
						}
						expr := "(" + string(text[off(as.Rhs[0].Pos()):off(as.Rhs[0].End())]) + ")"
						if neg {
							expr = "!" + expr
						}
						edits = append(edits, edit{off(as.Pos()), off(as.End()), ""})
						edits = append(edits, edit{off(iff.Cond.Pos()), off(iff.Cond.End()), expr})
					}
				}
				ast.Inspect(fd.Body, func(n ast.Node) bool {
					switch x := n.(type) {
					case *ast.BlockStmt:
						visit(x.List)
					case *ast.CaseClause:
						visit(x.Body)
					case *ast.CommClause:
						visit(x.Body)
					}
					return true
				})
			}
			if len(edits) == 0 {
				continue
			}
			sort.SliceStable(edits, func(i, j int) bool { return edits[i].a > edits[j].a })
			okF := true
			for i := 1; i < len(edits); i++ {
				if edits[i].b > edits[i-1].a {
					okF = false
				}
			}
			if !okF {
				continue
			}
			for _, ed := range edits {
				text = append(append(append([]byte{}, text[:ed.a]...), []byte(ed.text)...), text[ed.b:]...)
			}
			if out, err := format.Source(text); err == nil {
				text = out
			}
			overlay[fname] = text
			notes = append(notes, "named conditions put back into their if statements in "+fname[strings.LastIndex(fname, "/")+1:])
		}
	}
	sort.Strings(notes)
	return overlay, notes
}
