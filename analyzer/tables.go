package main

// Reviewed tables.  Every entry carries one line of reason.  Keys are semantic
// (function + construct), never positions.

// map ranges whose body the classifier rejects but that were reviewed by hand
var mapRangeExceptions = map[string]string{
	"alliance.DelegatorSharesInvariant | delegatorShares": "invariant diagnostic: builds a message in map order and stops at the first unknown validator; output is text shown only when the invariant is already broken, the boolean verdict is an OR over all entries; never reaches state",
	"alliance.DelegatorSharesInvariant | assets":          "nested range of the same invariant diagnostic (message text only)",
}

// nondeterminism sources reviewed by hand
var sourceExceptions = map[string]string{
	"bankkeeper.msgServer.Send | conversion to float32": "argument of telemetry.SetGaugeWithLabels only (metrics, not state)",
}

var propMetas = map[string]propMeta{
	"C01": {"Structural inductive step of the custody equation: the set of functions that move coins of the module account and the set that write AllianceAsset.TotalTokens are closed (who-may tables); in Delegate, Undelegate/queueUndelegation, CompleteUnbondings, DeductAssetsWithTakeRate and slashUndelegations the value moved and the value recorded are the same canonical SSA term and the persisting call follows on every success path; no other operation's call tree contains a custody move or a TotalTokens write.",
		"exactness of the arithmetic on each side (floor, (1-r)^n), run-time agreement of denominations, success of bank calls."},
	"C02": {"Completion time is one term BlockTime+UnbondingTime used for queue key, index key and result; the maturity scan is Iterator(prefix, QueueKeyByTime(BlockTime)) with no arithmetic on the bound; per matured entry the payment goes to the address parsed from that entry for exactly that entry's Balance, the per-validator index key built from that entry's fields and the bucket key are deleted on every non-error path; CompleteUnbondings is the only payer and is called only from EndBlocker; key layouts of scan bound and queue key agree.",
		"end-exclusiveness/ordering of the store iterator (A2), amounts after slashes, behaviour across several blocks."},
	"C03": {"Every write of Delegation.Shares is paired with an update of the same validator's TotalDelegatorShares by the same term, every write of AllianceAsset.TotalValidatorShares with an update of a validator's ValidatorShares by the same term; the share amount removed is the result of ValidateDelegatedAmount (capped at the position's shares on every return path); the dust reset is reached with the updated asset on every success path; mutated values are persisted.",
		"equality of sums under rounding and clamping, absence of negative values."},
	"C04": {"In Undelegate and Redelegate every mutation is dominated by the rejection of amounts above the position's token value; share-price functions are evaluated before any write to the ledger fields they read; user operations write Delegation records only under the acting delegator's key.",
		"every numeric statement of the property (tolerances, dilution bounds, sums of reported values). This claim is thin."},
	"C05": {"No division in the call trees of the four user operations has a divisor that is not guarded against zero (dominating guard on the same value, or table entry); entitlement arithmetic rounds toward zero (shared with C12).",
		"reachability of states, sufficiency of balances, every other cause of failure."},
	"C06": {"In SlashValidator each asset share is reduced by share*fraction and the same term is subtracted from the asset's TotalValidatorShares; the fraction range check dominates everything; the validator record persisted is the one loaded for the slashed address; TotalTokens and custody are untouched by the bonded part; the hook passes its arguments through unchanged.",
		"the proportionality factor g, conservation of value in tokens."},
	"C07": {"Loops over unbonding entries reached through the per-validator index compare the entry's validator and denom with the index key; slashing effects are dominated by the strict maturity skip (completion before block time) that is the complement of the maturity scan; the amount removed from an entry equals the amount sent to the fee collector and is fraction*balance truncated; the mutated bucket is written back under the key it was read from; the redelegation slash uses the record addressed by the index key; upserted records only take parameter values that are attributes of their key.",
		"amounts, single application across repeated slashes."},
	"C08": {"Every business-error origin (module-built error or sentinel) reachable from BeforeValidatorSlashed is in the reviewed table as precondition/guarded/finding; ClaimDelegationRewards inside the callback is dominated by a successful GetDelegation test for the same key; divisions in the callback's call tree are guarded; the hook queues a rebalance on every path on which the slash returned nil; x/staking swallows the hook's error (fact).",
		"failures of external keeper calls (A2), panics other than division by zero."},
	"C09": {"DeductAssetsHook triggers iff BlockTime.After(last+interval); exponent, clock multiplier and whole-interval count are one term, the clock advance is lastClaim+interval*n; each deduction is dominated by positive total, positive rate, RewardsStarted and newAmount>1, new total is the truncated product; every non-error exit on which n was computed passes SetLastRewardClaimTime; deducted coin = old-new of the same asset, persisted, accumulated and sent once.",
		"exact compounding, proportional shrink of positions."},
	"C10": {"Every staking hook that follows a power-changing staking primitive, the three user operations, weight changes and decay steps reach QueueAssetRebalanceEvent on every success path; x/staking's own call sites of power-changing primitives are covered by such a hook (read from the module cache); RebalanceBondTokenWeights only adjusts bonded validators, skips unstarted assets (re-queues), guards the quotient, skips zero differences; EndBlocker runs the rebalance after all other steps and iff the flag was consumed; mint/delegate and unbond/burn pair by value.",
		"the target formula and the two-unit tolerance."},
	"C11": {"MintCoins occurs only in RebalanceBondTokenWeights with the amount that is delegated for the module address with subtractAccount=true; BurnCoins only there (bonded pool, the amount Unbond returned) and in CompleteUnbondings (whole module balance of the bond denom, on every success exit); EndBlocker always runs CompleteUnbondings; no payment to an account derives from a minted amount; the bank supply queries subtract GetAllianceBondedAmount(module address).",
		"net-supply arithmetic after real slashes, behaviour of other SDK modules on the module account."},
	"C12": {"AddAssetsToRewardPool sends the very coins term used for the index increments to the rewards pool on every path that persists a changed history; ClaimValidatorRewards forwards exactly what WithdrawDelegationRewards returned for that validator; the only spender of the rewards pool is ClaimDelegationRewards, paying the first result of CalculateDelegationRewards after the delegation's history was overwritten and persisted; entitlement-side fixed-point operations must truncate.",
		"the solvency inequality itself; inflation of accrued entitlements by value-changing events (design-level defect, not reported here)."},
	"C13": {"Every call that adds stake to a position is dominated by a reward settlement of the same validator, every call that removes stake by a claim for the same delegation with the delegation re-read afterwards; a new delegation starts from the validator's current history; the claim overwrites history and height and persists before paying; the claim's call tree writes no share or token ledger field.",
		"the pro-rata split formula and the one-unit bound."},
	"C14": {"The decayed weight passed to UpdateAllianceAsset is clamped to [Min,Max]; exponent, clock multiplier and interval count are one term and the step is skipped for interval 0, rate 1 or an interval not yet elapsed; UpdateAllianceAsset persists only inside the range and settles every validator and snapshots the old weight before storing the new one; RewardsStarted gates reward split, claim, voting power, take rate and initialisation and is t >= start.",
		"w*rate^n, retroactivity in amounts."},
	"C15": {"Redelegate moves no custody and does not write the asset; the validator-share term removed from the source is the one added to the destination; every mutation is dominated by the cap test and by the negative HasRedelegation test on the source as destination; the keys written when an entry is created are those deleted when it completes, built from the entry's own fields; completion time and scan bound as in C02.",
		"value preservation in tokens."},
	"C16": {"In each governance handler every effect is dominated by the authority comparison; the legacy proposal path only forwards to those handlers; create/update reject invalid take rate, weight, range, change rate and interval before persisting; UpdateAllianceAsset writes only whitelisted fields of the stored record; deletion requires zero tokens; creation requires absence; privileged setters have only the reviewed callers.",
		"rollback of a panicking handler (A1)."},
	"C17": {"Divisions reachable from EndBlocker are guarded (dominating guard, or every governance writer of the stored divisor enforces positivity); every business-error origin reachable from EndBlocker is in the reviewed table as precondition/guarded; EndBlocker's step order is fixed.",
		"failures of external keepers (A2), gas and iteration limits."},
	"C18": {"Every store prefix with a run-time writer is exported and re-imported, or is a derived index rebuilt on import by the same writer function as at run time; the exported Params literal sets every field; derived-index key arguments on import come from the imported record; upserted records are determined by their key.",
		"observational equivalence under continuation (needs execution)."},
	"C19": {"No range over a map whose body is order-sensitive (classifier over statement forms; reviewed exceptions by function); maps in reward distribution are lookup-only; no wall clock, randomness, environment, goroutine, channel, unsafe, %p or floating-point arithmetic in the state-machine packages (telemetry arguments excepted); positive fixture must fire on every run.",
		"determinism of the SDK and of the Go runtime."},
	"C20": {"Unbonding queries filter bucket entries by the index key's validator and denom; every filter parameter flows into the scan prefix/suffix; emitted fields come from the same entry and the completion time from the index key; delegation balances are GetDelegationTokens of the records loaded for the request and agree with the cap used by Undelegate; binding responses convert record fields injectively.",
		"pagination behaviour, completeness of results at run time."},
}
