package main

import (
	"fmt"
	"go/token"
	"strings"

	"golang.org/x/tools/go/ssa"
)

// decCoinOf: t == sdk.NewDecCoins([sdk.NewDecCoinFromDec(denom, amount)]) -> (denom, amount)
func decCoinOf(t *Term) (*Term, *Term) {
	if t.IsCall("sdk.NewDecCoins") && len(t.Args) == 1 {
		t = t.Args[0]
	}
	if t.Op == "list" && len(t.Args) == 1 {
		t = t.Args[0]
	}
	if t.IsCall("sdk.NewDecCoinFromDec") && len(t.Args) == 2 {
		return t.Args[0], t.Args[1]
	}
	return nil, nil
}

// edgeFacts: relations that hold when control flows from pred into block b (b's i-th predecessor).
func (fa *FuncAnalysis) edgeFacts(pred, b *ssa.BasicBlock) []Rel {
	var out []Rel
	for _, g := range fa.GuardsOfBlock(pred) {
		out = append(out, relsOf(g)...)
	}
	for i, s := range pred.Succs {
		if s == b {
			if g, ok := fa.EdgeFact(pred, i); ok {
				out = append(out, relsOf(g)...)
			}
		}
	}
	return out
}

func init() {
	register(&Rule{ID: "C03.pair.delegation", Props: []string{"C03", "C15", "C04"}, Floor: 12,
		Doc: "every change of a delegation's shares is paired with the same change of the validator's delegator-share total",
		Run: func(e *Engine, r *RuleRun) {
			// adding stake: upsert result #1 -> updateValidatorShares(add)
			for _, c := range e.CallersOf("keeper.Keeper.upsertDelegationWithNewTokens") {
				fn, call := c.Fn, c.Instr.(ssa.CallInstruction)
				fk, fa := FuncKey(fn), e.FA(fn)
				v := argT(fa, call, 2)
				newSh := extractT(fa, call, 1)
				var match ssa.CallInstruction
				for _, u := range CallsTo(fn, "keeper.Keeper.updateValidatorShares") {
					_, amt := decCoinOf(argT(fa, u, 2))
					if amt != nil && amt.Eq(newSh) {
						match = u
					}
				}
				construct := "shares added to the delegation on " + v.String() + " == shares added to the validator's total"
				if match == nil {
					r.Bad(fk, construct, "no updateValidatorShares call adds the shares that upsertDelegationWithNewTokens returned: the delegators' shares would no longer sum to the validator's total", nil, r.P(call))
					continue
				}
				den, _ := decCoinOf(argT(fa, match, 2))
				ok := argT(fa, match, 1).Eq(v) && e.sharesDirection(fa, match) == "true" && den.Eq(mkField(argT(fa, call, 3), "Denom"))
				r.Check(ok, fk, construct, "updateValidatorShares(same validator, [coin.Denom, newShares], .., add)", "the paired updateValidatorShares call uses another validator, denom or direction", r.P(match))
				if trail := fa.MustFollow(call, []ssa.Instruction{match}); trail != nil {
					r.Bad(fk, "delegation grown => validator total grown ("+v.String()+")", "a success path persists the larger delegation without updating the validator's total", trail, r.P(call))
				} else {
					r.OK(fk, "delegation grown => validator total grown ("+v.String()+")", "update follows on every success path", r.P(match))
				}
			}
			// removing stake
			for _, c := range e.CallersOf("keeper.Keeper.reduceDelegationShares") {
				fn, call := c.Fn, c.Instr.(ssa.CallInstruction)
				fk, fa := FuncKey(fn), e.FA(fn)
				v, sh := argT(fa, call, 2), argT(fa, call, 4)
				var match ssa.CallInstruction
				for _, u := range CallsTo(fn, "keeper.Keeper.updateValidatorShares") {
					_, amt := decCoinOf(argT(fa, u, 2))
					if amt != nil && amt.Eq(sh) && argT(fa, u, 1).Eq(v) {
						match = u
					}
				}
				construct := "shares removed from the delegation on " + stripOrd(v.String()) + " == shares removed from the validator's total"
				if match == nil {
					// the redelegation slash lowers the delegator-share total of the same validator directly (its validator
					// shares stay on purpose: the value is redistributed to the other positions) and persists it
					okDirect := false
					var stD *ssa.Store
					for _, st := range StoresToField(fn, "types.AllianceValidatorInfo", "TotalDelegatorShares") {
						t := fa.Term(st.Val)
						if t.IsCall("sdk.DecCoins.Sub") && len(t.Args) == 2 {
							el := singleCoin(&Term{Op: "call", Name: "sdk.NewCoins", Args: []*Term{t.Args[1].Args[0]}})
							root, _, _ := fa.addrPath(st.Addr)
							if el != nil && el.IsCall("sdk.NewDecCoinFromDec") && el.Args[1].Eq(sh) && strings.Contains(root, v.String()) {
								okDirect, stD = true, st
							}
						}
					}
					if okDirect {
						sv := CallsTo(fn, "keeper.Keeper.SetValidator")
						okP := false
						for _, c2 := range sv {
							if argT(fa, c2, 1).Eq(v) && fa.MustFollow(stD, []ssa.Instruction{c2}) == nil {
								okP = true
							}
						}
						r.Check(okP, fk, construct, "TotalDelegatorShares := TotalDelegatorShares.Sub([denom, same shares]) on the same validator, persisted by SetValidator", "the validator's lowered delegator-share total is not persisted on every success path", r.P(stD))
						continue
					}
					r.Bad(fk, construct, "no updateValidatorShares call (and no direct TotalDelegatorShares subtraction) removes the shares that reduceDelegationShares removes from the delegation", nil, r.P(call))
					continue
				}
				den, _ := decCoinOf(argT(fa, match, 2))
				ok := e.sharesDirection(fa, match) == "false" && den.Eq(mkField(argT(fa, call, 3), "Denom"))
				r.Check(ok, fk, construct, "updateValidatorShares(same validator, [coin.Denom, shares], .., remove)", "the paired call uses another denom or adds instead of removing", r.P(match))
				if trail := fa.MustFollow(call, []ssa.Instruction{match}); trail != nil {
					r.Bad(fk, "delegation reduced => validator total reduced ("+v.String()+")", "a success path persists the smaller delegation without updating the validator's total", trail, r.P(call))
				} else {
					r.OK(fk, "delegation reduced => validator total reduced ("+v.String()+")", "update follows on every success path", r.P(match))
				}
				// cap: shares come from ValidateDelegatedAmount on the delegation that is reduced
				okCap := sh.Op == "extract" && sh.Name == "0" && sh.Args[0].IsCall("keeper.Keeper.ValidateDelegatedAmount")
				if okCap {
					a := sh.Args[0].CallArgsT()
					okCap = a[1].Eq(argT(fa, call, 5)) && a[2].Eq(argT(fa, call, 3)) && a[3].Eq(v)
				}
				r.Check(okCap, fk, "shares removed are the validated amount for this delegation ("+v.String()+")", "ValidateDelegatedAmount(same delegation, same coin, same validator)", "the shares removed are not the ValidateDelegatedAmount result for the delegation being reduced: they may exceed what the position holds (negative shares)", r.P(call))
			}
			// helpers
			if fn := r.Need("keeper.Keeper.upsertDelegationWithNewTokens"); fn != nil {
				fa := e.FA(fn)
				ok := true
				var ns *Term
				for _, ret := range fa.SuccessExits() {
					t := fa.Term(ret.Results[1])
					if ns == nil {
						ns = t
					}
					if !t.IsCall("types.GetDelegationSharesFromTokens") || !t.Eq(ns) {
						ok = false
					}
				}
				nd := CallsTo(fn, "types.NewDelegation")
				if ok && len(nd) == 1 {
					ok = argT(fa, nd[0], 4).Eq(ns)
				}
				r.Check(ok && ns != nil, FuncKey(fn), "returned shares == shares given to the position", "result #1 is the GetDelegationSharesFromTokens value used for the new/extended delegation", "the share amount reported to the caller differs from what was added to the delegation", e.Pos(fn.Pos()))
				sd := CallsTo(fn, "keeper.Keeper.SetDelegation")
				r.Check(len(sd) == 1 && fa.MustFollow(fn.Blocks[0].Instrs[0], callsAsInstrs(sd)) == nil, FuncKey(fn), "delegation persisted", "SetDelegation on every success path", "the delegation may not be persisted", e.Pos(fn.Pos()))
			}
			if fn := r.Need("keeper.Keeper.reduceDelegationShares"); fn != nil {
				fa := e.FA(fn)
				sts := StoresToField(fn, "types.Delegation", "Shares")
				ok := len(sts) == 1
				if ok {
					v := fa.Term(sts[0].Val)
					ok = v.IsCall("math.LegacyDec.Sub") && v.Args[0].String() == "$delegation.Shares" && v.Args[1].String() == "$shares"
				}
				r.Check(ok, FuncKey(fn), "delegation reduced by the shares parameter", "Shares := Shares.Sub(shares)", "the delegation is not reduced by exactly the shares parameter", e.Pos(fn.Pos()))
				var fin []ssa.Instruction
				fin = append(fin, callsAsInstrs(CallsTo(fn, "keeper.Keeper.SetDelegation"))...)
				for _, d := range CallsTo(fn, "corestore.KVStore.Delete") {
					if fa.HasFact(d, "math.LegacyDec.Sub($delegation.Shares, $shares)", "==", "0") {
						fin = append(fin, d)
					}
				}
				r.Check(len(fin) == 2 && fa.MustFollow(fn.Blocks[0].Instrs[0], fin) == nil, FuncKey(fn), "reduced delegation persisted or deleted when empty", "SetDelegation, or Delete under Shares.IsZero()", "the reduced delegation is neither persisted nor (when empty) deleted on some success path", e.Pos(fn.Pos()))
			}
			if fn := r.Need("keeper.Keeper.updateValidatorShares"); fn != nil {
				fa := e.FA(fn)
				add, red := CallsTo(fn, "types.AllianceValidator.AddShares"), CallsTo(fn, "types.AllianceValidator.ReduceShares")
				ok := len(add) == 1 && len(red) == 1
				if ok {
					for _, c := range []ssa.CallInstruction{add[0], red[0]} {
						if argT(fa, c, 0).String() != "$delegationShares" || argT(fa, c, 1).String() != "$validatorShares" {
							ok = false
						}
					}
					// one test of the direction parameter (a bool, or a named constant compared with ==/!=) selects between
					// the two: AddShares on one outcome, ReduceShares on the other
					ga, okA := directionGuard(fa, add[0])
					gr, okR := directionGuard(fa, red[0])
					ok = ok && okA && okR && oppositeDirections(ga, gr)
				}
				r.Check(ok, FuncKey(fn), "add/remove dispatch", "isAdd -> AddShares(delegationShares, validatorShares), else ReduceShares(same)", "updateValidatorShares does not pass its two share arguments straight to AddShares/ReduceShares under isAdd", e.Pos(fn.Pos()))
				sv := CallsTo(fn, "keeper.Keeper.SetValidator")
				// one SetValidator after the branches, or one in each: every exit passes one, and each persists the parameter
				okSV := len(sv) >= 1 && fa.MustFollowAllExits(fn.Blocks[0].Instrs[0], callsAsInstrs(sv)) == nil
				for _, c := range sv {
					args := CallArgs(c.Common())
					if len(args) < 2 || !loadsParamSlot(args[1], "validator") {
						okSV = false
					}
				}
				r.Check(okSV, FuncKey(fn), "validator persisted", "SetValidator on every path", "updated validator shares are not persisted on every path", e.Pos(fn.Pos()))
			}
			for _, k := range []string{"types.AllianceValidator.AddShares", "types.AllianceValidator.ReduceShares"} {
				fn := r.Need(k)
				if fn == nil {
					continue
				}
				fa := e.FA(fn)
				ok := true
				for field, param := range map[string]string{"TotalDelegatorShares": "$delegationShares", "ValidatorShares": "$validatorShares"} {
					sts := StoresToField(fn, "types.AllianceValidatorInfo", field)
					if len(sts) != 1 {
						ok = false
						continue
					}
					v := fa.Term(sts[0].Val)
					want := "sdk.DecCoins.Add"
					if strings.HasSuffix(k, "ReduceShares") {
						want = "types.SubtractDecCoinsWithRounding"
					}
					if !(v.IsCall(want) && strings.HasSuffix(v.Args[0].String(), "."+field) && v.Args[1].String() == param) {
						ok = false
					}
				}
				r.Check(ok, k, "totals updated with the matching argument", "TotalDelegatorShares <- delegationShares, ValidatorShares <- validatorShares", "the delegator-share and validator-share arguments are crossed or not applied", e.Pos(fn.Pos()))
			}
			// dust removal: delegation deleted <=> its remaining shares removed from the validator total
			if fn := r.Need("keeper.Keeper.ClearDustDelegation"); fn != nil {
				fk, fa := FuncKey(fn), e.FA(fn)
				rs := r.One(fn, "remove dust shares", "types.AllianceValidator.ReduceShares")
				dels := CallsTo(fn, "corestore.KVStore.Delete", "storetypes.KVStore.Delete")
				if rs != nil && len(dels) == 1 {
					d := dels[0]
					dl := singleCoin(&Term{Op: "call", Name: "sdk.NewCoins", Args: []*Term{argT(fa, rs, 0).Args[0]}})
					okPhi := dl != nil && dl.Op == "phi"
					if okPhi {
						phi := dl.Instr.(*ssa.Phi)
						key := argT(fa, d, 0)
						var dlg *Term
						if key.IsCall("types.GetDelegationKey") {
							// the delegation whose key is deleted
							for _, g := range CallsTo(fn, "keeper.Keeper.GetDelegation") {
								dlg = extractT(fa, g, 0)
							}
						}
						_ = phi
						// every way the removed amount can come about (nested phis, and flags that an inlined helper returns,
						// are expanded case by case)
						cases := fa.PhiCases(dl, nil, 0)
						if len(cases) < 2 {
							okPhi = false
						}
						for _, c := range cases {
							_, amt0 := decCoinOf(c.T)
							if amt0 == nil {
								okPhi = false
								continue
							}
							for _, sc := range fa.PhiCases(amt0, c.Restrict, 0) {
								amt := sc.T
								afterDelete := false
								for _, pred := range append(append([]*ssa.BasicBlock{}, c.Preds...), sc.Preds...) {
									if d.Block() == pred || d.Block().Dominates(pred) {
										afterDelete = true
									}
								}
								if afterDelete {
									if dlg == nil || !amt.Eq(mkField(dlg, "Shares")) {
										okPhi = false
									}
								} else if !amt.IsCall("math.LegacyZeroDec") {
									okPhi = false
								}
							}
						}
					}
					r.Check(okPhi, fk, "dust delegation deleted <=> its shares leave the validator total", "delegator shares removed = delegation.Shares after the delete, zero otherwise", "the shares removed from the validator's delegator total do not match the deleted dust delegation", r.P(rs))
					if trail := fa.MustFollow(d, []ssa.Instruction{rs}); trail != nil {
						r.Bad(fk, "delete => total reduced", "a success path deletes the dust delegation without reducing the validator's total", trail, r.P(d))
					} else {
						r.OK(fk, "delete => total reduced", "ReduceShares follows the delete on every success path", r.P(rs))
					}
					sv := CallsTo(fn, "keeper.Keeper.SetValidator")
					r.Check(len(sv) == 1 && fa.MustFollow(rs, callsAsInstrs(sv)) == nil, fk, "reduced validator persisted", "SetValidator follows", "the reduced validator is not persisted", r.P(rs))
				} else if rs != nil {
					r.Bad(fk, "dust delete", fmt.Sprintf("expected one store delete, found %d", len(dels)), nil)
				}
			}
		}})

	register(&Rule{ID: "C03.pair.asset", Props: []string{"C03", "C15"}, Floor: 6,
		Doc: "every change of an asset's share total is paired with the same change of a validator's share of that asset",
		Run: func(e *Engine, r *RuleRun) {
			for _, k := range []string{"keeper.Keeper.Delegate", "keeper.Keeper.Undelegate"} {
				fn := r.Need(k)
				if fn == nil {
					continue
				}
				fa := e.FA(fn)
				sts := StoresToField(fn, "types.AllianceAsset", "TotalValidatorShares")
				if len(sts) != 1 {
					r.Bad(k, "asset share total update", fmt.Sprintf("expected one update of TotalValidatorShares, found %d", len(sts)), nil)
					continue
				}
				v := fa.Term(sts[0].Val)
				op, isAdd := "math.LegacyDec.Add", "true"
				if k == "keeper.Keeper.Undelegate" {
					op, isAdd = "math.LegacyDec.Sub", "false"
				}
				ok := v.IsCall(op) && strings.HasSuffix(v.Args[0].String(), ".TotalValidatorShares") && v.Args[1].IsCall("types.GetValidatorShares")
				r.Check(ok, k, "asset share total changes by GetValidatorShares(asset, amount)", "TotalValidatorShares := old "+op, "asset share total is set to "+v.String(), r.P(sts[0]))
				if !ok {
					continue
				}
				delta := v.Args[1]
				// price is taken on the asset before the update and for the requested amount
				pa := delta.Args
				okP := pa[0].Op == "extract" && pa[0].Args[0].IsCall("keeper.Keeper.GetAssetByDenom") && pa[1].String() == "$coin.Amount"
				r.Check(okP, k, "validator shares priced on the unmodified asset for the requested amount", "GetValidatorShares(asset as loaded, coin.Amount)", "validator shares are priced on "+pa[0].String()+" for "+pa[1].String(), r.P(sts[0]))
				var match ssa.CallInstruction
				for _, u := range CallsTo(fn, "keeper.Keeper.updateValidatorShares") {
					_, amt := decCoinOf(argT(fa, u, 3))
					if amt != nil && amt.Eq(delta) && e.sharesDirection(fa, u) == isAdd {
						match = u
					}
				}
				if match == nil {
					r.Bad(k, "asset share total change == validator share change", "no updateValidatorShares call applies the same validator-share amount in the same direction: validators' shares would no longer sum to the asset's total", nil, r.P(sts[0]))
				} else if trail := fa.MustFollow(sts[0], []ssa.Instruction{match}); trail != nil {
					r.Bad(k, "asset share total change == validator share change", "a success path changes the asset's share total without changing the validator's share", trail, r.P(sts[0]))
				} else {
					r.OK(k, "asset share total change == validator share change", "same term, same direction, on every success path", r.P(match))
				}
			}
			// Redelegate: same validator-share amount leaves the source and enters the destination; asset untouched
			if fn := r.Need("keeper.Keeper.Redelegate"); fn != nil {
				k, fa := FuncKey(fn), e.FA(fn)
				us := CallsTo(fn, "keeper.Keeper.updateValidatorShares")
				ok := len(us) == 2
				if ok {
					_, a0 := decCoinOf(argT(fa, us[0], 3))
					_, a1 := decCoinOf(argT(fa, us[1], 3))
					ok = a0 != nil && a1 != nil && a0.Eq(a1) && a0.IsCall("types.GetValidatorShares") &&
						e.sharesDirection(fa, us[0]) == "false" && e.sharesDirection(fa, us[1]) == "true" &&
						argT(fa, us[0], 1).String() == "$srcVal" && argT(fa, us[1], 1).String() == "$dstVal"
				}
				r.Check(ok, k, "validator shares moved unchanged from source to destination", "updateValidatorShares(src, .., V, remove) and (dst, .., V, add) with one term V", "the validator-share amounts removed from the source and added to the destination differ, or the directions/validators are wrong", e.Pos(fn.Pos()))
				n := 0
				for _, a := range e.DirectAtoms(fn) {
					if a.Kind == "fieldwrite" && strings.HasPrefix(a.Name, "AllianceAsset.") {
						n++
						r.Bad(k, "asset record untouched", "Redelegate writes "+a.Name, nil, r.P(a.Instr))
					}
				}
				if n == 0 {
					r.OK(k, "asset record untouched", "no store to an AllianceAsset field")
				}
			}
			// reset: zero total only when the asset's staked total is zero, and the denom is stripped from every validator
			if fn := r.Need("keeper.Keeper.ResetAssetAndValidators"); fn != nil {
				k, fa := FuncKey(fn), e.FA(fn)
				sts := StoresToField(fn, "types.AllianceAsset", "TotalValidatorShares")
				ok := len(sts) == 1 && fa.Term(sts[0].Val).IsCall("math.LegacyZeroDec") && fa.HasFact(sts[0], "$asset.TotalTokens", "==", "0")
				r.Check(ok, k, "share total zeroed only when nothing is staked", "TotalValidatorShares := 0 under TotalTokens.IsZero()", "the asset's share total is reset although tokens may still be staked", e.Pos(fn.Pos()))
				it := CallsTo(fn, "keeper.Keeper.IterateAllianceValidatorInfo")
				sa := CallsTo(fn, "keeper.Keeper.SetAsset")
				ok2 := len(it) == 1 && len(sa) == 1 && len(sts) == 1 && fa.Dominates(it[0], sts[0]) && fa.MustFollow(sts[0], callsAsInstrs(sa)) == nil
				r.Check(ok2, k, "validators stripped before the total is zeroed and persisted", "Iterate(strip denom) -> zero -> SetAsset", "the reset does not strip validators first or does not persist the asset", e.Pos(fn.Pos()))
				if len(fn.AnonFuncs) == 1 {
					cl := fn.AnonFuncs[0]
					cfa := e.FA(cl)
					okC := false
					for _, c := range CallsTo(cl, "builtin.append") {
						// shares kept only when their denom differs from the asset's
						if cfa.HasGuard(c, func(g Guard) bool {
							return g.Cond.Op == "binop" && ((g.Cond.Name == "!=" && g.Pos) || (g.Cond.Name == "==" && !g.Pos)) && strings.HasSuffix(g.Cond.Args[0].String(), ".Denom") && strings.HasSuffix(g.Cond.Args[1].String(), ".Denom")
						}) {
							okC = true
						}
					}
					sv := CallsTo(cl, "keeper.Keeper.SetValidatorInfo")
					r.Check(okC && len(sv) == 1, k, "closure keeps only other denoms and persists", "append under share.Denom != asset.Denom; SetValidatorInfo", "the reset closure does not drop exactly the asset's denom from each validator", e.Pos(cl.Pos()))
				}
			}
		}})

	register(&Rule{ID: "C03.sharescap", Props: []string{"C03", "C04", "C08"}, Floor: 2,
		Doc: "ValidateDelegatedAmount never returns more shares than the delegation holds",
		Run: func(e *Engine, r *RuleRun) {
			fn := r.Need("keeper.Keeper.ValidateDelegatedAmount")
			if fn == nil {
				return
			}
			fk, fa := FuncKey(fn), e.FA(fn)
			shares := "$delegation.Shares"
			n := 0
			for _, ret := range fa.SuccessExits() {
				n++
				v := ret.Results[0]
				t := fa.Term(v)
				ok := t.String() == shares
				if !ok {
					if phi, isPhi := v.(*ssa.Phi); isPhi {
						ok = true
						for i, ed := range phi.Edges {
							et := fa.Term(ed)
							if et.String() == shares {
								continue
							}
							// single-exit style: the error result is a phi of the same block; an edge that brings a non-nil
							// error is an error exit, whatever shares value travels with it
							if ep, isEP := ret.Results[len(ret.Results)-1].(*ssa.Phi); isEP && ep.Block() == phi.Block() && i < len(ep.Edges) {
								pred := phi.Block().Preds[i]
								if len(pred.Instrs) > 0 && fa.provablyNonNil(ep.Edges[i], pred.Instrs[len(pred.Instrs)-1], 0) {
									continue
								}
							}
							capped := false
							for _, f := range fa.edgeFacts(phi.Block().Preds[i], phi.Block()) {
								if relImplies(f, Rel{A: constName(et), Op: "<=", B: shares}) {
									capped = true
								}
							}
							if !capped {
								ok = false
							} else {
								// one case of a single-exit function = one return of the early-exit form (vacuity count)
								r.OK(fk, fmt.Sprintf("success case of edge %d is capped at the delegation's shares", i), "value tested <= delegation.Shares on the incoming edge", r.P(ret))
							}
						}
					} else {
						ok = fa.HasFact(ret, constName(t), "<=", shares)
					}
				}
				r.Check(ok, fk, fmt.Sprintf("success return #%d is capped at the delegation's shares", n), "returns delegation.Shares or a value tested <= delegation.Shares", "a success path returns a share amount ("+t.String()+") that is not bounded by the shares the delegation holds: the caller would drive shares negative", r.P(ret))
			}
		}})

	register(&Rule{ID: "C03.reset", Props: []string{"C03", "C05"}, Floor: 4,
		Doc: "after the staked total decreases the dust reset is reached with the updated asset on every success path",
		Run: func(e *Engine, r *RuleRun) {
			if fn := r.Need("keeper.Keeper.Undelegate"); fn != nil {
				k, fa := FuncKey(fn), e.FA(fn)
				cd := r.One(fn, "dust cleanup", "keeper.Keeper.ClearDustDelegation")
				sts := StoresToField(fn, "types.AllianceAsset", "TotalTokens")
				if cd != nil && len(sts) == 1 {
					a := argT(fa, cd, 3)
					_, tt := ovrGet(a, ".TotalTokens")
					r.Check(tt != nil && tt.Eq(fa.Term(sts[0].Val)), k, "cleanup sees the decreased total", "ClearDustDelegation receives the asset with the updated TotalTokens", "the dust cleanup receives the asset as it was before the undelegation ("+a.String()+"): the zero-total reset would never trigger", r.P(cd))
					if trail := fa.MustFollow(sts[0], []ssa.Instruction{cd}); trail != nil {
						r.Bad(k, "cleanup on every success path", "the staked total can decrease without the dust cleanup running", trail, r.P(sts[0]))
					} else {
						r.OK(k, "cleanup on every success path", "ClearDustDelegation follows the decrease on every success path", r.P(cd))
					}
					r.Check(argT(fa, cd, 2).String() == "$validator" && argT(fa, cd, 1).String() == "$delAddr", k, "cleanup of the same position", "same delegator and validator", "cleanup targets another position", r.P(cd))
				}
			}
			if fn := r.Need("keeper.Keeper.Redelegate"); fn != nil {
				k, fa := FuncKey(fn), e.FA(fn)
				cd := r.One(fn, "dust cleanup", "keeper.Keeper.ClearDustDelegation")
				if cd != nil {
					r.Check(argT(fa, cd, 2).String() == "$srcVal" && argT(fa, cd, 1).String() == "$delAddr", k, "cleanup of the source position", "ClearDustDelegation(delAddr, srcVal, asset)", "cleanup targets "+argT(fa, cd, 2).String(), r.P(cd))
					rd := CallsTo(fn, "keeper.Keeper.reduceDelegationShares")
					r.Check(len(rd) == 1 && fa.MustFollow(rd[0], []ssa.Instruction{cd}) == nil, k, "cleanup follows the source reduction", "on every success path", "the source position can be reduced without the dust cleanup", r.P(cd))
				}
			}
			if fn := r.Need("keeper.Keeper.ClearDustDelegation"); fn != nil {
				k, fa := FuncKey(fn), e.FA(fn)
				rs := r.One(fn, "reset", "keeper.Keeper.ResetAssetAndValidators")
				if rs != nil {
					r.Check(argT(fa, rs, 1).String() == "$asset", k, "reset receives the asset parameter", "ResetAssetAndValidators(asset)", "reset receives "+argT(fa, rs, 1).String(), r.P(rs))
					if trail := fa.MustFollow(fn.Blocks[0].Instrs[0], []ssa.Instruction{rs}); trail != nil {
						r.Bad(k, "reset on every success path", "ClearDustDelegation can succeed without checking for the zero-total reset", trail)
					} else {
						r.OK(k, "reset on every success path", "every success path passes ResetAssetAndValidators", r.P(rs))
					}
				}
			}
		}})
}

// loadsParamSlot: v is the parameter with the reviewed name, or a load of the local slot it was spilled to (its
// address was taken for a pointer-receiver method), i.e. the parameter's variable as it stands.
func loadsParamSlot(v ssa.Value, name string) bool {
	if p, ok := v.(*ssa.Parameter); ok {
		return reviewedParamName(p) == name
	}
	u, ok := v.(*ssa.UnOp)
	if !ok || u.Op != token.MUL {
		return false
	}
	al, ok := u.X.(*ssa.Alloc)
	if !ok || al.Referrers() == nil {
		return false
	}
	for _, ref := range *al.Referrers() {
		if st, ok := ref.(*ssa.Store); ok && st.Addr == ssa.Value(al) {
			if p, ok := st.Val.(*ssa.Parameter); ok && reviewedParamName(p) == name {
				return true
			}
		}
	}
	return false
}

// directionGuard: the guard of call c (inside updateValidatorShares) that tests only the function's direction
// parameter - the last parameter - as a boolean or against a constant.
func directionGuard(fa *FuncAnalysis, c ssa.Instruction) (Guard, bool) {
	ps := fa.Fn.Params
	if len(ps) == 0 {
		return Guard{}, false
	}
	pname := reviewedParamName(ps[len(ps)-1])
	isDir := func(t *Term) bool { return t.Op == "param" && t.Name == pname }
	for _, g := range fa.GuardsOf(c) {
		switch {
		case isDir(g.Cond):
			return g, true
		case g.Cond.Op == "binop" && (g.Cond.Name == "==" || g.Cond.Name == "!=") && len(g.Cond.Args) == 2:
			a, b := g.Cond.Args[0], g.Cond.Args[1]
			if (isDir(a) && b.Op == "const") || (isDir(b) && a.Op == "const") {
				return g, true
			}
		}
	}
	return Guard{}, false
}

// sharesDirection: "true" when the call of updateValidatorShares adds shares, "false" when it removes them, "" when
// that cannot be told.  The direction argument is a constant at every call site; it is evaluated against the test that
// guards AddShares inside the callee (a bool flag, or a named constant compared with == / !=).
func (e *Engine) sharesDirection(fa *FuncAnalysis, c ssa.CallInstruction) string {
	args := CallArgs(c.Common())
	if len(args) == 0 {
		return ""
	}
	at := fa.Term(args[len(args)-1])
	if at.Op != "const" {
		return ""
	}
	if at.Name == "true" || at.Name == "false" {
		return at.Name
	}
	callee := Devirt(c.Common())
	if callee == nil || callee.Blocks == nil {
		return ""
	}
	cfa := e.FA(callee)
	adds := CallsTo(callee, "types.AllianceValidator.AddShares")
	if len(adds) != 1 {
		return ""
	}
	g, ok := directionGuard(cfa, adds[0])
	if !ok || g.Cond.Op != "binop" {
		return ""
	}
	k := g.Cond.Args[1]
	if k.Op != "const" {
		k = g.Cond.Args[0]
	}
	eq := at.Name == k.Name
	holds := eq
	if g.Cond.Name == "!=" {
		holds = !eq
	}
	if holds == g.Pos {
		return "true"
	}
	return "false"
}


// directionFact reads a direction guard as "parameter == value" (eq) or "parameter != value".  A bool parameter used as
// the condition is `== true`; for bools `!= true` is `== false`.
func directionFact(g Guard) (value string, eq bool, ok bool) {
	if g.Cond.Op == "param" {
		if g.Pos {
			return "true", true, true
		}
		return "false", true, true
	}
	if g.Cond.Op == "binop" && len(g.Cond.Args) == 2 && (g.Cond.Name == "==" || g.Cond.Name == "!=") {
		c := g.Cond.Args[1]
		if c.Op != "const" {
			c = g.Cond.Args[0]
		}
		if c.Op != "const" {
			return "", false, false
		}
		eq := (g.Cond.Name == "==") == g.Pos
		v := c.Name
		if !eq && (v == "true" || v == "false") {
			return map[string]string{"true": "false", "false": "true"}[v], true, true
		}
		return v, eq, true
	}
	return "", false, false
}

// oppositeDirections: the two guards select disjoint values of the direction parameter.
func oppositeDirections(a, b Guard) bool {
	va, ea, oka := directionFact(a)
	vb, eb, okb := directionFact(b)
	if !oka || !okb {
		return false
	}
	switch {
	case ea && eb:
		return va != vb
	case ea != eb:
		return va == vb
	}
	return false
}
