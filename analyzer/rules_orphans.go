package main

import (
	"fmt"
	"strings"

	"golang.org/x/tools/go/ssa"
)

// Two rules about what is left behind when shares are taken away from a position.
//
// C04.ownerless: the share price helpers treat "the validator has no delegator shares of the denom" as "the validator
// holds no tokens of the denom" (one share per token bootstrap in GetDelegationSharesFromTokens, all tokens for zero
// shares in ConvertNewShareToDecToken).  That is only true if every decrease of a validator's TotalDelegatorShares
// comes with a decrease of its ValidatorShares.  A function that lowers the delegator-share total alone can leave
// tokens that belong to nobody: the next delegator of one base unit owns them all, and every zero-share record is
// valued (and paid rewards) as if it owned them.
//
// C03.zerodeleg: a delegation whose shares were lowered is persisted only while shares remain; at zero the record is
// deleted (reduceDelegationShares does that).  A zero-share record keeps reporting a balance it cannot undelegate.
func init() {
	register(&Rule{ID: "C04.ownerless", Props: []string{"C04", "C06"}, Floor: 2,
		Doc: "every decrease of a validator's delegator-share total is paired with a decrease of its validator shares",
		Run: func(e *Engine, r *RuleRun) {
			lowers := func(fn *ssa.Function, field string) *ssa.Store {
				fa := e.FA(fn)
				for _, st := range StoresToField(fn, "types.AllianceValidatorInfo", field) {
					if isInitStore(fa, st) {
						continue
					}
					v := fa.Term(st.Val)
					sub := false
					v.Walk(func(x *Term) {
						if (x.Op == "call" || x.Op == "ncall") && (strings.HasSuffix(x.Name, ".Sub") || strings.HasSuffix(x.Name, "SubtractDecCoinsWithRounding")) {
							sub = true
						}
					})
					if sub {
						return st
					}
				}
				return nil
			}
			n := 0
			for _, fn := range e.SMFuncs() {
				st := lowers(fn, "TotalDelegatorShares")
				if st == nil {
					continue
				}
				n++
				fk := FuncKey(fn)
				paired := lowers(fn, "ValidatorShares") != nil
				r.Check(paired, fk, "delegator shares lowered together with validator shares", "the same function lowers ValidatorShares", "this function lowers a validator's TotalDelegatorShares without lowering its ValidatorShares: when the last delegator shares of the denom go, the validator still holds tokens that no position owns; GetDelegationSharesFromTokens then issues one share per token, so the next delegation of ONE base unit owns all of them (in the hunt: 2 051 282), a zero-share record is valued at the whole validator, and with two such records the same rewards are paid twice", r.P(st))
			}
			r.Check(n >= 2, "-", "functions lowering delegator-share totals", itoa(n)+" found", "fewer than two functions lower TotalDelegatorShares: the scan is not seeing the code")
		}})

	register(&Rule{ID: "C03.zerodeleg", Props: []string{"C05", "C12", "C03"}, Floor: 2,
		Doc: "a delegation is persisted after its shares were lowered only while shares remain",
		Run: func(e *Engine, r *RuleRun) {
			n := 0
			for _, fn := range e.SMFuncs() {
				fa := e.FA(fn)
				for _, st := range StoresToField(fn, "types.Delegation", "Shares") {
					if isInitStore(fa, st) {
						continue
					}
					v := fa.Term(st.Val)
					if !v.IsCall("math.LegacyDec.Sub") {
						continue
					}
					n++
					fk := FuncKey(fn)
					sets := CallsTo(fn, "keeper.Keeper.SetDelegation")
					ok := len(sets) > 0
					for _, set := range sets {
						if !fa.Reaches(st, set) {
							continue
						}
						guarded := fa.HasGuard(set, func(g Guard) bool {
							// the false edge of <new shares>.IsZero()
							return !g.Pos && g.Cond.IsCall("math.LegacyDec.IsZero") && g.Cond.Args[0].Eq(v)
						})
						if !guarded {
							ok = false
						}
					}
					r.Check(ok, fk, "lowered delegation persisted only when shares remain", "SetDelegation dominated by !newShares.IsZero() (the zero case deletes the record)", "a delegation whose shares were lowered is stored without testing for zero: a zero-share record stays, the delegation query reports a positive balance for it (zero delegator shares price as 'all tokens of the validator') and MsgUndelegate of that balance, or of any amount, fails with insufficient shares", r.P(st))
				}
			}
			r.Check(n >= 1, "-", "functions lowering a delegation's shares", itoa(n)+" found", "no function lowers Delegation.Shares: the scan is not seeing the code")
		}})
}

// C03.clampsym: ReduceShares subtracts with SubtractDecCoinsWithRounding, which silently clamps the validator's side to
// what it holds when the excess is below one share.  The amount that left the validator is then smaller than the
// amount the caller computed; a caller that applies the unclamped amount to the asset's share total (Undelegate) or to
// another validator (Redelegate's destination) breaks "validators' asset shares sum to the asset's total".
func init() {
	register(&Rule{ID: "C03.clampsym", Props: []string{"C03"}, Floor: 2,
		Doc: "an amount that is subtracted with clamping on the validator side is not applied unclamped elsewhere",
		Run: func(e *Engine, r *RuleRun) {
			rs := r.Need("types.AllianceValidator.ReduceShares")
			if rs == nil {
				return
			}
			clamps := false
			for _, f := range e.Reach(rs) {
				if FuncKey(f) == "types.SubtractDecCoinsWithRounding" {
					clamps = true
				}
			}
			if !clamps {
				r.OK(FuncKey(rs), "validator-side subtraction", "ReduceShares subtracts exactly (no clamping helper in its call tree)", e.Pos(rs.Pos()))
				return
			}
			r.OK(FuncKey(rs), "validator-side subtraction", "ReduceShares clamps through SubtractDecCoinsWithRounding; callers are checked for an unclamped counterpart", e.Pos(rs.Pos()))
			for _, c := range e.CallersOf("keeper.Keeper.updateValidatorShares") {
				fn := c.Fn
				fa := e.FA(fn)
				call := c.Instr.(ssa.CallInstruction)
				if e.sharesDirection(fa, call) != "false" {
					continue
				}
				fk := FuncKey(fn)
				_, vs := decCoinOf(argT(fa, call, 3)) // validator shares removed (clamped in the callee)
				if vs == nil {
					r.Undecided(fk, "clamped removal has no unclamped counterpart", "cannot read the validator-share amount passed to updateValidatorShares")
					continue
				}
				var witness ssa.Instruction
				what := ""
				// (a) the same amount subtracted exactly from the asset's share total
				for _, st := range StoresToField(fn, "types.AllianceAsset", "TotalValidatorShares") {
					t := fa.Term(st.Val)
					if t.IsCall("math.LegacyDec.Sub") && t.Args[1].Eq(vs) {
						witness, what = st, "asset.TotalValidatorShares is lowered by the full amount"
					}
				}
				// (b) the same amount added to another validator
				for _, c2 := range CallsTo(fn, "keeper.Keeper.updateValidatorShares") {
					if e.sharesDirection(fa, c2) == "true" {
						if _, vs2 := decCoinOf(argT(fa, c2, 3)); vs2 != nil && vs2.Eq(vs) {
							witness, what = c2, "the destination validator receives the full amount"
						}
					}
				}
				if witness != nil {
					r.Bad(fk, "clamped removal has no unclamped counterpart", "the validator shares removed here are clamped by ReduceShares to what the validator holds (excess below one share is dropped silently) while "+what+": after a rounded-up full exit the validators' shares of the asset no longer sum to the asset's total (hunt: total 4.9937 against a validator sum of 5.0; a later fraction-1 slash leaves the asset total negative)", nil, r.P(witness))
				} else {
					r.OK(fk, "clamped removal has no unclamped counterpart", "no exact counterpart of the clamped amount in this function", r.P(call))
				}
			}
		}})
}

// C13.weightexact: the weight a claim multiplies the index difference with must be the position's exact token value.
// The index increment was computed by dividing the coins by the validator's EXACT token total (a Dec); a weight that
// went through the reported balance - plus 0.01 (types.Rounder), truncated to whole base units - makes the weights of
// a validator's positions sum to something else than that total: truncation under-pays every claim by
// index x fractional part (unbounded in base units), the rounder over-pays positions whose value ends in .99 and
// above (the pool is short).
func init() {
	register(&Rule{ID: "C13.weightexact", Props: []string{"C13", "C12"}, Floor: 1,
		Doc: "the claim weight is the exact token value of the position, not its reported (rounded, truncated) balance",
		Run: func(e *Engine, r *RuleRun) {
			fn := r.Need("keeper.accumulateRewards")
			if fn == nil {
				return
			}
			fk := FuncKey(fn)
			rep := CallsTo(fn, "types.GetDelegationTokens", "types.GetDelegationTokensWithShares")
			if len(rep) > 0 {
				r.Bad(fk, "claim weight is the exact token value", "accumulateRewards weighs the position with types.GetDelegationTokens, the balance reported to users: value + 0.01 truncated to whole base units, while the index was built from the validator's exact decimal token total. After any take-rate deduction or slash positions have fractional values: every claim loses index difference x fractional part (hunt: 778 and 334 units on two claims, 1 113 units unclaimable) and a position worth x.995 is weighted x+1 and is paid more than the pool received for it (7 550 704 wanted, 7 512 951 received: insufficient funds)", nil, r.P(rep[0]))
				return
			}
			r.OK(fk, "claim weight is the exact token value", "no reported-balance helper in the claim weight", e.Pos(fn.Pos()))
		}})

	// C03.dustpair: ClearDustDelegation removes a validator's left-over ValidatorShares when its token value is zero;
	// the same amount must leave the asset's share total.
	register(&Rule{ID: "C03.dustpair", Props: []string{"C03"}, Floor: 1,
		Doc: "validator shares removed as dust also leave the asset's share total",
		Run: func(e *Engine, r *RuleRun) {
			fn := r.Need("keeper.Keeper.ClearDustDelegation")
			if fn == nil {
				return
			}
			fk, fa := FuncKey(fn), e.FA(fn)
			var rem ssa.CallInstruction
			for _, c := range CallsTo(fn, "keeper.Keeper.updateValidatorShares") {
				if e.sharesDirection(fa, c) == "false" {
					rem = c
				}
			}
			for _, c := range CallsTo(fn, "types.AllianceValidator.ReduceShares") {
				rem = c
			}
			if rem == nil {
				r.OK(fk, "dust validator shares leave the asset total too", "ClearDustDelegation removes no validator shares", e.Pos(fn.Pos()))
				return
			}
			lowersAsset := false
			for _, st := range StoresToField(fn, "types.AllianceAsset", "TotalValidatorShares") {
				if t := fa.Term(st.Val); t.IsCall("math.LegacyDec.Sub") {
					lowersAsset = true
				}
			}
			r.Check(lowersAsset, fk, "dust validator shares leave the asset total too", "asset.TotalValidatorShares lowered by the removed validator shares", "ClearDustDelegation strips a validator's remaining ValidatorShares of the denom when its token value computes to zero, but never subtracts them from asset.TotalValidatorShares: after a full exit whose share amount rounded down the remainder stays in the asset total (hunt: validators sum 39900000.0, asset total 39900000.000000000002) until the staked total returns to zero", r.P(rem))
		}})
}

// C03.dustcond: ClearDustDelegation strips ALL remaining validator shares of the denom from a validator.  That is
// (almost, see F33) harmless only when those shares are worth exactly nothing: the strip must be taken under
// `TotalTokensWithAsset(validator, asset) == 0` on the untruncated value.  Any wider test (truncated to whole tokens,
// below a threshold) removes shares that still back value while the asset total keeps counting them.
func init() {
	register(&Rule{ID: "C03.dustcond", Props: []string{"C03", "C04", "C10", "C05"}, Floor: 1,
		Doc: "a validator's remaining shares are stripped as dust only when their token value is exactly zero",
		Run: func(e *Engine, r *RuleRun) {
			fn := r.Need("keeper.Keeper.ClearDustDelegation")
			if fn == nil {
				return
			}
			fk, fa := FuncKey(fn), e.FA(fn)
			n := 0
			for _, c := range CallsTo(fn, "types.AllianceValidator.ReduceShares") {
				coins := argT(fa, c, 1)
				if !coins.IsCall("sdk.NewDecCoins") || len(coins.Args) != 1 {
					continue
				}
				el := singleCoin(&Term{Op: "call", Name: "sdk.NewCoins", Args: []*Term{coins.Args[0]}})
				if el == nil {
					continue
				}
				for _, vc := range fa.ValueCases(el, c) {
					_, amt := decCoinOf(vc.T)
					if amt == nil || !amt.IsCall("types.AllianceValidator.ValidatorSharesWithDenom") {
						continue // the zero coin: nothing stripped
					}
					n++
					exact := false
					for _, g := range vc.Guards {
						for _, rel := range relsOf(g) {
							if rel.Op == "==" && rel.B == "0" && rel.TA != nil && rel.TA.IsCall("types.AllianceValidator.TotalTokensWithAsset") {
								exact = true
							}
						}
					}
					r.Check(exact, fk, "validator shares stripped only at token value zero", "under validator.TotalTokensWithAsset(asset).IsZero() on the untruncated value", "the validator's remaining shares of the denom are removed under a test other than `token value == 0` (truncated or thresholded): shares that still back a fraction of a token leave the validator while asset.TotalValidatorShares keeps counting them, so the validators no longer sum to the asset total", r.P(c))
				}
			}
			if n == 0 {
				r.OK(fk, "validator shares stripped only at token value zero", "ClearDustDelegation strips no validator shares", e.Pos(fn.Pos()))
			}
		}})
}

// C09.settlefirst: the take-rate hook applies (1-r)^n for ALL n whole intervals since the module-wide clock to the
// totals, rates and start times as they stand when it runs (end of block).  "Never retroactive" therefore needs every
// change of what the rate applies to - new stake, a new rate, an asset becoming chargeable - to be preceded by a
// settlement of the intervals that have already elapsed.  With one interval per block at most this is the "interval
// in progress" the property allows; with a block gap, or an interval shorter than the block time (any positive
// interval is accepted), n >= 2 and the excess is charged to stake, rates and assets that were not there.
func init() {
	register(&Rule{ID: "C09.settlefirst", Props: []string{"C09", "C14"}, Floor: 3,
		Doc: "changes of stake, take rate and chargeability are preceded by a settlement of the elapsed take-rate intervals",
		Run: func(e *Engine, r *RuleRun) {
			settles := func(fn *ssa.Function, before ssa.Instruction) bool {
				fa := e.FA(fn)
				for _, c := range Calls(fn) {
					callee := Devirt(c.Common())
					if callee == nil {
						continue
					}
					reach := false
					for _, f := range e.Reach(callee) {
						if FuncKey(f) == "keeper.Keeper.DeductAssetsWithTakeRate" {
							reach = true
						}
					}
					if FuncKey(callee) == "keeper.Keeper.DeductAssetsWithTakeRate" {
						reach = true
					}
					if reach && fa.Dominates(c, before) {
						return true
					}
				}
				return false
			}
			// (1) stake added
			if fn := r.Need("keeper.Keeper.Delegate"); fn != nil {
				fa := e.FA(fn)
				for _, st := range StoresToField(fn, "types.AllianceAsset", "TotalTokens") {
					if t := fa.Term(st.Val); t.IsCall("math.Int.Add") {
						r.Check(settles(fn, st), FuncKey(fn), "stake added after the elapsed take-rate intervals were settled", "dominated by a take-rate settlement", "Delegate raises asset.TotalTokens without settling the take-rate intervals that have elapsed since the clock; the end blocker of the same block charges (1-r)^n on the new total: with a 5-minute interval and a block one hour after the clock (or an interval shorter than the block time) a deposit of 1 000 000 000 is worth 886 384 871 at the end of the block in which it was made (0.99^12)", r.P(st))
					}
				}
			}
			// (2) rate changed
			if fn := r.Need("keeper.Keeper.UpdateAllianceAsset"); fn != nil {
				sets := CallsTo(fn, "keeper.Keeper.SetAsset")
				if len(sets) > 0 {
					r.Check(settles(fn, sets[0]), FuncKey(fn), "take rate changed after the elapsed intervals were settled at the old rate", "dominated by a take-rate settlement", "UpdateAllianceAsset stores a new take rate without settling the elapsed intervals at the old one: raising the rate from 0 to 1% one hour after the clock charges all 12 elapsed intervals at 1% (1e9 -> 886 384 871)", r.P(sets[0]))
				}
			}
			// (3) an asset becoming chargeable: n is counted from the module-wide clock only
			if fn := r.Need("keeper.Keeper.DeductAssetsWithTakeRate"); fn != nil {
				fa := e.FA(fn)
				bounded := false
				for _, c := range CallsTo(fn, "math.LegacyDec.Power") {
					if strings.Contains(argT(fa, c, 0).String(), "RewardStartTime") {
						bounded = true
					}
				}
				r.Check(bounded, FuncKey(fn), "interval count of an asset is bounded by its own reward start time", "n counted from max(clock, asset.RewardStartTime)", "the number of intervals charged is counted from the module-wide clock for every asset that is chargeable now: an asset whose reward start time lies inside the elapsed period is charged for intervals that ended before it started (start 3 minutes before a block that comes one hour after the clock: 12 intervals charged, 11 ended before the start; with regular blocks the interval [00:54,00:59] is charged to an asset that started at 01:00)", e.Pos(fn.Pos()))
			}
		}})
}

// C04.emptypool: the "empty pool" shortcuts of the share-price helpers (one share per token / all tokens for zero
// shares) are only right when the pool has neither shares nor tokens.  They test the shares alone, and shares can
// reach zero while tokens stay: a validator slash with effective fraction 1 zeroes asset.TotalValidatorShares and
// leaves asset.TotalTokens; the redelegation slash zeroes a validator's delegator-share total and leaves its tokens.
func init() {
	register(&Rule{ID: "C04.emptypool", Props: []string{"C04", "C06"}, Floor: 2,
		Doc: "the empty-pool shortcuts of the share-price helpers test tokens as well as shares",
		Run: func(e *Engine, r *RuleRun) {
			for _, k := range []string{"types.ConvertNewTokenToShares", "types.ConvertNewShareToDecToken"} {
				fn := r.Need(k)
				if fn == nil {
					continue
				}
				fa := e.FA(fn)
				n := 0
				for _, rc := range fa.ReturnCases(0) {
					ret := rc.Ret
					// the shortcut case: reached through the true edge of totalShares.IsZero()
					isShortcut := rc.HasCaseGuard(func(g Guard) bool {
						return g.Pos && g.Cond.IsCall("math.LegacyDec.IsZero") && g.Cond.Args[0].String() == "$totalShares"
					})
					if !isShortcut {
						continue
					}
					n++
					alsoTokens := rc.HasCaseGuard(func(g Guard) bool {
						return g.Pos && g.Cond.IsCall("math.LegacyDec.IsZero") && g.Cond.Args[0].String() == "$totalTokens"
					})
					r.Check(alsoTokens, k, "empty-pool shortcut requires zero tokens as well", "shortcut dominated by totalTokens.IsZero() too", "the shortcut for `no shares yet` is taken whenever the share total is zero, whatever the pool holds: after every validator holding an asset was slashed with effective fraction 1 (x/staking computes the fraction from the power at the infraction height, which can exceed the validator's current tokens) asset.TotalValidatorShares is 0 while 1 000 000 tokens are staked; the slashed position still reports 1 000 000 (the 100% slash had no effect), and the next delegation of ONE unit is issued shares 1:1, owns the whole total (1 000 001) and can undelegate it", r.P(ret))
				}
				if n == 0 {
					r.Undecided(k, "empty-pool shortcut requires zero tokens as well", "no return guarded by totalShares.IsZero() found")
				}
			}
		}})

	// F.units: one tolerance constant, one unit.  types.Rounder (0.01) is added to TOKEN values when a balance is
	// reported and compared with SHARE differences when an amount is validated.  The two agree only while a share is
	// worth exactly one token.
	register(&Rule{ID: "F.units", Props: []string{"C20", "C05"}, Floor: 2,
		Doc: "the rounding tolerance is applied in one unit (tokens or shares), not both",
		Run: func(e *Engine, r *RuleRun) {
			unitOf := map[string]string{
				"types.GetDelegationTokens":             "tokens (added to the token value before it is truncated for the reported balance)",
				"types.GetDelegationTokensWithShares":   "tokens (added to the token value of a share amount)",
				"keeper.Keeper.ValidateDelegatedAmount": "shares (compared with |position shares - requested shares|)",
			}
			units := map[string][]string{}
			var pos = map[string]string{}
			for _, fn := range e.SMFuncs() {
				for _, b := range fn.Blocks {
					for _, in := range b.Instrs {
						u, ok := in.(*ssa.UnOp)
						if !ok {
							continue
						}
						g, ok := u.X.(*ssa.Global)
						if !ok || g.Name() != "Rounder" {
							continue
						}
						fk := FuncKey(topFunc(fn))
						what, known := unitOf[fk]
						if !known {
							r.Bad(fk, "use of types.Rounder", "types.Rounder is used in a function that is not in the reviewed unit table", nil, r.P(in))
							continue
						}
						unit := strings.SplitN(what, " ", 2)[0]
						units[unit] = append(units[unit], fk)
						pos[fk] = r.P(in)
					}
				}
			}
			r.Check(len(units) >= 1, "-", "uses of types.Rounder classified", fmt.Sprintf("%d unit(s): %v", len(units), units), "types.Rounder is not used any more")
			if len(units["tokens"]) > 0 && len(units["shares"]) > 0 {
				for _, fk := range units["shares"] {
					r.Bad(fk, "tolerance unit agrees with the reported balance", "types.Rounder is a TOKEN amount where balances are reported ("+strings.Join(units["tokens"], ", ")+") and a SHARE amount here: once a share is worth less than a token (after any slash or take-rate deduction) a balance rounded up by less than 0.01 token needs more than 0.01 extra shares, so the reported balance is rejected (hunt, 6-decimal amounts and default slashing: reported 594 119, MsgUndelegate and MsgRedelegate of 594 119 fail with insufficient shares, 594 118 succeeds)", nil, pos[fk])
				}
			} else {
				r.OK("-", "tolerance unit agrees with the reported balance", "one unit only", "")
			}
		}})
}
