package main

import (
	"strings"

	"golang.org/x/tools/go/ssa"
)

// Two rules about what is left behind when shares are taken away from a position.
//
// C04.ownerless: the share price helpers treat "the validator has no delegator shares of the denom" as "the validator
// holds no tokens of the denom" (one share per token bootstrap in GetDelegationSharesFromTokens, all tokens for zero
// shares in ConvertNewShareToDecToken).  That is only true if every decrease of a validator's TotalDelegatorShares
// comes with a decrease of its ValidatorShares.  A function that lowers the delegator-share total alone can leave
// tokens that belong to nobody: the next delegator of one base unit owns them all, and every zero-share record is
// valued (and paid rewards) as if it owned them.
//
// C03.zerodeleg: a delegation whose shares were lowered is persisted only while shares remain; at zero the record is
// deleted (reduceDelegationShares does that).  A zero-share record keeps reporting a balance it cannot undelegate.
func init() {
	register(&Rule{ID: "C04.ownerless", Props: []string{"C04", "C06"}, Floor: 2,
		Doc: "every decrease of a validator's delegator-share total is paired with a decrease of its validator shares",
		Run: func(e *Engine, r *RuleRun) {
			lowers := func(fn *ssa.Function, field string) *ssa.Store {
				fa := e.FA(fn)
				for _, st := range StoresToField(fn, "types.AllianceValidatorInfo", field) {
					if isInitStore(fa, st) {
						continue
					}
					v := fa.Term(st.Val)
					sub := false
					v.Walk(func(x *Term) {
						if (x.Op == "call" || x.Op == "ncall") && (strings.HasSuffix(x.Name, ".Sub") || strings.HasSuffix(x.Name, "SubtractDecCoinsWithRounding")) {
							sub = true
						}
					})
					if sub {
						return st
					}
				}
				return nil
			}
			n := 0
			for _, fn := range e.SMFuncs() {
				st := lowers(fn, "TotalDelegatorShares")
				if st == nil {
					continue
				}
				n++
				fk := FuncKey(fn)
				paired := lowers(fn, "ValidatorShares") != nil
				r.Check(paired, fk, "delegator shares lowered together with validator shares", "the same function lowers ValidatorShares", "this function lowers a validator's TotalDelegatorShares without lowering its ValidatorShares: when the last delegator shares of the denom go, the validator still holds tokens that no position owns; GetDelegationSharesFromTokens then issues one share per token, so the next delegation of ONE base unit owns all of them (in the hunt: 2 051 282), a zero-share record is valued at the whole validator, and with two such records the same rewards are paid twice", r.P(st))
			}
			r.Check(n >= 2, "-", "functions lowering delegator-share totals", itoa(n)+" found", "fewer than two functions lower TotalDelegatorShares: the scan is not seeing the code")
		}})

	register(&Rule{ID: "C03.zerodeleg", Props: []string{"C05", "C12", "C03"}, Floor: 2,
		Doc: "a delegation is persisted after its shares were lowered only while shares remain",
		Run: func(e *Engine, r *RuleRun) {
			n := 0
			for _, fn := range e.SMFuncs() {
				fa := e.FA(fn)
				for _, st := range StoresToField(fn, "types.Delegation", "Shares") {
					if isInitStore(fa, st) {
						continue
					}
					v := fa.Term(st.Val)
					if !v.IsCall("math.LegacyDec.Sub") {
						continue
					}
					n++
					fk := FuncKey(fn)
					sets := CallsTo(fn, "keeper.Keeper.SetDelegation")
					ok := len(sets) > 0
					for _, set := range sets {
						if !fa.Reaches(st, set) {
							continue
						}
						guarded := fa.HasGuard(set, func(g Guard) bool {
							// the false edge of <new shares>.IsZero()
							return !g.Pos && g.Cond.IsCall("math.LegacyDec.IsZero") && g.Cond.Args[0].Eq(v)
						})
						if !guarded {
							ok = false
						}
					}
					r.Check(ok, fk, "lowered delegation persisted only when shares remain", "SetDelegation dominated by !newShares.IsZero() (the zero case deletes the record)", "a delegation whose shares were lowered is stored without testing for zero: a zero-share record stays, the delegation query reports a positive balance for it (zero delegator shares price as 'all tokens of the validator') and MsgUndelegate of that balance, or of any amount, fails with insufficient shares", r.P(st))
				}
			}
			r.Check(n >= 1, "-", "functions lowering a delegation's shares", itoa(n)+" found", "no function lowers Delegation.Shares: the scan is not seeing the code")
		}})
}

// C03.clampsym: ReduceShares subtracts with SubtractDecCoinsWithRounding, which silently clamps the validator's side to
// what it holds when the excess is below one share.  The amount that left the validator is then smaller than the
// amount the caller computed; a caller that applies the unclamped amount to the asset's share total (Undelegate) or to
// another validator (Redelegate's destination) breaks "validators' asset shares sum to the asset's total".
func init() {
	register(&Rule{ID: "C03.clampsym", Props: []string{"C03"}, Floor: 2,
		Doc: "an amount that is subtracted with clamping on the validator side is not applied unclamped elsewhere",
		Run: func(e *Engine, r *RuleRun) {
			rs := r.Need("types.AllianceValidator.ReduceShares")
			if rs == nil {
				return
			}
			clamps := false
			for _, f := range e.Reach(rs) {
				if FuncKey(f) == "types.SubtractDecCoinsWithRounding" {
					clamps = true
				}
			}
			if !clamps {
				r.OK(FuncKey(rs), "validator-side subtraction", "ReduceShares subtracts exactly (no clamping helper in its call tree)", e.Pos(rs.Pos()))
				return
			}
			r.OK(FuncKey(rs), "validator-side subtraction", "ReduceShares clamps through SubtractDecCoinsWithRounding; callers are checked for an unclamped counterpart", e.Pos(rs.Pos()))
			for _, c := range e.CallersOf("keeper.Keeper.updateValidatorShares") {
				fn := c.Fn
				fa := e.FA(fn)
				call := c.Instr.(ssa.CallInstruction)
				if argT(fa, call, 4).Name != "false" {
					continue
				}
				fk := FuncKey(fn)
				_, vs := decCoinOf(argT(fa, call, 3)) // validator shares removed (clamped in the callee)
				if vs == nil {
					r.Undecided(fk, "clamped removal has no unclamped counterpart", "cannot read the validator-share amount passed to updateValidatorShares")
					continue
				}
				var witness ssa.Instruction
				what := ""
				// (a) the same amount subtracted exactly from the asset's share total
				for _, st := range StoresToField(fn, "types.AllianceAsset", "TotalValidatorShares") {
					t := fa.Term(st.Val)
					if t.IsCall("math.LegacyDec.Sub") && t.Args[1].Eq(vs) {
						witness, what = st, "asset.TotalValidatorShares is lowered by the full amount"
					}
				}
				// (b) the same amount added to another validator
				for _, c2 := range CallsTo(fn, "keeper.Keeper.updateValidatorShares") {
					if argT(fa, c2, 4).Name == "true" {
						if _, vs2 := decCoinOf(argT(fa, c2, 3)); vs2 != nil && vs2.Eq(vs) {
							witness, what = c2, "the destination validator receives the full amount"
						}
					}
				}
				if witness != nil {
					r.Bad(fk, "clamped removal has no unclamped counterpart", "the validator shares removed here are clamped by ReduceShares to what the validator holds (excess below one share is dropped silently) while "+what+": after a rounded-up full exit the validators' shares of the asset no longer sum to the asset's total (hunt: total 4.9937 against a validator sum of 5.0; a later fraction-1 slash leaves the asset total negative)", nil, r.P(witness))
				} else {
					r.OK(fk, "clamped removal has no unclamped counterpart", "no exact counterpart of the clamped amount in this function", r.P(call))
				}
			}
		}})
}
