package main

import (
	"go/token"
	"go/types"
	"sort"
	"strings"

	"golang.org/x/tools/go/ssa"
)

// errEdge: successor i of b is taken when an error value is non-nil (`if err != nil`, `if err == nil {..} else`).
// Such an edge starts error handling; what is skipped on it is not skipped "on success".
func errEdge(b *ssa.BasicBlock, i int) bool {
	if len(b.Instrs) == 0 || len(b.Succs) != 2 {
		return false
	}
	iff, ok := b.Instrs[len(b.Instrs)-1].(*ssa.If)
	if !ok {
		return false
	}
	cond, neg := iff.Cond, false
	for {
		u, ok := cond.(*ssa.UnOp)
		if !ok || u.Op != token.NOT {
			break
		}
		cond, neg = u.X, !neg
	}
	bo, ok := cond.(*ssa.BinOp)
	if !ok || (bo.Op != token.NEQ && bo.Op != token.EQL) {
		return false
	}
	isNil := func(v ssa.Value) bool { c, ok := v.(*ssa.Const); return ok && c.IsNil() }
	var other ssa.Value
	switch {
	case isNil(bo.Y):
		other = bo.X
	case isNil(bo.X):
		other = bo.Y
	default:
		return false
	}
	if !types.Identical(other.Type(), types.Universe.Lookup("error").Type()) {
		return false
	}
	nonNilOnTrue := (bo.Op == token.NEQ) != neg
	return nonNilOnTrue == (i == 0)
}

// Witness fingerprints.
//
// A known finding is matched by (property, rule, function, construct).  For a path rule the construct names the
// obligation ("clock advanced on every exit after n was computed"), not the place where it is lost, so a SECOND way
// of losing the same obligation in the same function would be printed as the known finding.  That happened three
// times with seeded changes.  A rule can therefore attach a fingerprint to a violation: the set of places where the
// obligation is lost, each rendered without local names or positions.  A known-findings entry that carries a
// `witness` list covers a violation only when every element of the violation's fingerprint is in that list; an
// element that is not listed is reported as a VIOLATION of its own (construct + " @ " + element).  Fewer elements
// than listed is fine (a part of the defect was repaired).

// shallowTerm renders a term two levels deep, without the identity of local values.
func shallowTerm(t *Term, depth int) string {
	if t == nil {
		return "_"
	}
	if c := constName(t); c == "0" || c == "1" {
		return c // math.ZeroInt(), math.LegacyZeroDec(), the literal: one spelling
	}
	switch t.Op {
	case "param":
		return "$" + t.Name
	case "const", "global":
		return t.Name
	case "field":
		if depth <= 0 {
			return "_." + t.Name
		}
		return shallowTerm(t.Args[0], depth-1) + "." + t.Name
	case "call", "ncall":
		if depth <= 0 || isModuleFuncName(t.Name) {
			// a function of the module itself by name only: its parameter list is the author's (an unused parameter
			// dropped, a context added), what it tests is judged where it is defined
			return t.Name + "(..)"
		}
		// arguments: parameters, constants and fields of parameters by name, everything computed as `_` (which
		// conversion or getter produced an address is not what identifies the test)
		var as []string
		for _, a := range t.CallArgsT() {
			as = append(as, shallowArg(a))
		}
		return t.Name + "(" + strings.Join(as, ",") + ")"
	case "binop":
		if depth <= 0 {
			return "_"
		}
		return "(" + shallowTerm(t.Args[0], depth-1) + " " + t.Name + " " + shallowTerm(t.Args[1], depth-1) + ")"
	case "unop", "conv":
		return t.Name + "(" + shallowTerm(t.Args[0], depth-1) + ")"
	case "extract":
		return shallowTerm(t.Args[0], depth) + "#" + t.Name
	}
	return "_"
}

func shallowArg(t *Term) string {
	if c := constName(t); c == "0" || c == "1" {
		return c
	}
	switch t.Op {
	case "param":
		return "$" + t.Name
	case "const", "global":
		return t.Name
	case "field":
		if len(t.Name) > 0 && t.Name[0] >= 'a' && t.Name[0] <= 'z' {
			return "_" // an unexported field: a dependency of a keeper / server / plugin struct, named by the callee
		}
		if r := shallowArg(t.Args[0]); r != "_" {
			return r + "." + t.Name
		}
		return "_." + t.Name
	}
	return "_"
}

// shallowGuard renders a branch fact for a fingerprint: relations in normal form when the guard is one,
// else polarity + shallow condition.
func shallowGuard(g Guard) string {
	if rs := relsOf(g); len(rs) == 1 && rs[0].TA != nil && rs[0].TB != nil {
		// the termination test of a counting loop over a collection, however the index is spelled
		for i, side := range []*Term{rs[0].TA, rs[0].TB} {
			other := []*Term{rs[0].TB, rs[0].TA}[i]
			if side.IsCall("builtin.len") && other.Op != "const" && rs[0].Op != "==" && rs[0].Op != "!=" {
				return "end of the loop over " + shallowTerm(side.CallArgsT()[0], 1)
			}
		}
		a, b, op := shallowTerm(rs[0].TA, 1), shallowTerm(rs[0].TB, 1), rs[0].Op
		switch op { // one spelling per relation
		case ">":
			a, b, op = b, a, "<"
		case ">=":
			a, b, op = b, a, "<="
		}
		return a + " " + op + " " + b
	}
	s := shallowTerm(g.Cond, 1)
	if !g.Pos {
		return "!" + s
	}
	return s
}

// EscapeEdges describes WHERE the obligation "every counted exit reached from `from` passes one of targets" is
// lost: the branch edges b->s such that a target can still be reached when b's condition is evaluated, while
// from s on only counted exits are reachable and no target.  Each edge is rendered by its shallow branch fact.
// When no target is reachable from `from` at all the result is {"no target reachable"}.
func (fa *FuncAnalysis) EscapeEdges(from ssa.Instruction, targets []ssa.Instruction, counts func(*ssa.Return) bool) []string {
	tset := map[ssa.Instruction]bool{}
	for _, t := range targets {
		tset[t] = true
	}
	firstTarget := func(b *ssa.BasicBlock, start int) int {
		for i := start; i < len(b.Instrs); i++ {
			if tset[b.Instrs[i]] {
				return i
			}
		}
		return -1
	}
	blocks := fa.Fn.Blocks
	// single-exit functions return a joined error value: whether `return res, err` is a success exit depends on the
	// edge it is entered through (the value the error phi has on that edge)
	ei := errResultIndex(fa.Fn)
	exitVia := func(exitFree map[*ssa.BasicBlock]bool, b *ssa.BasicBlock, si int) bool {
		s := b.Succs[si]
		if !exitFree[s] {
			return false
		}
		if len(s.Instrs) == 0 || firstTarget(s, 0) >= 0 {
			return exitFree[s]
		}
		r, ok := s.Instrs[len(s.Instrs)-1].(*ssa.Return)
		if !ok || ei < 0 || ei >= len(r.Results) {
			return exitFree[s]
		}
		phi, ok := r.Results[ei].(*ssa.Phi)
		if !ok || phi.Block() != s {
			return exitFree[s]
		}
		for pi, p := range s.Preds {
			if p == b && pi < len(phi.Edges) && fa.provablyNonNil(phi.Edges[pi], r, 0) {
				return false // an error exit when entered from b
			}
		}
		return true
	}
	exitFree := map[*ssa.BasicBlock]bool{}  // from the start of b a counted exit is reachable without a target
	canTarget := map[*ssa.BasicBlock]bool{} // from the start of b a target is reachable
	for changed := true; changed; {
		changed = false
		for _, b := range blocks {
			if len(b.Instrs) == 0 {
				continue
			}
			hasT := firstTarget(b, 0) >= 0
			ef, ct := false, hasT
			if !hasT {
				if r, ok := b.Instrs[len(b.Instrs)-1].(*ssa.Return); ok && counts(r) {
					ef = true
				}
			}
			for si, s := range b.Succs {
				if fa.edgeDead(b, si) {
					continue // branches on a constant the other way
				}
				if !hasT && exitVia(exitFree, b, si) && !errEdge(b, si) {
					ef = true
				}
				if canTarget[s] {
					ct = true
				}
			}
			if ef != exitFree[b] || ct != canTarget[b] {
				exitFree[b], canTarget[b] = ef, ct
				changed = true
			}
		}
	}
	// blocks whose end is reached from `from` without passing a target
	through := map[*ssa.BasicBlock]bool{}
	var work []*ssa.BasicBlock
	fb := from.Block()
	idx := 0
	for i, in := range fb.Instrs {
		if in == from {
			idx = i + 1
		}
	}
	if tset[from] {
		return nil
	}
	if firstTarget(fb, idx) < 0 {
		through[fb] = true
		work = append(work, fb)
	}
	for len(work) > 0 {
		b := work[len(work)-1]
		work = work[:len(work)-1]
		for si, s := range b.Succs {
			if fa.edgeDead(b, si) {
				continue
			}
			if !through[s] && firstTarget(s, 0) < 0 {
				through[s] = true
				work = append(work, s)
			}
		}
	}
	out := map[string]bool{}
	anyTarget := firstTarget(fb, idx) >= 0
	for b := range through {
		for _, s := range b.Succs {
			if canTarget[s] {
				anyTarget = true
			}
		}
	}
	if !anyTarget {
		return []string{"no target reachable"}
	}
	for b := range through {
		if len(b.Succs) != 2 || b.Succs[0] == b.Succs[1] {
			continue
		}
		if fa.edgeDead(b, 0) || fa.edgeDead(b, 1) {
			continue // not a decision
		}
		endCan := canTarget[b.Succs[0]] || canTarget[b.Succs[1]]
		if !endCan {
			continue
		}
		for i, s := range b.Succs {
			if errEdge(b, i) {
				continue
			}
			if exitVia(exitFree, b, i) && !canTarget[s] {
				if g, ok := fa.EdgeFact(b, i); ok {
					if !uninformative(shallowGuard(g)) {
						out["exit when "+shallowGuard(g)] = true
					}
				} else {
					out["exit at an unconditional edge"] = true
				}
			}
		}
	}
	var res []string
	for k := range out {
		res = append(res, k)
	}
	sort.Strings(res)
	return res
}

// splitRel splits a rendered relation "a OP b" (OP one of < <= == !=) into its parts.
func splitRel(s string) (a, op, b string, ok bool) {
	for _, o := range []string{" <= ", " < ", " == ", " != "} {
		if i := strings.Index(s, o); i > 0 && strings.Count(s, o) == 1 {
			return s[:i], strings.TrimSpace(o), s[i+len(o):], true
		}
	}
	return "", "", "", false
}

// shallowImplies: the rendered fact `have` implies the rendered fact `want`.
func shallowImplies(have, want string) bool {
	if have == want {
		return true
	}
	ha, ho, hb, ok1 := splitRel(have)
	wa, wo, wb, ok2 := splitRel(want)
	if !ok1 || !ok2 {
		return false
	}
	same, flip := ha == wa && hb == wb, ha == wb && hb == wa
	switch ho {
	case "<":
		return (same && (wo == "<=" || wo == "!=")) || (flip && wo == "!=")
	case "==":
		return (same || flip) && (wo == "<=" || wo == "==")
	case "!=":
		return flip && wo == "!="
	}
	return false
}

// IterationEscapes is EscapeEdges within one iteration of the innermost loop around each target: the branch edges
// inside the loop body after which the next iteration (or the end of the loop) is reached without passing a target,
// although a target was still reachable in this iteration - the conditions under which an ELEMENT is skipped.  A
// per-element skip is invisible to EscapeEdges, for which the target stays reachable through the back edge.
func (fa *FuncAnalysis) IterationEscapes(targets []ssa.Instruction) []string {
	tset := map[ssa.Instruction]bool{}
	heads := map[*ssa.BasicBlock]bool{}
	for _, t := range targets {
		tset[t] = true
		if h := fa.InnermostLoop(t.Block()); h != nil {
			heads[h] = true
		}
	}
	firstTarget := func(b *ssa.BasicBlock) bool {
		for _, in := range b.Instrs {
			if tset[in] {
				return true
			}
		}
		return false
	}
	out := map[string]bool{}
	for h := range heads {
		loop := fa.NaturalLoop(h)
		leaves := func(s *ssa.BasicBlock) bool { return s == h || !loop[s] }
		exitFree := map[*ssa.BasicBlock]bool{}
		canTarget := map[*ssa.BasicBlock]bool{}
		for changed := true; changed; {
			changed = false
			for b := range loop {
				if len(b.Instrs) == 0 {
					continue
				}
				hasT := firstTarget(b)
				ef, ct := false, hasT
				for si, s := range b.Succs {
					if fa.edgeDead(b, si) {
						continue
					}
					if leaves(s) {
						if !hasT && !errEdge(b, si) {
							ef = true
						}
						continue
					}
					if !hasT && exitFree[s] && !errEdge(b, si) {
						ef = true
					}
					if canTarget[s] {
						ct = true
					}
				}
				if _, isRet := b.Instrs[len(b.Instrs)-1].(*ssa.Return); isRet && !hasT {
					ef = true
				}
				if ef != exitFree[b] || ct != canTarget[b] {
					exitFree[b], canTarget[b] = ef, ct
					changed = true
				}
			}
		}
		through := map[*ssa.BasicBlock]bool{}
		var work []*ssa.BasicBlock
		if !firstTarget(h) {
			through[h] = true
			work = append(work, h)
		}
		for len(work) > 0 {
			b := work[len(work)-1]
			work = work[:len(work)-1]
			for si, s := range b.Succs {
				if fa.edgeDead(b, si) || leaves(s) || through[s] || firstTarget(s) {
					continue
				}
				through[s] = true
				work = append(work, s)
			}
		}
		for b := range through {
			if len(b.Succs) != 2 || b.Succs[0] == b.Succs[1] || fa.edgeDead(b, 0) || fa.edgeDead(b, 1) {
				continue
			}
			ct := func(s *ssa.BasicBlock) bool { return !leaves(s) && canTarget[s] }
			if !ct(b.Succs[0]) && !ct(b.Succs[1]) {
				continue
			}
			for i, s := range b.Succs {
				if errEdge(b, i) || (b == h && !loop[s]) {
					continue // error handling; the loop's own termination
				}
				skips := leaves(s) || exitFree[s]
				if skips && !ct(s) {
					if g, ok := fa.EdgeFact(b, i); ok && !uninformative(shallowGuard(g)) {
						out["next element when "+shallowGuard(g)] = true
					}
				}
			}
		}
	}
	var res []string
	for k := range out {
		res = append(res, k)
	}
	sort.Strings(res)
	return res
}

// uninformative: a rendered fact without any name in it (`_`, `!_`, `_ != nil`, `_ == 0`): a test of a computed local
// whose origin the shallow rendering does not show.  Comparing such facts would only compare how a flag is spelled.
func uninformative(s string) bool {
	for _, r := range s {
		if (r >= 'a' && r <= 'z') || (r >= 'A' && r <= 'Z') {
			rest := strings.NewReplacer("nil", "", "_", "").Replace(s)
			for _, q := range rest {
				if (q >= 'a' && q <= 'z') || (q >= 'A' && q <= 'Z') {
					return false
				}
			}
			return true
		}
	}
	return true
}

func isModuleFuncName(n string) bool {
	for _, p := range []string{"keeper.", "types.", "alliance.", "bindings.", "bankkeeper.", "migv4.", "migv5."} {
		if strings.HasPrefix(n, p) && !strings.HasPrefix(n, "types.StakingKeeper.") && !strings.HasPrefix(n, "types.BankKeeper.") && !strings.HasPrefix(n, "types.DistributionKeeper.") && !strings.HasPrefix(n, "types.AccountKeeper.") {
			return true
		}
	}
	return false
}
