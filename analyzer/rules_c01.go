package main

import (
	"fmt"
	"go/token"
	"sort"
	"strings"

	"golang.org/x/tools/go/ssa"
)

// bankSites: the closed set of SM call sites that move, mint or burn coins through types.BankKeeper.
// key: function | atom ; value: reason + which properties' pairing rule accounts for it.
var bankSites = map[string]string{
	"keeper.Keeper.Delegate | SendCoinsFromAccountToModule(account->alliance)":                       "stake enters custody; paired with TotalTokens += amount (C01.pair.delegate)",
	"keeper.Keeper.CompleteUnbondings | SendCoinsFromModuleToAccount(alliance->account)":             "matured unbonding paid out; paired with bucket deletion (C01.pair.complete, C02.payloop)",
	"keeper.Keeper.CompleteUnbondings | BurnCoins(alliance)":                                         "sweep of virtual staking tokens returned to the module account (C11.sweep)",
	"keeper.Keeper.DeductAssetsWithTakeRate | SendCoinsFromModuleToModule(alliance->feeCollector)":   "take rate; paired with TotalTokens decrease (C01.pair.takerate)",
	"keeper.Keeper.slashUndelegations | SendCoinsFromModuleToModule(alliance->feeCollector)":         "slashed part of a pending unbonding; paired with entry balance decrease (C01.pair.slash)",
	"keeper.Keeper.RebalanceBondTokenWeights | MintCoins(alliance)":                                  "virtual staking tokens, immediately delegated (C11.mint)",
	"keeper.Keeper.RebalanceBondTokenWeights | BurnCoins(bonded_tokens_pool)":                        "virtual staking tokens returned by Unbond (C11.burn)",
	"keeper.Keeper.AddAssetsToRewardPool | SendCoinsFromAccountToModule(account->alliance_rewards)":  "reward coins withdrawn from distribution pass through to the rewards pool (C12.backed)",
	"keeper.Keeper.ClaimDelegationRewards | SendCoinsFromModuleToAccount(alliance_rewards->account)": "reward payout (C12.spender)",
}

type bankSite struct {
	fn   *ssa.Function
	call ssa.CallInstruction
	atom string
}

func (e *Engine) bankSitesFound() []bankSite {
	var out []bankSite
	for _, fn := range e.SMFuncs() {
		for _, a := range e.DirectAtoms(fn) {
			if a.Kind == "bank" {
				out = append(out, bankSite{fn, a.Instr.(ssa.CallInstruction), a.Name})
			}
		}
	}
	return out
}

func ruleBankSites(id string, props []string, floor int, filter func(atom string) bool, doc string) {
	register(&Rule{ID: id, Props: props, Floor: floor, Doc: doc, Run: func(e *Engine, r *RuleRun) {
		for _, s := range e.bankSitesFound() {
			if !filter(s.atom) {
				continue
			}
			fk := FuncKey(s.fn)
			if strings.Contains(s.atom, "?") {
				r.Undecided(fk, "bank:"+s.atom, "module-name argument is not one of the module's named constants; cannot classify the movement", r.P(s.call))
				continue
			}
			if why, ok := bankSites[fk+" | "+s.atom]; ok {
				r.OK(fk, "bank:"+s.atom, "reviewed site: "+why, r.P(s.call))
			} else {
				r.Bad(fk, "bank:"+s.atom, "unaccounted coin movement: this call site is not in the reviewed set of sites that move, mint or burn coins (no pairing rule covers it)", nil, r.P(s.call))
			}
		}
	}})
}

func init() {
	ruleBankSites("C01.spenders", []string{"C01", "C15"}, 5, func(a string) bool {
		return strings.Contains(a, "alliance") && !strings.Contains(a, "alliance_rewards")
	},
		"closed set of call sites that move coins of the module custody account")
	ruleBankSites("C11.whomints", []string{"C11"}, 3, func(a string) bool { return strings.HasPrefix(a, "MintCoins") || strings.HasPrefix(a, "BurnCoins") },
		"closed set of mint/burn sites")
	ruleBankSites("C12.spenders", []string{"C12"}, 2, func(a string) bool { return strings.Contains(a, "alliance_rewards") },
		"closed set of sites that move coins of the rewards pool")

	register(&Rule{ID: "C01.ledgerwriters", Props: []string{"C01", "C15", "C16"}, Floor: 5,
		Doc: "closed set of functions that store to AllianceAsset.TotalTokens; initialisers set zero",
		Run: func(e *Engine, r *RuleRun) {
			writers := map[string]string{
				"keeper.Keeper.Delegate":                 "adds the delegated amount (C01.pair.delegate)",
				"keeper.Keeper.Undelegate":               "subtracts the undelegated amount (C01.pair.undelegate)",
				"keeper.Keeper.DeductAssetsWithTakeRate": "take rate (C01.pair.takerate)",
			}
			for _, fn := range e.SMFuncs() {
				fa := e.FA(fn)
				for _, st := range StoresToField(fn, "types.AllianceAsset", "TotalTokens") {
					fk := FuncKey(fn)
					if isInitStore(fa, st) {
						v := fa.Term(st.Val)
						r.Check(v.IsCall("math.ZeroInt"), fk, "init AllianceAsset.TotalTokens", "new asset starts with zero staked total", "a new asset record is created with a non-zero staked total: "+v.String(), r.P(st))
						continue
					}
					if why, ok := writers[fk]; ok {
						r.OK(fk, "write AllianceAsset.TotalTokens", "reviewed writer: "+why, r.P(st))
					} else {
						r.Bad(fk, "write AllianceAsset.TotalTokens", "unaccounted write of the staked total: this function is not in the reviewed set of ledger writers (no pairing rule ties it to a custody movement)", nil, r.P(st))
					}
				}
			}
		}})

	register(&Rule{ID: "C01.pair.delegate", Props: []string{"C01", "C04"}, Floor: 5,
		Doc: "Delegate: amount received == amount added to TotalTokens of the asset of that denom; persisted on every success path",
		Run: func(e *Engine, r *RuleRun) {
			fn := r.Need("keeper.Keeper.Delegate")
			if fn == nil {
				return
			}
			fk := FuncKey(fn)
			fa := e.FA(fn)
			send := r.One(fn, "custody transfer in", "types.BankKeeper.SendCoinsFromAccountToModule")
			if send == nil {
				return
			}
			coin := singleCoin(argT(fa, send, 3))
			if coin == nil {
				r.Bad(fk, "amount sent", "the coins sent into custody are not the single coin of the request: "+argT(fa, send, 3).String(), nil, r.P(send))
				return
			}
			r.Check(moduleName(argT(fa, send, 2)) == "alliance", fk, "recipient module", "stake is sent to the module custody account", "stake is sent to "+argT(fa, send, 2).String()+" instead of the custody account", r.P(send))
			r.Check(argT(fa, send, 1).Op == "param", fk, "sender", "sender is the delegator parameter", "sender is not the delegator parameter: "+argT(fa, send, 1).String(), r.P(send))
			stores := StoresToField(fn, "types.AllianceAsset", "TotalTokens")
			if len(stores) != 1 {
				r.Bad(fk, "TotalTokens update", fmt.Sprintf("expected exactly one update of the staked total, found %d", len(stores)), nil, posList(e, instrsOf(stores)...)...)
				return
			}
			val := fa.Term(stores[0].Val)
			want := mkField(coin, "Amount")
			okShape := val.IsCall("math.Int.Add") && len(val.Args) == 2 && val.Args[1].Eq(want) && val.Args[0].Op == "field" && val.Args[0].Name == "TotalTokens"
			r.Check(okShape, fk, "amount recorded == amount received", "TotalTokens := old.Add("+want.String()+") with the amount of the coin that was sent", "amount added to the staked total ("+val.String()+") is not old + the amount sent into custody ("+want.String()+")", r.P(stores[0]), r.P(send))
			if okShape {
				asset := val.Args[0].Args[0]
				okAsset := asset.Op == "extract" && asset.Args[0].IsCall("keeper.Keeper.GetAssetByDenom")
				if okAsset {
					denomArg := asset.Args[0].CallArgsT()
					okAsset = len(denomArg) >= 3 && denomArg[2].Eq(mkField(coin, "Denom"))
				}
				r.Check(okAsset, fk, "asset updated is the asset of the coin's denom", "asset loaded by GetAssetByDenom(coin.Denom)", "the asset whose total is increased is not the one loaded for the denomination of the coin received: "+asset.String(), r.P(stores[0]))
			}
			// persisted on every success path after the transfer
			var sets []ssa.Instruction
			for _, c := range CallsTo(fn, "keeper.Keeper.SetAsset") {
				a := argT(fa, c, 1)
				if _, v := ovrGet(a, ".TotalTokens"); v != nil && v.Eq(val) {
					sets = append(sets, c)
				}
			}
			if len(sets) == 0 {
				r.Bad(fk, "updated asset persisted", "no SetAsset call receives the asset with the updated staked total", nil, r.P(stores[0]))
			} else if trail := fa.MustFollow(send, sets); trail != nil {
				r.Bad(fk, "updated asset persisted", "a success path takes coins into custody without persisting the increased staked total", trail, r.P(send))
			} else {
				r.OK(fk, "updated asset persisted", "every success path after the transfer passes SetAsset(updated asset)", r.P(send))
			}
			// the converse: the staked total is only increased on paths that took the coins into custody
			if trail := fa.MustPassThrough(nil, stores[0], []ssa.Instruction{send}); trail != nil {
				r.Bad(fk, "total increased only after the custody transfer", "the staked total can be increased on a path that did not move the delegator's coins into the custody account: the ledger records stake that custody does not hold, and the payout of some later undelegation runs out of funds", trail, r.P(stores[0]))
			} else {
				r.OK(fk, "total increased only after the custody transfer", "every path to the TotalTokens update passes SendCoinsFromAccountToModule", r.P(send))
			}
		}})

	register(&Rule{ID: "C01.pair.undelegate", Props: []string{"C01", "C02", "C17"}, Floor: 7,
		Doc: "Undelegate: amount subtracted from TotalTokens == balance of the queued unbonding entry; both on every success path; no custody movement",
		Run: func(e *Engine, r *RuleRun) {
			fn := r.Need("keeper.Keeper.Undelegate")
			q := r.Need("keeper.Keeper.queueUndelegation")
			if fn == nil || q == nil {
				return
			}
			fk := FuncKey(fn)
			fa := e.FA(fn)
			stores := StoresToField(fn, "types.AllianceAsset", "TotalTokens")
			qc := r.One(fn, "queue the unbonding entry", "keeper.Keeper.queueUndelegation")
			if len(stores) != 1 || qc == nil {
				if len(stores) != 1 {
					r.Bad(fk, "TotalTokens update", fmt.Sprintf("expected exactly one update of the staked total, found %d", len(stores)), nil)
				}
				return
			}
			coin := argT(fa, qc, 3)
			val := fa.Term(stores[0].Val)
			want := mkField(coin, "Amount")
			okShape := val.IsCall("math.Int.Sub") && len(val.Args) == 2 && val.Args[1].Eq(want) && val.Args[0].Op == "field" && val.Args[0].Name == "TotalTokens"
			r.Check(okShape, fk, "amount removed from ledger == amount queued", "TotalTokens := old.Sub(coin.Amount) with the coin passed to queueUndelegation", "amount subtracted from the staked total ("+val.String()+") is not the amount of the coin queued for payout ("+want.String()+")", r.P(stores[0]), r.P(qc))
			r.Check(coin.Op == "param", fk, "queued coin is the requested coin", "the coin parameter is queued unchanged", "the queued coin is not the request's coin parameter: "+coin.String(), r.P(qc))
			if okShape {
				asset := val.Args[0].Args[0]
				okAsset := asset.Op == "extract" && asset.Args[0].IsCall("keeper.Keeper.GetAssetByDenom")
				if okAsset {
					a := asset.Args[0].CallArgsT()
					okAsset = len(a) >= 3 && a[2].Eq(mkField(coin, "Denom"))
				}
				r.Check(okAsset, fk, "asset updated is the asset of the coin's denom", "asset loaded by GetAssetByDenom(coin.Denom)", "the asset whose total is decreased is not the one loaded for the coin's denomination: "+asset.String(), r.P(stores[0]))
			}
			var sets []ssa.Instruction
			for _, c := range CallsTo(fn, "keeper.Keeper.SetAsset") {
				if _, v := ovrGet(argT(fa, c, 1), ".TotalTokens"); v != nil && v.Eq(val) {
					sets = append(sets, c)
				}
			}
			if len(sets) == 0 {
				r.Bad(fk, "updated asset persisted", "no SetAsset call receives the asset with the decreased staked total", nil, r.P(stores[0]))
			} else {
				if trail := fa.MustFollow(sets[0], []ssa.Instruction{qc}); trail != nil {
					r.Bad(fk, "ledger decrease => entry queued", "a success path decreases the staked total without queueing the unbonding entry", trail, r.P(sets[0]))
				} else {
					r.OK(fk, "ledger decrease => entry queued", "every success path after SetAsset(decreased) passes queueUndelegation", r.P(qc))
				}
				if trail := fa.MustPassThrough(nil, qc, sets); trail != nil {
					r.Bad(fk, "entry queued => ledger decreased", "the unbonding entry can be queued on a path that did not persist the decreased staked total", trail, r.P(qc))
				} else {
					r.OK(fk, "entry queued => ledger decreased", "queueUndelegation is only reached through SetAsset(decreased)", r.P(qc))
				}
			}
			// inside queueUndelegation: the entry carries exactly the coin, under the delegator's bucket
			qk := FuncKey(q)
			qa := e.FA(q)
			lits := Complits(q, "types.Undelegation")
			if len(lits) < 1 {
				r.Bad(qk, "entry literal", fmt.Sprintf("expected an Undelegation value built from the parameters, found %d", len(lits)), nil, e.Pos(q.Pos()))
			}
			nLit := 0
			for _, a := range lits {
				f := complitFields(qa, a)
				if len(f) == 0 {
					// a local that only receives a whole copy of another literal of the function (`entry := newEntry(..)`
					// once the constructor is inlined): the literal it copies is checked
					if src := wholeCopySource(a); src != nil && src != a {
						isLit := false
						for _, b := range lits {
							if b == src {
								isLit = true
							}
						}
						if isLit {
							continue
						}
					}
				}
				nLit++
				c := fmt.Sprintf("entry literal #%d", nLit)
				r.Check(f["Balance"] != nil && f["Balance"].Op == "param" && f["Balance"].Name == "coin", qk, c+" Balance", "Balance is the coin parameter", "the queued entry's balance is not the coin parameter: "+f["Balance"].String(), r.P(a))
				r.Check(f["DelegatorAddress"] != nil && f["DelegatorAddress"].IsCall("sdk.AccAddress.String") && f["DelegatorAddress"].Args[0].Op == "param", qk, c+" DelegatorAddress", "delegator parameter", "the queued entry's delegator is not the delegator parameter: "+f["DelegatorAddress"].String(), r.P(a))
				r.Check(f["ValidatorAddress"] != nil && f["ValidatorAddress"].IsCall("sdk.ValAddress.String") && f["ValidatorAddress"].Args[0].Op == "param", qk, c+" ValidatorAddress", "validator parameter", "the queued entry's validator is not the validator parameter: "+f["ValidatorAddress"].String(), r.P(a))
			}
			setq := r.One(q, "bucket write", "keeper.Keeper.setQueuedUndelegations")
			if setq != nil {
				// every path to the bucket write passes a store that puts one of the literals into the bucket variable
				// (the variable is identified by its role: it is what setQueuedUndelegations is given)
				var bucketAllocs map[*ssa.Alloc]bool
				if args := setq.Common().Args; len(args) > 0 {
					if u, ok := args[len(args)-1].(*ssa.UnOp); ok && u.Op == token.MUL {
						bucketAllocs = rootAllocSet(u.X)
					}
				}
				var puts []ssa.Instruction
				for _, b := range q.Blocks {
					for _, in := range b.Instrs {
						if st, ok := in.(*ssa.Store); ok {
							v := qa.Term(st.Val)
							for _, a := range lits {
								if v.Contains(qa.Term(a)) {
									if root, _, _ := qa.addrPath(st.Addr); strings.HasPrefix(root, "alloc#") {
										if al, ok := rootAlloc(st.Addr); ok && bucketAllocs[al] {
											puts = append(puts, st)
										}
									}
								}
							}
						}
					}
				}
				if trail := qa.MustPassThrough(nil, setq, puts); trail != nil || len(puts) == 0 {
					r.Bad(qk, "entry added before bucket write", "the bucket can be written without the new entry having been added to it", trail, r.P(setq))
				} else {
					r.OK(qk, "entry added before bucket write", "every path to setQueuedUndelegations passes a store that adds the entry literal to the bucket", r.P(setq))
				}
				bucket := argT(qa, setq, 3)
				r.Check(strings.Contains(bucket.String(), "mem<") || bucket.Op == "override" || bucket.Op == "out" || len(bucketAllocs) > 1, qk, "bucket written is the local bucket", "the bucket variable is written", "unexpected bucket argument "+bucket.String(), r.P(setq))
				r.Check(argT(qa, setq, 2).Op == "param", qk, "bucket keyed by delegator", "bucket key uses the delegator parameter", "bucket key delegator is "+argT(qa, setq, 2).String(), r.P(setq))
				if trail := qa.MustFollow(q.Blocks[0].Instrs[0], []ssa.Instruction{setq}); trail != nil {
					r.Bad(qk, "bucket written on every success path", "queueUndelegation can return success without writing the bucket", trail)
				} else {
					r.OK(qk, "bucket written on every success path", "every success path writes the bucket")
				}
			}
			// no custody movement in Undelegate's call tree
			for _, a := range e.TreeAtoms(fn) {
				if a.Kind == "bank" && strings.Contains(a.Name, "alliance") && !strings.Contains(a.Name, "alliance_rewards") {
					r.Bad(fk, "no custody movement", "the call tree of Undelegate moves coins of the custody account ("+a.Name+" in "+FuncKey(a.Fn)+"): payout must wait for maturity", nil, r.P(a.Instr))
				}
			}
			r.OK(fk, "no custody movement (tree scanned)", fmt.Sprintf("%d functions in the call tree scanned", len(e.Reach(fn))))
		}})

	register(&Rule{ID: "C01.pair.complete", Props: []string{"C01", "C02", "C17"}, Floor: 6,
		Doc: "CompleteUnbondings: per matured bucket every entry is paid its Balance to its delegator and the bucket is deleted",
		Run: func(e *Engine, r *RuleRun) {
			fn := r.Need("keeper.Keeper.CompleteUnbondings")
			if fn == nil {
				return
			}
			fk := FuncKey(fn)
			fa := e.FA(fn)
			pay := r.One(fn, "payout", "types.BankKeeper.SendCoinsFromModuleToAccount")
			if pay == nil {
				return
			}
			r.Check(moduleName(argT(fa, pay, 1)) == "alliance", fk, "payout source", "paid from the custody account", "payout is not from the custody account: "+argT(fa, pay, 1).String(), r.P(pay))
			bal := singleCoin(argT(fa, pay, 3))
			if bal == nil || bal.Op != "field" || bal.Name != "Balance" {
				r.Bad(fk, "amount paid == entry balance", "the amount paid is not the Balance field of a queue entry: "+argT(fa, pay, 3).String(), nil, r.P(pay))
				return
			}
			entry := bal.Args[0]
			r.OK(fk, "amount paid == entry balance", "pays "+bal.String(), r.P(pay))
			rcp := argT(fa, pay, 2)
			okR := rcp.Op == "extract" && rcp.Name == "0" && rcp.Args[0].IsCall("sdk.AccAddressFromBech32") && rcp.Args[0].Args[0].Eq(mkField(entry, "DelegatorAddress"))
			r.Check(okR, fk, "recipient == entry delegator", "recipient parsed from the same entry's DelegatorAddress", "payout recipient is not the delegator recorded in the entry being paid: "+rcp.String(), r.P(pay))
			// the entry is an element of the bucket decoded from iter.Value()
			phi := loopPhiOf(entry)
			var bucket *Term
			entry.Walk(func(x *Term) {
				if x.Op == "out" && strings.HasPrefix(x.Name, "codec.BinaryCodec.MustUnmarshal") && bucket == nil {
					bucket = x
				}
			})
			if phi == nil || bucket == nil {
				r.Bad(fk, "entries come from the decoded bucket", "the entry paid is not an element of the bucket decoded in this iteration: "+entry.String(), nil, r.P(pay))
				return
			}
			um := bucket.Instr.(ssa.CallInstruction)
			src := argT(fa, um, 0)
			okSrc := src.Op == "ncall" && strings.HasSuffix(src.Name, "Iterator.Value")
			var iter *Term
			if okSrc {
				iter = src.Args[0]
			}
			r.Check(okSrc, fk, "bucket decoded from the iterator's value", "bucket = Unmarshal(iter.Value())", "bucket is decoded from "+src.String(), r.P(um))
			if trail := fa.EveryIterationPasses(phi, []ssa.Instruction{pay}); trail != nil {
				r.Bad(fk, "every entry is paid", "an entry of a matured bucket can be skipped without being paid while the bucket is deleted", trail, r.P(pay))
			} else {
				r.OK(fk, "every entry is paid", "no path to the next entry bypasses the payout", r.P(pay))
			}
			// bucket deletion: store.Delete(iter.Key()) of the same iterator follows on every non-error path
			var dels []ssa.Instruction
			for _, c := range CallsTo(fn, "corestore.KVStore.Delete", "storetypes.KVStore.Delete") {
				k := argT(fa, c, 0)
				if k.Op == "ncall" && strings.HasSuffix(k.Name, "Iterator.Key") && iter != nil && k.Args[0].Eq(iter) {
					dels = append(dels, c)
				}
			}
			if len(dels) == 0 {
				r.Bad(fk, "paid bucket deleted", "no store.Delete(iter.Key()) for the iterator whose buckets are paid", nil, r.P(pay))
			} else if trail := fa.MustFollow(pay, dels); trail != nil {
				r.Bad(fk, "paid bucket deleted", "a success path pays an entry without deleting its bucket (it would be paid again)", trail, r.P(pay))
			} else {
				r.OK(fk, "paid bucket deleted", "every success path after a payout passes store.Delete(iter.Key())", r.P(dels[0]))
			}
			// and the bucket is deleted only after its entries were iterated: delete must not dominate... (delete is after the loop)
			if len(dels) > 0 {
				r.Check(!fa.Reaches(dels[0], pay) || fa.Dominates(um, dels[0]), fk, "bucket deleted after decoding", "deletion happens after the bucket was decoded", "bucket is deleted before it was decoded", r.P(dels[0]))
			}
		}})

	register(&Rule{ID: "C01.pair.takerate", Props: []string{"C01", "C09", "C17"}, Floor: 6,
		Doc: "DeductAssetsWithTakeRate: coin deducted == old - new total of the same asset; persisted; accumulated; sent once",
		Run: func(e *Engine, r *RuleRun) {
			fn := r.Need("keeper.Keeper.DeductAssetsWithTakeRate")
			if fn == nil {
				return
			}
			fk := FuncKey(fn)
			fa := e.FA(fn)
			stores := StoresToField(fn, "types.AllianceAsset", "TotalTokens")
			send := r.One(fn, "transfer to fee collector", "types.BankKeeper.SendCoinsFromModuleToModule")
			if len(stores) != 1 || send == nil {
				if len(stores) != 1 {
					r.Bad(fk, "TotalTokens update", fmt.Sprintf("expected exactly one update of the staked total, found %d", len(stores)), nil)
				}
				return
			}
			st := stores[0]
			newV := fa.Term(st.Val)
			root, _, _ := fa.addrPath(st.Addr)
			assetPtr := strings.TrimPrefix(root, "ptr:")
			r.Check(moduleName(argT(fa, send, 1)) == "alliance" && moduleName(argT(fa, send, 2)) == "feeCollector", fk, "transfer direction", "custody -> fee collector", "take-rate transfer is "+argT(fa, send, 1).String()+" -> "+argT(fa, send, 2).String(), r.P(send))
			acc := argT(fa, send, 3)
			if acc.Op != "phi" {
				r.Bad(fk, "amount sent is the accumulator", "the coins sent are not the loop accumulator: "+acc.String(), nil, r.P(send))
				return
			}
			phi := acc.Instr.(*ssa.Phi)
			// accumulator edges: initial zero value and Coins.Add(acc, [NewCoin(asset.Denom, old.Sub(new))])
			var addCall *ssa.Call
			okEdges := true
			// the accumulator variable may be several phis (loop header, and the merge a `continue` in an index loop
			// introduces): its non-phi incoming values are judged
			cluster, leaves := phiCluster(fa, acc)
			inCluster := func(t *Term) bool {
				p, ok := t.Instr.(*ssa.Phi)
				return t.Op == "phi" && ok && cluster[p]
			}
			for _, t := range leaves {
				switch {
				case t.Op == "const" && t.Name == "nil":
				case t.Op == "zero":
				case t.IsCall("sdk.Coins.Add") && len(t.Args) == 2 && inCluster(t.Args[0]):
					addCall, _ = t.Instr.(*ssa.Call)
					el := singleCoin(t.Args[1])
					okCoin := el != nil && el.IsCall("sdk.NewCoin") && len(el.Args) == 2
					if okCoin {
						den, amt := el.Args[0], el.Args[1]
						okCoin = den.Op == "field" && den.Name == "Denom" && den.Args[0].Op == "deref" && den.Args[0].Args[0].String() == assetPtr &&
							amt.IsCall("math.Int.Sub") && amt.Args[1].Eq(newV) &&
							amt.Args[0].Op == "field" && amt.Args[0].Name == "TotalTokens" && amt.Args[0].Args[0].Op == "deref" && amt.Args[0].Args[0].Args[0].String() == assetPtr
					}
					r.Check(okCoin, fk, "deducted coin == old total - new total of the same asset", "NewCoin(asset.Denom, oldTotal.Sub(newTotal)) for the asset whose total is stored", "the coin accumulated for transfer ("+t.Args[1].String()+") is not (denom, old-new) of the asset whose staked total is reduced", r.P(st))
				default:
					okEdges = false
					r.Bad(fk, "accumulator shape", "unexpected value flows into the coins accumulator: "+t.String(), nil, r.P(phi))
				}
			}
			if addCall == nil {
				if okEdges {
					r.Bad(fk, "accumulator shape", "no Coins.Add into the accumulator found", nil, r.P(phi))
				}
				return
			}
			// persisted
			var sets []ssa.Instruction
			for _, c := range CallsTo(fn, "keeper.Keeper.SetAsset") {
				if _, v := ovrGet(argT(fa, c, 1), ".TotalTokens"); v != nil && v.Eq(newV) {
					sets = append(sets, c)
				}
			}
			if len(sets) == 0 {
				r.Bad(fk, "reduced asset persisted", "no SetAsset call receives the asset with the reduced total", nil, r.P(st))
			} else if trail := fa.MustFollow(st, sets); trail != nil {
				r.Bad(fk, "reduced asset persisted", "a success path reduces an asset's total in memory without persisting it", trail, r.P(st))
			} else {
				r.OK(fk, "reduced asset persisted", "SetAsset(reduced asset) follows the store on every success path", r.P(sets[0]))
			}
			// accumulate dominated by the store and vice versa within the iteration
			r.Check(fa.Dominates(st, addCall), fk, "deduction recorded before accumulation", "the total is reduced on every path that accumulates the coin", "a coin can be accumulated for transfer on a path that does not reduce the staked total", r.P(addCall))
			// ... and the converse: every success path that reduces the total accumulates the coin (a deduction that is
			// persisted but not accumulated stays in custody with nobody owning it: custody drifts above what is owed)
			if trail := fa.MustFollow(st, []ssa.Instruction{addCall}); trail != nil {
				r.Bad(fk, "every deduction is accumulated", "a success path reduces an asset's staked total without adding the deducted coin to what is sent to the fee collector: the coins stay in the custody account although no delegator owns them any more", trail, r.P(st))
			} else {
				r.OK(fk, "every deduction is accumulated", "every success path from the reduction of the total passes the Coins.Add into the accumulator", r.P(addCall))
			}
			// every success exit reachable from the accumulation passes the send, unless guarded by emptiness of the accumulator
			exempt := func(g Guard) bool {
				if g.Pos && g.Cond.IsCall("sdk.Coins.Empty", "sdk.Coins.IsZero") && g.Cond.Args[0].Eq(acc) {
					return true // nothing accumulated (or only zero coins): nothing to send
				}
				// counter idiom: n == 0 where n++ dominates every accumulation
				if g.Pos && g.Cond.Op == "binop" && g.Cond.Name == "==" && g.Cond.Args[1].Op == "const" && g.Cond.Args[1].Name == "0" && g.Cond.Args[0].Op == "phi" {
					for _, b := range counterIncrements(fa, g.Cond.Args[0]) {
						if fa.Dominates(b, addCall) {
							return true
						}
					}
				}
				return false
			}
			if trail := fa.mustReachPruned(addCall, []ssa.Instruction{send}, func(ret *ssa.Return) bool { return !fa.IsErrorExit(ret) }, exempt); trail != nil {
				r.Bad(fk, "accumulated coins are sent", "a success path reduces staked totals but returns without transferring the deducted coins out of custody", trail, r.P(addCall))
			} else {
				r.OK(fk, "accumulated coins are sent", "every success exit after an accumulation passes the transfer, is guarded by an empty accumulator, or by the zero counter", r.P(send))
			}
			r.Check(!fa.blockReaches(send.Block(), phi.Block()), fk, "sent once", "the transfer is outside the asset loop", "the transfer is inside the asset loop: the accumulator would be sent repeatedly", r.P(send))
		}})

	register(&Rule{ID: "C01.pair.slash", Props: []string{"C01", "C07", "C17"}, Floor: 5,
		Doc: "slashUndelegations: amount removed from an entry == amount sent to the fee collector == trunc(fraction*balance); bucket written back under its key",
		Run: func(e *Engine, r *RuleRun) {
			fn := r.Need("keeper.Keeper.slashUndelegations")
			if fn == nil {
				return
			}
			fk := FuncKey(fn)
			fa := e.FA(fn)
			send := r.One(fn, "transfer of slashed amount", "types.BankKeeper.SendCoinsFromModuleToModule")
			stores := StoresToField(fn, "types.Undelegation", "Balance")
			if send == nil || len(stores) != 1 {
				if len(stores) != 1 {
					r.Bad(fk, "entry balance update", fmt.Sprintf("expected exactly one update of an entry's Balance, found %d", len(stores)), nil)
				}
				return
			}
			st := stores[0]
			root, _, _ := fa.addrPath(st.Addr)
			entryPtr := strings.TrimPrefix(root, "ptr:")
			newBal := fa.Term(st.Val)
			sent := singleCoin(argT(fa, send, 3))
			r.Check(moduleName(argT(fa, send, 1)) == "alliance" && moduleName(argT(fa, send, 2)) == "feeCollector", fk, "transfer direction", "custody -> fee collector", "slashed coins go "+argT(fa, send, 1).String()+" -> "+argT(fa, send, 2).String(), r.P(send))
			okS := sent != nil && sent.IsCall("sdk.NewCoin") && newBal.IsCall("sdk.NewCoin")
			if okS {
				slashAmt := sent.Args[1]
				oldAmt := &Term{Op: "field", Name: "Amount", Args: []*Term{{Op: "field", Name: "Balance", Args: []*Term{{Op: "deref", Args: []*Term{{Op: "const", Name: entryPtr}}}}}}}
				oldAmtS := "*(" + entryPtr + ").Balance.Amount"
				_ = oldAmt
				// new = NewCoin(old.Denom, old.Amount.Sub(slash)); sent = NewCoin(denom, slash); slash = trunc(fraction.MulInt(old.Amount))
				nb := newBal.Args[1]
				okS = nb.IsCall("math.Int.Sub") && nb.Args[0].String() == oldAmtS && nb.Args[1].Eq(slashAmt)
				r.Check(okS, fk, "amount removed from entry == amount sent", "entry.Balance.Amount := old.Sub(x) and NewCoin(denom, x) is sent, same x", "the amount removed from the entry ("+nb.String()+") and the amount sent to the fee collector ("+slashAmt.String()+") are not the same value", r.P(st), r.P(send))
				okF := slashAmt.IsCall("math.LegacyDec.TruncateInt") && slashAmt.Args[0].IsCall("math.LegacyDec.MulInt") &&
					slashAmt.Args[0].Args[0].Op == "param" && slashAmt.Args[0].Args[1].String() == oldAmtS
				r.Check(okF, fk, "slashed amount == trunc(fraction * entry balance)", "x = fraction.MulInt(entry.Balance.Amount).TruncateInt() of the same entry", "the slashed amount is not floor(fraction x balance) of the entry being reduced: "+slashAmt.String(), r.P(send))
				okD := sent.Args[0].String() == "*("+entryPtr+").Balance.Denom" || sent.Args[0].Eq(newBal.Args[0])
				r.Check(okD && newBal.Args[0].String() == "*("+entryPtr+").Balance.Denom", fk, "denominations preserved", "entry keeps its denom; slashed coin has the entry's denom", "denomination of the slashed coin or of the reduced entry is not the entry's own", r.P(send))
			} else {
				r.Bad(fk, "amount removed from entry == amount sent", "cannot recognise NewCoin shapes: sent="+argT(fa, send, 3).String()+" new balance="+newBal.String(), nil, r.P(send))
			}
			// each send is dominated by the entry update (or vice versa) inside the same iteration
			r.Check(fa.Dominates(st, send) || fa.Dominates(send, st) && send.Block() == st.Block(), fk, "entry reduced iff coins sent", "update and transfer are in the same straight-line region", "the entry update and the transfer are on different paths", r.P(st), r.P(send))
			// the mutated bucket is written back under the key it was read from, on every success path after a mutation
			var bucket *Term
			(&Term{Op: "const", Name: entryPtr}).Walk(func(*Term) {})
			getCalls := CallsTo(fn, "corestore.KVStore.Get", "storetypes.KVStore.Get")
			var setBack []ssa.Instruction
			for _, c := range CallsTo(fn, "corestore.KVStore.Set", "storetypes.KVStore.Set") {
				k := argT(fa, c, 0)
				v := argT(fa, c, 1)
				okKey := false
				for _, g := range getCalls {
					if argT(fa, g, 0).Eq(k) {
						okKey = true
					}
				}
				okVal := v.Op == "ncall" && strings.HasSuffix(v.Name, "MustMarshal")
				if okVal {
					m := v.Instr.(ssa.CallInstruction)
					mv := unwrapIface(CallArgs(m.Common())[0])
					// the variable that is marshalled is the one the bucket was decoded into, or a whole-value copy of it
					// (a typed getter that returns the decoded bucket): the entries are pointers, shared by the copies
					a, isAlloc := mv.(*ssa.Alloc)
					found := false
					for depth := 0; isAlloc && a != nil && depth < 4 && !found; depth++ {
						if um := firstUnmarshalInto(fn, a); um != nil && strings.Contains(entryPtr, "@"+fmt.Sprint(fa.ord[um])) {
							found = true
							break
						}
						a = wholeCopySource(a)
					}
					if found {
						bucket = fa.Term(a)
					} else {
						okVal = false
					}
				}
				if okKey && okVal {
					setBack = append(setBack, c)
				}
			}
			_ = bucket
			if len(setBack) == 0 {
				r.Bad(fk, "mutated bucket written back", "no store.Set(key read, Marshal(bucket mutated)) found", nil, r.P(st))
			} else if trail := fa.MustFollow(st, setBack); trail != nil {
				r.Bad(fk, "mutated bucket written back", "a success path reduces an entry and sends coins without writing the bucket back (custody drops, entry does not)", trail, r.P(st))
			} else {
				r.OK(fk, "mutated bucket written back", "every success path after a mutation passes store.Set(same key, Marshal(same bucket))", r.P(setBack[0]))
			}
		}})

	register(&Rule{ID: "C01.noothers", Props: []string{"C01", "C06", "C13", "C15"}, Floor: 7,
		Doc: "call trees of the other operations contain no custody movement and no TotalTokens write",
		Run: func(e *Engine, r *RuleRun) {
			type tree struct {
				key  string
				stop []string
			}
			trees := []tree{{"keeper.Keeper.Redelegate", nil}, {"keeper.Keeper.ClaimDelegationRewards", nil},
				{"keeper.Keeper.SlashValidator", []string{"keeper.Keeper.slashUndelegations"}}, {"keeper.Keeper.UpdateAllianceAsset", nil},
				{"keeper.Keeper.RewardWeightChangeHook", nil}, {"keeper.Keeper.InitializeAllianceAssets", nil}, {"keeper.Keeper.CompleteRedelegations", nil},
				{"keeper.Keeper.ClaimValidatorRewards", nil}}
			for _, t := range trees {
				fn := r.Need(t.key)
				if fn == nil {
					continue
				}
				bad := false
				for _, a := range e.TreeAtoms(fn, t.stop...) {
					if a.Kind == "bank" && strings.Contains(strings.ReplaceAll(a.Name, "alliance_rewards", ""), "alliance") {
						r.Bad(t.key, "no custody movement", "call tree reaches "+a.Name+" in "+FuncKey(a.Fn), nil, r.P(a.Instr))
						bad = true
					}
					if a.Kind == "fieldwrite" && a.Name == "AllianceAsset.TotalTokens" && !isComplitStore(a.Instr.(*ssa.Store)) {
						r.Bad(t.key, "no staked-total write", "call tree writes AllianceAsset.TotalTokens in "+FuncKey(a.Fn), nil, r.P(a.Instr))
						bad = true
					}
				}
				if !bad {
					var names []string
					for _, f := range e.Reach(fn, t.stop...) {
						names = append(names, FuncKey(f))
					}
					sort.Strings(names)
					r.OK(t.key, "no custody movement, no staked-total write", fmt.Sprintf("%d functions in the call tree scanned", len(names)))
				}
			}
		}})
}

func rootAlloc(v ssa.Value) (*ssa.Alloc, bool) {
	for {
		switch x := v.(type) {
		case *ssa.FieldAddr:
			v = x.X
		case *ssa.IndexAddr:
			v = x.X
		case *ssa.Alloc:
			return x, true
		default:
			return nil, false
		}
	}
}

// rootAllocSet: the local cells an address may be rooted in when the pointer is a local that is given a fresh
// allocation in each branch (`var q *T; if .. { q = &T{..} } else { q = new(T); .. }`): the phi's leaves, all of which
// must be allocations of the function.
func rootAllocSet(v ssa.Value) map[*ssa.Alloc]bool {
	out := map[*ssa.Alloc]bool{}
	seen := map[ssa.Value]bool{}
	ok := true
	var walk func(v ssa.Value)
	walk = func(v ssa.Value) {
		if seen[v] {
			return
		}
		seen[v] = true
		switch x := v.(type) {
		case *ssa.FieldAddr:
			walk(x.X)
		case *ssa.IndexAddr:
			walk(x.X)
		case *ssa.Alloc:
			out[x] = true
		case *ssa.Phi:
			for _, ed := range x.Edges {
				walk(ed)
			}
		default:
			ok = false
		}
	}
	walk(v)
	if !ok {
		return nil
	}
	return out
}

// firstUnmarshalInto: the (Must)Unmarshal call that decodes into alloc a.
func firstUnmarshalInto(fn *ssa.Function, a *ssa.Alloc) ssa.Instruction {
	for _, c := range Calls(fn) {
		k := CalleeKey(c.Common())
		if !strings.HasSuffix(k, "Unmarshal") {
			continue
		}
		for _, arg := range CallArgs(c.Common()) {
			if unwrapIface(arg) == ssa.Value(a) {
				return c
			}
		}
	}
	return nil
}

// counterIncrements: the additions `n + c` that feed the counter variable whose value the phi term t is (looking
// through the merge phis that `continue` statements introduce).
func counterIncrements(fa *FuncAnalysis, t *Term) []*ssa.BinOp {
	root, ok := t.Instr.(*ssa.Phi)
	if !ok {
		return nil
	}
	cluster := map[*ssa.Phi]bool{}
	var leaves []ssa.Value
	var visit func(p *ssa.Phi)
	visit = func(p *ssa.Phi) {
		if cluster[p] {
			return
		}
		cluster[p] = true
		for _, ed := range p.Edges {
			if q, ok := ed.(*ssa.Phi); ok {
				visit(q)
			} else {
				leaves = append(leaves, ed)
			}
		}
	}
	visit(root)
	var out []*ssa.BinOp
	seen := map[*ssa.BinOp]bool{}
	for _, l := range leaves {
		b, ok := l.(*ssa.BinOp)
		if !ok || b.Op != token.ADD || seen[b] {
			continue
		}
		if p, isPhi := b.X.(*ssa.Phi); isPhi && cluster[p] {
			seen[b] = true
			out = append(out, b)
		}
	}
	return out
}

// wholeCopySource: when every whole-value store into a is `a = *b` for one other local b, that b.
func wholeCopySource(a *ssa.Alloc) *ssa.Alloc {
	var src *ssa.Alloc
	refs := a.Referrers()
	if refs == nil {
		return nil
	}
	for _, ref := range *refs {
		st, ok := ref.(*ssa.Store)
		if !ok || st.Addr != ssa.Value(a) {
			continue
		}
		u, ok := st.Val.(*ssa.UnOp)
		if !ok || u.Op != token.MUL {
			return nil
		}
		b, ok := u.X.(*ssa.Alloc)
		if !ok || (src != nil && src != b) {
			return nil
		}
		src = b
	}
	return src
}
