package main

import (
	"fmt"
	"go/ast"
	"sort"
	"strings"

	"golang.org/x/tools/go/ssa"
)

// constructorPrefix maps every key constructor of types/keys.go to the prefix variable its key starts with,
// by reading the function bodies: the first prefix variable or constructor call that the returned key is built from.
func (e *Engine) constructorPrefix() map[string]string {
	out := map[string]string{}
	p := e.ByPath[pTypes]
	if p == nil {
		return out
	}
	pv := e.prefixVars()
	funcs := map[string]*ast.FuncDecl{}
	for _, f := range p.Syntax {
		for _, d := range f.Decls {
			if fd, ok := d.(*ast.FuncDecl); ok && fd.Recv == nil && fd.Body != nil {
				funcs[fd.Name.Name] = fd
			}
		}
	}
	var resolve func(name string, depth int) string
	resolve = func(name string, depth int) string {
		if v, ok := out[name]; ok {
			return v
		}
		fd := funcs[name]
		if fd == nil || depth > 6 {
			return ""
		}
		res := ""
		ast.Inspect(fd.Body, func(n ast.Node) bool {
			if res != "" {
				return false
			}
			switch x := n.(type) {
			case *ast.Ident:
				if _, ok := pv[x.Name]; ok {
					res = x.Name
				}
			case *ast.CallExpr:
				if id, ok := x.Fun.(*ast.Ident); ok {
					if _, isF := funcs[id.Name]; isF && id.Name != name && (strings.HasPrefix(id.Name, "Get")) {
						if r := resolve(id.Name, depth+1); r != "" {
							res = r
							return false
						}
					}
				}
			}
			return true
		})
		out[name] = res
		return res
	}
	for n := range funcs {
		if strings.HasPrefix(n, "Get") || strings.HasPrefix(n, "Parse") {
			resolve(n, 0)
		}
	}
	return out
}

// prefixOfKeyClass maps a key class (as produced by KeyClass/iterClass) to a prefix variable.
func prefixOfKeyClass(kc string, ctor map[string]string, pv map[string]string) string {
	kc = strings.TrimSuffix(strings.TrimPrefix(kc, "iter.Key("), ")")
	if i := strings.Index(kc, "#"); i >= 0 {
		kc = kc[:i]
	}
	if _, ok := pv[kc]; ok {
		return kc
	}
	if p, ok := ctor[kc]; ok && p != "" {
		// parsers that re-assemble a key of another family
		switch kc {
		case "ParseUnbondingIndexKeyToUndelegationKey":
			return "UndelegationQueueKey"
		case "ParseRedelegationIndexForRedelegationKey":
			return "RedelegationKey"
		}
		return p
	}
	return ""
}

// derived indexes: rebuilt on import by the same writer as at run time, not exported themselves
var derivedIndexes = map[string]string{
	"RedelegationByValidatorIndexKey": "by-source index of redelegation records, rebuilt by addRedelegation",
	"RedelegationQueueKey":            "time queue of redelegation records, rebuilt by addRedelegation/queueRedelegation",
	"UndelegationByValidatorIndexKey": "per-validator index of unbonding buckets, rebuilt by setUnbondingIndexByVal",
}

func init() {
	register(&Rule{ID: "C18.prefixes", Props: []string{"C18"}, Floor: 10,
		Doc: "every store prefix with a run-time writer is exported and re-imported, or is a derived index rebuilt on import by its run-time writer",
		Run: func(e *Engine, r *RuleRun) {
			pv := e.prefixVars()
			ctor := e.constructorPrefix()
			ig, eg := r.Need("keeper.Keeper.InitGenesis"), r.Need("keeper.Keeper.ExportGenesis")
			if ig == nil || eg == nil {
				return
			}
			inReach := func(root *ssa.Function) map[*ssa.Function]bool {
				m := map[*ssa.Function]bool{}
				for _, f := range e.Reach(root) {
					m[f] = true
				}
				return m
			}
			igR, egR := inReach(ig), inReach(eg)
			written := map[string][]string{}  // prefix -> run-time writers (Set)
			imported := map[string][]string{} // prefix -> writers reachable from InitGenesis
			for _, s := range e.storeSites() {
				if !strings.HasPrefix(s.atom, "Set(") {
					continue
				}
				kc := strings.TrimSuffix(strings.TrimPrefix(s.atom, "Set("), ")")
				p := prefixOfKeyClass(kc, ctor, pv)
				if p == "" {
					r.Undecided(FuncKey(s.fn), "store:"+s.atom, "cannot map the key class to a prefix variable of types/keys.go", r.P(s.call))
					continue
				}
				written[p] = append(written[p], FuncKey(s.fn))
				if igR[s.fn] {
					imported[p] = append(imported[p], FuncKey(s.fn))
				}
			}
			exported := map[string]bool{}
			for f := range egR {
				fa := e.FA(f)
				for _, c := range Calls(f) {
					k := CalleeKey(c.Common())
					if _, ok := storeReadMethods[k]; !ok {
						continue
					}
					args := CallArgs(c.Common())
					for _, a := range args {
						kc := KeyClass(fa.Term(a))
						if p := prefixOfKeyClass(kc, ctor, pv); p != "" {
							exported[p] = true
						}
					}
				}
			}
			var ps []string
			for p := range written {
				ps = append(ps, p)
			}
			sort.Strings(ps)
			for _, p := range ps {
				construct := "prefix:" + pv[p] + " " + p
				ws := strings.Join(uniq(written[p]), ",")
				switch {
				case len(imported[p]) == 0:
					r.Bad("keeper.Keeper.InitGenesis", construct, "store prefix "+pv[p]+" ("+p+") is written at run time by "+ws+" but genesis import never writes it"+exportNote(exported[p])+": state under it is lost by export/import, so the imported module does not continue like the original", nil, e.Pos(ig.Pos()))
				case exported[p]:
					r.OK("keeper.Keeper.ExportGenesis", construct, "exported and re-imported through "+strings.Join(uniq(imported[p]), ","))
				case derivedIndexes[p] != "":
					r.OK("keeper.Keeper.InitGenesis", construct, "derived index: "+derivedIndexes[p]+" (import writer: "+strings.Join(uniq(imported[p]), ",")+")")
				default:
					r.Bad("keeper.Keeper.ExportGenesis", construct, "store prefix "+pv[p]+" ("+p+") is imported by "+strings.Join(uniq(imported[p]), ",")+" but export never reads it and it is not a reviewed derived index", nil, e.Pos(eg.Pos()))
				}
			}
		}})

	register(&Rule{ID: "C18.fields", Props: []string{"C18"}, Floor: 7,
		Doc: "the exported Params literal sets every field; exported records are the stored values unmodified",
		Run: func(e *Engine, r *RuleRun) {
			fn := r.Need("keeper.Keeper.ExportGenesis")
			if fn == nil {
				return
			}
			k, fa := FuncKey(fn), e.FA(fn)
			lits := Complits(fn, "types.Params")
			if len(lits) != 1 {
				r.Bad(k, "Params literal", fmt.Sprintf("expected one Params literal, found %d", len(lits)), nil)
			} else {
				st := derefStruct(lits[0].Type())
				f := complitFields(fa, lits[0])
				want := map[string]string{"RewardDelayTime": "keeper.Keeper.RewardDelayTime", "TakeRateClaimInterval": "keeper.Keeper.RewardClaimInterval", "LastTakeRateClaimTime": "keeper.Keeper.LastRewardClaimTime"}
				for i := 0; i < st.NumFields(); i++ {
					n := st.Field(i).Name()
					v := f[n]
					if v == nil {
						r.Bad(k, "field:Params."+n, "exported parameters do not include "+n+": it is reset to the zero value by export/import", nil, r.P(lits[0]))
						continue
					}
					getter, known := want[n]
					r.Check(!known || v.IsCall(getter), k, "field:Params."+n, "read from the store", "exported "+n+" is "+v.String(), r.P(lits[0]))
				}
			}
			// records appended unmodified
			type ex struct {
				closure, field, what string
				others               map[string]string // every other field of the state entry and the value it must carry
			}
			okAssets := false
			for _, c := range CallsTo(fn, "builtin.append") {
				a := argT(fa, c, 1)
				if a.Op == "list" && len(a.Args) == 1 && a.Args[0].Op == "deref" && strings.Contains(a.Args[0].String(), "GetAllAssets") {
					okAssets = true
				}
			}
			r.Check(okAssets, k, "assets exported unmodified", "append(state.Assets, *asset) for every stored asset", "exported assets are not the stored records", e.Pos(fn.Pos()))
			wantCl := []ex{
				{"$1", "Validator", "$info", map[string]string{"ValidatorAddress": "sdk.ValAddress.String($valAddr)"}},
				{"$2", "", "$d", nil},
				{"$3", "Redelegation", "$r", map[string]string{"CompletionTime": "$completionTime"}},
				{"$4", "Undelegation", "$u", map[string]string{"CompletionTime": "$completionTime"}},
				{"$5", "Snapshot", "$snapshot", map[string]string{"Height": "$height", "Validator": "sdk.ValAddress.String($valAddr)", "Denom": "$denom"}},
			}
			for _, w := range wantCl {
				var cl *ssa.Function
				for _, a := range fn.AnonFuncs {
					if strings.HasSuffix(a.Name(), w.closure) {
						cl = a
					}
				}
				if cl == nil {
					r.Bad(k, "export closure "+w.closure, "closure not found", nil)
					continue
				}
				cfa := e.FA(cl)
				ok := false
				for _, c := range CallsTo(cl, "builtin.append") {
					a := argT(cfa, c, 1)
					if a.Op == "list" && len(a.Args) == 1 {
						el := a.Args[0]
						if w.field == "" {
							ok = el.String() == w.what
						} else if _, v := ovrGet(el, "."+w.field); v != nil && v.String() == w.what {
							ok = true
							// the key part of the entry (address, completion time, height, denom) is the callback's argument
							// as given: import files the record under it
							for fld, want := range w.others {
								_, ov := ovrGet(el, "."+fld)
								got := "<not set>"
								if ov != nil {
									got = ordinalRe.ReplaceAllString(ov.String(), "")
								}
								r.Check(got == want, k, "exported "+w.field+" entry: "+fld, want, "the exported "+fld+" of a "+w.field+" entry is "+got+", not the value the store iterator handed out ("+want+"): the imported module files the record under another key", e.Pos(cl.Pos()))
							}
						}
					}
				}
				r.Check(ok, k, "record exported unmodified ("+w.what+")", "the iterated record is appended as is", "an exported record is not the stored value", e.Pos(cl.Pos()))
			}
		}})

	register(&Rule{ID: "C18.rebuild", Props: []string{"C18", "C02", "C07", "C20", "C15", "C08"}, Floor: 8,
		Doc: "on import, records are stored under keys built from their own fields and derived indexes from the record's fields and completion time",
		Run: func(e *Engine, r *RuleRun) {
			fn := r.Need("keeper.Keeper.InitGenesis")
			if fn == nil {
				return
			}
			k, fa := FuncKey(fn), e.FA(fn)
			parsedFrom := func(t *Term, parser string, rec *Term, field string) bool {
				return t.Op == "extract" && t.Name == "0" && t.Args[0].IsCall(parser) && t.Args[0].Args[0].Eq(mkField(rec, field))
			}
			if c := r.One(fn, "import delegation", "keeper.Keeper.SetDelegation"); c != nil {
				rec := argT(fa, c, 4)
				ok := parsedFrom(argT(fa, c, 1), "sdk.AccAddressFromBech32", rec, "DelegatorAddress") && parsedFrom(argT(fa, c, 2), "sdk.ValAddressFromBech32", rec, "ValidatorAddress") && argT(fa, c, 3).Eq(mkField(rec, "Denom"))
				r.Check(ok, k, "delegation stored under its own (delegator, validator, denom)", "key from the record's fields", "an imported delegation is stored under a key that does not match its fields", r.P(c))
			}
			if c := r.One(fn, "import validator info", "keeper.Keeper.SetValidatorInfo"); c != nil {
				v := argT(fa, c, 2)
				ok := v.Op == "field" && v.Name == "Validator" && parsedFrom(argT(fa, c, 1), "sdk.ValAddressFromBech32", v.Args[0], "ValidatorAddress")
				r.Check(ok, k, "validator info stored under its own address", "key from ValidatorAddress of the same state entry", "imported validator info is stored under another address", r.P(c))
			}
			if c := r.One(fn, "import asset", "keeper.Keeper.SetAsset"); c != nil {
				r.Check(strings.Contains(argT(fa, c, 1).String(), ".Assets["), k, "asset imported as given", "SetAsset(genesis asset)", "imported asset is "+argT(fa, c, 1).String(), r.P(c))
			}
			if c := r.One(fn, "import redelegation", "keeper.Keeper.addRedelegation"); c != nil {
				bal := argT(fa, c, 4)
				okB := bal.Op == "field" && bal.Name == "Balance"
				if okB {
					rec := bal.Args[0]
					st := rec.Args[0] // RedelegationState
					ok := parsedFrom(argT(fa, c, 1), "sdk.AccAddressFromBech32", rec, "DelegatorAddress") && parsedFrom(argT(fa, c, 2), "sdk.ValAddressFromBech32", rec, "SrcValidatorAddress") &&
						parsedFrom(argT(fa, c, 3), "sdk.ValAddressFromBech32", rec, "DstValidatorAddress") && argT(fa, c, 5).Eq(mkField(st, "CompletionTime"))
					r.Check(ok, k, "redelegation record and indexes rebuilt from the record's fields", "addRedelegation(parse(delegator), parse(src), parse(dst), balance, completionTime) of one state entry", "the redelegation import mixes fields of different entries or slots", r.P(c))
				} else {
					r.Bad(k, "redelegation import", "balance argument is "+bal.String(), nil, r.P(c))
				}
			}
			sq := r.One(fn, "import unbonding bucket", "keeper.Keeper.setQueuedUndelegations")
			si := r.One(fn, "import unbonding index", "keeper.Keeper.setUnbondingIndexByVal")
			if sq != nil && si != nil {
				b := argT(fa, sq, 3)
				okQ := b.Op == "field" && b.Name == "Undelegation" && argT(fa, sq, 1).Eq(mkField(b.Args[0], "CompletionTime"))
				del := argT(fa, sq, 2)
				okQ = okQ && del.Op == "extract" && del.Args[0].IsCall("sdk.AccAddressFromBech32") && strings.Contains(del.String(), ".Undelegation.Entries[0]") && strings.HasSuffix(del.Args[0].Args[0].String(), ".DelegatorAddress")
				r.Check(okQ, k, "unbonding bucket stored under (its completion time, its delegator)", "setQueuedUndelegations(state.CompletionTime, parse(Entries[0].DelegatorAddress), state.Undelegation)", "the imported bucket is stored under a key that does not match its content", r.P(sq))
				v := argT(fa, si, 1)
				okI := v.Op == "extract" && v.Args[0].IsCall("sdk.ValAddressFromBech32") && strings.HasSuffix(v.Args[0].Args[0].String(), ".ValidatorAddress") && loopPhiOf(v) != nil &&
					argT(fa, si, 2).Eq(argT(fa, sq, 1)) && argT(fa, si, 3).Eq(del) && strings.HasSuffix(argT(fa, si, 4).String(), ".Balance.Denom") && loopPhiOf(argT(fa, si, 4)) != nil
				r.Check(okI, k, "unbonding index rebuilt per entry from (entry validator, bucket time, entry denom, bucket delegator)", "setUnbondingIndexByVal for every entry", "the per-validator index rebuilt on import does not use the entry's own validator/denom and the bucket's time/delegator", r.P(si))
				if phi := innermostLoopPhi(v); phi != nil {
					r.Check(fa.EveryIterationPasses(phi, []ssa.Instruction{si}) == nil, k, "every imported entry is indexed", "no entry skipped", "an imported unbonding entry can be left without its per-validator index", r.P(si))
				}
			}
			if c := r.One(fn, "import snapshot", "keeper.Keeper.setRewardWeightChangeSnapshot"); c != nil {
				sn := argT(fa, c, 4)
				ok := sn.Op == "field" && sn.Name == "Snapshot" && argT(fa, c, 1).Eq(mkField(sn.Args[0], "Denom")) && parsedFrom(argT(fa, c, 2), "sdk.ValAddressFromBech32", sn.Args[0], "Validator") && argT(fa, c, 3).Eq(mkField(sn.Args[0], "Height"))
				r.Check(ok, k, "snapshot stored under its own (denom, validator, height)", "key from the same state entry", "an imported snapshot is stored under a key that does not match its state entry", r.P(c))
			}
			if c := r.One(fn, "import params", "keeper.Keeper.SetParams"); c != nil {
				r.Check(strings.HasSuffix(argT(fa, c, 1).String(), ".Params"), k, "params imported as given", "SetParams(g.Params)", "imported params are "+argT(fa, c, 1).String(), r.P(c))
			}
		}})
}

func exportNote(exported bool) string {
	if exported {
		return " (it is exported)"
	}
	return " and export never reads it"
}

func uniq(s []string) []string {
	sort.Strings(s)
	var out []string
	for i, x := range s {
		if i == 0 || x != s[i-1] {
			out = append(out, x)
		}
	}
	return out
}
