package main

import (
	"strings"

	"golang.org/x/tools/go/ssa"
)

// Rel is a normalised order fact "A op B" over canonical term strings; op in < <= == != >= >,
// or a unary predicate fact "nil"/"notnil" (B == "").
type Rel struct {
	A, Op, B string
	TA, TB   *Term
}

func (r Rel) String() string { return r.A + " " + r.Op + " " + r.B }

func constName(t *Term) string {
	if t == nil {
		return ""
	}
	switch {
	case t.IsCall("math.LegacyZeroDec", "math.ZeroInt"):
		return "0"
	case t.IsCall("math.LegacyOneDec", "math.OneInt"):
		return "1"
	case t.Op == "const":
		return t.Name
	case t.Op == "zero" && strings.HasPrefix(t.Name, "complit"):
		return "zero"
	}
	return t.String()
}

var negOp = map[string]string{"<": ">=", "<=": ">", ">": "<=", ">=": "<", "==": "!=", "!=": "=="}
var flipOp = map[string]string{"<": ">", "<=": ">=", ">": "<", ">=": "<=", "==": "==", "!=": "!="}

// relsOf translates a guard into zero or more relations (a true-polarity fact).
func relsOf(g Guard) []Rel {
	c := g.Cond
	mk := func(a *Term, op string, b *Term) []Rel {
		if !g.Pos {
			op = negOp[op]
		}
		return []Rel{{A: constName(a), Op: op, B: constName(b), TA: a, TB: b}}
	}
	zero := &Term{Op: "const", Name: "0"}
	if c.Op == "binop" {
		switch c.Name {
		case "<", "<=", ">", ">=", "==", "!=":
			return mk(c.Args[0], c.Name, c.Args[1])
		}
		return nil
	}
	if c.Op != "call" && c.Op != "ncall" {
		return nil
	}
	a := c.CallArgsT()
	name := c.Name
	dot := strings.LastIndex(name, ".")
	if dot < 0 {
		return nil
	}
	recv, m := name[:dot], name[dot+1:]
	switch recv {
	case "math.LegacyDec", "math.Int", "sdk.Coin", "sdk.DecCoin":
		switch m {
		case "LT":
			return mk(a[0], "<", a[1])
		case "LTE":
			return mk(a[0], "<=", a[1])
		case "GT":
			return mk(a[0], ">", a[1])
		case "GTE":
			return mk(a[0], ">=", a[1])
		case "Equal":
			return mk(a[0], "==", a[1])
		case "IsZero":
			return mk(a[0], "==", zero)
		case "IsPositive":
			return mk(a[0], ">", zero)
		case "IsNegative":
			return mk(a[0], "<", zero)
		case "IsNil":
			if g.Pos {
				return []Rel{{A: a[0].String(), Op: "nil", TA: a[0]}}
			}
			return []Rel{{A: a[0].String(), Op: "notnil", TA: a[0]}}
		}
	case "time.Time":
		switch m {
		case "Before":
			return mk(a[0], "<", a[1])
		case "After":
			return mk(a[0], ">", a[1])
		case "Equal":
			return mk(a[0], "==", a[1])
		}
	}
	return nil
}

// implies: fact f implies requirement q (same operands, possibly flipped).
func relImplies(f, q Rel) bool {
	if q.B == "" || f.B == "" {
		return f.A == q.A && f.Op == q.Op && f.B == q.B
	}
	op := f.Op
	if f.A == q.B && f.B == q.A {
		op = flipOp[op]
	} else if !(f.A == q.A && f.B == q.B) {
		return false
	}
	if op == q.Op {
		return true
	}
	switch q.Op {
	case "<=":
		return op == "<" || op == "=="
	case ">=":
		return op == ">" || op == "=="
	case "!=":
		return op == "<" || op == ">"
	}
	return false
}

// FactsAt: all relations known at instruction in (from dominating branch facts); boolean helper
// functions that are a single return of &&/|| over comparisons are expanded one level.
func (fa *FuncAnalysis) FactsAt(in ssa.Instruction) []Rel {
	var out []Rel
	for _, g := range fa.GuardsOf(in) {
		out = append(out, relsOf(g)...)
	}
	return out
}

// HasFact: some fact at in implies "a op b".
func (fa *FuncAnalysis) HasFact(in ssa.Instruction, a, op, b string) bool {
	q := Rel{A: a, Op: op, B: b}
	for _, f := range fa.FactsAt(in) {
		if relImplies(f, q) {
			return true
		}
	}
	return false
}
