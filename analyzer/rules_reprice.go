package main

import (
	"fmt"
	"sort"
	"strings"

	"golang.org/x/tools/go/ssa"
)

// C12.reprice: "events that change the token value of positions must not inflate entitlements that were
// already accrued".
//
// An entitlement is (validator index - delegation index) x the delegation's CURRENT token value
// (accumulateRewards), while the index increment was computed by dividing the received coins by the token value of
// all positions on the validator AT ACCRUAL time.  The token value of a position is
//
//	delegation.Shares / val.TotalDelegatorShares[denom] x val.ValidatorShares[denom] / asset.TotalValidatorShares x asset.TotalTokens
//
// so every write to one of these five "price fields" re-prices positions.  A write is solvency-safe when it is
//   neutral   numerator and denominator move together for every position that is not being settled
//             (delegate / undelegate / redelegate: decided by C03.pair.*, C01.pair.*), or
//   lowering  it can only lower token values (take rate, asset-wide): accrued entitlements shrink, the pool keeps
//             the difference, or
//   empty     it happens when nothing is staked (creation, reset at TotalTokens == 0, genesis import), or
//   scaled    the slashed validator's own shares, scaled down by the fraction (shape decided by C06.scale).
// Any other write RAISES the value of positions that the writer did not settle first; their accrued entitlements
// grow although the pool received nothing, so claims exceed the pool.  The writer set is closed: a new writer of
// a price field is a violation until classified.

type repriceClass struct {
	class string // neutral | lowering | empty | raising
	why   string
}

var priceFields = map[string]bool{
	"AllianceAsset.TotalTokens":                  true,
	"AllianceAsset.TotalValidatorShares":         true,
	"AllianceValidatorInfo.ValidatorShares":      true,
	"AllianceValidatorInfo.TotalDelegatorShares": true,
	"Delegation.Shares":                          true,
}

// key: "<function> | <field>"
var repriceTable = map[string]repriceClass{
	"keeper.Keeper.Delegate | AllianceAsset.TotalTokens":                                {"neutral", "tokens and validator shares are added at the current share price (GetValidatorShares of the amount): the price of every existing share is unchanged (pairing decided by C01.pair.delegate / C03.pair.asset)"},
	"keeper.Keeper.Delegate | AllianceAsset.TotalValidatorShares":                       {"neutral", "see TotalTokens"},
	"keeper.Keeper.Undelegate | AllianceAsset.TotalTokens":                              {"neutral", "tokens and validator shares are removed at the current share price (pairing decided by C01.pair.undelegate / C03.pair.asset)"},
	"keeper.Keeper.Undelegate | AllianceAsset.TotalValidatorShares":                     {"neutral", "see TotalTokens"},
	"keeper.Keeper.upsertDelegationWithNewTokens | Delegation.Shares":                   {"neutral", "shares are issued at the current delegation-share price and the same amount is added to the validator's total (C03.pair.delegation); the position is settled first (C13.settle.arrive)"},
	"keeper.Keeper.reduceDelegationShares | Delegation.Shares":                          {"neutral", "shares are removed together with the validator's total (C03.pair.delegation); the position is settled first (C13.settle.leave)"},
	"types.AllianceValidator.AddShares | AllianceValidatorInfo.TotalDelegatorShares":    {"neutral", "helper of updateValidatorShares: callers pass the amounts they apply to the delegation and to the asset (C03.pair.*)"},
	"types.AllianceValidator.AddShares | AllianceValidatorInfo.ValidatorShares":         {"neutral", "see TotalDelegatorShares"},
	"types.AllianceValidator.ReduceShares | AllianceValidatorInfo.TotalDelegatorShares": {"neutral", "helper of updateValidatorShares: callers pass the amounts they apply to the delegation and to the asset (C03.pair.*)"},
	"types.AllianceValidator.ReduceShares | AllianceValidatorInfo.ValidatorShares":      {"neutral", "see TotalDelegatorShares"},
	"keeper.Keeper.DeductAssetsWithTakeRate | AllianceAsset.TotalTokens":                {"lowering", "the take rate lowers the token value of every position of the asset by the same factor; accrued entitlements shrink and the pool keeps the difference"},
	"keeper.Keeper.ResetAssetAndValidators | AllianceAsset.TotalValidatorShares":        {"empty", "only when asset.TotalTokens is zero (guard decided by C03.reset): no position has value"},
	"keeper.Keeper.ResetAssetAndValidators$1 | AllianceValidatorInfo.ValidatorShares":   {"empty", "see ResetAssetAndValidators"},
	"keeper.Keeper.SlashValidator | AllianceAsset.TotalValidatorShares":                 {"raising", "the asset's share total falls while its token total stays: every validator share of the asset on OTHER validators is worth more tokens, and their delegations are not settled"},
	"keeper.Keeper.SlashValidator | AllianceValidatorInfo.ValidatorShares":              {"scaled", "decided by C06.scale (each denom's shares become amount - amount x fraction): the slashed validator's own share of the asset falls by the fraction; together with the lower share total its positions are worth (1-f)g of their value, g < 1/(1-f)"},
	"keeper.Keeper.slashRedelegations | AllianceValidatorInfo.TotalDelegatorShares":     {"raising", "the destination validator's delegator-share total falls by the shares taken from the redelegated position while its validator shares stay: every OTHER position on the destination is worth more tokens, and those delegations are not settled"},
}

func init() {
	register(&Rule{ID: "C12.reprice", Props: []string{"C12", "C05", "C08"}, Floor: 8,
		Doc: "every write that re-prices positions is neutral, lowering or on an empty asset; value-raising writes inflate accrued entitlements",
		Run: func(e *Engine, r *RuleRun) {
			seen := map[string]bool{}
			var keys []string
			at := map[string]ssa.Instruction{}
			for _, fn := range e.SMFuncs() {
				for _, a := range e.DirectAtoms(fn) {
					if a.Kind != "fieldwrite" || !priceFields[a.Name] {
						continue
					}
					st := a.Instr.(*ssa.Store)
					if isInitStore(e.FA(fn), st) {
						continue
					}
					k := FuncKey(fn) + " | " + a.Name
					if !seen[k] {
						seen[k] = true
						keys = append(keys, k)
						at[k] = a.Instr
					}
				}
			}
			sort.Strings(keys)
			for _, k := range keys {
				fk, field, _ := strings.Cut(k, " | ")
				c, ok := repriceTable[k]
				construct := "reprice:" + field
				switch {
				case !ok:
					r.Bad(fk, construct, "unclassified write of a price field ("+field+"): it re-prices positions; unless it is neutral, lowering-only or on an empty asset it inflates accrued, unsettled reward entitlements", nil, r.P(at[k]))
				case c.class == "raising":
					r.Bad(fk, construct, "this write raises the token value of positions that were not settled first ("+c.why+"): their accrued entitlements (index difference x current token value) grow although the rewards pool received nothing, so the sum of claimable rewards exceeds the pool", nil, r.P(at[k]))
				case c.class == "lowering":
					// the stored value must be <old value>.Sub(...) (possibly through a DecCoins Sub / a capped phi of it)
					st := at[k].(*ssa.Store)
					v := e.FA(st.Parent()).Term(st.Val)
					isSub := false
					v.Walk(func(x *Term) {
						if x.Op == "call" && (strings.HasSuffix(x.Name, ".Sub") || strings.HasSuffix(x.Name, ".SafeSub")) {
							isSub = true
						}
					})
					hasAdd := false
					v.Walk(func(x *Term) {
						if x.Op == "call" && strings.HasSuffix(x.Name, ".Add") && len(x.Args) > 0 && (strings.Contains(x.Args[0].String(), field[strings.Index(field, ".")+1:])) {
							hasAdd = true
						}
					})
					if isSub && !hasAdd {
						r.OK(fk, construct, "lowering (stored value is a subtraction from the old value): "+c.why, r.P(st))
					} else {
						r.Bad(fk, construct, "reviewed as lowering-only but the stored value is not a subtraction from the old value: "+v.String(), nil, r.P(st))
					}
				default:
					r.OK(fk, construct, c.class+": "+c.why, r.P(at[k]))
				}
			}
			for k := range repriceTable {
				if !seen[k] {
					fk, field, _ := strings.Cut(k, " | ")
					r.Undecided(fk, "reprice:"+field, "reviewed table entry no longer matches a write of this field in this function")
				}
			}
			r.Check(len(keys) >= 8, "-", "price-field writers", fmt.Sprintf("%d (function, field) writers of the five price fields", len(keys)), fmt.Sprintf("only %d writers found", len(keys)))
		}})

	// C13 asks for more than solvency: "a claim pays the accumulated entitlement", "not retroactive".  Any re-pricing
	// write that is not neutral (or on an empty asset) changes what unsettled positions will be paid for rewards that
	// were already received - upwards (raising) or downwards (lowering, scaled).
	register(&Rule{ID: "C13.reprice", Props: []string{"C13"}, Floor: 8,
		Doc: "accrued, unsettled entitlements are not re-priced: every write of a price field is neutral or on an empty asset",
		Run: func(e *Engine, r *RuleRun) {
			seen := map[string]bool{}
			n := 0
			for _, fn := range e.SMFuncs() {
				for _, a := range e.DirectAtoms(fn) {
					if a.Kind != "fieldwrite" || !priceFields[a.Name] {
						continue
					}
					st := a.Instr.(*ssa.Store)
					if isInitStore(e.FA(fn), st) {
						continue
					}
					fk := FuncKey(fn)
					k := fk + " | " + a.Name
					if seen[k] {
						continue
					}
					seen[k] = true
					n++
					c, ok := repriceTable[k]
					construct := "reprice:" + a.Name
					switch {
					case !ok:
						r.Bad(fk, construct, "unclassified write of a price field ("+a.Name+")", nil, r.P(st))
					case c.class == "neutral" || c.class == "empty":
						r.OK(fk, construct, c.class+": "+c.why, r.P(st))
					default:
						r.Bad(fk, construct, "this write changes the token value of positions that were not settled first ("+c.class+": "+c.why+"): rewards that were already received are paid at the new value - more than accrued (raising) or less (lowering / scaled, the difference stays in the pool unclaimable), and what a delegator is paid depends on whether he claimed before or after this write", nil, r.P(st))
					}
				}
			}
			r.Check(n >= 8, "-", "price-field writers", fmt.Sprintf("%d writers classified", n), fmt.Sprintf("only %d writers found", n))
		}})
}
