package main

import (
	"encoding/json"
	"fmt"
	"os"
	"path/filepath"
	"sort"
	"strings"

	"golang.org/x/tools/go/ssa"
)

// Ob is one obligation: a rule instance at a construct of the resolved program.
type Ob struct {
	Rule      string   `json:"rule"`
	Func      string   `json:"function"`
	Construct string   `json:"construct"` // semantic key, never a line number
	Status    string   `json:"status"`    // ok | violation | undecided
	Msg       string   `json:"message"`
	Pos       []string `json:"positions,omitempty"`
	Witness   []string `json:"witness,omitempty"`
	Known     string   `json:"known_finding,omitempty"`
	// Fingerprint: where the obligation is lost (escape.go); compared with the `witness` list of a known finding
	Fingerprint []string `json:"fingerprint,omitempty"`
}

func (o *Ob) Key() string { return o.Rule + " | " + o.Func + " | " + o.Construct }

type Rule struct {
	ID    string
	Props []string // properties this rule serves
	Floor int      // minimal number of decided obligations (vacuity guard)
	Doc   string
	Run   func(e *Engine, r *RuleRun)
}

type RuleRun struct {
	e    *Engine
	rule *Rule
	Obs  []*Ob
}

func (r *RuleRun) add(status, fn, construct, msg string, witness []string, pos []string) *Ob {
	o := &Ob{Rule: r.rule.ID, Func: fn, Construct: construct, Status: status, Msg: msg, Witness: witness, Pos: pos}
	r.Obs = append(r.Obs, o)
	return o
}

func (r *RuleRun) OK(fn, construct, msg string, pos ...string) {
	r.add("ok", fn, construct, msg, nil, pos)
}
func (r *RuleRun) Bad(fn, construct, msg string, witness []string, pos ...string) {
	r.add("violation", fn, construct, msg, witness, pos)
}

// BadAt is Bad with a fingerprint: the places where the obligation is lost (see escape.go).
func (r *RuleRun) BadAt(fn, construct, msg string, witness []string, fingerprint []string, pos ...string) {
	r.add("violation", fn, construct, msg, witness, pos).Fingerprint = fingerprint
}
func (r *RuleRun) Undecided(fn, construct, msg string, pos ...string) {
	r.add("undecided", fn, construct, msg, nil, pos)
}

// Check records ok or violation depending on cond.
func (r *RuleRun) Check(cond bool, fn, construct, okMsg, badMsg string, pos ...string) bool {
	if cond {
		r.OK(fn, construct, okMsg, pos...)
	} else {
		r.Bad(fn, construct, badMsg, nil, pos...)
	}
	return cond
}

// Need resolves an anchor function; a missing anchor is an undecided obligation (fails the check).
func (r *RuleRun) Need(key string) *ssa.Function {
	fn := r.e.Fn(key)
	if fn == nil {
		r.Undecided(key, "anchor", "anchor function "+key+" does not resolve in the loaded program")
	}
	return fn
}

func (r *RuleRun) P(in ssa.Instruction) string { return r.e.InstrPos(in) }

var allRules []*Rule

func register(rule *Rule) { allRules = append(allRules, rule) }

// ------------------------------------------------------------------ known findings

type KnownFinding struct {
	Property     string `json:"property"`
	Rule         string `json:"rule"`
	Function     string `json:"function"`
	Construct    string `json:"construct"`
	Status       string `json:"status"` // open | fixed
	Commit       string `json:"commit,omitempty"`
	WhatFails    string `json:"what_fails"`
	Reproduction string `json:"reproduction,omitempty"`
	// Witness: the fingerprint elements this entry covers; a violation with an element that is not listed here
	// is a different way of losing the same obligation and is reported (empty: no fingerprint comparison)
	Witness []string `json:"witness,omitempty"`
}

func loadKnown(path string) ([]KnownFinding, error) {
	b, err := os.ReadFile(path)
	if err != nil {
		if os.IsNotExist(err) {
			return nil, nil
		}
		return nil, err
	}
	var wrap struct {
		Findings []KnownFinding `json:"findings"`
	}
	if err := json.Unmarshal(b, &wrap); err != nil {
		return nil, err
	}
	return wrap.Findings, nil
}

// ------------------------------------------------------------------ running a property

type PropResult struct {
	Property   string
	Obs        []*Ob
	Rules      []string
	Violations []*Ob
	Known      []*Ob
	Stale      []KnownFinding
	FloorFails []string
}

func runProperty(e *Engine, prop string, known []KnownFinding) *PropResult {
	res := &PropResult{Property: prop}
	for _, rule := range allRules {
		serves := false
		for _, p := range rule.Props {
			if p == prop {
				serves = true
			}
		}
		if !serves {
			continue
		}
		res.Rules = append(res.Rules, rule.ID)
		rr := &RuleRun{e: e, rule: rule}
		func() {
			defer func() {
				if x := recover(); x != nil {
					rr.Undecided("-", "panic", fmt.Sprintf("analyser panic in rule %s: %v", rule.ID, x))
				}
			}()
			rule.Run(e, rr)
		}()
		decided := 0
		for _, o := range rr.Obs {
			if o.Status != "undecided" {
				decided++
			}
		}
		if decided < rule.Floor {
			rr.Undecided("-", "floor", fmt.Sprintf("rule %s matched %d instances, fewer than the %d confirmed by hand (vacuity guard)", rule.ID, decided, rule.Floor))
		}
		res.Obs = append(res.Obs, rr.Obs...)
	}
	sort.SliceStable(res.Obs, func(i, j int) bool { return res.Obs[i].Key() < res.Obs[j].Key() })
	matched := map[int]bool{}
	var split []*Ob
	for _, o := range res.Obs {
		if o.Status == "ok" {
			continue
		}
		isKnown := false
		if o.Status == "violation" {
			for i, k := range known {
				if k.Property == prop && k.Status == "open" && k.Rule == o.Rule && k.Function == o.Func && k.Construct == o.Construct {
					if len(k.Witness) > 0 && len(o.Fingerprint) > 0 {
						listed := map[string]bool{}
						for _, w := range k.Witness {
							listed[w] = true
						}
						covered, mark := 0, len(split)
						for _, f := range o.Fingerprint {
							if listed[f] {
								covered++
								continue
							}
							// the same obligation is lost at a place the known finding does not describe
							split = append(split, &Ob{Rule: o.Rule, Func: o.Func, Construct: o.Construct + " @ " + f, Status: "violation",
								Msg: o.Msg + " [lost at a place that the known finding does not cover: " + f + "]", Pos: o.Pos, Witness: o.Witness, Fingerprint: []string{f}})
						}
						if covered == 0 {
							split = split[:mark] // nothing of it is the known finding: reported as it is
							continue
						}
					}
					o.Known = k.WhatFails
					matched[i] = true
					isKnown = true
				}
			}
		}
		if isKnown {
			res.Known = append(res.Known, o)
		} else {
			res.Violations = append(res.Violations, o)
		}
	}
	for _, o := range split {
		res.Obs = append(res.Obs, o)
		res.Violations = append(res.Violations, o)
	}
	for i, k := range known {
		if k.Property == prop && k.Status == "open" && !matched[i] {
			res.Stale = append(res.Stale, k)
		}
	}
	return res
}

// ------------------------------------------------------------------ evidence

type propMeta struct {
	Explanation string
	NotDecided  string
}

func writeEvidence(e *Engine, verifDir string, res *PropResult, tier string, seed int64, wall float64, extra map[string]any) error {
	ok, bad, und := 0, 0, 0
	distinct := map[string]bool{}
	for _, o := range res.Obs {
		switch o.Status {
		case "ok":
			ok++
		case "violation":
			bad++
		default:
			und++
		}
		if o.Status != "undecided" {
			distinct[o.Key()] = true
		}
	}
	var samples []any
	// a few written-out obligations: all non-ok first, then a spread of ok ones
	for _, o := range res.Obs {
		if o.Status != "ok" && len(samples) < 12 {
			samples = append(samples, o)
		}
	}
	step := len(res.Obs)/8 + 1
	for i := 0; i < len(res.Obs) && len(samples) < 20; i += step {
		if res.Obs[i].Status == "ok" {
			samples = append(samples, res.Obs[i])
		}
	}
	meta := propMetas[res.Property]
	cov := map[string]any{
		"explanation":         meta.Explanation + "  NOT DECIDED (no static argument in reach): " + meta.NotDecided,
		"obligations":         len(res.Obs),
		"discharged":          ok,
		"evaluations":         len(res.Obs),
		"distinct_nontrivial": len(distinct),
		"rule":                "an obligation is one rule instance keyed by rule + enclosing function + resolved construct; it is non-trivial when the rule matched a real construct of /repo's current source (an undecided or floor obligation is not counted); distinct = distinct keys",
		"samples":             samples,
		"exhaustive":          true,
		"rules":               res.Rules,
		"analysed": map[string]any{
			"repo": e.Dir, "packages_loaded": e.stats.Packages, "sm_functions": e.stats.Funcs,
			"sm_ssa_instructions": e.stats.Instrs, "sm_calls_resolved": e.stats.CallsResolved, "sm_calls_dynamic": e.stats.CallsDynamic,
		},
		"violations_unlisted": len(res.Violations),
		"known_findings_matched": func() []string {
			var out []string
			for _, o := range res.Known {
				out = append(out, o.Key())
			}
			return out
		}(),
		"known_findings_stale": func() []string {
			var out []string
			for _, k := range res.Stale {
				out = append(out, k.Rule+" | "+k.Function+" | "+k.Construct)
			}
			return out
		}(),
		"trusted_base": []string{"go/types", "golang.org/x/tools v0.29.0 (go/packages, go/ssa)", "reviewed tables in /verif/analyzer/tables.go", "assumptions A1, A2 of DESIGN.md"},
		"checker_cmd":  "./check.sh " + res.Property + " " + tier,
	}
	for k, v := range extra {
		cov[k] = v
	}
	ev := map[string]any{
		"property_id": res.Property,
		"tier":        tier,
		"seed":        seed,
		"level":       "other",
		"coverage":    cov,
		"assumptions": []string{
			"A1: a message handler or hook that returns an error or panics inside DeliverTx leaves no state change (SDK cache-wrap); pairing obligations are required on success paths only, except for BeforeValidatorSlashed and EndBlocker",
			"A2: bank, staking, distribution keepers and the KV store behave as their cosmos-sdk v0.50.4 implementations (end-exclusive ordered iterators, exact transfers)",
			"aliasing: module code does not retain pointers to records across calls other than through types.AllianceValidator's embedded pointers, which are never treated as value-identical",
			"numeric clauses listed under NOT DECIDED are not checked by this machinery",
		},
		"wall_s":     wall,
		"violations": len(res.Violations),
	}
	b, err := json.MarshalIndent(ev, "", " ")
	if err != nil {
		return err
	}
	dir := filepath.Join(verifDir, "evidence")
	os.MkdirAll(dir, 0o755)
	return os.WriteFile(filepath.Join(dir, res.Property+".json"), b, 0o644)
}

// writeViolation writes the replay file of one violation and returns its path.
func writeViolation(verifDir string, prop string, n int, o *Ob, kind string) string {
	dir := filepath.Join(verifDir, "evidence", "violations")
	os.MkdirAll(dir, 0o755)
	p := filepath.Join(dir, fmt.Sprintf("%s-%02d.json", prop, n))
	b, _ := json.MarshalIndent(map[string]any{"property": prop, "kind": kind, "obligation": o,
		"replay": "./bin/alliancecheck -property " + prop + " -explain '" + strings.ReplaceAll(o.Key(), "'", "") + "'"}, "", " ")
	os.WriteFile(p, b, 0o644)
	return p
}
