package main

import (
	"sort"
	"strings"

	"golang.org/x/tools/go/ssa"
)

// Term is the canonical ("same value") form of an SSA value inside one function.
// Two values with equal String() are the same value on every execution of the function
// (under the aliasing assumption stated in DESIGN.md 3.3).
type Term struct {
	Op    string // param const global field call ncall extract binop unop conv list phi index deref out clob mem zero alloc closure override set fv opaque builtin
	Name  string
	Args  []*Term
	Instr ssa.Instruction // for ncall / out / clob / opaque / alloc / phi
	Val   ssa.Value       // originating SSA value when there is one
	s     string
}

func (t *Term) String() string {
	if t == nil {
		return "<nil>"
	}
	if t.s != "" {
		return t.s
	}
	var sb strings.Builder
	switch t.Op {
	case "param":
		sb.WriteString("$" + t.Name)
	case "fv":
		sb.WriteString("^" + t.Name)
	case "const":
		sb.WriteString(t.Name)
	case "global":
		sb.WriteString(t.Name)
	case "field":
		sb.WriteString(t.Args[0].String() + "." + t.Name)
	case "index":
		sb.WriteString(t.Args[0].String() + "[" + t.Args[1].String() + "]")
	case "deref":
		sb.WriteString("*(" + t.Args[0].String() + ")")
	case "extract":
		sb.WriteString(t.Args[0].String() + "#" + t.Name)
	case "binop":
		sb.WriteString("(" + t.Args[0].String() + " " + t.Name + " " + t.Args[1].String() + ")")
	case "unop":
		sb.WriteString(t.Name + "(" + t.Args[0].String() + ")")
	case "conv":
		sb.WriteString(t.Name + "(" + t.Args[0].String() + ")")
	case "list":
		sb.WriteString("[")
		for i, a := range t.Args {
			if i > 0 {
				sb.WriteString(", ")
			}
			sb.WriteString(a.String())
		}
		sb.WriteString("]")
	case "call", "ncall", "builtin":
		sb.WriteString(t.Name)
		if t.Op == "ncall" {
			// identity of an impure call is its instruction, not its arguments
			sb.WriteString("@" + t.Args[len(t.Args)-1].Name) // ordinal kept as last pseudo-arg
			break
		}
		sb.WriteString("(")
		n := len(t.Args)
		if t.Op == "ncall" {
			n--
		}
		for i := 0; i < n; i++ {
			if i > 0 {
				sb.WriteString(", ")
			}
			sb.WriteString(t.Args[i].String())
		}
		sb.WriteString(")")
	case "override":
		sb.WriteString(t.Args[0].String() + "{")
		for i, a := range t.Args[1:] {
			if i > 0 {
				sb.WriteString(", ")
			}
			sb.WriteString(a.Name + ":=" + a.Args[0].String())
		}
		sb.WriteString("}")
	default: // out clob mem zero alloc closure opaque phi
		sb.WriteString(t.Op + "<" + t.Name + ">")
	}
	t.s = sb.String()
	return t.s
}

func (t *Term) Eq(u *Term) bool { return t != nil && u != nil && t.String() == u.String() }

// IsCall reports whether the term is a call (pure or not) of one of the callee keys.
func (t *Term) IsCall(keys ...string) bool {
	if t == nil || (t.Op != "call" && t.Op != "ncall") {
		return false
	}
	for _, k := range keys {
		if t.Name == k {
			return true
		}
	}
	return false
}

// CallArgsT returns the argument terms of a call term (receiver first for methods).
func (t *Term) CallArgsT() []*Term {
	if t.Op == "ncall" {
		return t.Args[:len(t.Args)-1]
	}
	return t.Args
}

// Contains reports whether sub occurs anywhere inside t.
func (t *Term) Contains(sub *Term) bool {
	if t == nil || sub == nil {
		return false
	}
	found := false
	want := sub.String()
	t.Walk(func(x *Term) {
		if x.String() == want {
			found = true
		}
	})
	return found
}

// Walk visits t and every sub-term.
func (t *Term) Walk(f func(*Term)) {
	if t == nil {
		return
	}
	f(t)
	for _, a := range t.Args {
		a.Walk(f)
	}
}

// FindCalls returns all call sub-terms with one of the given callee keys.
func (t *Term) FindCalls(keys ...string) []*Term {
	var out []*Term
	t.Walk(func(x *Term) {
		if x.IsCall(keys...) {
			out = append(out, x)
		}
	})
	return out
}

func mkField(base *Term, name string) *Term {
	// simplifications that preserve value identity
	switch base.Op {
	case "override":
		// exact override of this field
		for _, a := range base.Args[1:] {
			if a.Name == "."+name {
				return a.Args[0]
			}
		}
		// nested overrides below this field
		var sub []*Term
		for _, a := range base.Args[1:] {
			if strings.HasPrefix(a.Name, "."+name+".") || strings.HasPrefix(a.Name, "."+name+"[") {
				sub = append(sub, &Term{Op: "set", Name: a.Name[len(name)+1:], Args: a.Args})
			}
		}
		inner := mkField(base.Args[0], name)
		if len(sub) == 0 {
			return inner
		}
		return &Term{Op: "override", Args: append([]*Term{inner}, sub...)}
	case "call":
		switch base.Name {
		case "sdk.NewCoin", "sdk.NewDecCoinFromDec", "sdk.NewDecCoin", "sdk.NewInt64Coin":
			if len(base.Args) == 2 {
				if name == "Denom" {
					return base.Args[0]
				}
				if name == "Amount" {
					return base.Args[1]
				}
			}
		}
	}
	return &Term{Op: "field", Name: name, Args: []*Term{base}}
}

func (fa *FuncAnalysis) mkPath(base *Term, path []string) *Term {
	t := base
	for _, p := range path {
		if strings.HasPrefix(p, ".") {
			t = mkField(t, p[1:])
		} else { // "[idx]"
			it := fa.idxTerm[p]
			if it == nil {
				it = &Term{Op: "const", Name: p[1 : len(p)-1]}
			}
			t = &Term{Op: "index", Args: []*Term{t, it}}
		}
	}
	return t
}

func sortedInts(m map[int]bool) []int {
	var out []int
	for k := range m {
		out = append(out, k)
	}
	sort.Ints(out)
	return out
}
