package main

import (
	"fmt"
	"strings"

	"golang.org/x/tools/go/ssa"
)

var roundingOps = map[string]bool{"math.LegacyDec.Mul": true, "math.LegacyDec.Quo": true, "math.LegacyDec.QuoRoundUp": true, "math.LegacyDec.MulRoundUp": true,
	"math.LegacyDec.Power": true, "math.LegacyDec.RoundInt": true, "math.LegacyDec.Ceil": true, "math.LegacyDec.QuoRoundup": true, "math.LegacyDec.RoundInt64": true}

func init() {
	register(&Rule{ID: "C13.settle.arrive", Props: []string{"C13", "C12"}, Floor: 4,
		Doc: "every call that adds stake to a position is preceded on every path by a reward settlement of the same validator",
		Run: func(e *Engine, r *RuleRun) {
			for _, c := range e.CallersOf("keeper.Keeper.upsertDelegationWithNewTokens") {
				fn := c.Fn
				fk, fa := FuncKey(fn), e.FA(fn)
				call := c.Instr.(ssa.CallInstruction)
				v := argT(fa, call, 2)
				var settles []ssa.Instruction
				for _, s := range CallsTo(fn, "keeper.Keeper.ClaimValidatorRewards") {
					if argT(fa, s, 1).Eq(v) {
						settles = append(settles, s)
					}
				}
				for _, s := range CallsTo(fn, "keeper.Keeper.ClaimDelegationRewards") {
					if argT(fa, s, 2).Eq(v) {
						settles = append(settles, s)
					}
				}
				// an existing position must be settled by its own claim (which records the current indices in the
				// delegation), not merely by a validator-level settlement: every path that enters through the
				// "delegation found" edge for this validator reaches the upsert only through ClaimDelegationRewards
				var ownClaims []ssa.Instruction
				for _, s := range CallsTo(fn, "keeper.Keeper.ClaimDelegationRewards") {
					if argT(fa, s, 2).Eq(v) && argT(fa, s, 1).Eq(argT(fa, call, 1)) {
						ownClaims = append(ownClaims, s)
					}
				}
				checkedFound := false
				for _, b := range fn.Blocks {
					for i := range b.Succs {
						g, ok := fa.EdgeFact(b, i)
						if !ok || !g.Pos || g.Cond.Op != "extract" || g.Cond.Name != "1" || !g.Cond.Args[0].IsCall("keeper.Keeper.GetDelegation") {
							continue
						}
						a := g.Cond.Args[0].CallArgsT()
						va := a[3]
						sameVal := (va.Op == "extract" && va.Args[0].IsCall("types.AllianceValidator.GetValAddress") && va.Args[0].CallArgsT()[0].Eq(v))
						if !sameVal || !a[2].Eq(argT(fa, call, 1)) {
							continue
						}
						succ := b.Succs[i]
						if len(succ.Instrs) == 0 || !fa.blockReaches(succ, call.Block()) {
							continue
						}
						checkedFound = true
						via := ownClaims
						var trail []string
						if len(via) == 0 {
							trail = []string{"no ClaimDelegationRewards for this position in the function"}
						} else if first := succ.Instrs[0]; !containsInstr(via, first) {
							trail = fa.MustPassThrough(first, call, via)
						}
						if trail != nil {
							r.Bad(fk, "existing position on "+v.String()+" is settled by its own claim before it grows", "stake can be added to an existing position without ClaimDelegationRewards having recorded the validator's current indices in it (only the validator-level settlement ran): the next claim pays the whole index delta on the enlarged stake, i.e. rewards that accrued before the new stake arrived", trail, r.P(call))
						} else {
							r.OK(fk, "existing position on "+v.String()+" is settled by its own claim before it grows", "every path from `delegation found` to the upsert passes ClaimDelegationRewards", r.P(call))
						}
					}
				}
				if !checkedFound && fk != "keeper.Keeper.InitGenesis" {
					r.Bad(fk, "existing position on "+v.String()+" is settled by its own claim before it grows", "no `delegation found` test for the position that receives stake", nil, r.P(call))
				}
				construct := "settle before adding stake to " + v.String()
				if trail := fa.MustPassThrough(nil, call, settles); trail != nil || len(settles) == 0 {
					r.Bad(fk, construct, "stake is added to a position on a path that did not first settle the validator's pending rewards (ClaimValidatorRewards / ClaimDelegationRewards for the same validator): rewards accrued before the stake arrived become payable to it", trail, r.P(call))
				} else {
					r.OK(fk, construct, "every path to upsertDelegationWithNewTokens passes a settlement of the same validator", r.P(call))
				}
			}
		}})

	register(&Rule{ID: "C13.settle.leave", Props: []string{"C13", "C08"}, Floor: 2,
		Doc: "every call that removes stake from a position is preceded by the claim for that delegation and uses the delegation re-read after the claim",
		Run: func(e *Engine, r *RuleRun) {
			for _, c := range e.CallersOf("keeper.Keeper.reduceDelegationShares") {
				fn := c.Fn
				fk, fa := FuncKey(fn), e.FA(fn)
				call := c.Instr.(ssa.CallInstruction)
				del, val, coin, dlg := argT(fa, call, 1), argT(fa, call, 2), argT(fa, call, 3), argT(fa, call, 5)
				var claims []ssa.Instruction
				for _, s := range CallsTo(fn, "keeper.Keeper.ClaimDelegationRewards") {
					if argT(fa, s, 1).Eq(del) && argT(fa, s, 2).Eq(val) && argT(fa, s, 3).Eq(mkField(coin, "Denom")) {
						claims = append(claims, s)
					}
				}
				construct := "claim before removing stake from " + val.String()
				if trail := fa.MustPassThrough(nil, call, claims); trail != nil || len(claims) == 0 {
					r.Bad(fk, construct, "stake is removed from a position without first claiming its rewards (the entitlement accrued on the removed stake is lost or mis-priced)", trail, r.P(call))
				} else {
					r.OK(fk, construct, "every path passes ClaimDelegationRewards(delegator, validator, coin.Denom)", r.P(call))
				}
				okD := dlg.Op == "extract" && dlg.Name == "0" && dlg.Args[0].IsCall("keeper.Keeper.GetDelegation")
				if okD {
					g := dlg.Args[0].Instr
					okD = false
					for _, cl := range claims {
						if fa.Dominates(cl, g) {
							okD = true
						}
					}
				}
				r.Check(okD, fk, "delegation re-read after the claim ("+val.String()+")", "reduceDelegationShares receives the GetDelegation result loaded after the claim", "the delegation passed to reduceDelegationShares was loaded before the claim updated its reward history (the claim's update would be overwritten)", r.P(call))
			}
		}})

	register(&Rule{ID: "C13.newhistory", Props: []string{"C13", "C12"}, Floor: 5,
		Doc: "a new delegation starts from the validator's current reward history",
		Run: func(e *Engine, r *RuleRun) {
			fn := r.Need("keeper.Keeper.upsertDelegationWithNewTokens")
			if fn == nil {
				return
			}
			fk, fa := FuncKey(fn), e.FA(fn)
			nd := r.One(fn, "new delegation", "types.NewDelegation")
			if nd == nil {
				return
			}
			h := argT(fa, nd, 5)
			ok := h.Op == "field" && h.Name == "GlobalRewardHistory" && strings.Contains(h.String(), "$validator")
			r.Check(ok, fk, "new position starts at the validator's current index", "RewardHistory := validator.GlobalRewardHistory", "a new delegation's reward history is "+h.String()+" instead of the validator's current history: it could claim rewards that accrued before it existed", r.P(nd))
			okG := fa.HasGuard(nd, func(g Guard) bool {
				return !g.Pos && g.Cond.Op == "extract" && g.Cond.Name == "1" && g.Cond.Args[0].IsCall("keeper.Keeper.GetDelegation")
			})
			r.Check(okG, fk, "new record only when none exists", "NewDelegation on the not-found branch", "an existing delegation can be replaced by a fresh one", r.P(nd))
			// the existing branch adds the new shares to the stored ones
			sts := StoresToField(fn, "types.Delegation", "Shares")
			okS := len(sts) == 1
			if okS {
				v := fa.Term(sts[0].Val)
				okS = v.IsCall("math.LegacyDec.Add") && strings.HasSuffix(v.Args[0].String(), ".Shares") && v.Args[1].IsCall("types.GetDelegationSharesFromTokens")
			}
			r.Check(okS, fk, "existing position grows by the new shares", "Shares := Shares.Add(newShares)", "the existing delegation's shares are not increased by exactly the newly computed shares", e.Pos(fn.Pos()))
			// the constructor stores what it was given
			if cfn := r.Need("types.NewDelegation"); cfn != nil {
				cfa := e.FA(cfn)
				cl := Complits(cfn, "types.Delegation")
				if len(cl) != 1 {
					r.Bad(FuncKey(cfn), "constructor stores its arguments", "types.NewDelegation no longer builds the record from one composite literal: cannot decide that the reward history handed in is the one stored", nil, e.Pos(cfn.Pos()))
				} else {
					f := complitFields(cfa, cl[0])
					want := map[string]string{"RewardHistory": "$rewardHistory", "Shares": "$shares", "Denom": "$denom"}
					for name, w := range want {
						got := "<unset>"
						if t, ok := f[name]; ok {
							got = t.String()
						}
						r.Check(got == w, FuncKey(cfn), "constructor stores its arguments: "+name, name+" := "+w, "types.NewDelegation stores "+got+" as "+name+" instead of the argument "+w+": a new position would not start from the full reward history (or share amount) its caller computed, e.g. legacy reward indices missing from the record count as zero and are paid out again", e.Pos(cfn.Pos()))
					}
				}
			}
		}})

	register(&Rule{ID: "C13.idempotent", Props: []string{"C13", "C12", "C05"}, Floor: 7,
		Doc: "ClaimDelegationRewards overwrites history and height, persists, then pays exactly the calculated amount from the rewards pool",
		Run: func(e *Engine, r *RuleRun) {
			fn := r.Need("keeper.Keeper.ClaimDelegationRewards")
			if fn == nil {
				return
			}
			fk, fa := FuncKey(fn), e.FA(fn)
			calc := r.One(fn, "calculate", "keeper.Keeper.CalculateDelegationRewards")
			pay := r.One(fn, "payout", "types.BankKeeper.SendCoinsFromModuleToAccount")
			set := r.One(fn, "persist delegation", "keeper.Keeper.SetDelegation")
			if calc == nil || pay == nil || set == nil {
				return
			}
			r.Check(moduleName(argT(fa, pay, 1)) == "alliance_rewards", fk, "paid from the rewards pool", "SendCoinsFromModuleToAccount(alliance_rewards, ...)", "rewards are paid from "+argT(fa, pay, 1).String(), r.P(pay))
			r.Check(argT(fa, pay, 3).Eq(extractT(fa, calc, 0)), fk, "amount paid == calculated entitlement", "first result of CalculateDelegationRewards", "amount paid ("+argT(fa, pay, 3).String()+") is not the calculated entitlement", r.P(pay))
			r.Check(argT(fa, pay, 2).Op == "param", fk, "paid to the delegator parameter", "delAddr", "paid to "+argT(fa, pay, 2).String(), r.P(pay))
			d := argT(fa, set, 4)
			base, hist := ovrGet(d, ".RewardHistory")
			_, hgt := ovrGet(d, ".LastRewardClaimHeight")
			r.Check(hist != nil && hist.Eq(extractT(fa, calc, 1)), fk, "history overwritten with the calculated indices", "delegation.RewardHistory := second result of CalculateDelegationRewards", "the delegation's reward history is not replaced by the indices the payout was calculated against (a second claim would pay again)", r.P(set))
			r.Check(hgt != nil && hgt.Op == "conv" && hgt.Args[0].IsCall("sdk.Context.BlockHeight"), fk, "claim height recorded", "LastRewardClaimHeight := BlockHeight", "the claim height is not updated to the current height (old weight snapshots would be applied again)", r.P(set))
			dl := argT(fa, calc, 1)
			okL := dl.Op == "extract" && dl.Args[0].IsCall("keeper.Keeper.GetDelegation") && base.Eq(dl)
			if okL {
				a := dl.Args[0].CallArgsT()
				okL = a[2].Op == "param" && a[4].Op == "param" && a[3].Eq(argT(fa, set, 2)) && a[2].Eq(argT(fa, set, 1)) && a[4].Eq(argT(fa, set, 3))
			}
			r.Check(okL, fk, "same delegation calculated, updated and persisted", "GetDelegation(delAddr, valAddr, denom) -> Calculate -> SetDelegation under the same key", "the delegation that is persisted is not the one the payout was calculated for, or it is stored under another key", r.P(set))
			// a settlement must always advance the position's indices, also when it pays nothing: callers (Delegate,
			// Redelegate, Undelegate, the slash callback) rely on it before they change the position's shares
			if trail := fa.MustFollow(calc, []ssa.Instruction{set}); trail != nil {
				r.Bad(fk, "every successful settlement records the current indices", "ClaimDelegationRewards can return successfully after calculating the entitlement without storing the validator's current indices in the delegation (e.g. when the payout rounds to zero): the stale indices are later multiplied by a changed stake, so the position can claim rewards that accrued to other stake and the pool runs dry for honest delegators", trail, r.P(calc))
			} else {
				r.OK(fk, "every successful settlement records the current indices", "every success exit after the calculation passes SetDelegation(updated history)", r.P(set))
			}
			r.Check(fa.Dominates(set, pay), fk, "history persisted before payout", "SetDelegation dominates the transfer", "the payout can happen without the updated history being persisted", r.P(pay))
			// the converse: what was recorded as settled is paid (the transfer of an empty entitlement is a no-op of the
			// bank, not a reason to skip the call)
			if trail := fa.MustFollow(set, []ssa.Instruction{pay}); trail != nil {
				r.Bad(fk, "recorded settlement is paid", "ClaimDelegationRewards can return successfully after storing the current indices in the delegation without paying the calculated entitlement: the rewards stay in the pool and the position can never claim them", trail, r.P(set))
			} else {
				r.OK(fk, "recorded settlement is paid", "every success path after SetDelegation(updated history) passes the transfer from the rewards pool", r.P(pay))
			}
			sv := CallsTo(fn, "keeper.Keeper.ClaimValidatorRewards")
			okV := false
			for _, c := range sv {
				if fa.Dominates(c, calc) && argT(fa, c, 1).Eq(argT(fa, calc, 2)) {
					okV = true
				}
			}
			r.Check(okV, fk, "validator settled before calculating", "ClaimValidatorRewards(val) dominates CalculateDelegationRewards(.., val, ..)", "the entitlement is calculated without first pulling the validator's pending rewards into the index", r.P(calc))
			// calculate returns the validator's current history for the asset
			if cf := r.Need("keeper.Keeper.CalculateDelegationRewards"); cf != nil {
				cfa := e.FA(cf)
				ok := true
				for _, ret := range cfa.SuccessExits() {
					t := cfa.Term(ret.Results[1])
					if !(t.IsCall("types.RewardHistories.GetIndexByAlliance") && strings.Contains(t.String(), "GlobalRewardHistory") && strings.Contains(t.String(), "$val")) {
						ok = false
					}
				}
				r.Check(ok, FuncKey(cf), "returns the validator's current indices", "second result = NewRewardHistories(val.GlobalRewardHistory).GetIndexByAlliance(asset.Denom)", "the indices handed back for storage are not the validator's current ones", e.Pos(cf.Pos()))
			}
		}})

	register(&Rule{ID: "C13.neutral", Props: []string{"C13", "C04"}, Floor: 1,
		Doc: "claiming writes no share or token ledger field",
		Run: func(e *Engine, r *RuleRun) {
			fn := r.Need("keeper.Keeper.ClaimDelegationRewards")
			if fn == nil {
				return
			}
			banned := map[string]bool{"Delegation.Shares": true, "AllianceValidatorInfo.TotalDelegatorShares": true, "AllianceValidatorInfo.ValidatorShares": true,
				"AllianceAsset.TotalTokens": true, "AllianceAsset.TotalValidatorShares": true}
			bad := false
			for _, f := range e.Reach(fn) {
				for _, a := range e.DirectAtoms(f) {
					if a.Kind == "fieldwrite" && banned[a.Name] && !isInitStore(e.FA(f), a.Instr.(*ssa.Store)) {
						r.Bad(FuncKey(fn), "writes "+a.Name, "the call tree of a reward claim writes "+a.Name+" in "+FuncKey(f)+": claiming must not change any staked value", nil, r.P(a.Instr))
						bad = true
					}
				}
				for _, c := range Calls(f) {
					switch CalleeKey(c.Common()) {
					case "types.AllianceValidator.AddShares", "types.AllianceValidator.ReduceShares", "keeper.Keeper.updateValidatorShares", "keeper.Keeper.reduceDelegationShares", "keeper.Keeper.upsertDelegationWithNewTokens":
						r.Bad(FuncKey(fn), "calls "+CalleeKey(c.Common()), "the call tree of a reward claim mutates shares through "+CalleeKey(c.Common())+" in "+FuncKey(f), nil, r.P(c))
						bad = true
					}
				}
			}
			if !bad {
				r.OK(FuncKey(fn), "no share/token ledger write", fmt.Sprintf("%d functions in the call tree scanned", len(e.Reach(fn))))
			}
		}})

	register(&Rule{ID: "C12.backed", Props: []string{"C12", "C13", "C01", "C11"}, Floor: 6,
		Doc: "index increments are backed by the coins forwarded to the rewards pool; forwarded coins are exactly what distribution paid for that validator",
		Run: func(e *Engine, r *RuleRun) {
			if fn := r.Need("keeper.Keeper.AddAssetsToRewardPool"); fn != nil {
				fk, fa := FuncKey(fn), e.FA(fn)
				sends := CallsTo(fn, "types.BankKeeper.SendCoinsFromAccountToModule")
				sv := r.One(fn, "persist indices", "keeper.Keeper.SetValidator")
				if len(sends) == 0 {
					r.Bad(fk, "forward to rewards pool", "AddAssetsToRewardPool no longer forwards the coins to the rewards pool", nil, e.Pos(fn.Pos()))
				}
				if len(sends) > 0 && sv != nil {
					// every forward (the indexed one and the "nobody to index to" one) moves exactly the coins parameter
					// from the from parameter into the rewards pool
					for _, send := range sends {
						r.Check(moduleName(argT(fa, send, 2)) == "alliance_rewards", fk, "recipient is the rewards pool", "alliance_rewards", "coins are forwarded to "+argT(fa, send, 2).String(), r.P(send))
						r.Check(argT(fa, send, 3).Op == "param" && argT(fa, send, 3).Name == "coins", fk, "coins forwarded == coins indexed", "the coins parameter is sent unchanged", "the coins forwarded ("+argT(fa, send, 3).String()+") are not the coins parameter the indices were computed from", r.P(send))
						r.Check(argT(fa, send, 1).Op == "param", fk, "sender is the from parameter", "from", "sender is "+argT(fa, send, 1).String(), r.P(send))
					}
					// whatever was withdrawn into `from` leaves it again: no success exit without a forward (coins that stay in
					// the alliance module account are counted as custody, and staking-denom coins there are burnt by the sweep)
					if trail := fa.EntryMustPass(callsAsInstrs(sends)); trail != nil {
						r.Bad(fk, "every success path forwards the coins", "AddAssetsToRewardPool can return success without moving the coins out of the sender account: rewards that ClaimValidatorRewards withdrew into the alliance module account stay there (custody exceeds what is owed; staking-denom coins are burnt by the next end-of-block sweep)", trail, e.Pos(fn.Pos()))
					} else {
						r.OK(fk, "every success path forwards the coins", "every success exit passes a transfer to the rewards pool", e.Pos(fn.Pos()))
					}
					if trail := fa.MustFollow(sv, callsAsInstrs(sends)); trail != nil {
						r.Bad(fk, "indices persisted => coins forwarded", "a success path persists increased reward indices without moving the coins into the rewards pool (entitlements exceed the pool)", trail, r.P(sv))
					} else {
						r.OK(fk, "indices persisted => coins forwarded", "every success path after SetValidator passes the transfer", r.P(sends[0]))
					}
					// the converse: coins are forwarded without persisted indices only when there is nobody to index them to
					// (the reward-weight sum of the validator is zero); otherwise the coins sit in the pool unclaimable
					for _, send := range sends {
						if fa.MustPassThrough(nil, send, []ssa.Instruction{sv}) == nil {
							continue
						}
						zero := false
						for _, g := range fa.GuardsOf(send) {
							if g.Pos && g.Cond.IsCall("math.LegacyDec.IsZero") {
								zero = true
							}
							// no delegator shares on the validator at all
							if g.Pos && g.Cond.Op == "binop" && g.Cond.Name == "==" && len(g.Cond.Args) == 2 && g.Cond.Args[1].Op == "const" && g.Cond.Args[1].Name == "0" && strings.Contains(g.Cond.Args[0].String(), "TotalDelegatorShares") {
								zero = true
							}
						}
						if zero {
							r.OK(fk, "coins forwarded => indices persisted", "forward without index update only under `weight sum is zero` / `no delegator shares`", r.P(send))
						} else {
							r.Bad(fk, "coins forwarded => indices persisted", "the coins can be moved into the rewards pool on a path that did not persist the increased reward indices (and is not one of the `nobody to index to` exits: no delegator shares, or a zero weight sum): the pool holds rewards that no position can claim", fa.MustPassThrough(nil, send, []ssa.Instruction{sv}), r.P(send))
						}
					}
					// increments derive from the coins parameter
					n := 0
					okAll := true
					for _, st := range StoresToField(fn, "types.RewardHistory", "Index") {
						n++
						v := fa.Term(st.Val)
						if !strings.Contains(v.String(), "$coins[") {
							okAll = false
							r.Bad(fk, "index increment derives from the forwarded coins", "an index is set to a value that does not derive from the coins parameter: "+v.String(), nil, r.P(st))
						}
					}
					if okAll {
						r.Check(n >= 2, fk, "index increment derives from the forwarded coins", fmt.Sprintf("%d index stores, each a function of coins[i].Amount", n), "index stores not found")
					}
				}
			}
			if fn := r.Need("keeper.Keeper.ClaimValidatorRewards"); fn != nil {
				fk, fa := FuncKey(fn), e.FA(fn)
				wd := r.One(fn, "withdraw", "types.DistributionKeeper.WithdrawDelegationRewards")
				add := r.One(fn, "index and forward", "keeper.Keeper.AddAssetsToRewardPool")
				if wd != nil && add != nil {
					r.Check(argT(fa, add, 3).Eq(extractT(fa, wd, 0)), fk, "forwards exactly what distribution paid", "coins = first result of WithdrawDelegationRewards", "the coins indexed ("+argT(fa, add, 3).String()+") are not the coins withdrawn from distribution", r.P(add))
					ma := argT(fa, wd, 1)
					r.Check(ma.IsCall("types.AccountKeeper.GetModuleAddress") && moduleName(ma.Args[1]) == "alliance" && argT(fa, add, 1).Eq(ma), fk, "withdrawn by and forwarded from the module address", "GetModuleAddress(alliance) both times", "withdraw delegator "+ma.String()+" / forward sender "+argT(fa, add, 1).String(), r.P(wd))
					va := argT(fa, wd, 2)
					okV := va.Op == "extract" && va.Args[0].IsCall("sdk.ValAddressFromBech32") && strings.Contains(va.String(), "$val") && argT(fa, add, 2).Op == "param"
					r.Check(okV, fk, "same validator withdrawn and indexed", "address parsed from the val parameter; val passed on", "withdraws for "+va.String()+" but indexes "+argT(fa, add, 2).String(), r.P(wd))
					if trail := fa.MustFollow(wd, []ssa.Instruction{add}); trail != nil {
						// zero coins exit is allowed: nothing withdrawn
						prune := func(g Guard) bool { return g.Pos && g.Cond.IsCall("sdk.Coins.IsZero") }
						if trail2 := fa.mustReachPruned(wd, []ssa.Instruction{add}, func(ret *ssa.Return) bool { return !fa.IsErrorExit(ret) }, prune); trail2 != nil {
							r.Bad(fk, "withdrawn coins are indexed", "coins withdrawn from distribution can stay in the module account without being indexed and forwarded", trail2, r.P(wd))
						} else {
							r.OK(fk, "withdrawn coins are indexed", "every success path after a non-empty withdrawal passes AddAssetsToRewardPool", r.P(add))
						}
					} else {
						r.OK(fk, "withdrawn coins are indexed", "every success path after the withdrawal passes AddAssetsToRewardPool", r.P(add))
					}
				}
			}
		}})

	register(&Rule{ID: "C13.claimsettles", Props: []string{"C13"}, Floor: 1,
		Doc: "a delegation claim settles the validator on every success path (callers that grow or shrink an existing position rely on it)",
		Run: func(e *Engine, r *RuleRun) {
			fn := r.Need("keeper.Keeper.ClaimDelegationRewards")
			if fn == nil {
				return
			}
			fk, fa := FuncKey(fn), e.FA(fn)
			var via []ssa.Instruction
			for _, c := range CallsTo(fn, "keeper.Keeper.ClaimValidatorRewards") {
				if argT(fa, c, 1).String() == "$val" {
					via = append(via, c)
				}
			}
			if len(via) == 0 {
				r.Bad(fk, "every successful claim settles the validator", "ClaimDelegationRewards no longer calls ClaimValidatorRewards(val)", nil, e.Pos(fn.Pos()))
				return
			}
			if trail := fa.EntryMustPass(via); trail != nil {
				r.Bad(fk, "every successful claim settles the validator", "ClaimDelegationRewards can return success without having pulled the validator's pending rewards (ClaimValidatorRewards): Delegate, Redelegate and Undelegate use this call as THE settlement before they change an existing position, so stake added on such a path is recorded against the old indices and later shares in rewards that accrued before it existed", trail, r.P(via[0]))
			} else {
				r.OK(fk, "every successful claim settles the validator", "every success path passes ClaimValidatorRewards(val)", r.P(via[0]))
			}
		}})

	register(&Rule{ID: "C13.pull", Props: []string{"C13", "C12", "C11", "C01"}, Floor: 1,
		Doc: "settling a validator always pulls its pending rewards from x/distribution, unless the module holds no delegation on it",
		Run: func(e *Engine, r *RuleRun) {
			fn := r.Need("keeper.Keeper.ClaimValidatorRewards")
			if fn == nil {
				return
			}
			fk, fa := FuncKey(fn), e.FA(fn)
			wd := r.One(fn, "withdraw", "types.DistributionKeeper.WithdrawDelegationRewards")
			if wd == nil {
				return
			}
			// exempt: the staking lookup of the module's own delegation on this validator failed (nothing can be pending)
			prune := func(g Guard) bool {
				if g.Cond.Op != "binop" || !g.Pos || g.Cond.Name != "!=" {
					return false
				}
				a := g.Cond.Args[0]
				if a.Op != "extract" || !a.Args[0].IsCall("types.StakingKeeper.GetDelegation") {
					return false
				}
				c := a.Args[0]
				return len(c.Args) >= 4 && c.Args[2].IsCall("types.AccountKeeper.GetModuleAddress") && c.Args[3].Eq(argT(fa, wd, 2))
			}
			first := fn.Blocks[0].Instrs[0]
			if trail := fa.mustReachPruned(first, []ssa.Instruction{wd}, func(ret *ssa.Return) bool { return !fa.IsErrorExit(ret) }, prune); trail != nil {
				r.Bad(fk, "pending rewards are pulled on every success path", "ClaimValidatorRewards can return success without withdrawing the validator's pending rewards from x/distribution although the module holds a delegation on it: every caller relies on this call to fold pending rewards into the indices before stake or weight changes, so rewards earned before the change are later split over the positions that exist after it", trail, r.P(wd))
			} else {
				r.OK(fk, "pending rewards are pulled on every success path", "only exit without a withdrawal: x/staking has no delegation of the module on this validator", r.P(wd))
			}
		}})

	register(&Rule{ID: "C12.round", Props: []string{"C12", "C05"}, Floor: 4,
		Doc: "entitlement-side fixed-point operations truncate (never round up)",
		Run: func(e *Engine, r *RuleRun) {
			report := func(fk string, where string, t *Term, pos string) {
				seen := map[string]bool{}
				count := map[string]int{}
				t.Walk(func(x *Term) {
					if (x.Op == "call") && roundingOps[x.Name] {
						count[x.Name]++
						c := fmt.Sprintf("round:%s#%d [%s]", x.Name, count[x.Name], where)
						seen[c] = true
						p := pos
						if x.Instr != nil {
							p = e.InstrPos(x.Instr)
						}
						r.Bad(fk, c, "a rounding (half-up) fixed-point operation on the entitlement side: the index or payout can be rounded above what the pool received, so claims can exceed the pool ("+x.Name+" should be the truncating variant)", nil, p)
					}
				})
				if len(seen) == 0 {
					r.OK(fk, "round:none ["+where+"]", "only truncating operations on this value", pos)
				}
			}
			if fn := r.Need("keeper.Keeper.AddAssetsToRewardPool"); fn != nil {
				fa := e.FA(fn)
				done := false
				for _, st := range StoresToField(fn, "types.RewardHistory", "Index") {
					if done {
						break
					}
					v := fa.Term(st.Val)
					// the increment is the value itself (new entry) or the addend (existing entry)
					if v.IsCall("math.LegacyDec.Add") {
						v = v.Args[1]
					}
					report(FuncKey(fn), "index increment", v, r.P(st))
					done = true
				}
				if !done {
					r.Bad(FuncKey(fn), "index increment", "no store to RewardHistory.Index found", nil)
				}
			}
			if fn := r.Need("keeper.accumulateRewards"); fn != nil {
				fa := e.FA(fn)
				found := false
				for _, c := range CallsTo(fn, "sdk.NewCoin") {
					amt := argT(fa, c, 1)
					found = true
					r.Check(amt.IsCall("math.LegacyDec.TruncateInt"), FuncKey(fn), "payout converted by truncation", "TruncateInt", "the payout is converted to integer coins by "+amt.Name+" instead of truncation", r.P(c))
					if amt.IsCall("math.LegacyDec.TruncateInt") {
						report(FuncKey(fn), "payout", amt.Args[0], r.P(c))
					}
				}
				if !found {
					r.Bad(FuncKey(fn), "payout", "no payout coin construction found", nil)
				}
			}
		}})
}
