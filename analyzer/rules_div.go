package main

import (
	"fmt"
	"go/constant"
	"go/token"
	"go/types"
	"sort"
	"strings"

	"golang.org/x/tools/go/ssa"
)

var decDivMethods = map[string]bool{"math.LegacyDec.Quo": true, "math.LegacyDec.QuoInt": true, "math.LegacyDec.QuoInt64": true, "math.LegacyDec.QuoTruncate": true,
	"math.LegacyDec.QuoRoundUp": true, "math.LegacyDec.QuoRoundup": true, "math.Int.Quo": true, "math.Int.Mod": true, "math.Int.QuoRaw": true, "math.Int.ModRaw": true}

type divSite struct {
	fn    *ssa.Function
	instr ssa.Instruction
	div   *Term
	what  string
}

func (e *Engine) divSites(fn *ssa.Function) []divSite {
	fa := e.FA(fn)
	var out []divSite
	for _, b := range fn.Blocks {
		for _, in := range b.Instrs {
			switch x := in.(type) {
			case *ssa.BinOp:
				if x.Op != token.QUO && x.Op != token.REM {
					continue
				}
				if bt, ok := x.X.Type().Underlying().(*types.Basic); !ok || bt.Info()&types.IsInteger == 0 {
					continue
				}
				if c, ok := x.Y.(*ssa.Const); ok && c.Value != nil && c.Value.ExactString() != "0" {
					continue
				}
				out = append(out, divSite{fn, in, fa.Term(x.Y), "integer " + x.Op.String()})
			case ssa.CallInstruction:
				k := CalleeKey(x.Common())
				if decDivMethods[k] {
					args := CallArgs(x.Common())
					if len(args) == 1 {
						out = append(out, divSite{fn, in, fa.Term(args[0]), k})
					}
				}
			}
		}
	}
	return out
}

// subst rebuilds t with parameters replaced by argument terms.
func subst(t *Term, m map[string]*Term) *Term {
	if t == nil {
		return nil
	}
	if t.Op == "param" {
		if a, ok := m[t.Name]; ok {
			return a
		}
		return t
	}
	if len(t.Args) == 0 {
		return t
	}
	args := make([]*Term, len(t.Args))
	changed := false
	for i, a := range t.Args {
		args[i] = subst(a, m)
		if args[i] != a {
			changed = true
		}
	}
	if !changed {
		return t
	}
	if t.Op == "field" {
		return mkField(args[0], t.Name)
	}
	return &Term{Op: t.Op, Name: t.Name, Args: args, Instr: t.Instr, Val: t.Val}
}

// helperFacts expands a guard that is a call of an in-scope boolean helper whose body is an || / && chain:
// !(a || b || c) gives !a, !b, !c ; (a && b && c) gives a, b, c  (one level, parameters substituted).
func (e *Engine) helperFacts(g Guard) []Rel {
	var out []Rel
	for _, hg := range e.helperGuards(g) {
		out = append(out, relsOf(hg)...)
	}
	return out
}

// helperGuards: the branch facts that the outcome g of a boolean helper call implies (parameters substituted by
// the call's arguments); `return !(a && b)` is the same as `return !a || !b`.
func (e *Engine) helperGuards(g Guard) []Guard {
	c := g.Cond
	if c.Op != "ncall" && c.Op != "call" {
		return nil
	}
	call, ok := c.Instr.(ssa.CallInstruction)
	if !ok {
		return nil
	}
	fn := Devirt(call.Common())
	if fn == nil || fn.Blocks == nil || fn.Pkg == nil || !smPkgs[fn.Pkg.Pkg.Path()] {
		return nil
	}
	if fn.Signature.Results().Len() != 1 || !types.Identical(fn.Signature.Results().At(0).Type(), types.Typ[types.Bool]) {
		return nil
	}
	rets := Returns(fn)
	hfa := e.FA(fn)
	if len(rets) > 1 {
		// early-return style (`if a { return true }; if b { return true }; return c`): when exactly one return can
		// give the outcome we know, the guards that dominate it hold, and so does what its own value implies
		var cand []*ssa.Return
		for _, r := range rets {
			if k, isC := r.Results[0].(*ssa.Const); isC {
				if (k.Value.ExactString() == "true") == g.Pos {
					cand = append(cand, r)
				}
				continue
			}
			cand = append(cand, r)
		}
		if len(cand) != 1 {
			return nil
		}
		rets = cand
	}
	if len(rets) != 1 {
		return nil
	}
	m := map[string]*Term{}
	args := c.CallArgsT()
	for i, p := range fn.Params {
		if i < len(args) {
			m[reviewedParamName(p)] = args[i]
		}
	}
	var guards []Guard
	guards = append(guards, hfa.GuardsOf(rets[0])...)
	v := rets[0].Results[0]
	if _, isC := v.(*ssa.Const); isC {
		var out []Guard
		for _, hg := range guards {
			hg.Cond = subst(hg.Cond, m)
			out = append(out, hg)
		}
		return out
	}
	for {
		u, isNot := v.(*ssa.UnOp)
		if !isNot || u.Op != token.NOT {
			break
		}
		v = u.X
		g.Pos = !g.Pos
	}
	if phi, isPhi := v.(*ssa.Phi); isPhi {
		// the edge that carries a non-constant value is the end of the chain
		for i, ed := range phi.Edges {
			if _, isC := ed.(*ssa.Const); isC {
				// constant edges must be the short-circuit value: true for ||, false for &&
				cv := ed.(*ssa.Const).Value.ExactString()
				if (cv == "true") == g.Pos {
					return nil // the polarity we know is the short-circuit one: nothing can be concluded
				}
				continue
			}
			pred := phi.Block().Preds[i]
			guards = append(guards, hfa.GuardsOfBlock(pred)...)
			if len(pred.Succs) == 2 {
				for si, s := range pred.Succs {
					if s == phi.Block() {
						if eg, ok := hfa.EdgeFact(pred, si); ok {
							guards = append(guards, eg)
						}
					}
				}
			}
			t := hfa.Term(ed)
			pos := g.Pos
			for t.Op == "unop" && t.Name == "!" {
				t = t.Args[0]
				pos = !pos
			}
			guards = append(guards, Guard{Cond: t, Pos: pos})
		}
	} else {
		t := hfa.Term(v)
		pos := g.Pos
		for t.Op == "unop" && t.Name == "!" {
			t = t.Args[0]
			pos = !pos
		}
		guards = append(guards, Guard{Cond: t, Pos: pos})
	}
	var out []Guard
	for _, hg := range guards {
		hg.Cond = subst(hg.Cond, m)
		out = append(out, hg)
	}
	return out
}

// nonZeroAt: facts at `in` imply d != 0.
func (e *Engine) nonZeroAt(fa *FuncAnalysis, in ssa.Instruction, d *Term) (bool, string) {
	ds := constName(d)
	var facts []Rel
	for _, g := range fa.GuardsOf(in) {
		facts = append(facts, relsOf(g)...)
		facts = append(facts, e.helperFacts(g)...)
	}
	for _, f := range facts {
		for _, q := range []Rel{{A: ds, Op: "!=", B: "0"}, {A: ds, Op: ">", B: "0"}, {A: ds, Op: "<", B: "0"}} {
			if relImplies(f, q) {
				return true, f.String()
			}
		}
	}
	return false, ""
}

// divisorTable: sites accepted with a stated reason (DESIGN 3.8 (c)).
var divisorTable = map[string]string{
	"keeper.Keeper.AddAssetsToRewardPool | math.LegacyDec.Quo / types.AllianceValidator.TotalTokensWithAsset": "same computation val.TotalTokensWithAsset(asset) as the one tested non-zero by shouldSkipRewardsToAsset in the same iteration, with no write to the validator or the asset in between",
}

func divRule(id string, props []string, floor int, entries []string, doc string) {
	register(&Rule{ID: id, Props: props, Floor: floor, Doc: doc, Run: func(e *Engine, r *RuleRun) {
		seen := map[ssa.Instruction]bool{}
		var fns []*ssa.Function
		for _, ek := range entries {
			fn := r.Need(ek)
			if fn == nil {
				continue
			}
			fns = append(fns, e.Reach(fn)...)
		}
		sort.Slice(fns, func(i, j int) bool { return FuncKey(fns[i]) < FuncKey(fns[j]) })
		for _, fn := range fns {
			if !smPkgs[fn.Pkg.Pkg.Path()] {
				continue
			}
			fa := e.FA(fn)
			for _, s := range e.divSites(fn) {
				if seen[s.instr] {
					continue
				}
				seen[s.instr] = true
				fk := FuncKey(fn)
				dname := shortDiv(s.div)
				construct := "div:" + s.what + " / " + dname
				if ok, by := e.nonZeroAt(fa, s.instr, s.div); ok {
					r.OK(fk, construct, "divisor tested non-zero by a dominating guard ("+by+")", r.P(s.instr))
					continue
				}
				// stored parameter whose every governance writer enforces positivity
				if s.div.IsCall("keeper.Keeper.RewardClaimInterval") {
					ok, why := e.paramWritersEnforcePositive()
					if ok {
						r.OK(fk, construct, "divisor is the stored TakeRateClaimInterval and every governance writer rejects non-positive values ("+why+")", r.P(s.instr))
					} else {
						r.Bad(fk, construct, "integer division by the stored parameter TakeRateClaimInterval with no dominating positivity guard, and a governance writer accepts zero: "+why+" - end-of-block processing then panics with a division by zero", nil, r.P(s.instr))
					}
					continue
				}
				if why, ok := divisorTable[fk+" | "+s.what+" / "+dname]; ok {
					// the premise of the entry is checked, not assumed: a dominating `!shouldSkipRewardsToAsset(..)` whose
					// operands include `TotalTokensWithAsset(<same validator>, <same asset>)` tested non-zero
					premise := false
					dargs := s.div.CallArgsT()
					for _, g := range fa.GuardsOf(s.instr) {
						if g.Pos || !g.Cond.IsCall("keeper.shouldSkipRewardsToAsset") {
							continue
						}
						for _, hg := range e.helperGuards(g) {
							for _, rel := range relsOf(hg) {
								if rel.TA == nil || !(rel.B == "0" && (rel.Op == "!=" || rel.Op == ">")) {
									continue
								}
								if rel.TA.IsCall("types.AllianceValidator.TotalTokensWithAsset") {
									ha := rel.TA.CallArgsT()
									if len(ha) == len(dargs) && len(ha) == 2 && ha[0].Eq(dargs[0]) && ha[1].Eq(dargs[1]) {
										premise = true
									}
								}
							}
						}
					}
					if premise {
						r.OK(fk, construct, "reviewed table entry (premise checked: the skip predicate tests the same value): "+why, r.P(s.instr))
					} else {
						r.Bad(fk, construct, "division by "+s.div.String()+": the reviewed reason for this site is that shouldSkipRewardsToAsset tests the same value for zero in the same iteration, and that no longer holds - a validator whose shares of the asset are worth zero tokens makes every reward settlement on it divide by zero", nil, r.P(s.instr))
					}
					continue
				}
				// contradiction: the function tests another value for zero than the one it divides by
				contra := ""
				for _, g := range fa.GuardsOf(s.instr) {
					for _, rel := range relsOf(g) {
						if rel.B == "0" && (rel.Op == "!=" || rel.Op == ">") && rel.A != constName(s.div) {
							contra = " (the dominating test is on " + rel.A + ", not on the divisor)"
						}
					}
				}
				r.Bad(fk, construct, "division whose divisor "+s.div.String()+" is not tested non-zero on every path"+contra+": a zero divisor panics inside a user operation / callback / end-of-block", nil, r.P(s.instr))
			}
		}
	}})
}

func shortDiv(t *Term) string {
	switch t.Op {
	case "param":
		return "$" + t.Name
	case "phi":
		n := t.Name
		if i := strings.Index(n, "@"); i >= 0 {
			n = n[:i]
		}
		return "phi<" + n + ">"
	case "ncall", "call":
		return t.Name
	case "field":
		return shortDiv(t.Args[0]) + "." + t.Name
	case "deref":
		return "*" + shortDiv(t.Args[0])
	case "index":
		return shortDiv(t.Args[0]) + "[i]"
	case "extract":
		return shortDiv(t.Args[0]) + "#" + t.Name
	}
	return t.Op
}

// paramWritersEnforcePositive checks the writers of Params.TakeRateClaimInterval.
func (e *Engine) paramWritersEnforcePositive() (bool, string) {
	var notes []string
	ok := true
	for _, c := range e.CallersOf("keeper.Keeper.SetParams") {
		fk := FuncKey(c.Fn)
		fa := e.FA(c.Fn)
		p := argT(fa, c.Instr.(ssa.CallInstruction), 1)
		switch fk {
		case "keeper.Keeper.SetLastRewardClaimTime":
			base, _ := ovrGet(p, "")
			paths := ovrPaths(p)
			if base.IsCall("keeper.Keeper.GetParams") && len(paths) == 1 && paths[0] == ".LastTakeRateClaimTime" {
				notes = append(notes, "SetLastRewardClaimTime re-stores loaded params")
			} else {
				ok = false
				notes = append(notes, "SetLastRewardClaimTime stores "+p.String())
			}
		case "keeper.Keeper.InitGenesis":
			if vg := e.Fn("alliance.ValidateGenesis"); vg != nil {
				vfa := e.FA(vg)
				good := false
				for _, ret := range vfa.SuccessExits() {
					for _, f := range vfa.FactsAt(ret) {
						if strings.HasSuffix(f.A, ".TakeRateClaimInterval") && f.Op == ">" && f.B == "0" {
							good = true
						}
					}
				}
				if good {
					notes = append(notes, "genesis: ValidateGenesis rejects <= 0")
				} else {
					ok = false
					notes = append(notes, "ValidateGenesis does not reject a non-positive TakeRateClaimInterval")
				}
			} else {
				ok = false
				notes = append(notes, "ValidateGenesis not found")
			}
		case "migv5.Migrate$1":
			notes = append(notes, "v5 migration copies the legacy subspace value (assumption: validated when it was set)")
		default:
			// governance or any other writer: positivity of the interval must dominate the write
			v := mkField(p, "TakeRateClaimInterval")
			if fa.HasFact(c.Instr, constName(v), ">", "0") {
				notes = append(notes, fk+" rejects <= 0")
			} else {
				ok = false
				notes = append(notes, fk+" stores "+v.String()+" without rejecting values <= 0")
			}
		}
	}
	if rc := e.Fn("keeper.Keeper.RewardClaimInterval"); rc != nil {
		rfa := e.FA(rc)
		for _, ret := range Returns(rc) {
			t := rfa.Term(ret.Results[0])
			if !(t.Op == "field" && t.Name == "TakeRateClaimInterval" && t.Args[0].IsCall("keeper.Keeper.GetParams")) {
				ok = false
				notes = append(notes, "RewardClaimInterval does not return the stored TakeRateClaimInterval")
			}
		}
	}
	sort.Strings(notes)
	return ok, strings.Join(notes, "; ")
}

func init() {
	divRule("C05.div", []string{"C05"}, 4, []string{"keeper.MsgServer.Delegate", "keeper.MsgServer.Undelegate", "keeper.MsgServer.Redelegate", "keeper.MsgServer.ClaimDelegationRewards"},
		"no unguarded division in the call trees of the four user operations")
	divRule("C08.div", []string{"C08"}, 4, []string{"keeper.Hooks.BeforeValidatorSlashed"}, "no unguarded division in the slash callback's call tree")
	divRule("C17.div", []string{"C17"}, 6, []string{"alliance.EndBlocker"}, "no unguarded division in end-of-block processing")

	register(&Rule{ID: "C17.accept", Props: []string{"C17"}, Floor: 2,
		Doc: "acceptance of a TakeRateClaimInterval implies end-of-block can run with it: every governance writer rejects non-positive values",
		Run: func(e *Engine, r *RuleRun) {
			if fn := r.Need("keeper.MsgServer.UpdateParams"); fn != nil {
				fa := e.FA(fn)
				c := r.One(fn, "store params", "keeper.Keeper.SetParams")
				if c != nil {
					v := mkField(argT(fa, c, 1), "TakeRateClaimInterval")
					r.Check(fa.HasFact(c, constName(v), ">", "0"), FuncKey(fn), "accept:Params.TakeRateClaimInterval > 0", "SetParams is dominated by the rejection of a non-positive interval", "governance can store TakeRateClaimInterval = 0 (only negative values are rejected); the next end-of-block divides by it", r.P(c))
				}
			}
			if fn := r.Need("alliance.ValidateGenesis"); fn != nil {
				fa := e.FA(fn)
				good := true
				n := 0
				for _, ret := range fa.SuccessExits() {
					n++
					has := false
					for _, f := range fa.FactsAt(ret) {
						if strings.HasSuffix(f.A, ".TakeRateClaimInterval") && f.Op == ">" && f.B == "0" {
							has = true
						}
					}
					if !has {
						good = false
					}
				}
				r.Check(good && n > 0, FuncKey(fn), "accept:genesis TakeRateClaimInterval > 0", "every accepting return is dominated by the rejection of a non-positive interval", "genesis validation accepts a non-positive TakeRateClaimInterval", e.Pos(fn.Pos()))
			}
		}})
	_ = fmt.Sprint
}

// C17.overflow: fixed-point powers in the end blocker cannot overflow for accepted parameters.
// LegacyDec panics with "Int overflow" above ~2^256/10^18.  base.Power(n) with n = elapsed intervals is safe only if the
// base cannot exceed one (or n is bounded); the accepted ranges are the ones enforced by the handlers (C16.validate).
func init() {
	register(&Rule{ID: "C17.overflow", Props: []string{"C17", "C14"}, Floor: 2,
		Doc: "Power() in the end blocker has a base that cannot exceed one for accepted parameters",
		Run: func(e *Engine, r *RuleRun) {
			entry := r.Need("alliance.EndBlocker")
			if entry == nil {
				return
			}
			n := 0
			for _, fn := range e.Reach(entry) {
				if !smPkgs[fn.Pkg.Pkg.Path()] {
					continue
				}
				fa := e.FA(fn)
				for _, c := range CallsTo(fn, "math.LegacyDec.Power") {
					n++
					fk := FuncKey(fn)
					base := recvT(fa, c)
					bs := stripOrd(base.String())
					switch {
					case base.IsCall("math.LegacyDec.Sub") && base.Args[0].IsCall("math.LegacyOneDec") && strings.HasSuffix(base.Args[1].String(), ".TakeRate"):
						r.OK(fk, "power:(1 - takeRate)^n", "base in (0,1]: every writer of TakeRate enforces 0 <= takeRate < 1 (C16.validate)", r.P(c))
					case strings.HasSuffix(bs, ".RewardChangeRate"):
						// needs a dominating bound rate <= 1, or a bounded exponent
						ok := fa.HasFact(c, bs, "<=", "1") || fa.HasFact(c, bs, "<", "1")
						r.Check(ok, fk, "power:rewardChangeRate^n", "dominated by rate <= 1", "rewardChangeRate.Power(n) with n = whole intervals since the decay clock: the handlers accept any rate > 0 and any interval >= 0, so rate 2 with a 1 s interval overflows LegacyDec (`Int overflow` panic) after a 5 minute gap between blocks, rate 1.01 with a 1 ns interval in the first block after the start time, and shortening the interval of an old schedule does the same; the clamp to the weight range comes after the power, the clock does not advance, every later block panics again", r.P(c))
					default:
						r.Undecided(fk, "power:"+bs, "Power() with a base that is not one of the reviewed shapes")
					}
				}
			}
			r.Check(n >= 2, "-", "powers in the end blocker", fmt.Sprintf("%d Power() calls in the end blocker's call tree", n), fmt.Sprintf("only %d Power() calls found", n))
		}})
}

// helperDisjuncts: for an outcome of a boolean helper that is its short-circuit value (false of `a && b && c`, true
// of `a || b || c`) the facts of which AT LEAST ONE holds: !a, !b, !c (resp. a, b, c), parameters substituted.
// nil when the helper does not have that shape.
func (e *Engine) helperDisjuncts(g Guard) []Guard {
	c := g.Cond
	if c.Op != "ncall" && c.Op != "call" {
		return nil
	}
	call, ok := c.Instr.(ssa.CallInstruction)
	if !ok {
		return nil
	}
	fn := Devirt(call.Common())
	if fn == nil || fn.Blocks == nil || fn.Pkg == nil || !smPkgs[fn.Pkg.Pkg.Path()] {
		return nil
	}
	if fn.Signature.Results().Len() != 1 || !types.Identical(fn.Signature.Results().At(0).Type(), types.Typ[types.Bool]) {
		return nil
	}
	rets := Returns(fn)
	if len(rets) != 1 {
		return nil
	}
	hfa := e.FA(fn)
	m := map[string]*Term{}
	args := c.CallArgsT()
	for i, p := range fn.Params {
		if i < len(args) {
			m[reviewedParamName(p)] = args[i]
		}
	}
	v := rets[0].Results[0]
	pos := g.Pos
	for {
		u, isNot := v.(*ssa.UnOp)
		if !isNot || u.Op != token.NOT {
			break
		}
		v, pos = u.X, !pos
	}
	phi, isPhi := v.(*ssa.Phi)
	if !isPhi {
		return nil
	}
	ds := shortCircuitDisjuncts(hfa, phi, pos)
	for i := range ds {
		ds[i].Cond = subst(ds[i].Cond, m)
	}
	return ds
}

// shortCircuitDisjuncts: phi is the value of `a && b && c` (or `a || b || c`) and pos its short-circuit outcome
// (false, resp. true): the facts of which at least one holds.  nil for any other shape.
func shortCircuitDisjuncts(fa *FuncAnalysis, phi *ssa.Phi, pos bool) []Guard {
	var out []Guard
	norm := func(t *Term, p bool) Guard {
		for t.Op == "unop" && t.Name == "!" {
			t = t.Args[0]
			p = !p
		}
		return Guard{Cond: t, Pos: p}
	}
	nConst := 0
	for i, ed := range phi.Edges {
		pred := phi.Block().Preds[i]
		if cst, isC := ed.(*ssa.Const); isC {
			if cst.Value == nil || cst.Value.Kind() != constant.Bool || constant.BoolVal(cst.Value) != pos {
				return nil // this is not the short-circuit outcome
			}
			nConst++
			// the operand whose value short-circuited: the branch at the end of the predecessor
			iff, isIf := lastInstr(pred).(*ssa.If)
			if !isIf || len(pred.Succs) != 2 {
				return nil
			}
			taken := pred.Succs[0] == phi.Block()
			out = append(out, norm(fa.Term(iff.Cond), taken))
			continue
		}
		if q, nested := ed.(*ssa.Phi); nested {
			sub := shortCircuitDisjuncts(fa, q, pos)
			if sub == nil {
				return nil
			}
			out = append(out, sub...)
			continue
		}
		out = append(out, norm(fa.Term(ed), pos))
	}
	if nConst == 0 {
		return nil
	}
	return out
}
