package main

import (
	"fmt"
	"strings"

	"golang.org/x/tools/go/ssa"
)

// L.cursor - what an iterator loop reads per element is read per element.
//
// Round 14 (C15n): `completion := ParseRedelegationQueueKey(iter.Key())` hoisted in front of `for ; iter.Valid();
// iter.Next()` "because the queue key carries the completion time" - every later bucket of the same end-of-block was
// then deleted under the first bucket's time (records and indexes orphaned).  The value rules do not see it: the hoisted
// read renders like the per-iteration one.  The rule: in every function of the state machine, for every loop whose
// continuation test is `it.Valid()` of a store iterator, no value derived from a call of `it.Key()` / `it.Value()` that
// lies OUTSIDE the loop is used inside it.  (Reading the cursor before the loop for a use before the loop - an emptiness
// test, a log line - is fine.)

func isIterMethod(key, m string) bool {
	return strings.HasSuffix(key, "Iterator."+m)
}

func init() {
	register(&Rule{ID: "L.cursor", Props: []string{"C01", "C02", "C07", "C15", "C17", "C18", "C20", "C08", "C09", "C10", "C13"}, Floor: 10,
		Doc: "the key and value of a store iterator are read inside the loop that advances it, never once in front of it",
		Run: func(e *Engine, r *RuleRun) {
			loops := 0
			for _, fn := range e.SMFuncs() {
				if len(fn.Blocks) == 0 || e.isGenerated(fn.Pos()) {
					continue
				}
				fa := e.FA(fn)
				fk := FuncKey(fn)
				for _, h := range fa.LoopHeaders() {
					// the iterator whose Valid() decides whether the loop continues
					var it ssa.Value
					for _, in := range h.Instrs {
						if c, ok := in.(ssa.CallInstruction); ok && isIterMethod(CalleeKey(c.Common()), "Valid") {
							if rv := CallRecv(c.Common()); rv != nil {
								it = rv
							} else if as := CallArgs(c.Common()); len(as) > 0 {
								it = as[0]
							}
						}
					}
					if it == nil {
						continue
					}
					loops++
					loop := fa.NaturalLoop(h)
					bad := ""
					for _, c := range Calls(fn) {
						k := CalleeKey(c.Common())
						if !isIterMethod(k, "Key") && !isIterMethod(k, "Value") {
							continue
						}
						rv := CallRecv(c.Common())
						if rv == nil {
							if as := CallArgs(c.Common()); len(as) > 0 {
								rv = as[0]
							}
						}
						if rv != it || loop[c.Block()] {
							continue
						}
						v, ok := c.(ssa.Value)
						if !ok {
							continue
						}
						// is anything derived from this read used inside the loop?
						seen := map[ssa.Value]bool{v: true}
						work := []ssa.Value{v}
						for len(work) > 0 && bad == "" {
							x := work[0]
							work = work[1:]
							refs := x.Referrers()
							if refs == nil {
								continue
							}
							for _, ref := range *refs {
								if loop[ref.Block()] {
									bad = r.P(c) + " used at " + r.P(ref)
									break
								}
								if rvv, isV := ref.(ssa.Value); isV && !seen[rvv] && len(seen) < 200 {
									seen[rvv] = true
									work = append(work, rvv)
								}
							}
						}
					}
					construct := fmt.Sprintf("cursor of the iterator loop at block %s is read per element", h.Comment)
					if bad == "" {
						r.OK(fk, construct, "every Key()/Value() read that the loop body uses lies inside the loop", e.Pos(fn.Pos()))
					} else {
						r.Bad(fk, construct, "a key or value of the store iterator is read once in front of the loop and used for every element: all later elements are processed with the first element's key / value ("+bad+")", nil, e.Pos(fn.Pos()))
					}
				}
			}
			r.Check(loops >= 10, "-", "iterator loops examined", fmt.Sprintf("%d loops over store iterators", loops), fmt.Sprintf("only %d iterator loops found", loops))
		}})
}
