package main

import (
	"fmt"
	"go/ast"
	"go/token"
	"go/types"
	"strings"

	"golang.org/x/tools/go/ast/astutil"
	"golang.org/x/tools/go/ssa"
)

// argT returns the term of explicit argument i (receiver excluded) of a call.
func argT(fa *FuncAnalysis, c ssa.CallInstruction, i int) *Term {
	args := CallArgs(c.Common())
	if i < 0 || i >= len(args) {
		return &Term{Op: "const", Name: "<missing arg>"}
	}
	return fa.Term(args[i])
}

func recvT(fa *FuncAnalysis, c ssa.CallInstruction) *Term {
	v := CallRecv(c.Common())
	if v == nil {
		return &Term{Op: "const", Name: "<no receiver>"}
	}
	return fa.Term(v)
}

// resultT returns the term of the call's value (for tuple results use extractT).
func resultT(fa *FuncAnalysis, c ssa.CallInstruction) *Term {
	if v, ok := c.(ssa.Value); ok {
		return fa.Term(v)
	}
	return &Term{Op: "const", Name: "<no value>"}
}

func extractT(fa *FuncAnalysis, c ssa.CallInstruction, i int) *Term {
	return &Term{Op: "extract", Name: fmt.Sprint(i), Args: []*Term{resultT(fa, c)}}
}

// One returns the single call to one of keys in fn, recording a violation/undecided otherwise.
func (r *RuleRun) One(fn *ssa.Function, what string, keys ...string) ssa.CallInstruction {
	cs := CallsTo(fn, keys...)
	if len(cs) == 1 {
		return cs[0]
	}
	if len(cs) == 0 {
		r.Bad(FuncKey(fn), what, "expected a call of "+strings.Join(keys, "/")+" in "+FuncKey(fn)+", found none", nil, r.e.Pos(fn.Pos()))
		return nil
	}
	var pos []string
	for _, c := range cs {
		pos = append(pos, r.P(c))
	}
	r.Undecided(FuncKey(fn), what, fmt.Sprintf("expected exactly one call of %s, found %d: the rule cannot tell which one is meant", strings.Join(keys, "/"), len(cs)), pos...)
	return nil
}

// listOf: the term is a one-element vararg list [x] (or sdk.NewCoins([x])) -> x
func singleCoin(t *Term) *Term {
	if t.IsCall("sdk.NewCoins") && len(t.Args) == 1 {
		t = t.Args[0]
	}
	if t.Op == "list" && len(t.Args) == 1 {
		return t.Args[0]
	}
	return nil
}

// ovrGet splits a struct-with-overrides term.
func ovrGet(t *Term, path string) (base *Term, val *Term) {
	if t.Op != "override" {
		return t, nil
	}
	for _, a := range t.Args[1:] {
		if a.Name == path {
			return t.Args[0], a.Args[0]
		}
	}
	return t.Args[0], nil
}

func ovrPaths(t *Term) []string {
	var out []string
	if t.Op == "override" {
		for _, a := range t.Args[1:] {
			out = append(out, a.Name)
		}
	}
	return out
}

// MustPassThrough: every CFG path from instruction `from` to instruction `to` passes one of `via`.
// Returns a counter-example trail or nil.
func (fa *FuncAnalysis) MustPassThrough(from ssa.Instruction, to ssa.Instruction, via []ssa.Instruction) []string {
	vs := map[ssa.Instruction]bool{}
	for _, v := range via {
		vs[v] = true
	}
	seen := map[*ssa.BasicBlock]bool{}
	parent := map[*ssa.BasicBlock]*ssa.BasicBlock{}
	var hit *ssa.BasicBlock
	var visit func(b *ssa.BasicBlock, start int) bool
	visit = func(b *ssa.BasicBlock, start int) bool {
		for i := start; i < len(b.Instrs); i++ {
			in := b.Instrs[i]
			if in == to {
				hit = b
				return true
			}
			if vs[in] {
				return false
			}
		}
		for si, s := range b.Succs {
			if seen[s] || fa.edgeDead(b, si) {
				continue
			}
			seen[s] = true
			parent[s] = b
			if visit(s, 0) {
				return true
			}
		}
		return false
	}
	var start *ssa.BasicBlock
	startIdx := 0
	if from == nil {
		start = fa.Fn.Blocks[0]
	} else {
		start = from.Block()
		startIdx = fa.idx[from] + 1
	}
	if visit(start, startIdx) {
		var trail []string
		for b := hit; b != nil && b != start; b = parent[b] {
			trail = append([]string{blockLabel(fa, b)}, trail...)
		}
		trail = append([]string{blockLabel(fa, start)}, trail...)
		trail = append(trail, "reaches "+fa.e.InstrPos(to)+" without passing the required instruction")
		return trail
	}
	return nil
}

// StoresToField lists the Store instructions in fn (no closures) that write field `field` of struct type `typ` ("types.AllianceAsset").
func StoresToField(fn *ssa.Function, typ, field string) []*ssa.Store {
	var out []*ssa.Store
	for _, b := range fn.Blocks {
		for _, in := range b.Instrs {
			st, ok := in.(*ssa.Store)
			if !ok {
				continue
			}
			fa2, ok := st.Addr.(*ssa.FieldAddr)
			if !ok {
				continue
			}
			s := derefStruct(fa2.X.Type())
			if s == nil || typeKey(fa2.X.Type()) != typ {
				continue
			}
			if s.Field(fa2.Field).Name() == field {
				out = append(out, st)
			}
		}
	}
	return out
}

// isComplitStore: the store initialises a field of a fresh composite literal.
func isComplitStore(st *ssa.Store) bool {
	v := st.Addr
	for {
		switch x := v.(type) {
		case *ssa.FieldAddr:
			v = x.X
			continue
		case *ssa.Alloc:
			return x.Comment == "complit"
		}
		return false
	}
}

// isInitStore: the store initialises a field of a struct value that has not been given any value before
// (composite literal assigned to a fresh local).
func isInitStore(fa *FuncAnalysis, st *ssa.Store) bool {
	if isComplitStore(st) {
		return true
	}
	a, ok := rootAlloc(st.Addr)
	if !ok {
		return false
	}
	t := fa.StructAt(a, st)
	for t.Op == "override" {
		t = t.Args[0]
	}
	// the zero value: an untouched local, or one that was just assigned the zero value as a whole (go/ssa builds
	// `x = T{..}` for an existing x as `*x = zero` followed by the field stores)
	if t.Op == "zero" || (t.Op == "const" && t.Name == "nil") {
		return true
	}
	// ... and without the zero store when the literal names every field of T: the store then sits, in the source, inside
	// a composite literal of the struct's type (an assignment `x.f = v` does not)
	if f, ok := st.Addr.(*ssa.FieldAddr); ok {
		return fa.e.inCompositeLitOf(st.Pos(), typeKey(f.X.Type()))
	}
	return false
}

// inCompositeLitOf: the source position lies inside a composite literal whose type is the named struct type.
func (e *Engine) inCompositeLitOf(pos token.Pos, typ string) bool {
	if !pos.IsValid() {
		return false
	}
	for _, p := range e.Pkgs {
		if p.TypesInfo == nil {
			continue
		}
		for _, f := range p.Syntax {
			if pos < f.Pos() || pos >= f.End() {
				continue
			}
			path, _ := astutil.PathEnclosingInterval(f, pos, pos)
			for _, n := range path {
				if cl, ok := n.(*ast.CompositeLit); ok {
					if t := p.TypesInfo.TypeOf(cl); t != nil && typeKey(t) == typ {
						return true
					}
				}
			}
			return false
		}
	}
	return false
}

// Complits returns the composite-literal allocations of the named struct type in fn.
func Complits(fn *ssa.Function, typ string) []*ssa.Alloc {
	var out []*ssa.Alloc
	for _, b := range fn.Blocks {
		for _, in := range b.Instrs {
			// a composite literal, or a local of the type that is filled field by field
			if a, ok := in.(*ssa.Alloc); ok {
				if p, ok := a.Type().Underlying().(*types.Pointer); ok && typeKey(p.Elem()) == typ {
					out = append(out, a)
				}
			}
		}
	}
	return out
}

// LiteralAllocs: Complits without the locals that are never filled field by field and only receive whole copies of
// another local of the list (`entry := newEntry(..)` once the constructor is inlined: the literal it copies is the one
// to look at).
func LiteralAllocs(fa *FuncAnalysis, fn *ssa.Function, typ string) []*ssa.Alloc {
	all := Complits(fn, typ)
	var out []*ssa.Alloc
	for _, a := range all {
		if len(complitFields(fa, a)) == 0 {
			if src := wholeCopySource(a); src != nil && src != a {
				isLit := false
				for _, b := range all {
					if b == src {
						isLit = true
					}
				}
				if isLit {
					continue
				}
			}
		}
		out = append(out, a)
	}
	return out
}

// complitFields returns field -> term of the stores that initialise a composite literal.
func complitFields(fa *FuncAnalysis, a *ssa.Alloc) map[string]*Term {
	out := map[string]*Term{}
	for _, ref := range *a.Referrers() {
		f, ok := ref.(*ssa.FieldAddr)
		if !ok {
			continue
		}
		st := derefStruct(a.Type())
		for _, rr := range *f.Referrers() {
			if s, ok := rr.(*ssa.Store); ok && s.Addr == f {
				out[st.Field(f.Field).Name()] = fa.Term(s.Val)
			}
		}
	}
	return out
}

// loopHeaderOf finds the loop-header block of the range loop that produces the element term t
// (t mentions a rangeindex phi).
func loopPhiOf(t *Term) *ssa.Phi {
	var phi *ssa.Phi
	t.Walk(func(x *Term) {
		if x.Op == "phi" && phi == nil && isLoopIndexPhi(x) {
			phi, _ = x.Instr.(*ssa.Phi)
		}
	})
	return phi
}

// innermostLoopPhi: among the range-loop phis mentioned in t, the one of the innermost loop.
func innermostLoopPhi(t *Term) *ssa.Phi {
	var phis []*ssa.Phi
	t.Walk(func(x *Term) {
		if x.Op == "phi" && isLoopIndexPhi(x) {
			if p, ok := x.Instr.(*ssa.Phi); ok {
				phis = append(phis, p)
			}
		}
	})
	var best *ssa.Phi
	for _, p := range phis {
		if best == nil || best.Block().Dominates(p.Block()) {
			best = p
		}
	}
	return best
}

// NaturalLoop returns the blocks of the natural loop headed by h (h included).
func (fa *FuncAnalysis) NaturalLoop(h *ssa.BasicBlock) map[*ssa.BasicBlock]bool {
	loop := map[*ssa.BasicBlock]bool{h: true}
	var work []*ssa.BasicBlock
	for _, p := range h.Preds {
		if h.Dominates(p) && !loop[p] {
			loop[p] = true
			work = append(work, p)
		}
	}
	for len(work) > 0 {
		b := work[len(work)-1]
		work = work[:len(work)-1]
		for _, p := range b.Preds {
			if !loop[p] {
				loop[p] = true
				work = append(work, p)
			}
		}
	}
	return loop
}

// EveryIterationPasses: in the range loop headed by the block of phi, every path from the loop header
// around the loop back to the header passes one of via (no `continue` before it). Paths that leave the
// loop (error returns, break) are not iterations and are fine.
func (fa *FuncAnalysis) EveryIterationPasses(phi *ssa.Phi, via []ssa.Instruction) []string {
	h := phi.Block()
	loop := fa.NaturalLoop(h)
	vs := map[ssa.Instruction]bool{}
	for _, v := range via {
		vs[v] = true
	}
	var trail []string
	seen := map[*ssa.BasicBlock]bool{}
	var visit func(b *ssa.BasicBlock) bool
	visit = func(b *ssa.BasicBlock) bool {
		for _, in := range b.Instrs {
			if vs[in] {
				return false
			}
		}
		for si, s := range b.Succs {
			if !loop[s] || fa.edgeDead(b, si) {
				continue
			}
			if s == h {
				trail = append([]string{blockLabel(fa, b)}, trail...)
				return true
			}
			if seen[s] {
				continue
			}
			seen[s] = true
			if visit(s) {
				trail = append([]string{blockLabel(fa, b)}, trail...)
				return true
			}
		}
		return false
	}
	if visit(h) {
		trail = append(trail, "next iteration reached without passing the required instruction")
		return trail
	}
	return nil
}

func (fa *FuncAnalysis) blockReaches(a, b *ssa.BasicBlock) bool {
	seen := map[*ssa.BasicBlock]bool{}
	var dfs func(x *ssa.BasicBlock) bool
	dfs = func(x *ssa.BasicBlock) bool {
		if x == b {
			return true
		}
		for si, s := range x.Succs {
			if !seen[s] && !fa.edgeDead(x, si) {
				seen[s] = true
				if dfs(s) {
					return true
				}
			}
		}
		return false
	}
	return dfs(a)
}

// guardHolds: a guard at `in` is a (pure or impure) call with callee key `key`, polarity pos, whose
// receiver/first argument satisfies argPred.
func guardCall(fa *FuncAnalysis, in ssa.Instruction, pos bool, argPred func(args []*Term) bool, keys ...string) bool {
	return fa.HasGuard(in, func(g Guard) bool {
		return g.Pos == pos && g.Cond.IsCall(keys...) && argPred(g.Cond.CallArgsT())
	})
}

func posList(e *Engine, ins ...ssa.Instruction) []string {
	var out []string
	for _, in := range ins {
		if in != nil {
			out = append(out, e.InstrPos(in))
		}
	}
	return out
}

func instrsOf[T ssa.Instruction](xs []T) []ssa.Instruction {
	out := make([]ssa.Instruction, len(xs))
	for i, x := range xs {
		out[i] = x
	}
	return out
}

func callsAsInstrs(cs []ssa.CallInstruction) []ssa.Instruction {
	out := make([]ssa.Instruction, len(cs))
	for i, c := range cs {
		out[i] = c
	}
	return out
}

func containsInstr(xs []ssa.Instruction, x ssa.Instruction) bool {
	for _, y := range xs {
		if y == x {
			return true
		}
	}
	return false
}

// isLoopIndexPhi: the phi is the index of a counting loop - the hidden index of `for .. range slice`, or the variable
// of an explicit `for i := c; i < n; i++`: an integer phi of a loop header with one constant incoming value and one
// incoming value phi+1 (the loop shape is recognised, not the name go/ssa gives the variable).
func isLoopIndexPhi(x *Term) bool {
	p, ok := x.Instr.(*ssa.Phi)
	if !ok || len(p.Edges) < 2 {
		return false
	}
	if b, ok := p.Type().Underlying().(*types.Basic); !ok || b.Info()&types.IsInteger == 0 {
		return false
	}
	isHeader := false
	for _, pr := range p.Block().Preds {
		if p.Block().Dominates(pr) {
			isHeader = true
		}
	}
	if !isHeader {
		return false
	}
	// every incoming value is the start constant or phi+1 (a `continue` adds further edges carrying phi+1)
	hasConst, hasInc := false, false
	for _, ed := range p.Edges {
		switch v := ed.(type) {
		case *ssa.Const:
			hasConst = true
			continue
		case *ssa.BinOp:
			if v.Op == token.ADD {
				if c, ok := v.Y.(*ssa.Const); ok && v.X == ssa.Value(p) && c.Value != nil && c.Value.String() == "1" {
					hasInc = true
					continue
				}
			}
		}
		return false
	}
	return hasConst && hasInc
}
