package main

import (
	"fmt"
	"go/types"
	"sort"
	"strings"

	"golang.org/x/tools/go/ssa"
)

// ---------------------------------------------------------------- loop structure

// LoopHeaders returns the headers of all natural loops of fn.
func (fa *FuncAnalysis) LoopHeaders() []*ssa.BasicBlock {
	var out []*ssa.BasicBlock
	for _, b := range fa.Fn.Blocks {
		for _, p := range b.Preds {
			if b.Dominates(p) {
				out = append(out, b)
				break
			}
		}
	}
	return out
}

// InnermostLoop returns the header of the innermost natural loop containing block b (nil if none).
func (fa *FuncAnalysis) InnermostLoop(b *ssa.BasicBlock) *ssa.BasicBlock {
	var best *ssa.BasicBlock
	bestSize := 1 << 30
	for _, h := range fa.LoopHeaders() {
		l := fa.NaturalLoop(h)
		if l[b] && len(l) < bestSize {
			best, bestSize = h, len(l)
		}
	}
	return best
}

// errEdge: taking successor i of b establishes "some error value is non-nil".
func (fa *FuncAnalysis) errEdge(b *ssa.BasicBlock, i int) (string, bool) {
	g, ok := fa.EdgeFact(b, i)
	if !ok || g.Cond.Op != "binop" || g.Cond.Args[1].Op != "const" || g.Cond.Args[1].Name != "nil" {
		return "", false
	}
	if !((g.Cond.Name == "!=" && g.Pos) || (g.Cond.Name == "==" && !g.Pos)) {
		return "", false
	}
	if v := g.Cond.Args[0].Val; v != nil && !isErrorType(v.Type()) {
		return "", false
	}
	return g.Cond.Args[0].String(), true
}

// EarlyExits lists the edges that leave the natural loop of h from a block other than h without being an
// error path (an edge on which an error value was just tested non-nil, or that only reaches error returns).
func (fa *FuncAnalysis) EarlyExits(h *ssa.BasicBlock) []string {
	return fa.EarlyExitsExcept(h, nil)
}

// EarlyExitsExcept: as EarlyExits, but an exit edge whose branch fact satisfies allowed is not reported.
func (fa *FuncAnalysis) EarlyExitsExcept(h *ssa.BasicBlock, allowed func(Guard) bool) []string {
	loop := fa.NaturalLoop(h)
	var out []string
	for _, b := range fa.Fn.Blocks {
		if !loop[b] || b == h {
			continue
		}
		for i, s := range b.Succs {
			if loop[s] || fa.edgeDead(b, i) {
				continue
			}
			if _, isErr := fa.errEdge(b, i); isErr {
				continue
			}
			if allowed != nil {
				if g, ok := fa.EdgeFact(b, i); ok && allowed(g) {
					continue
				}
			}
			// the block itself may be the body of an `if err != nil` (dominated by an error edge)
			onErrPath := false
			for d := b; d != nil && loop[d]; d = d.Idom() {
				id := d.Idom()
				if id == nil {
					break
				}
				for j, ss := range id.Succs {
					if ss == d && edgeDominates(id, d, b) {
						if _, isErr := fa.errEdge(id, j); isErr {
							onErrPath = true
						}
					}
				}
			}
			if onErrPath {
				continue
			}
			// leaves the loop: fine only if no success exit is reachable from s
			if len(s.Instrs) > 0 {
				if trail := fa.mustReachPruned(s.Instrs[0], nil, func(r *ssa.Return) bool { return !fa.IsErrorExit(r) }, nil); trail != nil || isSuccessReturnBlock(fa, s) {
					out = append(out, blockLabel(fa, b)+" -> "+blockLabel(fa, s))
				}
			}
		}
	}
	return out
}

func isSuccessReturnBlock(fa *FuncAnalysis, b *ssa.BasicBlock) bool {
	if r, ok := lastInstr(b).(*ssa.Return); ok && len(b.Instrs) == 1 {
		return !fa.IsErrorExit(r)
	}
	return false
}

// IterationBypass: a path from loop header h around the loop back to h that passes none of via and takes no
// edge accepted by allow.  Error paths leave the loop and are not iterations.
func (fa *FuncAnalysis) IterationBypass(h *ssa.BasicBlock, via []ssa.Instruction, allow func(Guard) bool) []string {
	loop := fa.NaturalLoop(h)
	vs := map[ssa.Instruction]bool{}
	for _, v := range via {
		vs[v] = true
	}
	var trail []string
	seen := map[*ssa.BasicBlock]bool{}
	var visit func(b *ssa.BasicBlock) bool
	visit = func(b *ssa.BasicBlock) bool {
		for _, in := range b.Instrs {
			if vs[in] {
				return false
			}
		}
		for i, s := range b.Succs {
			if !loop[s] || fa.edgeDead(b, i) {
				continue
			}
			if g, ok := fa.EdgeFact(b, i); ok && allow != nil && allow(g) {
				continue
			}
			if s == h {
				trail = append([]string{blockLabel(fa, b)}, trail...)
				return true
			}
			if seen[s] {
				continue
			}
			seen[s] = true
			if visit(s) {
				trail = append([]string{blockLabel(fa, b)}, trail...)
				return true
			}
		}
		return false
	}
	if visit(h) {
		return append(trail, "next iteration reached without the required effect and without an accepted skip condition")
	}
	return nil
}

// ---------------------------------------------------------------- specifications

type skipCond struct {
	callee string // callee key of the condition ("binop" for comparisons)
	pos    bool
	substr string // must occur in the condition's term
	why    string
}

func (s skipCond) match(g Guard) bool {
	if s.callee == "REL:matured" {
		// any comparison equivalent to "completion < block time"
		for _, rel := range relsOf(g) {
			if rel.TA == nil || rel.TB == nil {
				continue
			}
			a, b, op := rel.TA, rel.TB, rel.Op
			if isBlockTime(a) {
				a, b, op = b, a, flipOp[op]
			}
			if isBlockTime(b) && op == "<" && !isBlockTime(a) {
				return true
			}
		}
		return false
	}
	condStr, pos := g.Cond.String(), g.Pos
	if s.callee == "binop" && g.Cond.Op == "binop" && pos != s.pos && (g.Cond.Name == "==" || g.Cond.Name == "!=") {
		// `!(a == b)` is `a != b`: an equality test is matched in either polarity
		other := map[string]string{"==": "!=", "!=": "=="}[g.Cond.Name]
		condStr = "(" + g.Cond.Args[0].String() + " " + other + " " + g.Cond.Args[1].String() + ")"
		pos = !pos
	}
	if pos != s.pos {
		return false
	}
	if s.callee == "binop" {
		if g.Cond.Op != "binop" {
			return false
		}
	} else if s.callee != "" && !g.Cond.IsCall(s.callee) {
		return false
	}
	// "a&&b": both substrings must occur
	for _, part := range strings.Split(s.substr, "&&") {
		if part != "" && !strings.Contains(condStr, part) {
			return false
		}
	}
	return true
}

type loopSpec struct {
	fn     string
	what   string   // name of the loop (construct key)
	anchor []string // callee keys: the per-iteration effect; also identifies the loop (innermost loop containing it)
	outer  bool     // use the outermost loop containing the anchor instead of the innermost
	skips  []skipCond
	props  []string
	// stopOnAnchor: the loop may be left early when the per-element call (a callback) returned true for THIS element
	stopOnAnchor bool
}

var matureSkip = skipCond{"REL:matured", true, "", "entry already matured (completion < block time)"}

var loopSpecs = []loopSpec{
	{fn: "keeper.Keeper.slashUndelegations", what: "index keys of the slashed validator", anchor: []string{"corestore.KVStore.Set", "storetypes.KVStore.Set"}, outer: true,
		skips: []skipCond{matureSkip}, props: []string{"C07", "C02", "C08"}},
	{fn: "keeper.Keeper.slashUndelegations", what: "entries of an index-reached bucket", anchor: []string{"types.BankKeeper.SendCoinsFromModuleToModule"},
		skips: []skipCond{{"binop", true, ".ValidatorAddress !=", "entry of another validator"}, {"binop", true, ".Balance.Denom !=", "entry of another denom"},
			{"binop", false, ".ValidatorAddress ==", "entry of another validator"}, {"binop", false, ".Balance.Denom ==", "entry of another denom"}}, props: []string{"C07", "C02", "C01"}},
	{fn: "keeper.Keeper.slashRedelegations", what: "index keys of the slashed source validator", anchor: []string{"keeper.Keeper.SetDelegation", "keeper.Keeper.reduceDelegationShares"},
		skips: []skipCond{matureSkip, {"", false, "keeper.Keeper.GetDelegation@", "destination position no longer exists"}, {"", false, "keeper.Keeper.GetAssetByDenom@", "asset no longer exists"}}, props: []string{"C07", "C08"}},
	{fn: "keeper.Keeper.CompleteUnbondings", what: "matured buckets", anchor: []string{"corestore.KVStore.Delete|iter", "storetypes.KVStore.Delete|iter"}, outer: true, props: []string{"C02", "C01"}},
	{fn: "keeper.Keeper.CompleteUnbondings", what: "entries of a matured bucket", anchor: []string{"types.BankKeeper.SendCoinsFromModuleToAccount"}, props: []string{"C02", "C01"}},
	{fn: "keeper.Keeper.CompleteRedelegations", what: "matured queue buckets", anchor: []string{"storetypes.KVStore.Delete", "corestore.KVStore.Delete"}, outer: true, props: []string{"C15"}},
	{fn: "keeper.Keeper.CompleteRedelegations", what: "entries of a matured queue bucket", anchor: []string{"keeper.Keeper.DeleteRedelegation"}, props: []string{"C15"}},
	{fn: "keeper.Keeper.SlashValidator", what: "asset shares of the slashed validator", anchor: []string{"keeper.Keeper.SetAsset"}, props: []string{"C06", "C08", "C03"}},
	{fn: "keeper.Keeper.DeductAssetsWithTakeRate", what: "assets", anchor: []string{"keeper.Keeper.SetAsset"},
		skips: []skipCond{{"math.Int.IsPositive", false, ".TotalTokens", "nothing staked"}, {"math.LegacyDec.IsPositive", false, ".TakeRate", "rate zero"},
			{"types.AllianceAsset.RewardsStarted", false, "", "asset in warm-up"}, {"math.LegacyDec.LTE", true, "math.LegacyOneDec()", "would drive the total to <= 1"}}, props: []string{"C09"}},
	{fn: "keeper.Keeper.RewardWeightChangeHook", what: "assets", anchor: []string{"keeper.Keeper.UpdateAllianceAsset"},
		skips: []skipCond{{"binop", true, ".RewardChangeInterval == 0", "no decay configured"}, {"math.LegacyDec.Equal", true, ".RewardChangeRate", "rate one"}, {"time.Time.Before", true, "BlockTime", "interval not yet elapsed"}}, props: []string{"C14"}},
	{fn: "keeper.Keeper.InitializeAllianceAssets", what: "assets", anchor: []string{"keeper.Keeper.SetAsset"},
		skips: []skipCond{{"", true, ".IsInitialized", "already initialised"}, {"types.AllianceAsset.RewardsStarted", false, "", "not started"}}, props: []string{"C14"}},
	{fn: "keeper.Keeper.GetUnbondings", what: "entries of an index-reached bucket", anchor: []string{"builtin.append"},
		skips: []skipCond{{"binop", true, ".ValidatorAddress !=", "entry of another validator"}, {"binop", true, ".Balance.Denom !=", "entry of another denom"}}, props: []string{"C20"}},
	{fn: "keeper.Keeper.GetUnbondingsByDenomAndDelegator", what: "entries of an index-reached bucket", anchor: []string{"builtin.append"},
		skips: []skipCond{{"binop", true, ".ValidatorAddress !=", "entry of another validator"}, {"binop", true, ".Balance.Denom !=", "entry of another denom"}}, props: []string{"C20"}},
	{fn: "keeper.Keeper.GetUnbondings", what: "index keys of the queried validator", anchor: []string{"storetypes.KVStore.Get", "corestore.KVStore.Get"}, outer: true,
		skips: []skipCond{{"bytes.HasSuffix", false, "", "index key of another denom/delegator"}, {"bytes.HasPrefix", false, "", "index key of another validator"}, {"binop", true, "builtin.len(", "key shorter than the suffix"},
			{"binop", true, "#1 != $denom&&types.ParseUnbondingIndexKeyForValidatorAndDenom", "index key of another denom (parsed)"}, {"binop", false, "#1 == $denom&&types.ParseUnbondingIndexKeyForValidatorAndDenom", "index key of another denom (parsed)"}}, props: []string{"C20"}},
	{fn: "keeper.Keeper.GetUnbondingsByDenomAndDelegator", what: "index keys of all validators", anchor: []string{"storetypes.KVStore.Get", "corestore.KVStore.Get"}, outer: true,
		skips: []skipCond{{"bytes.HasSuffix", false, "", "index key of another denom/delegator"}, {"binop", true, "builtin.len(", "key shorter than the suffix"},
			{"binop", true, "#1 != $denom&&types.ParseUnbondingIndexKeyForValidatorAndDenom", "index key of another denom (parsed)"}, {"binop", false, "#1 == $denom&&types.ParseUnbondingIndexKeyForValidatorAndDenom", "index key of another denom (parsed)"}}, props: []string{"C20"}},
	{fn: "keeper.Keeper.InitGenesis", what: "entries of an imported unbonding bucket", anchor: []string{"keeper.Keeper.setUnbondingIndexByVal"}, props: []string{"C18"}},
	// every list of the genesis state is imported element by element, nothing is filtered (round 6, C18f: matured-looking redelegations dropped on import)
	{fn: "keeper.Keeper.InitGenesis", what: "imported assets", anchor: []string{"keeper.Keeper.SetAsset"}, props: []string{"C18"}},
	{fn: "keeper.Keeper.InitGenesis", what: "imported validator infos", anchor: []string{"keeper.Keeper.SetValidatorInfo"}, props: []string{"C18"}},
	{fn: "keeper.Keeper.InitGenesis", what: "imported delegations", anchor: []string{"keeper.Keeper.SetDelegation"}, props: []string{"C18"}},
	{fn: "keeper.Keeper.InitGenesis", what: "imported redelegations (record and by-source index)", anchor: []string{"keeper.Keeper.addRedelegation"}, props: []string{"C18", "C15"}},
	{fn: "keeper.Keeper.InitGenesis", what: "imported redelegations (maturity queue)", anchor: []string{"keeper.Keeper.queueRedelegation"}, props: []string{"C18", "C15"}},
	{fn: "keeper.Keeper.InitGenesis", what: "imported unbonding buckets", anchor: []string{"keeper.Keeper.setQueuedUndelegations"},
		skips: []skipCond{{"binop", true, ".Entries) == 0", "bucket without entries"}, {"binop", false, ".Entries) != 0", "bucket without entries"}}, props: []string{"C18", "C02"}},
	{fn: "keeper.Keeper.InitGenesis", what: "imported reward weight snapshots", anchor: []string{"keeper.Keeper.setRewardWeightChangeSnapshot"}, props: []string{"C18"}},
	// the shared store iterators hand EVERY record to the callback (their users - reset, rebalance, snapshots, export - rely on it)
	{fn: "keeper.Keeper.IterateAllianceValidatorInfo", what: "validator records handed to the callback", anchor: []string{"dyn"},
		stopOnAnchor: true, props: []string{"C03", "C10", "C14", "C18"}},
	{fn: "keeper.Keeper.IterateDelegations", what: "delegation records handed to the callback", anchor: []string{"dyn"},
		stopOnAnchor: true, props: []string{"C18"}},
	{fn: "keeper.Keeper.IterateRedelegations", what: "redelegation records handed to the callback", anchor: []string{"dyn"},
		stopOnAnchor: true, props: []string{"C18"}},
	{fn: "keeper.Keeper.IterateUndelegations", what: "unbonding buckets handed to the callback", anchor: []string{"dyn"},
		stopOnAnchor: true, props: []string{"C18"}},
	{fn: "keeper.Keeper.IterateAllWeightChangeSnapshot", what: "snapshots handed to the callback", anchor: []string{"dyn"},
		stopOnAnchor: true, props: []string{"C18"}},
}

// closureSpecs: per-element callbacks; `via` must be passed on every path that continues the iteration.
type closureSpec struct {
	fn    string // closure key, e.g. keeper.Keeper.ResetAssetAndValidators$1
	via   []string
	store bool // alternatively: stores into captured variables (other than the error variable) count as the effect
	props []string
	what  string
}

var closureSpecs = []closureSpec{
	{fn: "keeper.Keeper.ResetAssetAndValidators$1", via: []string{"keeper.Keeper.SetValidatorInfo"}, props: []string{"C03"}, what: "every validator is stripped of the denom"},
	{fn: "keeper.Keeper.UpdateAllianceAsset$1", via: []string{"keeper.Keeper.SetRewardWeightChangeSnapshot"}, props: []string{"C14", "C13"}, what: "every validator is settled and snapshotted"},
	{fn: "keeper.Keeper.RebalanceBondTokenWeights$1", store: true, props: []string{"C10"}, what: "every validator is classified bonded/unbonded"},
	{fn: "keeper.Keeper.GetAllianceBondedAmount$1", props: []string{"C11", "C10"}, what: "every delegation of the module is visited"},
	{fn: "keeper.Keeper.ExportGenesis$1", via: []string{"builtin.append"}, props: []string{"C18", "C03"}, what: "every validator info exported"},
	{fn: "keeper.Keeper.ExportGenesis$2", via: []string{"builtin.append"}, props: []string{"C18", "C03"}, what: "every delegation exported"},
	{fn: "keeper.Keeper.ExportGenesis$3", via: []string{"builtin.append"}, props: []string{"C18", "C15", "C07"}, what: "every redelegation exported"},
	{fn: "keeper.Keeper.ExportGenesis$4", via: []string{"builtin.append"}, props: []string{"C18", "C01", "C02", "C07"}, what: "every unbonding bucket exported"},
	{fn: "keeper.Keeper.ExportGenesis$5", via: []string{"builtin.append"}, props: []string{"C18"}, what: "every snapshot exported"},
}

func anchorCalls(fa *FuncAnalysis, fn *ssa.Function, keys []string) []ssa.Instruction {
	var out []ssa.Instruction
	for _, k := range keys {
		iterOnly := strings.HasSuffix(k, "|iter")
		k = strings.TrimSuffix(k, "|iter")
		for _, c := range CallsTo(fn, k) {
			if iterOnly {
				if t := argT(fa, c, 0); !(t.Op == "ncall" && strings.HasSuffix(t.Name, "Iterator.Key")) {
					continue
				}
			}
			out = append(out, c)
		}
	}
	return out
}

func init() {
	// one rule per property set would be unwieldy: a single rule, obligations attributed through Props of the union,
	// and each obligation reported only under the properties of its spec (filtered below by a per-property registration).
	allProps := map[string]bool{}
	for _, s := range loopSpecs {
		for _, p := range s.props {
			allProps[p] = true
		}
	}
	for _, s := range closureSpecs {
		for _, p := range s.props {
			allProps[p] = true
		}
	}
	var props []string
	for p := range allProps {
		props = append(props, p)
	}
	sort.Strings(props)
	for _, prop := range props {
		prop := prop
		register(&Rule{ID: "L.complete." + prop, Props: []string{prop}, Floor: 1,
			Doc: "iteration completeness: reviewed loops and callbacks process every element (no early exit, no skip outside the reviewed skip conditions)",
			Run: func(e *Engine, r *RuleRun) {
				r.rule = &Rule{ID: "L.complete", Props: []string{prop}, Floor: 1}
				has := func(ps []string) bool {
					for _, p := range ps {
						if p == prop {
							return true
						}
					}
					return false
				}
				for _, s := range loopSpecs {
					if !has(s.props) {
						continue
					}
					fn := r.Need(s.fn)
					if fn == nil {
						continue
					}
					fa := e.FA(fn)
					anc := anchorCalls(fa, fn, s.anchor)
					construct := "loop over " + s.what
					if len(anc) == 0 {
						r.Bad(s.fn, construct, "the per-element effect of this loop ("+strings.Join(s.anchor, "/")+") is gone", nil, e.Pos(fn.Pos()))
						continue
					}
					var h *ssa.BasicBlock
					if s.outer {
						// outermost loop containing the anchor
						size := -1
						for _, hh := range fa.LoopHeaders() {
							l := fa.NaturalLoop(hh)
							if l[anc[0].Block()] && len(l) > size {
								h, size = hh, len(l)
							}
						}
					} else {
						h = fa.InnermostLoop(anc[0].Block())
					}
					if h == nil {
						r.Bad(s.fn, construct, "the per-element effect is no longer inside a loop", nil, r.P(anc[0]))
						continue
					}
					var inLoop []ssa.Instruction
					l := fa.NaturalLoop(h)
					for _, a := range anc {
						if l[a.Block()] {
							inLoop = append(inLoop, a)
						}
					}
					var allowedExit func(Guard) bool
					if s.stopOnAnchor {
						allowedExit = func(g Guard) bool {
							if !g.Pos {
								return false
							}
							for _, a := range inLoop {
								if v, ok := a.(ssa.Value); ok && g.If != nil && g.If.Cond == v {
									return true
								}
							}
							return false
						}
					}
					if ex := fa.EarlyExitsExcept(h, allowedExit); len(ex) > 0 {
						r.Bad(s.fn, construct+": no early exit", "the loop can be left before all elements were processed (break/return on a non-error path): remaining elements are silently skipped", ex, r.P(anc[0]))
					} else {
						r.OK(s.fn, construct+": no early exit", "the loop is left only when exhausted or on an error path", r.P(anc[0]))
					}
					allow1 := func(g Guard) bool {
						for _, sc := range s.skips {
							if sc.match(g) {
								return true
							}
						}
						return false
					}
					allow := func(g Guard) bool {
						if allow1(g) {
							return true
						}
						// a predicate helper: the skip edge is its short-circuit outcome, and every operand that can
						// have caused it is a reviewed skip condition
						ds := e.helperDisjuncts(g)
						if p, isPhi := g.Cond.Instr.(*ssa.Phi); isPhi && g.Cond.Op == "phi" {
							// a named condition (`ok := a && b && c; if !ok { continue }`)
							ds = shortCircuitDisjuncts(fa, p, g.Pos)
						}
						if len(ds) > 0 {
							for _, d := range ds {
								if !allow1(d) {
									return false
								}
							}
							return true
						}
						return false
					}
					if trail := fa.IterationBypass(h, inLoop, allow); trail != nil {
						var acc []string
						for _, sc := range s.skips {
							acc = append(acc, sc.why)
						}
						r.Bad(s.fn, construct+": every element is processed", "an element can be skipped under a condition that is not one of the reviewed skip conditions ["+strings.Join(acc, "; ")+"]", trail, r.P(anc[0]))
					} else {
						r.OK(s.fn, construct+": every element is processed", fmt.Sprintf("every iteration passes the effect or one of %d reviewed skip conditions", len(s.skips)), r.P(anc[0]))
					}
				}
				for _, s := range closureSpecs {
					if !has(s.props) {
						continue
					}
					fn := r.Need(s.fn)
					if fn == nil {
						continue
					}
					fa := e.FA(fn)
					construct := "callback: " + s.what
					var via []ssa.Instruction
					via = append(via, callsAsInstrs(CallsTo(fn, s.via...))...)
					for _, b := range fn.Blocks {
						for _, in := range b.Instrs {
							if st, ok := in.(*ssa.Store); ok && s.store {
								// a store into a captured variable of the enclosing function (other than its error variable)
								if fv := freeVarRoot(st.Addr); fv != nil {
									if pt, ok := fv.Type().Underlying().(*types.Pointer); ok && !isErrorType(pt.Elem()) {
										via = append(via, in)
									}
								}
							}
						}
					}
					bad := false
					for _, ret := range Returns(fn) {
						t := fa.Term(ret.Results[0])
						switch {
						case t.Op == "const" && t.Name == "true":
							// stop: only on an error path
							okErr := fa.HasGuard(ret, func(g Guard) bool {
								return g.Cond.Op == "binop" && g.Cond.Args[1].Name == "nil" && ((g.Cond.Name == "!=" && g.Pos) || (g.Cond.Name == "==" && !g.Pos))
							})
							if !okErr {
								bad = true
								r.Bad(s.fn, construct+": stops only on error", "the callback returns true (stop iterating) on a path that is not an error path: the remaining elements are never visited", nil, r.P(ret))
							}
						case t.Op == "const" && t.Name == "false":
							if len(via) > 0 {
								if trail := fa.MustPassThrough(nil, ret, via); trail != nil {
									bad = true
									r.Bad(s.fn, construct+": every element is processed", "the callback continues with the next element without having applied its effect to this one", trail, r.P(ret))
								}
							}
						case t.Op == "binop" && t.Name == "!=" && t.Args[1].Op == "const" && t.Args[1].Name == "nil" && t.Args[0].Val != nil && isErrorType(t.Args[0].Val.Type()):
							// `return err != nil`: stops exactly when the effect failed; the effect must have been applied
							if len(via) > 0 {
								if trail := fa.MustPassThrough(nil, ret, via); trail != nil {
									bad = true
									r.Bad(s.fn, construct+": every element is processed", "the callback continues with the next element without having applied its effect to this one", trail, r.P(ret))
								}
							}
						default:
							bad = true
							r.Bad(s.fn, construct+": stops only on error", "the callback's continue/stop result is not a constant ("+t.String()+"): cannot show that iteration is complete", nil, r.P(ret))
						}
					}
					if !bad {
						r.OK(s.fn, construct, "returns true only on error paths; every continuing path applies the effect", e.Pos(fn.Pos()))
					}
				}
			}})
	}

	register(&Rule{ID: "C09.counterguards", Props: []string{"C09", "C14"}, Floor: 1,
		Doc: "the counter that decides between 'advance the clock to block time' and 'wait for a transfer' counts exactly the assets that can be charged",
		Run: func(e *Engine, r *RuleRun) {
			fn := r.Need("keeper.Keeper.DeductAssetsWithTakeRate")
			if fn == nil {
				return
			}
			k, fa := FuncKey(fn), e.FA(fn)
			// find `if counter == 0 { SetLastRewardClaimTime(BlockTime) }`
			var counter *ssa.Phi
			for _, c := range CallsTo(fn, "keeper.Keeper.SetLastRewardClaimTime") {
				for _, g := range fa.GuardsOf(c) {
					if g.Pos && g.Cond.Op == "binop" && g.Cond.Name == "==" && g.Cond.Args[1].Name == "0" && g.Cond.Args[0].Op == "phi" {
						counter, _ = g.Cond.Args[0].Instr.(*ssa.Phi)
					}
				}
			}
			if counter == nil {
				r.OK(k, "no zero-counter idiom", "the clock branch is not selected by a counter (C09.clock covers the exits)")
				return
			}
			for _, b := range counterIncrements(fa, fa.Term(counter)) {
				sts := StoresToField(fn, "types.AllianceAsset", "TotalTokens")
				a := ""
				if len(sts) == 1 {
					root, _, _ := fa.addrPath(sts[0].Addr)
					a = "*(" + strings.TrimPrefix(root, "ptr:") + ")"
				}
				ok1 := fa.HasFact(b, a+".TotalTokens", ">", "0")
				ok2 := fa.HasFact(b, a+".TakeRate", ">", "0")
				ok3 := fa.HasGuard(b, func(g Guard) bool {
					return g.Pos && g.Cond.IsCall("types.AllianceAsset.RewardsStarted") && isBlockTime(g.Cond.Args[1])
				})
				r.Check(ok1 && ok2 && ok3, k, "counter counts chargeable assets only", "the increment is dominated by TotalTokens > 0, TakeRate > 0 and RewardsStarted(BlockTime)", "an asset that cannot be charged (empty, rate zero or still in warm-up) is counted: while it is the only positive-rate asset the take-rate clock neither jumps to the block time nor advances with a transfer, and the stalled intervals are charged retroactively once the asset becomes chargeable", r.P(b))
			}
		}})

	register(&Rule{ID: "C10.sharedassets", Props: []string{"C10", "C17"}, Floor: 3,
		Doc: "end-of-block steps update the shared in-memory asset records (the rebalance of the same block must see them)",
		Run: func(e *Engine, r *RuleRun) {
			for _, spec := range []struct {
				fn     string
				fields []string
				callee string
			}{
				{"keeper.Keeper.RewardWeightChangeHook", []string{"RewardWeight", "LastRewardChangeTime"}, "keeper.Keeper.UpdateAllianceAsset"},
				{"keeper.Keeper.DeductAssetsWithTakeRate", []string{"TotalTokens"}, "keeper.Keeper.SetAsset"},
				{"keeper.Keeper.InitializeAllianceAssets", []string{"IsInitialized"}, "keeper.Keeper.SetAsset"},
			} {
				fn := r.Need(spec.fn)
				if fn == nil {
					continue
				}
				fa := e.FA(fn)
				for _, f := range spec.fields {
					sts := StoresToField(fn, "types.AllianceAsset", f)
					ok := len(sts) > 0
					for _, st := range sts {
						root, _, _ := fa.addrPath(st.Addr)
						if !strings.HasPrefix(root, "ptr:$assets[") {
							ok = false
						}
					}
					r.Check(ok, spec.fn, "updates "+f+" of the shared asset record", "stores go through the elements of the assets parameter", "the new "+f+" is computed on a private copy: the asset list that EndBlocker hands to the later steps (the rebalance of the same block) keeps the old value", e.Pos(fn.Pos()))
				}
				// what is persisted is the shared record itself
				for _, c := range CallsTo(fn, spec.callee) {
					a := argT(fa, c, 1)
					base, _ := ovrGet(a, "")
					r.Check(base.Op == "deref" && strings.HasPrefix(base.Args[0].String(), "$assets["), spec.fn, "persists the shared record", "the value persisted is *asset of the assets parameter", "the value persisted ("+a.String()+") is not the shared record", r.P(c))
				}
			}
		}})
}
