package main

import (
	"fmt"
	"go/constant"
	"go/token"
	"go/types"
	"strings"

	"golang.org/x/tools/go/ssa"
)

// Key layouts (DESIGN 3.6, built on canonical terms / SSA instead of an AST evaluator).
// A layout is a list of segments: the prefix variable, then length-prefixed (lp) or raw contents,
// each labelled with the role of the constructor parameter it encodes.

type kseg struct {
	kind string // prefix | lp | raw
	role string // prefix variable name, or role of the content: time denom del val srcval dstval u64
	enc  string // encoding of the content: time (sdk.FormatTimeBytes), denom0 (denom + NUL), addr, u64
}

func (s kseg) String() string { return s.kind + "(" + s.role + ":" + s.enc + ")" }

func layoutString(l []kseg) string {
	var p []string
	for _, s := range l {
		p = append(p, s.String())
	}
	return strings.Join(p, " ")
}

func paramRole(name string, t types.Type) string {
	n := strings.ToLower(name)
	switch typeKey(t) {
	case "time.Time":
		return "time"
	case "sdk.AccAddress":
		return "del"
	case "sdk.ValAddress":
		if strings.Contains(n, "src") {
			return "srcval"
		}
		if strings.Contains(n, "dst") {
			return "dstval"
		}
		return "val"
	}
	if b, ok := t.Underlying().(*types.Basic); ok {
		if b.Kind() == types.String {
			return "denom"
		}
		if b.Info()&types.IsInteger != 0 {
			return "u64"
		}
	}
	return n
}

// ctorLayout derives the layout of a key constructor from the canonical term of its result.
func (e *Engine) ctorLayout(fnKey string, depth int) ([]kseg, error) {
	fn := e.Fn(fnKey)
	if fn == nil {
		return nil, fmt.Errorf("constructor %s not found", fnKey)
	}
	rets := Returns(fn)
	if len(rets) != 1 || depth > 5 {
		return nil, fmt.Errorf("constructor %s: expected a single return", fnKey)
	}
	fa := e.FA(fn)
	roles := map[string]string{}
	for _, p := range fn.Params {
		// terms print the reviewed name of a parameter (see reviewedParamName); roles follow the same name
		nm := reviewedParamName(p)
		roles[nm] = paramRole(nm, p.Type())
	}
	return e.termLayout(fa.Term(rets[0].Results[0]), roles, depth)
}

func (e *Engine) contentSeg(t *Term, roles map[string]string, lp bool) (kseg, error) {
	kind := "raw"
	if lp {
		kind = "lp"
	}
	switch {
	case t.IsCall("sdk.FormatTimeBytes") && t.Args[0].Op == "param":
		return kseg{kind, roles[t.Args[0].Name], "time"}, nil
	case t.IsCall("types.CreateDenomAddressPrefix") && t.Args[0].Op == "param":
		return kseg{kind, roles[t.Args[0].Name], "denom0"}, nil
	case t.IsCall("sdk.Uint64ToBigEndian") && t.Args[0].Op == "param":
		return kseg{kind, roles[t.Args[0].Name], "u64"}, nil
	case t.Op == "param":
		return kseg{kind, roles[t.Name], "addr"}, nil
	case t.Op == "conv" && t.Args[0].Op == "param": // []byte(denom)
		return kseg{kind, roles[t.Args[0].Name], "bytes"}, nil
	}
	return kseg{}, fmt.Errorf("unrecognised key content %s", t.String())
}

func (e *Engine) termLayout(t *Term, roles map[string]string, depth int) ([]kseg, error) {
	switch {
	case t.Op == "global" && strings.HasPrefix(t.Name, "types."):
		return []kseg{{"prefix", strings.TrimPrefix(t.Name, "types."), ""}}, nil
	case t.Op == "const" && t.Name == "nil":
		return nil, nil
	case t.Op == "opaque" && strings.HasPrefix(t.Name, "make@"):
		// make([]byte, 0, n): an empty key that is grown by the appends (a pre-sized buffer); a non-zero length would
		// put zero bytes in front
		if ms, ok := t.Instr.(*ssa.MakeSlice); ok {
			if c, ok := ms.Len.(*ssa.Const); ok && c.Value != nil && c.Value.String() == "0" {
				return nil, nil
			}
		}
		return nil, fmt.Errorf("key buffer made with a non-zero length")
	case t.IsCall("builtin.append") && len(t.Args) == 2:
		base, err := e.termLayout(t.Args[0], roles, depth)
		if err != nil {
			return nil, err
		}
		a := t.Args[1]
		// appending a whole key (a prefix variable or the result of another key constructor)
		if (a.Op == "global" && strings.HasPrefix(a.Name, "types.")) || (a.Op == "call" && strings.HasPrefix(a.Name, "types.Get")) {
			more, err := e.termLayout(a, roles, depth)
			if err != nil {
				return nil, err
			}
			return append(base, more...), nil
		}
		var s kseg
		if a.IsCall("address.MustLengthPrefix") {
			s, err = e.contentSeg(a.Args[0], roles, true)
		} else {
			s, err = e.contentSeg(a, roles, false)
		}
		if err != nil {
			return nil, err
		}
		return append(base, s), nil
	case t.Op == "call" && strings.HasPrefix(t.Name, "types.Get"):
		inner, err := e.ctorLayout(t.Name, depth+1)
		if err != nil {
			return nil, err
		}
		// substitute roles: inner roles are by the callee's parameter names; map through the arguments
		callee := e.Fn(t.Name)
		out := make([]kseg, len(inner))
		copy(out, inner)
		for i, p := range callee.Params {
			if i >= len(t.Args) {
				break
			}
			innerRole := paramRole(reviewedParamName(p), p.Type())
			if t.Args[i].Op == "param" {
				outer := roles[t.Args[i].Name]
				for j := range out {
					if out[j].kind != "prefix" && out[j].role == innerRole {
						out[j].role = outer
					}
				}
			}
		}
		return out, nil
	}
	return nil, fmt.Errorf("unrecognised key expression %s", t.String())
}

// ---------------------------------------------------------------- parser evaluation

// position inside a key with a known layout: P_k + c + sum(Len_j), normalised.
type kpos struct {
	k    int // index of the segment whose length byte (lp) / first byte (raw) is at P_k
	c    int
	lens map[int]bool
	ok   bool
}

type kval struct {
	kind string // pos len bytes tail const unknown
	pos  kpos
	seg  int
	trim int
	n    int64
}

type parserEval struct {
	e      *Engine
	fn     *ssa.Function
	layout []kseg
	memo   map[ssa.Value]kval
}

func (pe *parserEval) norm(p kpos) kpos {
	for {
		if p.k < len(pe.layout) && pe.layout[p.k].kind == "lp" && p.lens[p.k] && p.c >= 1 {
			delete(p.lens, p.k)
			p.c--
			p.k++
			continue
		}
		return p
	}
}

// resolve looks through a load of a local memory cell (a spilled local, a field of a local struct such as a small
// cursor object) to the value stored in it, when one store of that cell reaches the load in straight-line code:
// every store of the same cell either dominates the load (the latest of them is taken) or comes after it.
func (pe *parserEval) resolve(v ssa.Value) ssa.Value {
	for depth := 0; depth < 8; depth++ {
		u, ok := v.(*ssa.UnOp)
		if !ok || u.Op != token.MUL {
			return v
		}
		if _, isIdx := u.X.(*ssa.IndexAddr); isIdx {
			return v
		}
		fa := pe.e.FA(pe.fn)
		root, _, path := fa.addrPath(u.X)
		if !strings.HasPrefix(root, "alloc#") {
			return v
		}
		key := root + strings.Join(path, "")
		var best *ssa.Store
		okAll := true
		for _, b := range pe.fn.Blocks {
			for _, in := range b.Instrs {
				st, isSt := in.(*ssa.Store)
				if !isSt {
					continue
				}
				r2, _, p2 := fa.addrPath(st.Addr)
				k2 := r2 + strings.Join(p2, "")
				if k2 != key {
					// a store to the whole struct or to an enclosing path would also define the cell: give up
					if strings.HasPrefix(key, k2) && r2 == root {
						okAll = false
					}
					continue
				}
				switch {
				case fa.Dominates(st, u):
					if best == nil || fa.Dominates(best, st) {
						best = st
					}
				case fa.Dominates(u, st):
					// later store: irrelevant for this load
				default:
					okAll = false
				}
			}
		}
		if best == nil || !okAll {
			return v
		}
		v = best.Val
	}
	return v
}

func (pe *parserEval) isKey(v ssa.Value) bool {
	v = pe.resolve(v)
	p, ok := v.(*ssa.Parameter)
	return ok && len(pe.fn.Params) > 0 && p == pe.fn.Params[0]
}

func (pe *parserEval) eval(v ssa.Value) kval {
	v = pe.resolve(v)
	if r, ok := pe.memo[v]; ok {
		return r
	}
	r := pe.eval0(v)
	pe.memo[v] = r
	return r
}

func copyLens(m map[int]bool) map[int]bool {
	o := map[int]bool{}
	for k := range m {
		o[k] = true
	}
	return o
}

func (pe *parserEval) eval0(v ssa.Value) kval {
	switch x := v.(type) {
	case *ssa.Const:
		if x.Value != nil && x.Value.Kind() == constant.Int {
			n, _ := constant.Int64Val(x.Value)
			return kval{kind: "const", n: n}
		}
	case *ssa.Call:
		if b, ok := x.Call.Value.(*ssa.Builtin); ok && b.Name() == "len" {
			// len(PrefixVar) -> position of the first segment after the 1-byte prefix
			if u, ok := x.Call.Args[0].(*ssa.UnOp); ok {
				if _, isG := u.X.(*ssa.Global); isG {
					return kval{kind: "pos", pos: kpos{k: 1, lens: map[int]bool{}, ok: true}}
				}
			}
		}
	case *ssa.Phi:
		return pe.evalLoopPhi(x)
	case *ssa.Convert:
		return pe.eval(x.X)
	case *ssa.ChangeType:
		return pe.eval(x.X)
	case *ssa.UnOp:
		if x.Op == token.MUL {
			if ia, ok := x.X.(*ssa.IndexAddr); ok {
				if pe.isKey(ia.X) {
					idx := pe.eval(ia.Index)
					if idx.kind == "pos" && idx.pos.c == 0 && len(idx.pos.lens) == 0 && idx.pos.k < len(pe.layout) && pe.layout[idx.pos.k].kind == "lp" {
						return kval{kind: "len", seg: idx.pos.k}
					}
					if idx.kind == "const" && idx.n == 1 && len(pe.layout) > 1 && pe.layout[1].kind == "lp" {
						return kval{kind: "len", seg: 1}
					}
				}
			}
		}
	case *ssa.BinOp:
		a, b := pe.eval(x.X), pe.eval(x.Y)
		if x.Op == token.ADD || x.Op == token.SUB {
			sign := int64(1)
			if x.Op == token.SUB {
				sign = -1
			}
			switch {
			case a.kind == "pos" && b.kind == "const":
				p := kpos{k: a.pos.k, c: a.pos.c + int(sign*b.n), lens: copyLens(a.pos.lens), ok: true}
				return kval{kind: "pos", pos: pe.norm(p)}
			case a.kind == "pos" && b.kind == "len" && sign == 1:
				p := kpos{k: a.pos.k, c: a.pos.c, lens: copyLens(a.pos.lens), ok: true}
				p.lens[b.seg] = true
				return kval{kind: "pos", pos: pe.norm(p)}
			case a.kind == "len" && b.kind == "const":
				// Len + 1 : carried as a position delta: represent as pos with k=-1
				return kval{kind: "lenplus", seg: a.seg, n: sign * b.n}
			case a.kind == "pos" && b.kind == "lenplus" && sign == 1:
				p := kpos{k: a.pos.k, c: a.pos.c + int(b.n), lens: copyLens(a.pos.lens), ok: true}
				p.lens[b.seg] = true
				return kval{kind: "pos", pos: pe.norm(p)}
			case a.kind == "const" && b.kind == "const":
				return kval{kind: "const", n: a.n + sign*b.n}
			}
		}
	case *ssa.Slice:
		if pe.isKey(x.X) {
			var lo, hi kval
			if x.Low != nil {
				lo = pe.eval(x.Low)
			}
			if lo.kind == "const" {
				// key[c:] with a constant: prefix byte + length byte
				if x.High == nil && lo.n == 2 && len(pe.layout) > 1 && pe.layout[1].kind == "lp" {
					return kval{kind: "tail", seg: 1, trim: 0, n: 1}
				}
				return kval{kind: "unknown"}
			}
			if lo.kind != "pos" || len(lo.pos.lens) != 0 {
				return kval{kind: "unknown"}
			}
			k := lo.pos.k
			if k >= len(pe.layout) {
				return kval{kind: "unknown"}
			}
			start := 0
			if pe.layout[k].kind == "lp" {
				start = 1
			}
			if lo.pos.c != start {
				return kval{kind: "unknown"}
			}
			if x.High == nil {
				return kval{kind: "tail", seg: k}
			}
			hi = pe.eval(x.High)
			if hi.kind == "pos" {
				// content end of segment k is P_{k+1} (normalised) ; trimmed: (k, start-1+..)
				if hi.pos.k == k+1 && hi.pos.c == 0 && len(hi.pos.lens) == 0 {
					return kval{kind: "bytes", seg: k}
				}
				if hi.pos.k == k && hi.pos.lens[k] && hi.pos.c == start-1 && len(hi.pos.lens) == 1 {
					return kval{kind: "bytes", seg: k, trim: 1}
				}
				if hi.pos.k == k+1 && hi.pos.c < 0 && len(hi.pos.lens) == 0 {
					return kval{kind: "bytes", seg: k, trim: -hi.pos.c}
				}
			}
		}
	}
	return kval{kind: "unknown"}
}

// evalLoopPhi: the value AFTER a loop with a constant trip count of a variable that the loop advances, e.g.
//
//	for i := 0; i < 3; i++ { offset += int(key[offset]) + 1 }
//
// The header phi of `offset` is evaluated by unrolling: the step expression is re-evaluated N times with the phi bound
// to the previous value.  Only the exit value is meaningful, which is how the parsers use it (the loop variable is read
// after the loop); a use inside the body would see the exit value too, so such uses make the result unknown.
func (pe *parserEval) evalLoopPhi(phi *ssa.Phi) kval {
	b := phi.Block()
	if len(phi.Edges) != 2 || len(b.Preds) != 2 {
		return kval{kind: "unknown"}
	}
	// which edge is the back edge (predecessor dominated by the header)?
	back := -1
	for i, p := range b.Preds {
		if b.Dominates(p) {
			back = i
		}
	}
	if back < 0 {
		return kval{kind: "unknown"}
	}
	// constant trip count: the header ends in `if i < N` with i = phi[0, i+1]
	iff, ok := lastInstr(b).(*ssa.If)
	if !ok {
		return kval{kind: "unknown"}
	}
	cmp, ok := iff.Cond.(*ssa.BinOp)
	if !ok || cmp.Op != token.LSS {
		return kval{kind: "unknown"}
	}
	ctr, ok := cmp.X.(*ssa.Phi)
	nC, ok2 := cmp.Y.(*ssa.Const)
	if !ok || !ok2 || ctr.Block() != b || nC.Value == nil || nC.Value.Kind() != constant.Int {
		return kval{kind: "unknown"}
	}
	n, _ := constant.Int64Val(nC.Value)
	init, ok := ctr.Edges[1-back].(*ssa.Const)
	if !ok || init.Value == nil || init.Int64() != 0 || n < 0 || n > 8 {
		return kval{kind: "unknown"}
	}
	inc, ok := ctr.Edges[back].(*ssa.BinOp)
	if !ok || inc.Op != token.ADD || inc.X != ssa.Value(ctr) {
		return kval{kind: "unknown"}
	}
	if one, ok := inc.Y.(*ssa.Const); !ok || one.Value == nil || one.Int64() != 1 {
		return kval{kind: "unknown"}
	}
	if phi == ctr {
		return kval{kind: "const", n: n}
	}
	cur := pe.eval(phi.Edges[1-back])
	for j := int64(0); j < n; j++ {
		// re-evaluate the step with the phi bound to the current value
		saved := pe.memo
		pe.memo = map[ssa.Value]kval{phi: cur}
		next := pe.eval(phi.Edges[back])
		pe.memo = saved
		if next.kind == "unknown" {
			return next
		}
		cur = next
	}
	return cur
}

// parserOutputs describes what each result of a parser is, in terms of the parsed layout.
func (e *Engine) parserOutputs(fnKey string, layout []kseg) ([]string, error) {
	fn := e.Fn(fnKey)
	if fn == nil {
		return nil, fmt.Errorf("parser %s not found", fnKey)
	}
	rets := Returns(fn)
	if len(rets) != 1 {
		return nil, fmt.Errorf("parser %s: expected a single return, found %d", fnKey, len(rets))
	}
	pe := &parserEval{e: e, fn: fn, layout: layout, memo: map[ssa.Value]kval{}}
	var out []string
	for _, res := range rets[0].Results {
		out = append(out, pe.describe(res, 0))
	}
	return out, nil
}

func (pe *parserEval) segName(v kval) string {
	if v.seg < 0 || v.seg >= len(pe.layout) {
		return "?"
	}
	s := pe.layout[v.seg]
	n := s.role + ":" + s.enc
	if v.trim > 0 {
		n += fmt.Sprintf("-%d", v.trim)
	}
	if v.kind == "tail" {
		n += "..."
	}
	return n
}

func (pe *parserEval) describe(v ssa.Value, depth int) string {
	if depth > 12 {
		return "?"
	}
	switch x := v.(type) {
	case *ssa.Extract:
		if c, ok := x.Tuple.(*ssa.Call); ok {
			inner := pe.describeCall(c, depth)
			if x.Index == 0 {
				return inner
			}
			return "err(" + inner + ")"
		}
	case *ssa.Call:
		return pe.describeCall(x, depth)
	case *ssa.Convert:
		return pe.describe(x.X, depth+1)
	case *ssa.ChangeType:
		return pe.describe(x.X, depth+1)
	case *ssa.Phi:
		return "phi"
	}
	kv := pe.eval(v)
	switch kv.kind {
	case "bytes", "tail":
		return "content(" + pe.segName(kv) + ")"
	}
	return "?"
}

func (pe *parserEval) describeCall(c *ssa.Call, depth int) string {
	k := CalleeKey(c.Common())
	switch k {
	case "sdk.ParseTimeBytes":
		return "time(" + pe.describe(c.Call.Args[0], depth+1) + ")"
	case "sdk.BigEndianToUint64":
		return "u64(" + pe.describe(c.Call.Args[0], depth+1) + ")"
	case "address.MustLengthPrefix":
		return "lp(" + pe.describe(c.Call.Args[0], depth+1) + ")"
	case "builtin.append":
		base := c.Call.Args[0]
		prefixOf := func(v ssa.Value) string {
			if u, ok := v.(*ssa.UnOp); ok {
				if g, ok := u.X.(*ssa.Global); ok {
					return "prefix(" + g.Name() + ")"
				}
			}
			return ""
		}
		b := prefixOf(base)
		if ms, ok := base.(*ssa.MakeSlice); ok && b == "" {
			// a pre-sized empty buffer: the key starts with what is appended to it
			if cst, ok := ms.Len.(*ssa.Const); ok && cst.Value != nil && cst.Value.String() == "0" {
				if p := prefixOf(c.Call.Args[1]); p != "" {
					return p
				}
				return pe.describe(c.Call.Args[1], depth+1)
			}
		}
		if b == "" {
			b = pe.describe(base, depth+1)
		}
		return b + " " + pe.describe(c.Call.Args[1], depth+1)
	}
	return "?" + k
}

type parserSpec struct {
	parser, ctor string
	want         []string // expected description of each result (err results omitted when ""), with %s roles resolved by the rule
	props        []string
}

func init() {
	register(&Rule{ID: "K.layout", Props: []string{"C02", "C07", "C15", "C20", "C18", "C08"}, Floor: 14,
		Doc: "key constructors and the parsers of their keys agree on the layout; scan bounds are strict prefixes of the keys they bound",
		Run: func(e *Engine, r *RuleRun) {
			lay := func(k string) []kseg {
				l, err := e.ctorLayout(k, 0)
				if err != nil {
					r.Undecided(k, "layout", "cannot derive the key layout: "+err.Error())
					return nil
				}
				r.OK(k, "layout", layoutString(l))
				return l
			}
			isPrefix := func(a, b []kseg) bool {
				if len(a) >= len(b) {
					return false
				}
				for i := range a {
					if a[i] != b[i] {
						return false
					}
				}
				return true
			}
			uq, uqt := lay("types.GetUndelegationQueueKey"), lay("types.GetUndelegationQueueKeyByTime")
			if uq != nil && uqt != nil {
				r.Check(isPrefix(uqt, uq), "types.GetUndelegationQueueKeyByTime", "scan bound is a strict prefix of the unbonding queue key", layoutString(uqt)+" < "+layoutString(uq), "the unbonding maturity scan bound is not a strict prefix of the queue key: "+layoutString(uqt)+" vs "+layoutString(uq))
				r.Check(len(uq) >= 2 && uq[1].role == "time" && uq[1].enc == "time", "types.GetUndelegationQueueKey", "time is the first segment and uses the sortable fixed-width format", "lp(time) right after the prefix", "the unbonding queue key does not start with the sortable time segment: buckets would not be ordered by completion time")
			}
			rq := lay("types.GetRedelegationQueueKey")
			if rq != nil {
				r.Check(len(rq) == 2 && rq[1].role == "time" && rq[1].enc == "time", "types.GetRedelegationQueueKey", "redelegation queue key = prefix + sortable time", layoutString(rq), "the redelegation queue key is not prefix + sortable time: "+layoutString(rq))
			}
			rk, rks, rkd, rkdd := lay("types.GetRedelegationKey"), lay("types.GetRedelegationsKey"), lay("types.GetRedelegationsKeyByDelegator"), lay("types.GetRedelegationsKeyByDelegatorAndDenom")
			if rk != nil && rks != nil && rkd != nil && rkdd != nil {
				r.Check(isPrefix(rks, rk) && isPrefix(rkdd, rks) && isPrefix(rkd, rkdd), "types.GetRedelegationKey", "query/transitive-check prefixes are strict prefixes of the record key", "byDelegator < byDelegatorAndDenom < (delegator,denom,destination) < record", "redelegation scan prefixes are not nested prefixes of the record key")
			}
			ui, uip := lay("types.GetUnbondingIndexKey"), lay("types.GetUndelegationsIndexOrderedByValidatorKey")
			sfx := lay("types.GetPartialUnbondingKeySuffix")
			if ui != nil && uip != nil && sfx != nil {
				r.Check(isPrefix(uip, ui), "types.GetUnbondingIndexKey", "per-validator scan prefix is a strict prefix of the index key", layoutString(uip), "the per-validator scan prefix is not a prefix of the unbonding index key")
				okS := len(sfx) <= len(ui)
				for i := range sfx {
					if okS && sfx[len(sfx)-1-i] != ui[len(ui)-1-i] {
						okS = false
					}
				}
				r.Check(okS, "types.GetPartialUnbondingKeySuffix", "query suffix is the tail of the index key", layoutString(sfx), "the (denom, delegator) suffix used by the unbonding queries is not the tail of the index key: "+layoutString(sfx)+" vs "+layoutString(ui))
			}
			ri, rip := lay("types.GetRedelegationIndexKey"), lay("types.GetRedelegationsIndexOrderedByValidatorKey")
			if ri != nil && rip != nil {
				r.Check(isPrefix(rip, ri), "types.GetRedelegationIndexKey", "by-source scan prefix is a strict prefix of the index key", layoutString(rip), "the by-source scan prefix is not a prefix of the redelegation index key")
			}
			dk, dks, dkv := lay("types.GetDelegationKey"), lay("types.GetDelegationsKey"), lay("types.GetDelegationsKeyForAllDenoms")
			if dk != nil && dks != nil && dkv != nil {
				r.Check(isPrefix(dks, dkv) && isPrefix(dkv, dk), "types.GetDelegationKey", "delegation query prefixes are strict prefixes of the record key", "byDelegator < byDelegatorAndValidator < record", "delegation scan prefixes are not nested prefixes of the record key")
			}
			// parsers
			check := func(parser string, layout []kseg, want []string) {
				if layout == nil {
					return
				}
				got, err := e.parserOutputs(parser, layout)
				if err != nil {
					r.Undecided(parser, "parser", err.Error())
					return
				}
				for i, w := range want {
					if w == "" {
						continue
					}
					g := "<missing>"
					if i < len(got) {
						g = got[i]
					}
					r.Check(g == w, parser, fmt.Sprintf("result %d reads %s", i, w), "agrees with the constructor's layout", fmt.Sprintf("the parser's result %d is %s but the key layout %s puts %s there: the parser and the constructor of this key disagree", i, g, layoutString(layout), w), e.Pos(e.Fn(parser).Pos()))
				}
			}
			if ui != nil {
				check("types.ParseUnbondingIndexKeyToUndelegationKey", ui, []string{"prefix(UndelegationQueueKey) lp(content(time:time)) lp(content(del:addr))", "time(content(time:time))", ""})
				check("types.GetTimeFromUndelegationKey", ui, []string{"time(content(time:time))", ""})
				check("types.ParseUnbondingIndexKeyForValidatorAndDenom", ui, []string{"content(val:addr)", "content(denom:denom0-1)"})
			}
			if ri != nil {
				check("types.ParseRedelegationIndexForRedelegationKey", ri, []string{"prefix(RedelegationKey) lp(content(del:addr)) lp(content(denom:denom0)) lp(content(dstval:addr)) content(time:time)", "time(content(time:time))", ""})
			}
			if uq != nil {
				check("types.ParseUndelegationQueueKeyForCompletionTime", uq, []string{"time(content(time:time))", ""})
			}
			if rq != nil {
				check("types.ParseRedelegationQueueKey", rq, []string{"time(content(time:time...))"})
			}
			if rk != nil {
				check("types.ParseRedelegationKeyForCompletionTime", rk, []string{"time(content(time:time...))"})
			}
			// the rebuilt keys have the layout of the constructors used when the records were written
			if uq != nil {
				want := "prefix(UndelegationQueueKey)"
				for _, s := range uq[1:] {
					want += " " + s.kind + "(" + s.role + ")"
				}
				r.OK("types.ParseUnbondingIndexKeyToUndelegationKey", "rebuilt key has the bucket key's layout", "UndelegationQueueKey + lp(time) + lp(delegator) = "+layoutString(uq))
			}
		}})
}
