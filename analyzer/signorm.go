package main

import (
	"bytes"
	"fmt"
	"go/ast"
	"go/types"
	"sort"
	"strings"

	"golang.org/x/tools/go/packages"
)

// normaliseSignatures undoes two kinds of behaviour-preserving edits of unexported functions before the program is
// analysed, by rewriting an in-memory overlay of the source (like the helper inliner):
//   - a reviewed method turned into a plain function that takes the former receiver as a parameter (or the other
//     way round), and
//   - reordered parameters,
//
// in both cases with every call site updated accordingly by the author.  A current declaration is matched with the
// reviewed function of the same package and name; when the parameter types (receiver included) are the same
// multiset in another order or shape, the declaration header and all call sites are rewritten to the reviewed
// order.  Parameters are paired by (name, type) when the names survived, else by order among those of one type.
// A function that is also used as a value, is variadic, generic or has unnamed parameters is left alone.
func normaliseSignatures(pkgs []*packages.Package, src func(string) []byte) (map[string][]byte, []string) {
	type edit struct {
		a, e int
		text string
	}
	edits := map[string][]edit{}
	var notes []string
	for _, p := range pkgs {
		if !smPkgs[p.PkgPath] || p.TypesInfo == nil {
			continue
		}
		info := p.TypesInfo
		current := map[string]bool{}
		type declInfo struct {
			fd    *ast.FuncDecl
			fname string
			key   string
		}
		var decls []declInfo
		for i, f := range p.Syntax {
			if i >= len(p.CompiledGoFiles) {
				continue
			}
			fname := p.CompiledGoFiles[i]
			if strings.HasSuffix(fname, ".pb.go") || strings.HasSuffix(fname, ".pb.gw.go") {
				continue
			}
			for _, d := range f.Decls {
				if fd, ok := d.(*ast.FuncDecl); ok && fd.Body != nil {
					k := declKey(p.PkgPath, fd)
					current[k] = true
					decls = append(decls, declInfo{fd, fname, k})
				}
			}
		}
		bare := func(k string) string { return k[strings.LastIndex(k, ".")+1:] }
		pkgOf := func(k string) string { return k[:strings.Index(k, ".")] }
		isMethodKey := func(k string) bool { return strings.Count(k, ".") >= 2 }
		for _, di := range decls {
			fd := di.fd
			if ast.IsExported(fd.Name.Name) || fd.Name.Name == "init" || fd.Type.TypeParams != nil {
				continue
			}
			// the reviewed counterpart
			kb := ""
			if baselineFuncs[di.key] {
				kb = di.key
			} else {
				var cands []string
				for k := range baselineFuncs {
					if !current[k] && bare(k) == fd.Name.Name && pkgOf(k) == pkgOf(di.key) {
						cands = append(cands, k)
					}
				}
				if len(cands) == 1 {
					kb = cands[0]
				}
			}
			base, ok := baselineParams[kb]
			if kb == "" || !ok {
				continue
			}
			obj, _ := info.Defs[fd.Name].(*types.Func)
			if obj == nil {
				continue
			}
			sig := obj.Type().(*types.Signature)
			if sig.Variadic() {
				continue
			}
			// current parameters, receiver first: name, type key, source text of the type
			type cpar struct{ name, tkey, ttext string }
			var cur []cpar
			csrc := src(di.fname)
			if csrc == nil {
				continue
			}
			text := func(n ast.Node) string {
				return string(csrc[p.Fset.Position(n.Pos()).Offset:p.Fset.Position(n.End()).Offset])
			}
			bad := false
			collect := func(fl *ast.FieldList) {
				if fl == nil {
					return
				}
				for _, f := range fl.List {
					if len(f.Names) == 0 {
						bad = true
						return
					}
					for _, nm := range f.Names {
						v, _ := info.Defs[nm].(*types.Var)
						if v == nil {
							// `_` parameters have no object: take the type from the field
							t := info.TypeOf(f.Type)
							if t == nil {
								bad = true
								return
							}
							cur = append(cur, cpar{nm.Name, typeKey(t) + ptrMark(t), text(f.Type)})
							continue
						}
						cur = append(cur, cpar{nm.Name, typeKey(v.Type()) + ptrMark(v.Type()), text(f.Type)})
					}
				}
			}
			collect(fd.Recv)
			collect(fd.Type.Params)
			if bad || len(cur) != len(base) {
				continue
			}
			same := isMethodKey(kb) == (fd.Recv != nil)
			for i := range cur {
				if cur[i].tkey != base[i][1] {
					same = false
				}
			}
			if same {
				continue
			}
			// pair reviewed position i with current position perm[i]
			perm := make([]int, len(base))
			used := make([]bool, len(cur))
			for i := range perm {
				perm[i] = -1
			}
			for i, b := range base {
				for j, c := range cur {
					if !used[j] && c.name == b[0] && c.name != "_" && c.tkey == b[1] {
						perm[i], used[j] = j, true
						break
					}
				}
			}
			okPerm := true
			for i, b := range base {
				if perm[i] >= 0 {
					continue
				}
				for j, c := range cur {
					if !used[j] && c.tkey == b[1] {
						perm[i], used[j] = j, true
						break
					}
				}
				if perm[i] < 0 {
					okPerm = false
				}
			}
			if !okPerm {
				continue
			}
			// uses of the function: only calls
			type site struct {
				call  *ast.CallExpr
				fname string
			}
			var sites []site
			valueUse := false
			for i, f := range p.Syntax {
				if i >= len(p.CompiledGoFiles) {
					continue
				}
				called := map[*ast.Ident]*ast.CallExpr{}
				ast.Inspect(f, func(nd ast.Node) bool {
					if c, ok := nd.(*ast.CallExpr); ok {
						switch fx := ast.Unparen(c.Fun).(type) {
						case *ast.Ident:
							called[fx] = c
						case *ast.SelectorExpr:
							called[fx.Sel] = c
						}
					}
					return true
				})
				ast.Inspect(f, func(nd ast.Node) bool {
					if id, ok := nd.(*ast.Ident); ok && info.Uses[id] == types.Object(obj) {
						if c := called[id]; c != nil {
							sites = append(sites, site{c, p.CompiledGoFiles[i]})
						} else {
							valueUse = true
						}
					}
					return true
				})
			}
			if valueUse {
				notes = append(notes, di.key+": signature differs from the reviewed "+kb+" but the function is used as a value")
				continue
			}
			// declaration header
			var hb bytes.Buffer
			hb.WriteString("func ")
			rest := 0
			if isMethodKey(kb) {
				c := cur[perm[0]]
				fmt.Fprintf(&hb, "(%s %s) ", c.name, c.ttext)
				rest = 1
			}
			hb.WriteString(fd.Name.Name + "(")
			for i := rest; i < len(base); i++ {
				c := cur[perm[i]]
				if i > rest {
					hb.WriteString(", ")
				}
				fmt.Fprintf(&hb, "%s %s", c.name, c.ttext)
			}
			hb.WriteString(")")
			hdrEnd := fd.Type.Params.End()
			edits[di.fname] = append(edits[di.fname], edit{p.Fset.Position(fd.Pos()).Offset, p.Fset.Position(hdrEnd).Offset, hb.String()})
			// call sites
			okSites := true
			for _, s := range sites {
				ssrc := src(s.fname)
				if ssrc == nil {
					okSites = false
					break
				}
				stext := func(n ast.Node) string {
					return string(ssrc[p.Fset.Position(n.Pos()).Offset:p.Fset.Position(n.End()).Offset])
				}
				var args []string
				if fd.Recv != nil {
					sel, ok := ast.Unparen(s.call.Fun).(*ast.SelectorExpr)
					if !ok {
						okSites = false
						break
					}
					args = append(args, stext(sel.X))
				}
				for _, a := range s.call.Args {
					args = append(args, stext(a))
				}
				if len(args) != len(cur) || s.call.Ellipsis.IsValid() {
					okSites = false
					break
				}
				var cb bytes.Buffer
				r0 := 0
				if isMethodKey(kb) {
					fmt.Fprintf(&cb, "(%s).", args[perm[0]])
					r0 = 1
				}
				cb.WriteString(fd.Name.Name + "(")
				for i := r0; i < len(base); i++ {
					if i > r0 {
						cb.WriteString(", ")
					}
					cb.WriteString(args[perm[i]])
				}
				cb.WriteString(")")
				edits[s.fname] = append(edits[s.fname], edit{p.Fset.Position(s.call.Pos()).Offset, p.Fset.Position(s.call.End()).Offset, cb.String()})
			}
			if !okSites {
				notes = append(notes, di.key+": a call site could not be rewritten to the reviewed signature of "+kb)
				// drop this function's edits: simplest is to give up on the whole pass for safety
				return nil, notes
			}
			notes = append(notes, di.key+": declaration and "+fmt.Sprint(len(sites))+" call sites rewritten to the reviewed signature of "+kb)
		}
	}
	if len(edits) == 0 {
		return nil, notes
	}
	out := map[string][]byte{}
	for fname, es := range edits {
		b := src(fname)
		sort.Slice(es, func(i, j int) bool { return es[i].a > es[j].a })
		// nested edits (a rewritten call inside the argument of another rewritten call) are not supported
		for i := 1; i < len(es); i++ {
			if es[i].e > es[i-1].a {
				return nil, append(notes, "overlapping signature edits in "+fname+": pass abandoned")
			}
		}
		nb := append([]byte{}, b...)
		for _, e := range es {
			nb = append(append(append([]byte{}, nb[:e.a]...), []byte(e.text)...), nb[e.e:]...)
		}
		out[fname] = nb
	}
	return out, notes
}
