package main

import (
	"bytes"
	"fmt"
	"go/ast"
	"go/token"
	"go/types"
	"sort"
	"strings"

	"golang.org/x/tools/go/packages"
)

// normaliseSignatures undoes two kinds of behaviour-preserving edits of unexported functions before the program is
// analysed, by rewriting an in-memory overlay of the source (like the helper inliner):
//   - a reviewed method turned into a plain function that takes the former receiver as a parameter (or the other
//     way round), and
//   - reordered parameters,
//
// in both cases with every call site updated accordingly by the author.  A current declaration is matched with the
// reviewed function of the same package and name; when the parameter types (receiver included) are the same
// multiset in another order or shape, the declaration header and all call sites are rewritten to the reviewed
// order.  Parameters are paired by (name, type) when the names survived, else by order among those of one type.
// A function that is also used as a value, is variadic, generic or has unnamed parameters is left alone.
func normaliseSignatures(pkgs []*packages.Package, src func(string) []byte) (map[string][]byte, []string) {
	type edit struct {
		a, e int
		text string
	}
	edits := map[string][]edit{}
	var notes []string
	for _, p := range pkgs {
		if !smPkgs[p.PkgPath] || p.TypesInfo == nil {
			continue
		}
		info := p.TypesInfo
		current := map[string]bool{}
		type declInfo struct {
			fd    *ast.FuncDecl
			fname string
			key   string
		}
		var decls []declInfo
		for i, f := range p.Syntax {
			if i >= len(p.CompiledGoFiles) {
				continue
			}
			fname := p.CompiledGoFiles[i]
			if strings.HasSuffix(fname, ".pb.go") || strings.HasSuffix(fname, ".pb.gw.go") {
				continue
			}
			for _, d := range f.Decls {
				if fd, ok := d.(*ast.FuncDecl); ok && fd.Body != nil {
					k := declKey(p.PkgPath, fd)
					current[k] = true
					decls = append(decls, declInfo{fd, fname, k})
				}
			}
		}
		bare := func(k string) string { return k[strings.LastIndex(k, ".")+1:] }
		pkgOf := func(k string) string { return k[:strings.Index(k, ".")] }
		isMethodKey := func(k string) bool { return strings.Count(k, ".") >= 2 }
		for _, di := range decls {
			fd := di.fd
			if ast.IsExported(fd.Name.Name) || fd.Name.Name == "init" || fd.Type.TypeParams != nil {
				continue
			}
			// the reviewed counterpart
			kb := ""
			if baselineFuncs[di.key] {
				kb = di.key
			} else {
				var cands []string
				for k := range baselineFuncs {
					if !current[k] && bare(k) == fd.Name.Name && pkgOf(k) == pkgOf(di.key) {
						cands = append(cands, k)
					}
				}
				if len(cands) == 1 {
					kb = cands[0]
				}
			}
			base, ok := baselineParams[kb]
			if kb == "" || !ok {
				continue
			}
			obj, _ := info.Defs[fd.Name].(*types.Func)
			if obj == nil {
				continue
			}
			sig := obj.Type().(*types.Signature)
			if sig.Variadic() {
				continue
			}
			// current parameters, receiver first: name, type key, source text of the type
			type cpar struct{ name, tkey, ttext string }
			var cur []cpar
			csrc := src(di.fname)
			if csrc == nil {
				continue
			}
			text := func(n ast.Node) string {
				return string(csrc[p.Fset.Position(n.Pos()).Offset:p.Fset.Position(n.End()).Offset])
			}
			bad := false
			collect := func(fl *ast.FieldList) {
				if fl == nil {
					return
				}
				for _, f := range fl.List {
					if len(f.Names) == 0 {
						bad = true
						return
					}
					for _, nm := range f.Names {
						v, _ := info.Defs[nm].(*types.Var)
						if v == nil {
							// `_` parameters have no object: take the type from the field
							t := info.TypeOf(f.Type)
							if t == nil {
								bad = true
								return
							}
							cur = append(cur, cpar{nm.Name, typeKey(t) + ptrMark(t), text(f.Type)})
							continue
						}
						cur = append(cur, cpar{nm.Name, typeKey(v.Type()) + ptrMark(v.Type()), text(f.Type)})
					}
				}
			}
			collect(fd.Recv)
			collect(fd.Type.Params)
			if bad || len(cur) != len(base) {
				continue
			}
			same := isMethodKey(kb) == (fd.Recv != nil)
			for i := range cur {
				if cur[i].tkey != base[i][1] {
					same = false
				}
			}
			if same {
				continue
			}
			// pair reviewed position i with current position perm[i]
			perm := make([]int, len(base))
			used := make([]bool, len(cur))
			for i := range perm {
				perm[i] = -1
			}
			for i, b := range base {
				for j, c := range cur {
					if !used[j] && c.name == b[0] && c.name != "_" && c.tkey == b[1] {
						perm[i], used[j] = j, true
						break
					}
				}
			}
			okPerm := true
			for i, b := range base {
				if perm[i] >= 0 {
					continue
				}
				for j, c := range cur {
					if !used[j] && c.tkey == b[1] {
						perm[i], used[j] = j, true
						break
					}
				}
				if perm[i] < 0 {
					okPerm = false
				}
			}
			if !okPerm {
				continue
			}
			// uses of the function: only calls
			type site struct {
				call  *ast.CallExpr
				fname string
			}
			var sites []site
			valueUse := false
			for i, f := range p.Syntax {
				if i >= len(p.CompiledGoFiles) {
					continue
				}
				called := map[*ast.Ident]*ast.CallExpr{}
				ast.Inspect(f, func(nd ast.Node) bool {
					if c, ok := nd.(*ast.CallExpr); ok {
						switch fx := ast.Unparen(c.Fun).(type) {
						case *ast.Ident:
							called[fx] = c
						case *ast.SelectorExpr:
							called[fx.Sel] = c
						}
					}
					return true
				})
				ast.Inspect(f, func(nd ast.Node) bool {
					if id, ok := nd.(*ast.Ident); ok && info.Uses[id] == types.Object(obj) {
						if c := called[id]; c != nil {
							sites = append(sites, site{c, p.CompiledGoFiles[i]})
						} else {
							valueUse = true
						}
					}
					return true
				})
			}
			if valueUse {
				notes = append(notes, di.key+": signature differs from the reviewed "+kb+" but the function is used as a value")
				continue
			}
			// declaration header
			var hb bytes.Buffer
			hb.WriteString("func ")
			rest := 0
			if isMethodKey(kb) {
				c := cur[perm[0]]
				fmt.Fprintf(&hb, "(%s %s) ", c.name, c.ttext)
				rest = 1
			}
			hb.WriteString(fd.Name.Name + "(")
			for i := rest; i < len(base); i++ {
				c := cur[perm[i]]
				if i > rest {
					hb.WriteString(", ")
				}
				fmt.Fprintf(&hb, "%s %s", c.name, c.ttext)
			}
			hb.WriteString(")")
			hdrEnd := fd.Type.Params.End()
			edits[di.fname] = append(edits[di.fname], edit{p.Fset.Position(fd.Pos()).Offset, p.Fset.Position(hdrEnd).Offset, hb.String()})
			// call sites
			okSites := true
			for _, s := range sites {
				ssrc := src(s.fname)
				if ssrc == nil {
					okSites = false
					break
				}
				stext := func(n ast.Node) string {
					return string(ssrc[p.Fset.Position(n.Pos()).Offset:p.Fset.Position(n.End()).Offset])
				}
				var args []string
				if fd.Recv != nil {
					sel, ok := ast.Unparen(s.call.Fun).(*ast.SelectorExpr)
					if !ok {
						okSites = false
						break
					}
					args = append(args, stext(sel.X))
				}
				for _, a := range s.call.Args {
					args = append(args, stext(a))
				}
				if len(args) != len(cur) || s.call.Ellipsis.IsValid() {
					okSites = false
					break
				}
				var cb bytes.Buffer
				r0 := 0
				if isMethodKey(kb) {
					fmt.Fprintf(&cb, "(%s).", args[perm[0]])
					r0 = 1
				}
				cb.WriteString(fd.Name.Name + "(")
				for i := r0; i < len(base); i++ {
					if i > r0 {
						cb.WriteString(", ")
					}
					cb.WriteString(args[perm[i]])
				}
				cb.WriteString(")")
				edits[s.fname] = append(edits[s.fname], edit{p.Fset.Position(s.call.Pos()).Offset, p.Fset.Position(s.call.End()).Offset, cb.String()})
			}
			if !okSites {
				notes = append(notes, di.key+": a call site could not be rewritten to the reviewed signature of "+kb)
				// drop this function's edits: simplest is to give up on the whole pass for safety
				return nil, notes
			}
			notes = append(notes, di.key+": declaration and "+fmt.Sprint(len(sites))+" call sites rewritten to the reviewed signature of "+kb)
		}
	}
	if len(edits) == 0 {
		return nil, notes
	}
	out := map[string][]byte{}
	for fname, es := range edits {
		b := src(fname)
		sort.Slice(es, func(i, j int) bool { return es[i].a > es[j].a })
		// nested edits (a rewritten call inside the argument of another rewritten call) are not supported
		for i := 1; i < len(es); i++ {
			if es[i].e > es[i-1].a {
				return nil, append(notes, "overlapping signature edits in "+fname+": pass abandoned")
			}
		}
		nb := append([]byte{}, b...)
		for _, e := range es {
			nb = append(append(append([]byte{}, nb[:e.a]...), []byte(e.text)...), nb[e.e:]...)
		}
		out[fname] = nb
	}
	return out, notes
}

// synthFlagSplit undoes "remove flag argument": a reviewed function F(.., flag bool, ..) that is gone while exactly
// two new unexported functions of the same package and receiver have F's signature without the flag.  F is
// re-created in the overlay as `if flag { return G1(..) }; return G2(..)` and the call sites of G1 / G2 are
// rewritten to F(.., true|false, ..); the inliner then puts the bodies of G1 and G2 back into F.  Which of the two
// is the `true` variant is read from the names (flag `isAdd`: the function whose name contains `add`); without an
// unambiguous answer nothing is done.
func synthFlagSplit(pkgs []*packages.Package, src func(string) []byte) (map[string][]byte, []string) {
	type edit struct {
		a, e int
		text string
	}
	edits := map[string][]edit{}
	appendix := map[string]string{}
	var notes []string
	for _, p := range pkgs {
		if !smPkgs[p.PkgPath] || p.TypesInfo == nil {
			continue
		}
		info := p.TypesInfo
		current := map[string]bool{}
		type declInfo struct {
			fd    *ast.FuncDecl
			fname string
			key   string
			sig   []string // type keys, receiver first
		}
		var added []declInfo
		for i, f := range p.Syntax {
			if i >= len(p.CompiledGoFiles) {
				continue
			}
			fname := p.CompiledGoFiles[i]
			if strings.HasSuffix(fname, ".pb.go") || strings.HasSuffix(fname, ".pb.gw.go") {
				continue
			}
			for _, d := range f.Decls {
				fd, ok := d.(*ast.FuncDecl)
				if !ok || fd.Body == nil {
					continue
				}
				k := declKey(p.PkgPath, fd)
				current[k] = true
				if baselineFuncs[k] || ast.IsExported(fd.Name.Name) || fd.Type.TypeParams != nil {
					continue
				}
				obj, _ := info.Defs[fd.Name].(*types.Func)
				if obj == nil {
					continue
				}
				sg := obj.Type().(*types.Signature)
				if sg.Variadic() {
					continue
				}
				var parts []string
				if sg.Recv() != nil {
					parts = append(parts, typeKey(sg.Recv().Type())+ptrMark(sg.Recv().Type()))
				}
				for j := 0; j < sg.Params().Len(); j++ {
					t := sg.Params().At(j).Type()
					parts = append(parts, typeKey(t)+ptrMark(t))
				}
				added = append(added, declInfo{fd, fname, k, parts})
			}
		}
		prefixOf := func(k string) string { return k[:strings.LastIndex(k, ".")+1] }
		for kb := range baselineFuncs {
			if current[kb] || !strings.HasPrefix(kb, alias(p.PkgPath)+".") {
				continue
			}
			base, ok := baselineParams[kb]
			if !ok {
				continue
			}
			flag := -1
			for i, b := range base {
				if b[1] == "bool" {
					if flag >= 0 {
						flag = -2
						break
					}
					flag = i
				}
			}
			if flag < 0 {
				continue
			}
			var want []string
			for i, b := range base {
				if i != flag {
					want = append(want, b[1])
				}
			}
			var cands []declInfo
			for _, a := range added {
				if prefixOf(a.key) == prefixOf(kb) && strings.Join(a.sig, "|") == strings.Join(want, "|") {
					cands = append(cands, a)
				}
			}
			if len(cands) != 2 {
				continue
			}
			// polarity from the names
			stem := strings.ToLower(base[flag][0])
			for _, pre := range []string{"is", "should", "do", "with"} {
				if strings.HasPrefix(stem, pre) && len(stem) > len(pre) {
					stem = stem[len(pre):]
					break
				}
			}
			has0 := strings.Contains(strings.ToLower(cands[0].fd.Name.Name), stem)
			has1 := strings.Contains(strings.ToLower(cands[1].fd.Name.Name), stem)
			if has0 == has1 {
				notes = append(notes, kb+": looks split by its flag into "+cands[0].key+" and "+cands[1].key+" but the names do not tell which is which")
				continue
			}
			gTrue, gFalse := cands[0], cands[1]
			if has1 {
				gTrue, gFalse = cands[1], cands[0]
			}
			isMethod := strings.Count(kb, ".") >= 2
			if isMethod != (gTrue.fd.Recv != nil) || isMethod != (gFalse.fd.Recv != nil) {
				continue
			}
			// the synthesised declaration, with the reviewed parameter names and the type texts of the true variant
			csrc := src(gTrue.fname)
			if csrc == nil {
				continue
			}
			text := func(n ast.Node) string {
				return string(csrc[p.Fset.Position(n.Pos()).Offset:p.Fset.Position(n.End()).Offset])
			}
			var ttexts []string
			okDecl := true
			collect := func(fl *ast.FieldList) {
				if fl == nil {
					return
				}
				for _, f := range fl.List {
					n := len(f.Names)
					if n == 0 {
						n = 1
					}
					for j := 0; j < n; j++ {
						ttexts = append(ttexts, text(f.Type))
					}
				}
			}
			collect(gTrue.fd.Recv)
			collect(gTrue.fd.Type.Params)
			if len(ttexts) != len(want) {
				okDecl = false
			}
			if !okDecl {
				continue
			}
			var hb bytes.Buffer
			name := kb[strings.LastIndex(kb, ".")+1:]
			hb.WriteString("\n\nfunc ")
			var callArgs []string
			ti := 0
			recvName := ""
			for i, b := range base {
				tt := "bool"
				if i != flag {
					tt = ttexts[ti]
					ti++
				}
				if isMethod && i == 0 {
					fmt.Fprintf(&hb, "(%s %s) %s(", b[0], tt, name)
					recvName = b[0]
					continue
				}
				if (isMethod && i > 1) || (!isMethod && i > 0) {
					hb.WriteString(", ")
				}
				if !isMethod && i == 0 {
					hb.WriteString(name + "(")
				}
				fmt.Fprintf(&hb, "%s %s", b[0], tt)
				if i != flag {
					callArgs = append(callArgs, b[0])
				}
			}
			hb.WriteString(")")
			res := ""
			nres := 0
			if gTrue.fd.Type.Results != nil {
				res = " " + text(gTrue.fd.Type.Results)
				nres = gTrue.fd.Type.Results.NumFields()
			}
			hb.WriteString(res + " {\n")
			call := func(g declInfo) string {
				c := g.fd.Name.Name + "(" + strings.Join(callArgs, ", ") + ")"
				if isMethod {
					c = recvName + "." + c
				}
				return c
			}
			if nres > 0 {
				fmt.Fprintf(&hb, "if %s {\nreturn %s\n}\nreturn %s\n}\n", base[flag][0], call(gTrue), call(gFalse))
			} else {
				fmt.Fprintf(&hb, "if %s {\n%s\nreturn\n}\n%s\n}\n", base[flag][0], call(gTrue), call(gFalse))
			}
			// call sites of the two variants
			okSites := true
			nSites := 0
			for _, g := range []struct {
				d   declInfo
				lit string
			}{{gTrue, "true"}, {gFalse, "false"}} {
				obj := info.Defs[g.d.fd.Name]
				for i, f := range p.Syntax {
					if i >= len(p.CompiledGoFiles) {
						continue
					}
					fname := p.CompiledGoFiles[i]
					ssrc := src(fname)
					called := map[*ast.Ident]*ast.CallExpr{}
					ast.Inspect(f, func(nd ast.Node) bool {
						if c, ok := nd.(*ast.CallExpr); ok {
							switch fx := ast.Unparen(c.Fun).(type) {
							case *ast.Ident:
								called[fx] = c
							case *ast.SelectorExpr:
								called[fx.Sel] = c
							}
						}
						return true
					})
					ast.Inspect(f, func(nd ast.Node) bool {
						id, ok := nd.(*ast.Ident)
						if !ok || info.Uses[id] != obj {
							return true
						}
						c := called[id]
						if c == nil || ssrc == nil || c.Ellipsis.IsValid() {
							okSites = false
							return true
						}
						nSites++
						// rename the callee and insert the flag literal at its position among the explicit arguments
						edits[fname] = append(edits[fname], edit{p.Fset.Position(id.Pos()).Offset, p.Fset.Position(id.End()).Offset, name})
						argPos := flag
						if isMethod {
							argPos--
						}
						switch {
						case len(c.Args) == 0:
							edits[fname] = append(edits[fname], edit{p.Fset.Position(c.Rparen).Offset, p.Fset.Position(c.Rparen).Offset, g.lit})
						case argPos >= len(c.Args):
							o := p.Fset.Position(c.Args[len(c.Args)-1].End()).Offset
							edits[fname] = append(edits[fname], edit{o, o, ", " + g.lit})
						default:
							o := p.Fset.Position(c.Args[argPos].Pos()).Offset
							edits[fname] = append(edits[fname], edit{o, o, g.lit + ", "})
						}
						return true
					})
				}
			}
			if !okSites {
				notes = append(notes, kb+": split by its flag, but a variant is used other than in a plain call")
				return nil, notes
			}
			appendix[gTrue.fname] += hb.String()
			notes = append(notes, fmt.Sprintf("%s: re-created from its flag variants %s (true) and %s (false), %d call sites rewritten", kb, gTrue.key, gFalse.key, nSites))
		}
	}
	if len(edits) == 0 && len(appendix) == 0 {
		return nil, notes
	}
	out := map[string][]byte{}
	files := map[string]bool{}
	for f := range edits {
		files[f] = true
	}
	for f := range appendix {
		files[f] = true
	}
	for fname := range files {
		b := src(fname)
		es := edits[fname]
		sort.SliceStable(es, func(i, j int) bool { return es[i].a > es[j].a })
		nb := append([]byte{}, b...)
		for _, e := range es {
			nb = append(append(append([]byte{}, nb[:e.a]...), []byte(e.text)...), nb[e.e:]...)
		}
		nb = append(nb, []byte(appendix[fname])...)
		out[fname] = nb
	}
	return out, notes
}

// dropConstParams undoes "add a parameter for a future feature": an unexported function of the reviewed tree that has
// gained trailing or interleaved parameters, while every call site passes the same closed constant expression for each
// of them (a literal, true/false/nil, a zero or constant composite literal `T{}`): the parameters are removed from the
// declaration and the call sites in the overlay and become locals initialised with that expression at the top of the
// body.  Branches on them are then constant, and infeasible edges are pruned by the path analyses (edgeDead).
func dropConstParams(pkgs []*packages.Package, src func(string) []byte) (map[string][]byte, []string) {
	type edit struct {
		a, e int
		text string
	}
	edits := map[string][]edit{}
	var notes []string
	for _, p := range pkgs {
		if !smPkgs[p.PkgPath] || p.TypesInfo == nil {
			continue
		}
		info := p.TypesInfo
		for i, f := range p.Syntax {
			if i >= len(p.CompiledGoFiles) {
				continue
			}
			fname := p.CompiledGoFiles[i]
			if strings.HasSuffix(fname, ".pb.go") || strings.HasSuffix(fname, ".pb.gw.go") {
				continue
			}
			csrc := src(fname)
			if csrc == nil {
				continue
			}
			for _, d := range f.Decls {
				fd, ok := d.(*ast.FuncDecl)
				if !ok || fd.Body == nil || ast.IsExported(fd.Name.Name) || fd.Type.TypeParams != nil || fd.Type.Params == nil {
					continue
				}
				key := declKey(p.PkgPath, fd)
				base, ok := baselineParams[key]
				if !ok || !baselineFuncs[key] {
					continue
				}
				obj, _ := info.Defs[fd.Name].(*types.Func)
				if obj == nil {
					continue
				}
				sig := obj.Type().(*types.Signature)
				if sig.Variadic() {
					continue
				}
				nrecv := 0
				if sig.Recv() != nil {
					nrecv = 1
				}
				if len(base) < nrecv || sig.Params().Len() <= len(base)-nrecv {
					continue
				}
				// align: the reviewed parameter types are a subsequence of the current ones, in order
				var extra []int // indices of current explicit parameters that are new
				bi := nrecv
				for j := 0; j < sig.Params().Len(); j++ {
					t := sig.Params().At(j).Type()
					if bi < len(base) && typeKey(t)+ptrMark(t) == base[bi][1] {
						bi++
						continue
					}
					extra = append(extra, j)
				}
				if bi != len(base) || len(extra) == 0 {
					continue
				}
				// flat list of the parameter identifiers and their fields
				type pinfo struct {
					name  *ast.Ident
					field *ast.Field
				}
				var plist []pinfo
				for _, fl := range fd.Type.Params.List {
					if len(fl.Names) == 0 {
						plist = nil
						break
					}
					for _, nm := range fl.Names {
						plist = append(plist, pinfo{nm, fl})
					}
				}
				if len(plist) != sig.Params().Len() {
					continue
				}
				// call sites: same closed constant text for every new parameter
				type site struct {
					call  *ast.CallExpr
					fname string
				}
				var sites []site
				okUse := true
				for i2, f2 := range p.Syntax {
					if i2 >= len(p.CompiledGoFiles) {
						continue
					}
					called := map[*ast.Ident]*ast.CallExpr{}
					ast.Inspect(f2, func(nd ast.Node) bool {
						if c, ok := nd.(*ast.CallExpr); ok {
							switch fx := ast.Unparen(c.Fun).(type) {
							case *ast.Ident:
								called[fx] = c
							case *ast.SelectorExpr:
								called[fx.Sel] = c
							}
						}
						return true
					})
					ast.Inspect(f2, func(nd ast.Node) bool {
						if id, ok := nd.(*ast.Ident); ok && info.Uses[id] == types.Object(obj) {
							if c := called[id]; c != nil && !c.Ellipsis.IsValid() && len(c.Args) == sig.Params().Len() {
								sites = append(sites, site{c, p.CompiledGoFiles[i2]})
							} else {
								okUse = false
							}
						}
						return true
					})
				}
				if !okUse || len(sites) == 0 {
					continue
				}
				closed := func(e ast.Expr) bool {
					ok := true
					ast.Inspect(e, func(nd ast.Node) bool {
						switch x := nd.(type) {
						case *ast.CallExpr, *ast.FuncLit:
							ok = false
						case *ast.UnaryExpr:
							if x.Op == token.AND || x.Op == token.ARROW {
								ok = false
							}
						case *ast.Ident:
							o := info.Uses[x]
							if o == nil {
								return true // field keys of composite literals
							}
							switch o.(type) {
							case *types.Const, *types.TypeName, *types.Nil, *types.PkgName:
							default:
								ok = false
							}
						}
						return true
					})
					return ok
				}
				argText := map[int]string{}
				okArgs := true
				for _, s := range sites {
					ssrc := src(s.fname)
					if ssrc == nil {
						okArgs = false
						break
					}
					for _, j := range extra {
						a := s.call.Args[j]
						if !closed(a) {
							okArgs = false
							break
						}
						t := string(ssrc[p.Fset.Position(a.Pos()).Offset:p.Fset.Position(a.End()).Offset])
						if prev, seen := argText[j]; seen && prev != t {
							okArgs = false
						}
						argText[j] = t
					}
				}
				if !okArgs {
					continue
				}
				// declaration: rebuild the parameter list without the new ones, initialise them as locals
				var keep []string
				var inits bytes.Buffer
				isExtra := map[int]bool{}
				for _, j := range extra {
					isExtra[j] = true
				}
				for j, pi := range plist {
					tt := string(csrc[p.Fset.Position(pi.field.Type.Pos()).Offset:p.Fset.Position(pi.field.Type.End()).Offset])
					if isExtra[j] {
						if pi.name.Name != "_" {
							fmt.Fprintf(&inits, "\nvar %s %s = %s\n_ = %s\n", pi.name.Name, tt, argText[j], pi.name.Name)
						}
						continue
					}
					keep = append(keep, pi.name.Name+" "+tt)
				}
				edits[fname] = append(edits[fname], edit{p.Fset.Position(fd.Type.Params.Opening).Offset + 1, p.Fset.Position(fd.Type.Params.Closing).Offset, strings.Join(keep, ", ")})
				lb := p.Fset.Position(fd.Body.Lbrace).Offset + 1
				edits[fname] = append(edits[fname], edit{lb, lb, inits.String()})
				for _, s := range sites {
					var args []string
					ssrc := src(s.fname)
					for j, a := range s.call.Args {
						if !isExtra[j] {
							args = append(args, string(ssrc[p.Fset.Position(a.Pos()).Offset:p.Fset.Position(a.End()).Offset]))
						}
					}
					edits[s.fname] = append(edits[s.fname], edit{p.Fset.Position(s.call.Lparen).Offset + 1, p.Fset.Position(s.call.Rparen).Offset, strings.Join(args, ", ")})
				}
				notes = append(notes, fmt.Sprintf("%s: %d added parameter(s) with one constant argument at all %d call sites turned into locals", key, len(extra), len(sites)))
			}
		}
	}
	if len(edits) == 0 {
		return nil, notes
	}
	out := map[string][]byte{}
	for fname, es := range edits {
		b := src(fname)
		sort.SliceStable(es, func(i, j int) bool { return es[i].a > es[j].a })
		for i := 1; i < len(es); i++ {
			if es[i].e > es[i-1].a {
				return nil, append(notes, "overlapping parameter edits in "+fname+": pass abandoned")
			}
		}
		nb := append([]byte{}, b...)
		for _, e := range es {
			nb = append(append(append([]byte{}, nb[:e.a]...), []byte(e.text)...), nb[e.e:]...)
		}
		out[fname] = nb
	}
	return out, notes
}
