package main

import (
	"flag"
	"fmt"
	"os"
	"strings"

	"golang.org/x/tools/go/ssa"
)

func main() {
	dir := flag.String("repo", "/repo", "repository working tree")
	dump := flag.String("dump", "", "debug: dump call terms of the function with this key")
	flag.Parse()
	e, err := Load(*dir)
	if err != nil {
		fmt.Println("LOAD ERROR:", err)
		os.Exit(2)
	}
	if *dump != "" {
		for _, k := range strings.Split(*dump, ",") {
			fn := e.Fn(k)
			if fn == nil {
				fmt.Println("no such function", k)
				continue
			}
			for _, f := range WithClosures(fn) {
				dumpFn(e, f)
			}
		}
		return
	}
}

func dumpFn(e *Engine, fn *ssa.Function) {
	fa := e.FA(fn)
	fmt.Println("=====", FuncKey(fn))
	for _, b := range fn.Blocks {
		for _, in := range b.Instrs {
			switch x := in.(type) {
			case ssa.CallInstruction:
				c := x.Common()
				var args []string
				if c.IsInvoke() {
					args = append(args, fa.Term(c.Value).String())
				}
				for _, a := range c.Args {
					args = append(args, fa.Term(a).String())
				}
				var gs []string
				for _, g := range fa.GuardsOf(in) {
					gs = append(gs, g.String())
				}
				fmt.Printf("b%d %s CALL %s(%s)\n", b.Index, e.InstrPos(in), CalleeKey(c), strings.Join(args, " ; "))
				if os.Getenv("GUARDS") != "" {
					fmt.Printf("      guards: %s\n", strings.Join(gs, " && "))
				}
			case *ssa.Store:
				r, _, p := fa.addrPath(x.Addr)
				fmt.Printf("b%d %s STORE %s%s := %s\n", b.Index, e.InstrPos(in), r, pathJoin(p), fa.Term(x.Val))
			case *ssa.Return:
				var rs []string
				for _, r := range x.Results {
					rs = append(rs, fa.Term(r).String())
				}
				fmt.Printf("b%d %s RETURN %s  errorExit=%v\n", b.Index, e.InstrPos(in), strings.Join(rs, " ; "), fa.IsErrorExit(x))
			}
		}
	}
}
