package main

import (
	"encoding/json"
	"flag"
	"fmt"
	"go/types"
	"os"
	"path/filepath"
	"sort"
	"strconv"
	"strings"
	"time"

	"golang.org/x/tools/go/ssa"
)

func main() {
	dir := flag.String("repo", "/repo", "repository working tree to analyse")
	verif := flag.String("verif", "/verif", "verification directory (evidence, known findings)")
	prop := flag.String("property", "", "property id (C01..C20) or 'all'")
	tier := flag.String("tier", "quick", "quick | thorough")
	dump := flag.String("dump", "", "debug: dump call terms of the functions with these keys (comma separated)")
	explain := flag.String("explain", "", "print every obligation whose key contains this string, with witness")
	noEvidence := flag.Bool("no-evidence", false, "do not write evidence files (used by the self-test on scratch copies)")
	listObs := flag.Bool("list", false, "print every obligation")
	flag.Parse()
	t0 := time.Now()
	if env := os.Getenv("VERIF_TIER"); env != "" && *tier == "" {
		*tier = env
	}
	seed := int64(0)
	if s := os.Getenv("VERIF_SEED"); s != "" {
		seed, _ = strconv.ParseInt(s, 10, 64)
	}

	// watchdog: a check that cannot finish must not pass silently
	time.AfterFunc(240*time.Second, func() {
		fmt.Println("UNDECIDED: analysis did not finish within 240s")
		for _, p := range propList(*prop) {
			fmt.Printf("VIOLATION property=%s replay=-\n", p)
		}
		os.Exit(1)
	})
	e, err := Load(*dir)
	if err != nil {
		// a check that cannot load the program must not pass
		fmt.Println("UNDECIDED: cannot load /repo:", err)
		props := propList(*prop)
		for _, p := range props {
			o := &Ob{Rule: "load", Func: "-", Construct: "load", Status: "undecided", Msg: err.Error()}
			path := writeViolation(*verif, p, 0, o, "undecided")
			if !*noEvidence {
				res := &PropResult{Property: p, Obs: []*Ob{o}, Violations: []*Ob{o}}
				writeEvidence(&Engine{Dir: *dir}, *verif, res, *tier, seed, time.Since(t0).Seconds(), nil)
			}
			fmt.Printf("VIOLATION property=%s replay=%s\n", p, path)
		}
		os.Exit(1)
	}
	if *dump == "metas" {
		b, _ := json.MarshalIndent(map[string]any{"metas": func() map[string]map[string]string {
			o := map[string]map[string]string{}
			for k, v := range propMetas {
				var rules []string
				for _, r := range allRules {
					for _, p := range r.Props {
						if p == k {
							rules = append(rules, r.ID)
						}
					}
				}
				o[k] = map[string]string{"explanation": v.Explanation, "not_decided": v.NotDecided, "rules": strings.Join(rules, ", ")}
			}
			return o
		}()}, "", " ")
		fmt.Println(string(b))
		return
	}
	if os.Getenv("ALLIANCECHECK_DEBUG_INLINE") != "" {
		fmt.Fprintf(os.Stderr, "inlined: %v\nnotes: %v\ndead: %v\n", e.Inlined, e.InlineNotes, e.DeadHelpers)
	}
	if *dump == "applyoverlay" {
		// development aid: writes the source as analysed (helpers inlined, signatures normalised) over the scratch
		// copy, so that the repository's own tests can be run on it - the rewrites must be behaviour preserving
		if *dir == "/repo" {
			fmt.Println("refusing to rewrite /repo: use a scratch copy")
			os.Exit(2)
		}
		for name, b := range e.Overlay {
			if err := os.WriteFile(name, b, 0o644); err != nil {
				fmt.Println(err)
				os.Exit(2)
			}
		}
		fmt.Printf("wrote %d files; inlined %v; notes %v\n", len(e.Overlay), e.Inlined, e.InlineNotes)
		return
	}
	if *dump == "renamelocals" || *dump == "renameall" || *dump == "swapbranches" || *dump == "indexloops" {
		if *dir == "/repo" {
			fmt.Println("refusing to rewrite /repo: use a scratch copy")
			os.Exit(2)
		}
		if *dump == "swapbranches" {
			swapBranches(e)
		} else if *dump == "indexloops" {
			indexLoops(e)
		} else {
			renameLocals(e, *dump == "renameall")
		}
		return
	}
	if *dump == "params" {
		dumpParams(e)
		return
	}
	if *dump == "skips" {
		dumpSkips(e)
		dumpGuards(e)
		dumpArgs(e)
		dumpFields(e)
		return
	}
	if *dump == "atoms" {
		dumpAtoms(e)
		return
	}
	if *dump != "" {
		for _, k := range strings.Split(*dump, ",") {
			fn := e.Fn(k)
			if fn == nil {
				fmt.Println("no such function", k)
				continue
			}
			for _, f := range WithClosures(fn) {
				dumpFn(e, f)
			}
		}
		return
	}
	known, err := loadKnown(filepath.Join(*verif, "known_findings.json"))
	if err != nil {
		fmt.Println("UNDECIDED: cannot read known_findings.json:", err)
		os.Exit(1)
	}
	exit := 0
	for _, p := range propList(*prop) {
		res := runProperty(e, p, known)
		if *listObs || *explain != "" {
			for _, o := range res.Obs {
				if *explain != "" && !strings.Contains(o.Key(), *explain) {
					continue
				}
				fmt.Printf("[%s] %s\n    %s\n", o.Status, o.Key(), o.Msg)
				for _, w := range o.Witness {
					fmt.Println("      witness:", w)
				}
				for _, w := range o.Fingerprint {
					fmt.Println("      lost at:", w)
				}
				if len(o.Pos) > 0 {
					fmt.Println("      at:", strings.Join(o.Pos, " "))
				}
			}
		}
		ok := 0
		for _, o := range res.Obs {
			if o.Status == "ok" {
				ok++
			}
		}
		fmt.Printf("property %s tier=%s: %d rules, %d obligations, %d discharged, %d known findings, %d unlisted violations/undecided (%.1fs)\n",
			p, *tier, len(res.Rules), len(res.Obs), ok, len(res.Known), len(res.Violations), time.Since(t0).Seconds())
		seen := map[string]bool{}
		for _, o := range res.Known {
			line := fmt.Sprintf("KNOWN-FINDING: property=%s %s [%s]", p, o.Known, o.Key())
			if !seen[line] {
				fmt.Println(line)
				seen[line] = true
			}
		}
		for _, k := range res.Stale {
			fmt.Printf("note: listed finding not re-detected (stale): %s | %s | %s\n", k.Rule, k.Function, k.Construct)
		}
		for i, o := range res.Violations {
			kind := "violation"
			if o.Status == "undecided" {
				kind = "undecided"
			}
			path := "-"
			if !*noEvidence {
				path = writeViolation(*verif, p, i+1, o, kind)
			}
			fmt.Printf("  %s: %s\n    %s\n", strings.ToUpper(kind), o.Key(), o.Msg)
			for _, w := range o.Witness {
				fmt.Println("      witness:", w)
			}
			if len(o.Pos) > 0 {
				fmt.Println("      at:", strings.Join(o.Pos, " "))
			}
			fmt.Printf("VIOLATION property=%s replay=%s\n", p, path)
			exit = 1
		}
		if !*noEvidence {
			if err := writeEvidence(e, *verif, res, *tier, seed, time.Since(t0).Seconds(), nil); err != nil {
				fmt.Println("cannot write evidence:", err)
				exit = 1
			}
		}
	}
	os.Exit(exit)
}

func propList(p string) []string {
	if p == "" || p == "all" {
		var out []string
		for k := range propMetas {
			out = append(out, k)
		}
		sort.Strings(out)
		return out
	}
	return strings.Split(p, ",")
}

func dumpFn(e *Engine, fn *ssa.Function) {
	fa := e.FA(fn)
	fmt.Println("=====", FuncKey(fn))
	for _, b := range fn.Blocks {
		for _, in := range b.Instrs {
			switch x := in.(type) {
			case ssa.CallInstruction:
				c := x.Common()
				var args []string
				if c.IsInvoke() {
					args = append(args, fa.Term(c.Value).String())
				}
				for _, a := range c.Args {
					args = append(args, fa.Term(a).String())
				}
				var gs []string
				for _, g := range fa.GuardsOf(in) {
					gs = append(gs, g.String())
				}
				fmt.Printf("b%d %s CALL %s(%s)\n", b.Index, e.InstrPos(in), CalleeKey(c), strings.Join(args, " ; "))
				if os.Getenv("GUARDS") != "" {
					fmt.Printf("      guards: %s\n", strings.Join(gs, " && "))
				}
			case *ssa.Store:
				r, _, p := fa.addrPath(x.Addr)
				fmt.Printf("b%d %s STORE %s%s := %s\n", b.Index, e.InstrPos(in), r, pathJoin(p), fa.Term(x.Val))
			case *ssa.If:
				fmt.Printf("b%d %s IF %s -> b%d b%d\n", b.Index, e.InstrPos(in), fa.Term(x.Cond), b.Succs[0].Index, b.Succs[1].Index)
			case *ssa.Return:
				var rs []string
				for _, r := range x.Results {
					rs = append(rs, fa.Term(r).String())
				}
				fmt.Printf("b%d %s RETURN %s  errorExit=%v\n", b.Index, e.InstrPos(in), strings.Join(rs, " ; "), fa.IsErrorExit(x))
			}
		}
	}
}

func dumpAtoms(e *Engine) {
	for _, fn := range e.SMFuncs() {
		for _, a := range e.DirectAtoms(fn) {
			if a.Kind == "fieldwrite" || a.Kind == "emit" {
				continue
			}
			fmt.Printf("%-55s %s  %s\n", FuncKey(fn), a.String(), e.InstrPos(a.Instr))
		}
	}
}

// dumpParams prints the baseline parameter-name table (Go source) for the reviewed tree: analyzer/baseline_params.go.
func dumpParams(e *Engine) {
	fmt.Println("package main")
	fmt.Println()
	fmt.Println("// Code generated by `alliancecheck -dump params` on the reviewed tree; DO NOT EDIT by hand.")
	fmt.Println("// Parameter names of the reviewed tree, by function and position (receiver first), with their types.")
	fmt.Println("// A parameter term prints the reviewed name of its position while the types still agree, so renaming")
	fmt.Println("// parameters does not change what the rules see; adding, removing or retyping a parameter falls back to")
	fmt.Println("// the current names.")
	fmt.Println("var baselineParams = map[string][][2]string{")
	var keys []string
	byKey := map[string]*ssa.Function{}
	for _, fn := range e.SMFuncs() {
		if len(fn.Params) == 0 {
			continue
		}
		k := FuncKey(fn)
		keys = append(keys, k)
		byKey[k] = fn
	}
	sort.Strings(keys)
	for _, k := range keys {
		fn := byKey[k]
		var parts []string
		for _, p := range fn.Params {
			parts = append(parts, fmt.Sprintf("{%q, %q}", p.Name(), typeKey(p.Type())+ptrMark(p.Type())))
		}
		fmt.Printf("\t%q: {%s},\n", k, strings.Join(parts, ", "))
	}
	fmt.Println("}")
	fmt.Println()
	fmt.Println("// every named type of the state-machine packages in the reviewed tree")
	fmt.Println("var baselineTypes = map[string]bool{")
	var tnames []string
	for _, p := range e.Pkgs {
		if !smPkgs[p.PkgPath] || p.Types == nil {
			continue
		}
		for _, n := range p.Types.Scope().Names() {
			if tn, ok := p.Types.Scope().Lookup(n).(*types.TypeName); ok {
				tnames = append(tnames, alias(p.PkgPath)+"."+tn.Name())
			}
		}
	}
	sort.Strings(tnames)
	for _, n := range tnames {
		fmt.Printf("\t%q: true,\n", n)
	}
	fmt.Println("}")
	fmt.Println()
	fmt.Println("// result types of the reviewed tree's top-level functions, by position (restoreDroppedResults)")
	fmt.Println("var baselineResults = map[string][]string{")
	{
		var rk []string
		rby := map[string]*ssa.Function{}
		for _, fn := range e.SMFuncs() {
			if fn.Parent() == nil && fn.Signature.Results().Len() > 0 {
				k := FuncKey(fn)
				if rby[k] == nil {
					rk = append(rk, k)
				}
				rby[k] = fn
			}
		}
		sort.Strings(rk)
		for _, k := range rk {
			var parts []string
			rs := rby[k].Signature.Results()
			for i := 0; i < rs.Len(); i++ {
				parts = append(parts, fmt.Sprintf("%q", typeKey(rs.At(i).Type())+ptrMark(rs.At(i).Type())))
			}
			fmt.Printf("\t%q: {%s},\n", k, strings.Join(parts, ", "))
		}
	}
	fmt.Println("}")
	fmt.Println()
	fmt.Println("// every top-level function of the state-machine packages in the reviewed tree")
	fmt.Println("var baselineFuncs = map[string]bool{")
	var all []string
	for _, fn := range e.SMFuncs() {
		if fn.Parent() == nil {
			all = append(all, FuncKey(fn))
		}
	}
	sort.Strings(all)
	prev := ""
	for _, k := range all {
		if k != prev {
			fmt.Printf("\t%q: true,\n", k)
		}
		prev = k
	}
	fmt.Println("}")
}

func ptrMark(t types.Type) string {
	if _, ok := t.(*types.Pointer); ok {
		return "*"
	}
	return ""
}
