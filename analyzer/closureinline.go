package main

import (
	"fmt"
	"go/ast"
	"go/format"
	"go/token"
	"go/types"
	"sort"
	"strings"

	"golang.org/x/tools/go/packages"
)

// Local closures that are only called.
//
// A refactoring that extracts an iteration helper taking a callback (`forEachRewardedAsset(ctx, assets, val,
// func(asset) {...})`) leaves, once the helper is inlined, a function literal bound to a local variable that is called
// from the inlined loop.  go/ssa keeps the literal as a separate anonymous function; its body has lost the guards of
// the call site and its captured variables became heap cells.  When every use of the variable (and of the variables
// it is copied to) is a call in statement position, the calls are replaced by the literal's body (the same rewriting as
// for new helpers) and the literal itself by nil: the program is the one the author started from.
//
// Conditions (each is checked; a closure that fails one is left alone and analysed as written):
//   - the variable is defined once (`v := func..`, `var v T = func..`, or the same with another such variable on the
//     right) and never assigned or address-taken afterwards;
//   - every other use is the callee of a call at a supported statement position, or `_ = v`;
//   - the captured variables of the literal are visible and not shadowed at every call site;
//   - the literal body has no defer / go / recover / labels, and no call site of another such closure (handled in a
//     later round).

type closureFamily struct {
	lit   *ast.FuncLit
	vars  map[types.Object]bool
	defs  []ast.Node // defining statements (kept; the literal in them is replaced by nil)
	bad   string
	h     *inlHelper
	sites int
}

func inlineLocalClosures(pkgs []*packages.Package, src func(string) []byte) (map[string][]byte, []string, []string) {
	overlay := map[string][]byte{}
	var done, notes []string
	for _, p := range pkgs {
		if !smPkgs[p.PkgPath] || p.TypesInfo == nil {
			continue
		}
		info := p.TypesInfo
		for i, f := range p.Syntax {
			if i >= len(p.CompiledGoFiles) {
				continue
			}
			fname := p.CompiledGoFiles[i]
			if strings.HasSuffix(fname, ".pb.go") || strings.HasSuffix(fname, ".pb.gw.go") || strings.HasSuffix(fname, "_test.go") {
				continue
			}
			text := src(fname)
			if text == nil {
				continue
			}
			type fileEdit struct {
				a, b int
				text []byte
			}
			var edits []fileEdit
			loopLabels := map[token.Pos]string{}
			addedImports := map[string]string{}
			var pre []inlEdit
			okFile := true
			var fileDone []string
			for _, d := range f.Decls {
				fd, ok := d.(*ast.FuncDecl)
				if !ok || fd.Body == nil {
					continue
				}
				fams := closureFamilies(p, fd)
				if len(fams) == 0 {
					continue
				}
				helpers := map[types.Object]*inlHelper{}
				for fi, fam := range fams {
					if fam.bad != "" {
						continue
					}
					var first types.Object
					for o := range fam.vars {
						if first == nil || o.Pos() < first.Pos() {
							first = o
						}
					}
					decl := &ast.FuncDecl{Name: ast.NewIdent(first.Name()), Type: fam.lit.Type, Body: fam.lit.Body}
					fam.h = &inlHelper{key: fmt.Sprintf("%s$closure%d(%s)", declKey(p.PkgPath, fd), fi+1, first.Name()), decl: decl, file: f, filename: fname, obj: first, pkg: p, bad: inlinableDecl(decl), closure: true}
					for o := range fam.vars {
						helpers[o] = fam.h
					}
				}
				var sites []*inlSite
				findSites(info, helpers, f, fname, fd, &sites)
				// a call site inside the literal of another family: wait for that family to be inlined
				inLit := func(pos token.Pos) *closureFamily {
					for _, fam := range fams {
						if pos >= fam.lit.Pos() && pos < fam.lit.End() {
							return fam
						}
					}
					return nil
				}
				byHelper := map[*inlHelper]*closureFamily{}
				for _, fam := range fams {
					if fam.h != nil {
						byHelper[fam.h] = fam
					}
				}
				for _, s := range sites {
					fam := byHelper[s.h]
					if fam == nil {
						continue
					}
					fam.sites++
					if in := inLit(s.call.Pos()); in != nil {
						if in == fam {
							s.h.bad = "recursive"
						} else if in.h != nil && in.h.bad == "" {
							s.h.bad = "called from another closure (later round)"
						}
					}
					// captured variables at the call site
					if s.h.bad == "" {
						if nm := shadowedCapture(p, fam.lit, s.call.Pos()); nm != "" {
							s.h.bad = "captured variable " + nm + " is not the same variable at the call site"
						}
					}
				}
				for _, fam := range fams {
					if fam.h == nil {
						continue
					}
					if fam.h.bad == "" && fam.sites != fam.calls(info, fd) {
						fam.h.bad = "a call is not at a supported statement position"
					}
					if fam.h.bad != "" {
						notes = append(notes, fam.h.key+": closure not inlined ("+fam.h.bad+")")
					}
				}
				var ss []*inlSite
				for _, s := range sites {
					if s.h.bad == "" {
						ss = append(ss, s)
					}
				}
				sitePos := func(x *inlSite) token.Pos {
					if x.exprSite {
						return x.call.Pos()
					}
					return x.stmt.Pos()
				}
				sort.Slice(ss, func(i, j int) bool { return sitePos(ss[i]) > sitePos(ss[j]) })
				for _, s := range ss {
					inlSeq++
					s.loopLabels, s.preEdits, s.addedImports = loopLabels, &pre, addedImports
					var repl []byte
					var err error
					if s.exprSite {
						repl, err = genExprInline(p, s, src)
					} else {
						repl, err = genInline(p, s, inlSeq, src)
					}
					if err != nil {
						notes = append(notes, s.h.key+": closure not inlined ("+err.Error()+")")
						s.h.bad = err.Error()
						continue
					}
					if s.exprSite {
						edits = append(edits, fileEdit{p.Fset.Position(s.call.Pos()).Offset, p.Fset.Position(s.call.End()).Offset, repl})
						continue
					}
					a, b := p.Fset.Position(s.stmt.Pos()).Offset, p.Fset.Position(s.stmt.End()).Offset
					if s.replEnd.IsValid() {
						b = p.Fset.Position(s.replEnd).Offset
					}
					if a < 0 || b > len(text) || a > b {
						okFile = false
						break
					}
					edits = append(edits, fileEdit{a, b, repl})
					_ = s
				}
				// a family is rewritten only as a whole
				for _, fam := range fams {
					if fam.h == nil {
						continue
					}
					if fam.h.bad != "" {
						// drop the edits of its sites
						var keep []fileEdit
						for _, ed := range edits {
							drop := false
							for _, s := range ss {
								if s.h == fam.h && p.Fset.Position(sitePos(s)).Offset == ed.a {
									drop = true
								}
							}
							if !drop {
								keep = append(keep, ed)
							}
						}
						edits = keep
						continue
					}
					if fam.sites == 0 {
						continue
					}
					edits = append(edits, fileEdit{p.Fset.Position(fam.lit.Pos()).Offset, p.Fset.Position(fam.lit.End()).Offset, []byte("(" + string(text[p.Fset.Position(fam.lit.Type.Pos()).Offset:p.Fset.Position(fam.lit.Type.End()).Offset]) + ")(nil)")})
					fileDone = append(fileDone, fam.h.key)
				}
			}
			if !okFile || len(fileDone) == 0 {
				continue
			}
			for _, pe := range pre {
				o := p.Fset.Position(pe.at).Offset
				edits = append(edits, fileEdit{o, o, []byte(pe.text)})
			}
			sort.SliceStable(edits, func(i, j int) bool { return edits[i].a > edits[j].a })
			for i := 1; i < len(edits) && okFile; i++ {
				if edits[i].b > edits[i-1].a {
					notes = append(notes, "overlapping closure rewrites in "+fname+": file left as written")
					okFile = false
				}
			}
			if !okFile {
				continue
			}
			for _, ed := range edits {
				text = append(append(append([]byte{}, text[:ed.a]...), ed.text...), text[ed.b:]...)
			}
			if out, err := format.Source(text); err == nil {
				text = out
			}
			overlay[fname] = text
			done = append(done, fileDone...)
		}
	}
	sort.Strings(done)
	sort.Strings(notes)
	return overlay, done, notes
}

// calls counts the call expressions of fd whose callee is a variable of the family.
func (fam *closureFamily) calls(info *types.Info, fd *ast.FuncDecl) int {
	n := 0
	ast.Inspect(fd.Body, func(nd ast.Node) bool {
		if c, ok := nd.(*ast.CallExpr); ok {
			if id, ok := ast.Unparen(c.Fun).(*ast.Ident); ok && fam.vars[info.Uses[id]] {
				n++
			}
		}
		return true
	})
	return n
}

// shadowedCapture names a variable that the literal captures and that is not visible, or is another variable, at pos.
func shadowedCapture(p *packages.Package, lit *ast.FuncLit, pos token.Pos) string {
	info := p.TypesInfo
	res := ""
	ast.Inspect(lit.Body, func(nd ast.Node) bool {
		id, ok := nd.(*ast.Ident)
		if !ok || res != "" {
			return res == ""
		}
		o := info.Uses[id]
		if o == nil || o.Pkg() == nil || o.Parent() == nil || o.Parent() == o.Pkg().Scope() || o.Parent() == types.Universe {
			return true
		}
		if _, isPkg := o.(*types.PkgName); isPkg {
			return true
		}
		if o.Pos() >= lit.Pos() && o.Pos() < lit.End() {
			return true // the literal's own
		}
		inner := p.Types.Scope().Innermost(pos)
		if inner == nil {
			res = id.Name
			return false
		}
		if _, found := inner.LookupParent(id.Name, pos); found != o {
			res = id.Name
		}
		return true
	})
	return res
}

// closureFamilies finds the function literals of fd that are bound to local variables which are only called.
func closureFamilies(p *packages.Package, fd *ast.FuncDecl) []*closureFamily {
	info := p.TypesInfo
	// defining expression of every local variable with exactly one definition of the accepted forms
	type def struct {
		rhs  ast.Expr
		stmt ast.Node
	}
	defs := map[types.Object]def{}
	multi := map[types.Object]bool{}
	note := func(id *ast.Ident, rhs ast.Expr, st ast.Node) {
		o := info.Defs[id]
		if o == nil {
			return
		}
		if _, ok := o.Type().Underlying().(*types.Signature); !ok {
			return
		}
		if _, dup := defs[o]; dup {
			multi[o] = true
		}
		defs[o] = def{rhs, st}
	}
	ast.Inspect(fd.Body, func(nd ast.Node) bool {
		switch x := nd.(type) {
		case *ast.AssignStmt:
			if x.Tok == token.DEFINE && len(x.Lhs) == 1 && len(x.Rhs) == 1 {
				if id, ok := x.Lhs[0].(*ast.Ident); ok {
					note(id, x.Rhs[0], x)
				}
			}
		case *ast.ValueSpec:
			if len(x.Names) == 1 && len(x.Values) == 1 {
				note(x.Names[0], x.Values[0], x)
			}
		}
		return true
	})
	if len(defs) == 0 {
		return nil
	}
	// root literal of each variable
	var rootOf func(o types.Object, depth int) *ast.FuncLit
	rootOf = func(o types.Object, depth int) *ast.FuncLit {
		d, ok := defs[o]
		if !ok || multi[o] || depth > 6 {
			return nil
		}
		switch r := ast.Unparen(d.rhs).(type) {
		case *ast.FuncLit:
			return r
		case *ast.Ident:
			if ro := info.Uses[r]; ro != nil {
				return rootOf(ro, depth+1)
			}
		}
		return nil
	}
	fams := map[*ast.FuncLit]*closureFamily{}
	var order []*closureFamily
	var objs []types.Object
	for o := range defs {
		objs = append(objs, o)
	}
	sort.Slice(objs, func(i, j int) bool { return objs[i].Pos() < objs[j].Pos() })
	for _, o := range objs {
		lit := rootOf(o, 0)
		if lit == nil {
			continue
		}
		fam := fams[lit]
		if fam == nil {
			fam = &closureFamily{lit: lit, vars: map[types.Object]bool{}}
			fams[lit] = fam
			order = append(order, fam)
		}
		fam.vars[o] = true
		fam.defs = append(fam.defs, defs[o].stmt)
	}
	if len(order) == 0 {
		return nil
	}
	famOf := func(o types.Object) *closureFamily {
		for _, fam := range order {
			if fam.vars[o] {
				return fam
			}
		}
		return nil
	}
	// a literal may be bound once only (the same literal cannot be the root of two unrelated chains by construction)
	// every use of a family variable must be: callee, `_ = v`, or the right-hand side of a family definition
	allowed := map[*ast.Ident]bool{}
	ast.Inspect(fd.Body, func(nd ast.Node) bool {
		switch x := nd.(type) {
		case *ast.CallExpr:
			if id, ok := ast.Unparen(x.Fun).(*ast.Ident); ok {
				allowed[id] = true
			}
		case *ast.AssignStmt:
			if x.Tok == token.ASSIGN && len(x.Lhs) == 1 && len(x.Rhs) == 1 {
				if l, ok := x.Lhs[0].(*ast.Ident); ok && l.Name == "_" {
					if id, ok := ast.Unparen(x.Rhs[0]).(*ast.Ident); ok {
						allowed[id] = true
					}
				}
			}
			if x.Tok == token.DEFINE && len(x.Lhs) == 1 && len(x.Rhs) == 1 {
				if l, ok := x.Lhs[0].(*ast.Ident); ok && famOf(info.Defs[l]) != nil {
					if id, ok := ast.Unparen(x.Rhs[0]).(*ast.Ident); ok {
						allowed[id] = true
					}
				}
			}
		case *ast.ValueSpec:
			if len(x.Names) == 1 && len(x.Values) == 1 && famOf(info.Defs[x.Names[0]]) != nil {
				if id, ok := ast.Unparen(x.Values[0]).(*ast.Ident); ok {
					allowed[id] = true
				}
			}
		}
		return true
	})
	ast.Inspect(fd.Body, func(nd ast.Node) bool {
		id, ok := nd.(*ast.Ident)
		if !ok {
			return true
		}
		o := info.Uses[id]
		if o == nil {
			return true
		}
		if fam := famOf(o); fam != nil && !allowed[id] && fam.bad == "" {
			fam.bad = "variable " + id.Name + " is used as a value"
		}
		return true
	})
	// the literal is used exactly once (as the defining expression): guaranteed by syntax.  A literal with results that
	// has no call, or one that is never called, is left alone.
	var out []*closureFamily
	for _, fam := range order {
		out = append(out, fam)
	}
	return out
}
