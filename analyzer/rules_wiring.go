package main

import (
	"go/ast"
	"go/constant"
	"strings"

	"golang.org/x/tools/go/ssa"
)

// Wiring facts: prerequisites of several properties, read from app/app.go and x/alliance/module.go.
func init() {
	register(&Rule{ID: "W.wiring", Props: []string{"C08", "C10", "C11", "C17", "C06", "C07", "C02", "C09", "C14", "C15"}, Floor: 8,
		Doc: "the application wires the alliance hooks, end-blocker, module accounts and custom bank module",
		Run: func(e *Engine, r *RuleRun) {
			appNew := e.Fn("app.New")
			if appNew == nil {
				r.Undecided("app.New", "anchor", "application constructor app.New not found")
				return
			}
			fa := e.FA(appNew)
			// W.hooks
			okHooks := false
			for _, c := range Calls(appNew) {
				if strings.HasSuffix(CalleeKey(c.Common()), "stakingkeeper.Keeper.SetHooks") {
					a := argT(fa, c, 0)
					if len(a.FindCalls("keeper.Keeper.StakingHooks")) > 0 && strings.Contains(a.String(), "NewMultiStakingHooks") {
						okHooks = true
					}
					r.Check(okHooks, "app.New", "W.hooks: staking hooks include the alliance hooks", "StakingKeeper.SetHooks(NewMultiStakingHooks(..., AllianceKeeper.StakingHooks()))", "the alliance staking hooks are not registered with the staking keeper: slashes and validator changes never reach the module", r.P(c))
				}
			}
			if !okHooks {
				r.Check(false, "app.New", "W.hooks: SetHooks call", "", "no StakingKeeper.SetHooks call receives the alliance hooks", e.Pos(appNew.Pos()))
			}
			// W.endblock / beginblock order lists contain the module name
			for _, m := range []string{"SetOrderEndBlockers", "SetOrderInitGenesis"} {
				found := false
				for _, c := range Calls(appNew) {
					if strings.HasSuffix(CalleeKey(c.Common()), "module.Manager."+m) || strings.HasSuffix(CalleeKey(c.Common()), "Manager."+m) {
						if strings.Contains(argT(fa, c, 0).String(), "\"alliance\"") {
							found = true
						}
					}
				}
				r.Check(found, "app.New", "W.order: "+m+" lists the alliance module", "module name present", "the alliance module is missing from "+m+": its end-of-block processing / genesis never runs", e.Pos(appNew.Pos()))
			}
			// EndBlock of the module calls EndBlocker with the module's keeper
			if eb := e.Fn("alliance.AppModule.EndBlock"); eb != nil {
				efa := e.FA(eb)
				cs := CallsTo(eb, "alliance.EndBlocker")
				ok := len(cs) == 1 && strings.HasSuffix(argT(efa, cs[0], 1).String(), ".keeper")
				if ok {
					for _, ret := range Returns(eb) {
						if !efa.Term(ret.Results[0]).Eq(resultT(efa, cs[0])) {
							ok = false
						}
					}
				}
				r.Check(ok, "alliance.AppModule.EndBlock", "W.endblock: EndBlock runs and returns EndBlocker", "return EndBlocker(ctx, a.keeper)", "the module's EndBlock does not run EndBlocker with the module keeper (or drops its error)", e.Pos(eb.Pos()))
			} else {
				r.Undecided("alliance.AppModule.EndBlock", "anchor", "module EndBlock not found")
			}
			// W.macc: module account permissions (AST of the maccPerms literal)
			perms := map[string][]string{}
			if p := e.ByPath[pApp]; p != nil {
				for _, f := range p.Syntax {
					ast.Inspect(f, func(n ast.Node) bool {
						vs, ok := n.(*ast.ValueSpec)
						if !ok || len(vs.Names) != 1 || vs.Names[0].Name != "maccPerms" || len(vs.Values) != 1 {
							return true
						}
						cl, ok := vs.Values[0].(*ast.CompositeLit)
						if !ok {
							return true
						}
						for _, el := range cl.Elts {
							kv, ok := el.(*ast.KeyValueExpr)
							if !ok {
								continue
							}
							tv, ok := p.TypesInfo.Types[kv.Key]
							if !ok || tv.Value == nil {
								continue
							}
							name := constant.StringVal(tv.Value)
							perms[name] = []string{}
							if vl, ok := kv.Value.(*ast.CompositeLit); ok {
								for _, pe := range vl.Elts {
									if ptv, ok := p.TypesInfo.Types[pe]; ok && ptv.Value != nil {
										perms[name] = append(perms[name], constant.StringVal(ptv.Value))
									}
								}
							}
						}
						return false
					})
				}
			}
			has := func(l []string, x string) bool {
				for _, y := range l {
					if y == x {
						return true
					}
				}
				return false
			}
			al, okA := perms["alliance"]
			r.Check(okA && has(al, "minter") && has(al, "burner"), "app", "W.macc: alliance module account may mint and burn", "maccPerms[alliance] contains Minter and Burner", "the alliance module account lacks Minter/Burner permission: rebalancing and the end-of-block sweep fail", "app/app.go")
			_, okR := perms["alliance_rewards"]
			r.Check(okR, "app", "W.macc: rewards pool module account exists", "maccPerms[alliance_rewards] present", "the rewards pool module account is not declared", "app/app.go")
			bp, okB := perms["bonded_tokens_pool"]
			r.Check(okB && has(bp, "burner"), "app", "W.macc: bonded pool may burn", "maccPerms[bonded_tokens_pool] contains Burner", "the bonded pool cannot burn: un-rebalancing fails", "app/app.go")
			// W.bank
			okReg := false
			for _, c := range Calls(appNew) {
				if CalleeKey(c.Common()) == "bankkeeper.Keeper.RegisterKeepers" {
					a0 := argT(fa, c, 0)
					okReg = a0.IsCall("keeper.NewKeeper") || strings.Contains(a0.String(), "AllianceKeeper")
					r.Check(okReg, "app.New", "W.bank: custom bank keeper knows the alliance keeper", "BankKeeper.RegisterKeepers(AllianceKeeper, StakingKeeper)", "the custom bank keeper is not given the alliance keeper: supply queries cannot subtract the alliance-bonded amount", r.P(c))
				}
			}
			if !okReg {
				r.Check(false, "app.New", "W.bank: RegisterKeepers call", "", "BankKeeper.RegisterKeepers is never called", e.Pos(appNew.Pos()))
			}
			okMod := false
			for _, c := range Calls(appNew) {
				if CalleeKey(c.Common()) == "bank.NewAppModule" {
					okMod = true
				}
			}
			r.Check(okMod, "app.New", "W.bank: the custom bank module is the one registered", "custom/bank.NewAppModule in the module manager", "the application registers the stock bank module: supply queries are not net of alliance stake", e.Pos(appNew.Pos()))
			// fee collector passed to the alliance keeper
			for _, c := range Calls(appNew) {
				if CalleeKey(c.Common()) == "keeper.NewKeeper" {
					fc := argT(fa, c, 6)
					r.Check(fc.Op == "const" && strings.Contains(fc.Name, "fee_collector"), "app.New", "W.feecollector: take rate and slashed coins go to the fee collector account", "feeCollectorName = authtypes.FeeCollectorName", "the alliance keeper's fee collector is "+fc.String(), r.P(c))
				}
			}
			// W.callers: privileged keeper entry points are not called from the app package
			for _, k := range []string{"keeper.Keeper.SlashValidator", "keeper.Keeper.CompleteUnbondings", "keeper.Keeper.RebalanceBondTokenWeights", "keeper.Keeper.SetParams", "keeper.Keeper.SetAsset", "keeper.Keeper.DeductAssetsWithTakeRate"} {
				bad := false
				for _, c := range e.CallersOf(k) {
					if c.Fn.Pkg.Pkg.Path() == pApp {
						bad = true
						r.Bad(FuncKey(c.Fn), "W.callers: "+k, "privileged keeper method is called from application wiring code", nil, r.P(c.Instr))
					}
				}
				if !bad {
					r.OK("app", "W.callers: "+k, "not called from the app package")
				}
			}
		}})
	_ = ssa.Instruction(nil)
}
