package main

import (
	"fmt"
	"go/types"
	"sort"
	"strings"

	"golang.org/x/tools/go/ssa"
)

// S.fresh: what is decoded and written back comes straight from the store.
//
// The keeper's read-modify-write of queue buckets and records is `b := store.Get(key); Unmarshal(b, &rec); change rec;
// store.Set(key, Marshal(&rec))`, sometimes several times for the SAME key within one loop (one queue bucket is reached
// through several index keys).  It is only correct when each visit reads what the previous visit wrote.  A "read
// cache" (bytes or decoded records remembered in a local map, or carried from one iteration to the next) breaks
// exactly that: the second visit starts from the stale copy and its write undoes the first one (a slash that is
// sent to the fee collector but not deducted from the entry: custody falls short).
//
// Two structural obligations, decided on every run:
//
//	(a) in a function whose call tree writes the module store, the byte slice handed to an Unmarshal call is rooted, on
//	    every incoming path, in a call result (store Get, iterator Value/Key, a getter), a parameter or a fresh local:
//	    never in a package-level variable or memory reached through a service value, never in a value carried over from
//	    an earlier loop iteration, and in a map lookup only when the map is kept current (every direct store Set of the
//	    function is accompanied by an update of the map with the very bytes that were written: a write-through cache);
//	(b) a record looked up in a map whose elements are records of the module (protobuf messages of x/alliance/types,
//	    or pointers / slices of them), copied to a local, CHANGED there (a field of the copy is assigned) and handed to
//	    a call that writes state or encodes, is also put back into the map.
//
// Not covered: a stale copy held in a plain local across a call (that is S.stale, for the by-value record kinds);
// caches in functions that write nothing (memoised reads); caches whose records are changed only through pointers
// they share with the cached copy (the cache sees those changes).

func isUnmarshalCall(c ssa.CallInstruction) (bytesArg ssa.Value, ok bool) {
	cc := c.Common()
	name := ""
	if cc.IsInvoke() {
		name = cc.Method.Name()
	} else if f := cc.StaticCallee(); f != nil {
		name = f.Name()
	} else {
		return nil, false
	}
	switch name {
	case "MustUnmarshal", "Unmarshal", "UnmarshalInterface", "MustUnmarshalLengthPrefixed", "UnmarshalLengthPrefixed", "MustUnmarshalJSON", "UnmarshalJSON":
	default:
		return nil, false
	}
	for _, a := range cc.Args {
		if s, isSlice := a.Type().Underlying().(*types.Slice); isSlice {
			if b, isBasic := s.Elem().Underlying().(*types.Basic); isBasic && b.Kind() == types.Byte {
				return a, true
			}
		}
	}
	return nil, false
}

// staleRoots lists the roots of v that are not a fresh read; empty when every path ends in a call result, a
// parameter, a constant or a fresh local.
func (e *Engine) staleRoots(fa *FuncAnalysis, v ssa.Value, seen map[ssa.Value]bool, depth int) []string {
	if v == nil || seen[v] || depth > 16 {
		return nil
	}
	seen[v] = true
	rec := func(x ssa.Value) []string { return e.staleRoots(fa, x, seen, depth+1) }
	switch x := v.(type) {
	case *ssa.Lookup:
		if _, isMap := x.X.Type().Underlying().(*types.Map); isMap {
			return []string{"lookup in the map " + localName(x.X) + mapTag(x.X)}
		}
		return rec(x.X)
	case *ssa.Extract:
		return rec(x.Tuple)
	case *ssa.Phi:
		var out []string
		// a loop-header phi whose incoming value from inside the loop is not derived from a fresh read in that iteration
		loop := fa.NaturalLoop(x.Block())
		for i, ed := range x.Edges {
			if i < len(x.Block().Preds) && loop != nil && loop[x.Block().Preds[i]] && len(loop) > 1 {
				// back edge: the value comes from an earlier iteration
				if _, isConst := ed.(*ssa.Const); !isConst && ed != x {
					if inner := rec(ed); len(inner) > 0 {
						out = append(out, inner...)
					} else if !freshInLoop(ed) {
						out = append(out, "value carried over from an earlier iteration of the loop")
					}
					continue
				}
			}
			out = append(out, rec(ed)...)
		}
		return out
	case *ssa.Slice:
		return rec(x.X)
	case *ssa.ChangeType:
		return rec(x.X)
	case *ssa.Convert:
		return rec(x.X)
	case *ssa.UnOp:
		// load
		switch a := x.X.(type) {
		case *ssa.Global:
			return []string{"package-level variable " + a.Name()}
		case *ssa.Alloc:
			// every store to the cell
			var out []string
			for _, ref := range *a.Referrers() {
				if st, ok := ref.(*ssa.Store); ok && st.Addr == a {
					out = append(out, rec(st.Val)...)
				}
			}
			return out
		case *ssa.FieldAddr:
			svc := e.serviceTypes()
			for _, rt := range e.memRoots(fa.Fn, a, 0, 0, svc, map[ssa.Value]bool{}) {
				if rt.kind == "global" || rt.kind == "service" {
					return []string{"memory held by " + rt.desc}
				}
			}
			return nil
		case *ssa.IndexAddr:
			return rec(a.X)
		}
		return nil
	case *ssa.FreeVar:
		// captured cell: the stores of the enclosing function
		if par := fa.Fn.Parent(); par != nil {
			for i, fv := range fa.Fn.FreeVars {
				if fv != x {
					continue
				}
				for _, b := range par.Blocks {
					for _, in := range b.Instrs {
						if mc, ok := in.(*ssa.MakeClosure); ok && mc.Fn == fa.Fn && i < len(mc.Bindings) {
							if al, ok := mc.Bindings[i].(*ssa.Alloc); ok {
								if _, isMap := al.Type().(*types.Pointer).Elem().Underlying().(*types.Map); isMap {
									return nil
								}
							}
						}
					}
				}
			}
		}
		return nil
	}
	return nil
}

// mapTag marks a root as a map lookup and names the map value (resolved by mapOfTag).
var mapTags = map[string]ssa.Value{}

func mapTag(m ssa.Value) string {
	k := fmt.Sprintf(" [map#%p]", m)
	mapTags[k] = m
	return k
}

// sameMap: two SSA values denote the same map variable (the same value, or loads of the same cell).
func sameMap(a, b ssa.Value) bool {
	if a == b {
		return true
	}
	la, ok1 := a.(*ssa.UnOp)
	lb, ok2 := b.(*ssa.UnOp)
	return ok1 && ok2 && la.X == lb.X
}

// freshInLoop: the value is the result of a call (a read made in that iteration).
func freshInLoop(v ssa.Value) bool {
	switch x := v.(type) {
	case *ssa.Call:
		return true
	case *ssa.Extract:
		_, ok := x.Tuple.(*ssa.Call)
		return ok
	}
	return false
}

// recordLike: the type is, points to, or is a slice of a protobuf message of the module, or is a byte slice.
func recordLike(t types.Type, depth int) bool {
	if depth > 4 {
		return false
	}
	switch u := t.(type) {
	case *types.Pointer:
		return recordLike(u.Elem(), depth+1)
	case *types.Slice:
		if b, ok := u.Elem().Underlying().(*types.Basic); ok && b.Kind() == types.Byte {
			return true
		}
		return recordLike(u.Elem(), depth+1)
	case *types.Named:
		if u.Obj().Pkg() == nil || !smPkgs[u.Obj().Pkg().Path()] {
			return false
		}
		if _, ok := u.Underlying().(*types.Struct); !ok {
			return recordLike(u.Underlying(), depth+1)
		}
		ms := types.NewMethodSet(types.NewPointer(u))
		for i := 0; i < ms.Len(); i++ {
			if ms.At(i).Obj().Name() == "ProtoMessage" {
				return true
			}
		}
	}
	return false
}

func init() {
	register(&Rule{ID: "S.fresh", Props: []string{"C01", "C02", "C07", "C17"}, Floor: 20,
		Doc: "decoded state comes straight from the store: no Unmarshal of bytes taken from a map, an earlier loop iteration or process memory; no record looked up in a map reaches a state write",
		Run: func(e *Engine, r *RuleRun) {
			nUn := 0
			for _, fn := range e.SMFuncs() {
				fa := e.FA(fn)
				fk := FuncKey(fn)
				seq := map[string]int{}
				for _, c := range Calls(fn) {
					b, ok := isUnmarshalCall(c)
					if !ok {
						continue
					}
					nUn++
					what := "bytes decoded by " + calleeShort(c)
					seq[what]++
					construct := what
					if seq[what] > 1 {
						construct = fmt.Sprintf("%s #%d", what, seq[what])
					}
					bad := e.staleRoots(fa, b, map[ssa.Value]bool{}, 0)
					if len(bad) > 0 {
						// a function that writes nothing cannot make its own copies stale; a map that receives what is
						// written stays current
						writes := false
						var sets []ssa.CallInstruction
						for _, a := range e.TreeAtoms(fn) {
							if a.Kind == "store" && (strings.HasPrefix(a.Name, "Set(") || strings.HasPrefix(a.Name, "Delete(")) {
								writes = true
								if a.Fn == fn {
									if ci, ok := a.Instr.(ssa.CallInstruction); ok && strings.HasPrefix(a.Name, "Set(") {
										sets = append(sets, ci)
									}
								}
							}
						}
						if !writes {
							r.OK(fk, construct, "the function's call tree writes nothing to the module store: a remembered read cannot go stale within it ("+strings.Join(bad, "; ")+")", r.P(c))
							continue
						}
						var keep []string
						for _, root := range bad {
							i := strings.Index(root, " [map#")
							if i < 0 {
								keep = append(keep, root)
								continue
							}
							m := mapTags[root[i:]]
							through := len(sets) > 0
							for _, st := range sets {
								args := st.Common().Args
								val := args[len(args)-1]
								found := false
								for _, blk := range fn.Blocks {
									for _, in := range blk.Instrs {
										if mu, ok := in.(*ssa.MapUpdate); ok && sameMap(mu.Map, m) && mu.Value == val {
											found = true
										}
									}
								}
								if !found {
									through = false
								}
							}
							if !through {
								keep = append(keep, root[:i])
							}
						}
						bad = keep
					}
					if len(bad) == 0 {
						r.OK(fk, construct, "every path of the byte slice ends in a call result, a parameter, a fresh local or a write-through map", r.P(c))
						continue
					}
					sort.Strings(bad)
					r.Bad(fk, construct, "the bytes that are decoded here do not come straight from the store ("+strings.Join(dedup(bad), "; ")+"): when the same key is visited again after it was written, the stale copy is decoded, changed and written back, and the earlier change is lost (e.g. a slash already forwarded to the fee collector is not deducted from the entry any more)", nil, r.P(c))
				}
				// (b) record-typed maps
				for _, blk := range fn.Blocks {
					for _, in := range blk.Instrs {
						lk, ok := in.(*ssa.Lookup)
						if !ok {
							continue
						}
						mt, isMap := lk.X.Type().Underlying().(*types.Map)
						if !isMap || !recordLike(mt.Elem(), 0) {
							continue
						}
						construct := "record looked up in the map " + localName(lk.X)
						changed, refreshed := false, false
						var cells []*ssa.Alloc
						var vals []ssa.Value = []ssa.Value{lk}
						for _, ref := range *lk.Referrers() {
							if ex, ok := ref.(*ssa.Extract); ok && ex.Index == 0 {
								vals = append(vals, ex)
							}
						}
						for _, v := range vals {
							for _, ref := range *v.Referrers() {
								if st, ok := ref.(*ssa.Store); ok && st.Val == v {
									if al, ok := st.Addr.(*ssa.Alloc); ok {
										cells = append(cells, al)
									}
								}
							}
						}
						for _, al := range cells {
							for _, b2 := range fn.Blocks {
								for _, in2 := range b2.Instrs {
									switch y := in2.(type) {
									case *ssa.Store:
										a := y.Addr
										deep := false
										for {
											if f, ok := a.(*ssa.FieldAddr); ok {
												a, deep = f.X, true
												continue
											}
											if ix, ok := a.(*ssa.IndexAddr); ok {
												if _, isArr := ix.X.Type().Underlying().(*types.Pointer); !isArr {
													break // element of a slice: shared backing array
												}
												a, deep = ix.X, true
												continue
											}
											break
										}
										if a == al && deep {
											changed = true
										}
									case *ssa.MapUpdate:
										if sameMap(y.Map, lk.X) {
											if ld, ok := y.Value.(*ssa.UnOp); ok && ld.X == al {
												refreshed = true
											}
										}
									}
								}
							}
						}
						sink := e.reachesStateWrite(fa, lk)
						switch {
						case sink == "":
							r.OK(fk, construct, "the looked-up record reaches no state write and no encoder", r.P(in))
						case !changed:
							r.OK(fk, construct, "the local copy of the looked-up record is not changed before it reaches "+sink, r.P(in))
						case refreshed:
							r.OK(fk, construct, "the changed copy is put back into the map", r.P(in))
						default:
							r.Bad(fk, construct, "a record taken from a map in memory is changed and reaches "+sink+", but the changed copy is not put back into the map: the next lookup of the same key gets the copy from before the change, and writing it back undoes the change", nil, r.P(in))
						}
					}
				}
			}
			r.Check(nUn >= 20, "-", "Unmarshal calls classified", fmt.Sprintf("%d Unmarshal calls of the state machine: the decoded bytes are fresh reads at every one", nUn), fmt.Sprintf("only %d Unmarshal calls found", nUn))
		}})
}

func dedup(xs []string) []string {
	var out []string
	for i, x := range xs {
		if i == 0 || x != xs[i-1] {
			out = append(out, x)
		}
	}
	return out
}

func calleeShort(c ssa.CallInstruction) string {
	cc := c.Common()
	if cc.IsInvoke() {
		return cc.Method.Name()
	}
	if f := cc.StaticCallee(); f != nil {
		return f.Name()
	}
	return "call"
}

// reachesStateWrite follows v through copies, cells, phis and field reads/updates to the argument of a call whose call
// tree writes the store or that encodes (Marshal*); returns a description of the sink, or "".
func (e *Engine) reachesStateWrite(fa *FuncAnalysis, v ssa.Value) string {
	seen := map[ssa.Value]bool{}
	var work []ssa.Value
	push := func(x ssa.Value) {
		if x != nil && !seen[x] {
			seen[x] = true
			work = append(work, x)
		}
	}
	push(v)
	for len(work) > 0 {
		x := work[len(work)-1]
		work = work[:len(work)-1]
		refs := x.Referrers()
		if refs == nil {
			continue
		}
		for _, ref := range *refs {
			switch u := ref.(type) {
			case *ssa.Extract:
				if u.Index == 0 {
					push(u)
				}
			case *ssa.Phi, *ssa.ChangeType, *ssa.Convert, *ssa.MakeInterface, *ssa.Slice, *ssa.Field, *ssa.FieldAddr, *ssa.IndexAddr, *ssa.Index:
				push(u.(ssa.Value))
			case *ssa.UnOp:
				push(u)
			case *ssa.Store:
				if u.Val == x {
					// the cell (and the struct it is a field of)
					a := u.Addr
					for {
						if f, ok := a.(*ssa.FieldAddr); ok {
							a = f.X
							continue
						}
						if ix, ok := a.(*ssa.IndexAddr); ok {
							a = ix.X
							continue
						}
						break
					}
					push(a)
				}
			case ssa.CallInstruction:
				cc := u.Common()
				name := ""
				if cc.IsInvoke() {
					name = cc.Method.Name()
				} else if f := cc.StaticCallee(); f != nil {
					name = f.Name()
				}
				if strings.HasPrefix(name, "Marshal") || strings.HasPrefix(name, "MustMarshal") {
					return "the encoder " + name
				}
				if name == "Set" && cc.IsInvoke() {
					return "a store write"
				}
				if cal := Devirt(cc); cal != nil && cal.Pkg != nil && smPkgs[cal.Pkg.Pkg.Path()] {
					for _, a := range e.TreeAtoms(cal) {
						if a.Kind == "store" && (strings.HasPrefix(a.Name, "Set(") || strings.HasPrefix(a.Name, "Delete(")) {
							return "a call of " + FuncKey(cal) + " (writes " + a.Name + ")"
						}
						if a.Kind == "bank" {
							return "a call of " + FuncKey(cal) + " (" + a.Name + ")"
						}
					}
				}
				if val, ok := u.(ssa.Value); ok {
					// a pure transformation of the record (method returning a modified copy)
					_ = val
				}
			}
		}
	}
	return ""
}
