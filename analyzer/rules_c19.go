package main

import (
	"fmt"
	"go/ast"
	"go/importer"
	"go/parser"
	"go/token"
	"go/types"
	"strings"
)

// ---------------------------------------------------------------- C19 determinism (AST + types)

type astUnit struct {
	pkgPath string
	fset    *token.FileSet
	files   []*ast.File
	info    *types.Info
}

func (e *Engine) astUnits(includeApp bool) []astUnit {
	var out []astUnit
	for _, p := range e.Pkgs {
		if !smPkgs[p.PkgPath] && !(includeApp && p.PkgPath == pApp) {
			continue
		}
		var files []*ast.File
		for _, f := range p.Syntax {
			name := p.Fset.Position(f.Pos()).Filename
			if strings.HasSuffix(name, "_test.go") || strings.HasSuffix(name, ".pb.go") || strings.HasSuffix(name, ".pb.gw.go") {
				continue
			}
			files = append(files, f)
		}
		out = append(out, astUnit{p.PkgPath, p.Fset, files, p.TypesInfo})
	}
	return out
}

// enclosingFuncName gives "pkgalias.Func" or "pkgalias.Recv.Func" for a position in a file.
func enclosingFuncName(pkgPath string, f *ast.File, pos token.Pos) string {
	name := "<file scope>"
	for _, d := range f.Decls {
		fd, ok := d.(*ast.FuncDecl)
		if !ok || fd.Pos() > pos || pos > fd.End() {
			continue
		}
		name = fd.Name.Name
		if fd.Recv != nil && len(fd.Recv.List) > 0 {
			t := fd.Recv.List[0].Type
			if s, ok := t.(*ast.StarExpr); ok {
				t = s.X
			}
			if id, ok := t.(*ast.Ident); ok {
				name = id.Name + "." + name
			}
		}
	}
	return alias(pkgPath) + "." + name
}

// mapRangeVerdict classifies the body of a range-over-map: "" when order-insensitive, else the reason.
func mapRangeVerdict(info *types.Info, rs *ast.RangeStmt) string {
	var reason string
	var checkStmt func(s ast.Stmt)
	isMapIndex := func(x ast.Expr) bool {
		ix, ok := x.(*ast.IndexExpr)
		if !ok {
			return false
		}
		tv, ok := info.Types[ix.X]
		if !ok {
			return false
		}
		_, isMap := tv.Type.Underlying().(*types.Map)
		return isMap
	}
	commutativeRHS := func(lhs ast.Expr, rhs ast.Expr) bool {
		// x = x.Add(..) / x = x || c / x = x && c / x = <constant>
		l := types.ExprString(lhs)
		switch r := rhs.(type) {
		case *ast.CallExpr:
			if sel, ok := r.Fun.(*ast.SelectorExpr); ok && (sel.Sel.Name == "Add" || sel.Sel.Name == "Mul") && types.ExprString(sel.X) == l {
				if tv, ok := info.Types[sel.X]; ok {
					tk := typeKey(tv.Type)
					if tk == "math.Int" || tk == "math.LegacyDec" {
						return true
					}
				}
			}
		case *ast.BinaryExpr:
			if (r.Op == token.LOR || r.Op == token.LAND) && types.ExprString(r.X) == l {
				return true
			}
		case *ast.Ident:
			if r.Name == "true" || r.Name == "false" {
				return true
			}
		case *ast.BasicLit:
			return false
		}
		return false
	}
	checkStmt = func(s ast.Stmt) {
		if reason != "" {
			return
		}
		switch x := s.(type) {
		case *ast.AssignStmt:
			for i, l := range x.Lhs {
				if isMapIndex(l) {
					continue
				}
				if x.Tok == token.ADD_ASSIGN || x.Tok == token.MUL_ASSIGN || x.Tok == token.OR_ASSIGN || x.Tok == token.AND_ASSIGN {
					if tv, ok := info.Types[l]; ok {
						if b, ok := tv.Type.Underlying().(*types.Basic); ok && b.Info()&types.IsInteger != 0 {
							continue
						}
					}
					reason = "order-dependent accumulation (" + types.ExprString(l) + " " + x.Tok.String() + " ...)"
					return
				}
				if x.Tok == token.DEFINE {
					// a fresh local per iteration: fine when the right-hand side has no effects we cannot see
					if i < len(x.Rhs) && hasImpureCall(info, x.Rhs[i]) {
						reason = "call with possible effects inside map range: " + types.ExprString(x.Rhs[i])
						return
					}
					continue
				}
				if i < len(x.Rhs) && commutativeRHS(l, x.Rhs[i]) {
					continue
				}
				reason = "assignment that depends on iteration order: " + types.ExprString(l) + " = ..."
				return
			}
		case *ast.IncDecStmt:
			// integer counter
		case *ast.IfStmt:
			if x.Init != nil {
				checkStmt(x.Init)
			}
			if hasImpureCall(info, x.Cond) {
				reason = "call with possible effects in a condition inside map range: " + types.ExprString(x.Cond)
				return
			}
			for _, b := range x.Body.List {
				checkStmt(b)
			}
			if x.Else != nil {
				checkStmt(x.Else)
			}
		case *ast.BlockStmt:
			for _, b := range x.List {
				checkStmt(b)
			}
		case *ast.ExprStmt:
			if c, ok := x.X.(*ast.CallExpr); ok {
				if id, ok := c.Fun.(*ast.Ident); ok && id.Name == "delete" {
					return
				}
			}
			reason = "statement with effects inside map range: " + types.ExprString(x.X)
		case *ast.BranchStmt:
			if x.Tok == token.CONTINUE {
				return
			}
			reason = "early exit (" + x.Tok.String() + ") inside map range"
		case *ast.ReturnStmt:
			reason = "return inside map range"
		case *ast.RangeStmt:
			// nested range: classify its body with the same rules
			for _, b := range x.Body.List {
				checkStmt(b)
			}
		case *ast.DeclStmt, *ast.EmptyStmt:
		default:
			reason = fmt.Sprintf("statement form %T not understood by the order-insensitivity classifier", s)
		}
	}
	for _, s := range rs.Body.List {
		checkStmt(s)
	}
	return reason
}

// hasImpureCall: the expression contains a call other than value-only helpers.
// collectThenSort: `for k := range m { s = append(s, k) }` immediately followed by sort.Strings(s) / sort.Slice(s, ..) /
// slices.Sort(s): the only thing the range does is collect, and the collection is put in a canonical order before any use.
func collectThenSort(rs *ast.RangeStmt, following ast.Stmt) bool {
	if rs.Body == nil || len(rs.Body.List) != 1 || following == nil {
		return false
	}
	as, ok := rs.Body.List[0].(*ast.AssignStmt)
	if !ok || len(as.Lhs) != 1 || len(as.Rhs) != 1 || (as.Tok != token.ASSIGN) {
		return false
	}
	call, ok := as.Rhs[0].(*ast.CallExpr)
	if !ok || len(call.Args) != 2 {
		return false
	}
	if id, ok := call.Fun.(*ast.Ident); !ok || id.Name != "append" {
		return false
	}
	slice := types.ExprString(as.Lhs[0])
	if types.ExprString(call.Args[0]) != slice {
		return false
	}
	// the appended value is the range key or value itself
	arg := types.ExprString(call.Args[1])
	if !(rs.Key != nil && types.ExprString(rs.Key) == arg) && !(rs.Value != nil && types.ExprString(rs.Value) == arg) {
		return false
	}
	es, ok := following.(*ast.ExprStmt)
	if !ok {
		return false
	}
	sc, ok := es.X.(*ast.CallExpr)
	if !ok || len(sc.Args) == 0 || types.ExprString(sc.Args[0]) != slice {
		return false
	}
	switch types.ExprString(sc.Fun) {
	case "sort.Strings", "sort.Ints", "sort.Slice", "sort.SliceStable", "slices.Sort", "sort.Sort":
		return true
	}
	return false
}

func hasImpureCall(info *types.Info, x ast.Expr) bool {
	impure := false
	ast.Inspect(x, func(n ast.Node) bool {
		c, ok := n.(*ast.CallExpr)
		if !ok {
			return true
		}
		if tv, ok := info.Types[c.Fun]; ok && tv.IsType() {
			return true // conversion
		}
		switch f := c.Fun.(type) {
		case *ast.Ident:
			if obj := info.Uses[f]; obj != nil {
				if _, isB := obj.(*types.Builtin); isB {
					return true
				}
			}
		case *ast.SelectorExpr:
			if sel, ok := info.Selections[f]; ok {
				tk := typeKey(sel.Recv())
				if strings.HasPrefix(tk, "math.") || strings.HasPrefix(tk, "sdk.") || strings.HasPrefix(tk, "time.") {
					return true
				}
			} else if obj := info.Uses[f.Sel]; obj != nil && obj.Pkg() != nil {
				switch alias(obj.Pkg().Path()) {
				case "math", "sdk", "fmt", "strings", "authtypes", "github.com/cosmos/cosmos-sdk/x/auth/types":
					return true
				}
			}
		}
		impure = true
		return false
	})
	return impure
}

var bannedObjects = map[string]string{
	"time.Now": "wall clock", "time.Since": "wall clock", "time.Until": "wall clock", "time.After": "timer", "time.Tick": "timer",
	"time.NewTimer": "timer", "time.NewTicker": "timer", "time.Sleep": "timer",
	"os.Getenv": "environment", "os.Environ": "environment", "os.LookupEnv": "environment", "os.Hostname": "environment", "os.Getpid": "environment",
	"runtime.NumGoroutine": "scheduler", "runtime.NumCPU": "environment", "runtime.GOMAXPROCS": "scheduler",
}
var bannedPackages = map[string]string{"math/rand": "randomness", "math/rand/v2": "randomness", "crypto/rand": "randomness", "unsafe": "memory addresses"}

type srcHit struct {
	what, why string
	pos       token.Pos
}

// nondetSources lists references to nondeterminism sources in a file.
// constants whose value differs between 32- and 64-bit builds
var wordSized = map[string]bool{"math.MaxInt": true, "math.MinInt": true, "math.MaxUint": true, "strconv.IntSize": true, "math/bits.UintSize": true}

func nondetSources(info *types.Info, f *ast.File) []srcHit {
	var hits []srcHit
	telemetryArg := map[ast.Node]bool{}
	ast.Inspect(f, func(n ast.Node) bool {
		if c, ok := n.(*ast.CallExpr); ok {
			if sel, ok := c.Fun.(*ast.SelectorExpr); ok {
				if id, ok := sel.X.(*ast.Ident); ok {
					if pn, ok := info.Uses[id].(*types.PkgName); ok && strings.HasSuffix(pn.Imported().Path(), "/telemetry") {
						for _, a := range c.Args {
							ast.Inspect(a, func(m ast.Node) bool {
								if m != nil {
									telemetryArg[m] = true
								}
								return true
							})
						}
					}
				}
			}
		}
		return true
	})
	ast.Inspect(f, func(n ast.Node) bool {
		switch x := n.(type) {
		case *ast.GoStmt:
			hits = append(hits, srcHit{"go statement", "goroutine scheduling", x.Pos()})
		case *ast.SelectStmt:
			hits = append(hits, srcHit{"select statement", "goroutine scheduling", x.Pos()})
		case *ast.SendStmt:
			hits = append(hits, srcHit{"channel send", "goroutine scheduling", x.Pos()})
		case *ast.UnaryExpr:
			if x.Op == token.ARROW {
				hits = append(hits, srcHit{"channel receive", "goroutine scheduling", x.Pos()})
			}
		case *ast.BasicLit:
			if x.Kind == token.STRING && strings.Contains(x.Value, "%p") {
				hits = append(hits, srcHit{"%p formatting", "memory addresses", x.Pos()})
			}
		case *ast.SelectorExpr:
			if obj := info.Uses[x.Sel]; obj != nil && obj.Pkg() != nil && obj.Parent() == obj.Pkg().Scope() {
				if why, ok := bannedPackages[obj.Pkg().Path()]; ok {
					hits = append(hits, srcHit{obj.Pkg().Path() + "." + obj.Name(), why, x.Pos()})
				} else if why, ok := bannedObjects[obj.Pkg().Name()+"."+obj.Name()]; ok && (obj.Pkg().Path() == "time" || obj.Pkg().Path() == "os" || obj.Pkg().Path() == "runtime") {
					if why == "wall clock" && telemetryArg[x] {
						// `defer telemetry.MeasureSince(time.Now(), ..)`: the wall clock goes into a metric and nowhere
						// else (the SDK's own modules time their entry points this way)
						return true
					}
					hits = append(hits, srcHit{obj.Pkg().Name() + "." + obj.Name(), why, x.Pos()})
				} else if wordSized[obj.Pkg().Path()+"."+obj.Name()] {
					hits = append(hits, srcHit{obj.Pkg().Path() + "." + obj.Name(), "value depends on the word size of the build (32 / 64 bit): nodes built for different architectures write different state", x.Pos()})
				}
			}
		case *ast.BinaryExpr:
			if tv, ok := info.Types[x]; ok && !telemetryArg[x] {
				if b, ok := tv.Type.Underlying().(*types.Basic); ok && b.Info()&types.IsFloat != 0 && tv.Value == nil {
					hits = append(hits, srcHit{"floating-point arithmetic " + types.ExprString(x), "platform-dependent rounding", x.Pos()})
				}
			}
		case *ast.CallExpr:
			// float conversion of a run-time value outside telemetry arguments
			if tv, ok := info.Types[x.Fun]; ok && tv.IsType() && !telemetryArg[x] {
				if b, ok := tv.Type.Underlying().(*types.Basic); ok && b.Info()&types.IsFloat != 0 {
					if atv, ok := info.Types[x]; ok && atv.Value == nil {
						hits = append(hits, srcHit{"conversion to " + b.Name(), "floating point in state machine", x.Pos()})
					}
				}
			}
		}
		return true
	})
	return hits
}

const nondetFixture = `package fixture
import "time"
func F(m map[string]int) ([]string, time.Time) {
	var out []string
	for k := range m { out = append(out, k) }
	go func() {}()
	return out, time.Now()
}
func G(m map[string]int) int { n := 0; for _, v := range m { n += v }; return n }
`

func fixtureHits() (mapBad, mapOK, src int, err error) {
	fset := token.NewFileSet()
	f, err := parser.ParseFile(fset, "fixture.go", nondetFixture, 0)
	if err != nil {
		return
	}
	info := &types.Info{Types: map[ast.Expr]types.TypeAndValue{}, Uses: map[*ast.Ident]types.Object{}, Defs: map[*ast.Ident]types.Object{}, Selections: map[*ast.SelectorExpr]*types.Selection{}}
	conf := types.Config{Importer: importer.ForCompiler(fset, "source", nil)}
	if _, err = conf.Check("fixture", fset, []*ast.File{f}, info); err != nil {
		return
	}
	ast.Inspect(f, func(n ast.Node) bool {
		if rs, ok := n.(*ast.RangeStmt); ok {
			if tv, ok := info.Types[rs.X]; ok {
				if _, isMap := tv.Type.Underlying().(*types.Map); isMap {
					if mapRangeVerdict(info, rs) != "" {
						mapBad++
					} else {
						mapOK++
					}
				}
			}
		}
		return true
	})
	src = len(nondetSources(info, f))
	return
}

func init() {
	register(&Rule{ID: "C19.maprange", Props: []string{"C19"}, Floor: 2,
		Doc: "every range over a map in the state machine and app wiring has an order-insensitive body",
		Run: func(e *Engine, r *RuleRun) {
			for _, u := range e.astUnits(true) {
				for _, f := range u.files {
					// statement following each range statement in its block (for the collect-then-sort idiom)
					next := map[*ast.RangeStmt]ast.Stmt{}
					ast.Inspect(f, func(n ast.Node) bool {
						if b, ok := n.(*ast.BlockStmt); ok {
							for i, st := range b.List {
								if rs, ok := st.(*ast.RangeStmt); ok && i+1 < len(b.List) {
									next[rs] = b.List[i+1]
								}
							}
						}
						return true
					})
					ast.Inspect(f, func(n ast.Node) bool {
						rs, ok := n.(*ast.RangeStmt)
						if !ok {
							return true
						}
						tv, ok := u.info.Types[rs.X]
						if !ok {
							return true
						}
						if _, isMap := tv.Type.Underlying().(*types.Map); !isMap {
							return true
						}
						fn := enclosingFuncName(u.pkgPath, f, rs.Pos())
						construct := "range over map " + types.ExprString(rs.X)
						reason := mapRangeVerdict(u.info, rs)
						if reason == "" {
							r.OK(fn, construct, "body only writes maps / accumulates commutatively", e.Pos(rs.Pos()))
						} else if collectThenSort(rs, next[rs]) {
							r.OK(fn, construct, "keys are collected into a slice that is sorted by the very next statement", e.Pos(rs.Pos()))
						} else if why, ok := mapRangeExceptions[fn+" | "+types.ExprString(rs.X)]; ok {
							r.OK(fn, construct, "reviewed exception: "+why, e.Pos(rs.Pos()))
						} else {
							r.Bad(fn, construct, "map iteration order can reach state or results: "+reason, nil, e.Pos(rs.Pos()))
						}
						return true
					})
				}
			}
		}})
	register(&Rule{ID: "C19.sources", Props: []string{"C19"}, Floor: 3,
		Doc: "no wall clock, randomness, environment, goroutine, channel, unsafe, %p or float arithmetic in the state machine",
		Run: func(e *Engine, r *RuleRun) {
			files := 0
			for _, u := range e.astUnits(false) {
				for _, f := range u.files {
					files++
					hits := nondetSources(u.info, f)
					for _, h := range hits {
						fn := enclosingFuncName(u.pkgPath, f, h.pos)
						if why, ok := sourceExceptions[fn+" | "+h.what]; ok {
							r.OK(fn, h.what, "reviewed exception: "+why, e.Pos(h.pos))
							continue
						}
						r.Bad(fn, h.what, "nondeterminism source in the state machine ("+h.why+")", nil, e.Pos(h.pos))
					}
				}
			}
			r.Check(files >= 35, "-", "files scanned", fmt.Sprintf("%d non-generated source files of the state-machine packages scanned", files), fmt.Sprintf("only %d files scanned, expected >= 35", files))
			// positive fixture: the same classifiers must fire on a known-bad snippet on every run
			mb, mo, src, err := fixtureHits()
			if err != nil {
				r.Undecided("-", "fixture", "positive fixture failed to type-check: "+err.Error())
				return
			}
			r.Check(mb == 1 && mo == 1, "-", "fixture: map range classifier", "fires on append-in-map-range, silent on integer accumulation", fmt.Sprintf("classifier lost its teeth: bad=%d ok=%d", mb, mo))
			r.Check(src >= 2, "-", "fixture: source classifier", "fires on time.Now and go statement", fmt.Sprintf("source classifier matched %d of 2 fixture sites", src))
		}})
	register(&Rule{ID: "C19.lookuponly", Props: []string{"C19"}, Floor: 1,
		Doc: "maps created in reward distribution are only indexed, never ranged",
		Run: func(e *Engine, r *RuleRun) {
			// every map-typed local in keeper/types packages: no range (covered by C19.maprange), count the make(map) sites
			n := 0
			deadHelper := map[string]bool{}
			for _, k := range e.DeadHelpers {
				deadHelper[k] = true
			}
			for _, u := range e.astUnits(false) {
				if u.pkgPath != pKeeper && u.pkgPath != pTypes {
					continue
				}
				for _, f := range u.files {
					ast.Inspect(f, func(nd ast.Node) bool {
						c, ok := nd.(*ast.CallExpr)
						if !ok {
							return true
						}
						if id, ok := c.Fun.(*ast.Ident); ok && id.Name == "make" && len(c.Args) > 0 {
							if tv, ok := u.info.Types[c.Args[0]]; ok {
								if _, isMap := tv.Type.Underlying().(*types.Map); isMap {
									fn := enclosingFuncName(u.pkgPath, f, c.Pos())
									if deadHelper[fn] {
										return true // the declaration of an inlined helper: its body is judged where it was inlined
									}
									n++
									ranged := mapRangedInFunc(u, f, c.Pos())
									r.Check(!ranged, fn, "map created by make", "map is used as a lookup table only", "a map created here is ranged over in the same function", e.Pos(c.Pos()))
									if esc := mapEscapes(u, f, c); esc != "" {
										r.Bad(fn, "map created by make: only indexed", "a map created in state-machine code is used other than by indexing ("+esc+"): handing it to a function (maps.Keys, maps.Values, reflection, ...) exposes Go's randomised iteration order without any `range` over the map appearing in the module", nil, e.Pos(c.Pos()))
									} else {
										r.OK(fn, "map created by make: only indexed", "every use of the map is m[k], len(m) or delete(m, k)", e.Pos(c.Pos()))
									}
								}
							}
						}
						return true
					})
				}
			}
		}})
}

func mapRangedInFunc(u astUnit, f *ast.File, pos token.Pos) bool {
	ranged := false
	for _, d := range f.Decls {
		fd, ok := d.(*ast.FuncDecl)
		if !ok || fd.Pos() > pos || pos > fd.End() || fd.Body == nil {
			continue
		}
		ast.Inspect(fd.Body, func(n ast.Node) bool {
			if rs, ok := n.(*ast.RangeStmt); ok {
				if tv, ok := u.info.Types[rs.X]; ok {
					if _, isMap := tv.Type.Underlying().(*types.Map); isMap {
						ranged = true
					}
				}
			}
			return true
		})
	}
	return ranged
}

// mapEscapes: the map assigned from the make call c is used in the enclosing function other than as m[k], len(m), delete(m,k).
func mapEscapes(u astUnit, f *ast.File, c *ast.CallExpr) string {
	var fd *ast.FuncDecl
	for _, d := range f.Decls {
		if x, ok := d.(*ast.FuncDecl); ok && x.Pos() <= c.Pos() && c.Pos() <= x.End() {
			fd = x
		}
	}
	if fd == nil || fd.Body == nil {
		return ""
	}
	// find the variable the make result is assigned to
	var obj types.Object
	ast.Inspect(fd.Body, func(n ast.Node) bool {
		switch x := n.(type) {
		case *ast.AssignStmt:
			for i, rhs := range x.Rhs {
				if rhs == ast.Expr(c) && i < len(x.Lhs) {
					if id, ok := x.Lhs[i].(*ast.Ident); ok {
						if o := u.info.Defs[id]; o != nil {
							obj = o
						} else {
							obj = u.info.Uses[id]
						}
					}
				}
			}
		case *ast.ValueSpec:
			for i, v := range x.Values {
				if v == ast.Expr(c) && i < len(x.Names) {
					obj = u.info.Defs[x.Names[i]]
				}
			}
		}
		return true
	})
	if obj == nil {
		return "" // not bound to a variable (e.g. composite literal field): handled by the range rule
	}
	// the map may be copied to other local variables (`m2 := m`, `a, b = m, x`): the copies are held to the same rule
	aliases := map[types.Object]bool{obj: true}
	localVar := func(id *ast.Ident) types.Object {
		o := u.info.Defs[id]
		if o == nil {
			o = u.info.Uses[id]
		}
		if v, ok := o.(*types.Var); ok && !v.IsField() && v.Pkg() != nil && v.Parent() != v.Pkg().Scope() {
			return o
		}
		return nil
	}
	for changed := true; changed; {
		changed = false
		ast.Inspect(fd.Body, func(n ast.Node) bool {
			add := func(l *ast.Ident, r ast.Expr) {
				rid, ok := ast.Unparen(r).(*ast.Ident)
				if !ok || !aliases[u.info.Uses[rid]] || l.Name == "_" {
					return
				}
				if o := localVar(l); o != nil && !aliases[o] {
					aliases[o] = true
					changed = true
				}
			}
			switch x := n.(type) {
			case *ast.AssignStmt:
				if len(x.Lhs) == len(x.Rhs) {
					for i, l := range x.Lhs {
						if lid, ok := l.(*ast.Ident); ok {
							add(lid, x.Rhs[i])
						}
					}
				}
			case *ast.ValueSpec:
				if len(x.Names) == len(x.Values) {
					for i, nm := range x.Names {
						add(nm, x.Values[i])
					}
				}
			}
			return true
		})
	}
	var stack []ast.Node
	esc := ""
	ast.Inspect(fd.Body, func(n ast.Node) bool {
		if n == nil {
			stack = stack[:len(stack)-1]
			return true
		}
		stack = append(stack, n)
		id, ok := n.(*ast.Ident)
		if !ok || esc != "" || !aliases[u.info.Uses[id]] {
			return true
		}
		if len(stack) < 2 {
			return true
		}
		parent := stack[len(stack)-2]
		switch p := parent.(type) {
		case *ast.IndexExpr:
			if p.X == ast.Expr(id) {
				return true
			}
		case *ast.CallExpr:
			if fid, ok := p.Fun.(*ast.Ident); ok && (fid.Name == "len" || fid.Name == "delete") {
				return true
			}
			esc = "passed to " + types.ExprString(p.Fun)
			return true
		case *ast.RangeStmt:
			return true // reported by the range rule
		case *ast.AssignStmt:
			for _, l := range p.Lhs {
				if l == ast.Expr(id) {
					return true
				}
			}
			// copied to a local variable that is followed as an alias, or discarded
			if len(p.Lhs) == len(p.Rhs) {
				for i, rh := range p.Rhs {
					if rh == ast.Expr(id) {
						if lid, ok := p.Lhs[i].(*ast.Ident); ok && (lid.Name == "_" || aliases[localVar(lid)]) {
							return true
						}
					}
				}
			}
		case *ast.ValueSpec:
			if len(p.Names) == len(p.Values) {
				for i, v := range p.Values {
					if v == ast.Expr(id) && (p.Names[i].Name == "_" || aliases[u.info.Defs[p.Names[i]]]) {
						return true
					}
				}
			}
		}
		esc = fmt.Sprintf("used in %T", parent)
		return true
	})
	return esc
}
