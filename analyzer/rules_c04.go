package main

import (
	"fmt"
	"strings"

	"golang.org/x/tools/go/ssa"
)

var mutatorCalls = []string{"keeper.Keeper.SetAsset", "keeper.Keeper.reduceDelegationShares", "keeper.Keeper.updateValidatorShares", "keeper.Keeper.upsertDelegationWithNewTokens",
	"keeper.Keeper.queueUndelegation", "keeper.Keeper.addRedelegation", "keeper.Keeper.ClearDustDelegation", "keeper.Keeper.SetDelegation", "keeper.Keeper.SetValidator"}

func init() {
	register(&Rule{ID: "C04.cap", Props: []string{"C04", "C15", "C05"}, Floor: 12,
		Doc: "in Undelegate and Redelegate every mutation is dominated by the rejection of amounts above the position's token value",
		Run: func(e *Engine, r *RuleRun) {
			for _, k := range []string{"keeper.Keeper.Undelegate", "keeper.Keeper.Redelegate"} {
				fn := r.Need(k)
				if fn == nil {
					continue
				}
				fa := e.FA(fn)
				// the cap value: GetDelegationTokensWithShares(ValidateDelegatedAmount(...)#0, val, asset).Amount
				var capT *Term
				for _, c := range CallsTo(fn, "types.GetDelegationTokensWithShares") {
					s := argT(fa, c, 0)
					if s.Op == "extract" && s.Name == "0" && s.Args[0].IsCall("keeper.Keeper.ValidateDelegatedAmount") {
						capT = mkField(resultT(fa, c), "Amount")
						vd := s.Args[0].CallArgsT()
						okArgs := vd[2].String() == "$coin" && vd[3].Eq(argT(fa, c, 1)) && vd[4].Eq(argT(fa, c, 2))
						r.Check(okArgs, k, "cap computed for the requested coin on the same validator and asset", "ValidateDelegatedAmount(delegation, coin, V, asset) -> GetDelegationTokensWithShares(shares, V, asset)", "the token value used as cap is computed for different arguments than the shares", r.P(c))
					}
				}
				if capT == nil {
					r.Bad(k, "cap value", "no GetDelegationTokensWithShares(ValidateDelegatedAmount(...)) found: the requested amount is not compared with what the position is worth", nil, e.Pos(fn.Pos()))
					continue
				}
				for _, c := range CallsTo(fn, mutatorCalls...) {
					ok := fa.HasFact(c, "$coin.Amount", "<=", capT.String())
					r.Check(ok, k, "mutation "+CalleeKey(c.Common())+" after the cap test", "dominated by !(coin.Amount > tokens of the validated shares)", "a state change is reachable without the requested amount having been rejected when it exceeds the position's value", r.P(c))
				}
			}
		}})

	register(&Rule{ID: "C04.price", Props: []string{"C04", "C15", "C05"}, Floor: 8,
		Doc: "share prices are evaluated on the asset and validator before any ledger write of the operation",
		Run: func(e *Engine, r *RuleRun) {
			priceFns := []string{"types.GetValidatorShares", "types.GetDelegationTokensWithShares", "keeper.Keeper.ValidateDelegatedAmount", "keeper.Keeper.upsertDelegationWithNewTokens"}
			for _, k := range []string{"keeper.Keeper.Delegate", "keeper.Keeper.Undelegate", "keeper.Keeper.Redelegate"} {
				fn := r.Need(k)
				if fn == nil {
					continue
				}
				fa := e.FA(fn)
				writes := CallsTo(fn, "keeper.Keeper.updateValidatorShares", "keeper.Keeper.ClearDustDelegation")
				for _, c := range CallsTo(fn, priceFns...) {
					ck := CalleeKey(c.Common())
					// asset argument: last AllianceAsset-typed argument
					var asset, val *Term
					for _, a := range CallArgs(c.Common()) {
						switch typeKey(a.Type()) {
						case "types.AllianceAsset":
							asset = fa.Term(a)
						case "types.AllianceValidator":
							val = fa.Term(a)
						}
					}
					if asset != nil {
						r.Check(asset.Op != "override", k, "price "+ck+" on the asset as loaded", "asset argument carries no in-memory modification", "a share price is computed on an asset record that this operation already modified in memory ("+strings.Join(ovrPaths(asset), ",")+"): the price would include the operation's own effect", r.P(c))
					}
					if val != nil {
						for _, w := range writes {
							if argT(fa, w, 1).Eq(val) {
								r.Check(!fa.Reaches(w, c), k, "price "+ck+" before shares of "+val.String()+" are written", "no write to this validator's shares can precede the pricing", "validator shares are updated before a price that depends on them is computed", r.P(c), r.P(w))
							}
						}
					}
				}
			}
		}})

	register(&Rule{ID: "C04.bootstrap", Props: []string{"C04", "C03"}, Floor: 2,
		Doc: "the one-share-per-token bootstrap price is used only when the pool has no shares yet",
		Run: func(e *Engine, r *RuleRun) {
			for _, k := range []string{"types.GetDelegationSharesFromTokens", "types.ConvertNewTokenToShares"} {
				fn := r.Need(k)
				if fn == nil {
					continue
				}
				fa := e.FA(fn)
				isZeroShares := func(g Guard) bool {
					if !g.Pos {
						return false
					}
					c := g.Cond
					if c.IsCall("math.LegacyDec.IsZero") && strings.Contains(strings.ToLower(c.Args[0].String()), "shares") {
						return true
					}
					if c.IsCall("math.Int.Equal", "math.Int.IsZero") && strings.Contains(strings.ToLower(c.Args[0].String()), "shares") {
						return true
					}
					return false
				}
				n := 0
				for _, rc := range fa.ReturnCases(0) {
					if !rc.T.IsCall("math.LegacyNewDecFromInt") {
						continue
					}
					n++
					ok := rc.HasCaseGuard(isZeroShares)
					r.Check(ok, k, "bootstrap price only for an empty pool", "returns one share per token only when the pool's total shares are zero", "new shares are priced one per token on a path where the pool may already hold shares: the newcomer's stake is split with the holders of the existing shares (dilution), or the newcomer takes part of theirs", r.P(rc.Ret))
				}
				r.Check(n == 1, k, "one bootstrap return", "found", fmt.Sprintf("%d bootstrap returns", n))
			}
		}})

	register(&Rule{ID: "B.coinsvalid", Props: []string{"C08", "C17", "C05"}, Floor: 8,
		Doc: "coins handed to the bank keeper are sanitised coin sets (sdk.NewCoins / Coins.Add results), never raw slices",
		Run: func(e *Engine, r *RuleRun) {
			for _, s := range e.bankSitesFound() {
				fa := e.FA(s.fn)
				args := CallArgs(s.call.Common())
				amt := fa.Term(args[len(args)-1])
				ok := false
				switch {
				case amt.IsCall("sdk.NewCoins", "sdk.Coins.Add", "sdk.Coins.Sub"):
					ok = true
				case amt.Op == "param", amt.Op == "extract", amt.Op == "ncall":
					ok = true // produced by another function (checked where it is built)
				case amt.Op == "phi":
					// an accumulator: every value that flows into it is empty or the result of a sanitising operation;
					// a coin set grown with append() keeps zero amounts and duplicate denoms
					ok = true
					_, leaves := phiCluster(fa, amt)
					for _, l := range leaves {
						switch {
						case l.Op == "const" && l.Name == "nil", l.Op == "zero":
						case l.IsCall("sdk.NewCoins", "sdk.Coins.Add", "sdk.Coins.Sub", "sdk.Coins.Sort"):
						case l.Op == "param", l.Op == "extract", l.Op == "ncall":
						default:
							ok = false
						}
					}
				}
				r.Check(ok, FuncKey(s.fn), "coins passed to "+s.atom, "sanitised coin set", "the bank keeper is given a raw coin slice ("+amt.String()+"): a zero or unsorted coin makes the transfer fail with `invalid coins` (sdk.NewCoins drops zero coins), so a dust amount aborts the enclosing callback / end-of-block", r.P(s.call))
			}
		}})

	register(&Rule{ID: "C04.others", Props: []string{"C04"}, Floor: 8,
		Doc: "delegation records are written only under the acting delegator's key",
		Run: func(e *Engine, r *RuleRun) {
			// every SM function that writes/deletes a delegation key: the delegator component is its delAddr parameter,
			// or parsed from the record it loaded for that parameter / the record being processed
			for _, fn := range e.SMFuncs() {
				fa := e.FA(fn)
				fk := FuncKey(fn)
				check := func(c ssa.CallInstruction, d *Term) {
					ok := d.Op == "param"
					why := "delegator parameter"
					if !ok && (d.IsCall("sdk.MustAccAddressFromBech32") || (d.Op == "extract" && d.Args[0].IsCall("sdk.AccAddressFromBech32"))) {
						s := d.String()
						// parsed from a record that was itself loaded from the store / genesis
						ok = strings.Contains(s, "GetDelegation@") || strings.Contains(s, "MustUnmarshal@") || strings.Contains(s, "$g") || strings.Contains(s, "Delegations")
						why = "parsed from the record being processed"
					}
					r.Check(ok, fk, "delegation key delegator", why, "a delegation record is written under a delegator ("+d.String()+") that is neither the acting delegator nor the owner recorded in the record being processed", r.P(c))
				}
				for _, c := range CallsTo(fn, "keeper.Keeper.SetDelegation") {
					check(c, argT(fa, c, 1))
				}
				for _, c := range CallsTo(fn, "corestore.KVStore.Delete", "storetypes.KVStore.Delete") {
					if k := argT(fa, c, 0); k.IsCall("types.GetDelegationKey") {
						check(c, k.Args[0])
					}
				}
				for _, c := range CallsTo(fn, "keeper.Keeper.upsertDelegationWithNewTokens", "keeper.Keeper.reduceDelegationShares", "keeper.Keeper.ClearDustDelegation") {
					d := argT(fa, c, 1)
					okD := d.Op == "param"
					if !okD && d.Op == "extract" && d.Args[0].IsCall("sdk.AccAddressFromBech32") && strings.Contains(d.String(), "MustUnmarshal@") {
						okD = true // the owner recorded in the record being processed (slash callback)
					}
					r.Check(okD, fk, "passes its own delegator to "+CalleeKey(c.Common()), "delAddr parameter, or the owner parsed from the record being processed", "a position of another account ("+d.String()+") is modified", r.P(c))
				}
			}
		}})

	register(&Rule{ID: "C06.scale", Props: []string{"C06", "C03", "C08", "C07", "C02"}, Floor: 6,
		Doc: "SlashValidator: each share and the asset's share total are reduced by the same share*fraction; results persisted",
		Run: func(e *Engine, r *RuleRun) {
			fn := r.Need("keeper.Keeper.SlashValidator")
			if fn == nil {
				return
			}
			k, fa := FuncKey(fn), e.FA(fn)
			sts := StoresToField(fn, "types.AllianceAsset", "TotalValidatorShares")
			if len(sts) != 1 {
				r.Bad(k, "asset share total update", fmt.Sprintf("expected one update of TotalValidatorShares, found %d", len(sts)), nil)
				return
			}
			v := fa.Term(sts[0].Val)
			ok := v.IsCall("math.LegacyDec.Sub") && strings.HasSuffix(v.Args[0].String(), ".TotalValidatorShares") && v.Args[1].IsCall("math.LegacyDec.Mul") && v.Args[1].Args[1].String() == "$fraction" && strings.HasSuffix(v.Args[1].Args[0].String(), ".Amount")
			r.Check(ok, k, "asset share total reduced by share*fraction", "TotalValidatorShares := old.Sub(share.Amount.Mul(fraction))", "the asset's share total is set to "+v.String(), r.P(sts[0]))
			if !ok {
				return
			}
			toSlash := v.Args[1]
			share := toSlash.Args[0].Args[0] // the DecCoin element
			asset := v.Args[0].Args[0]
			okA := asset.Op == "extract" && asset.Args[0].IsCall("keeper.Keeper.GetAssetByDenom") && asset.Args[0].CallArgsT()[2].Eq(mkField(share, "Denom"))
			r.Check(okA, k, "asset of the share's denom", "GetAssetByDenom(share.Denom)", "the asset reduced is "+asset.String(), r.P(sts[0]))
			// accumulator of remaining shares
			vs := StoresToField(fn, "types.AllianceValidatorInfo", "ValidatorShares")
			okV := len(vs) == 1
			var accPhi *ssa.Phi
			if okV {
				acc := fa.Term(vs[0].Val)
				okV = acc.Op == "phi"
				if okV {
					accPhi = acc.Instr.(*ssa.Phi)
					found := false
					for _, ed := range accPhi.Edges {
						t := fa.Term(ed)
						if t.IsCall("sdk.DecCoins.Add") && t.Args[0].Eq(acc) {
							d, a := decCoinOf(t.Args[1])
							if d != nil && d.Eq(mkField(share, "Denom")) && a.IsCall("math.LegacyDec.Sub") && a.Args[0].Eq(mkField(share, "Amount")) && a.Args[1].Eq(toSlash) {
								found = true
							}
						}
					}
					okV = found
				}
			}
			r.Check(okV, k, "validator keeps share - share*fraction of every asset", "ValidatorShares := sum of (denom, amount.Sub(amount.Mul(fraction))) with the same product", "the validator's remaining shares are not each share minus the same share*fraction that is removed from the asset total", r.P(sts[0]))
			sv := CallsTo(fn, "keeper.Keeper.SetValidator")
			sa := CallsTo(fn, "keeper.Keeper.SetAsset")
			okP := len(sv) == 1 && len(sa) == 1 && len(vs) == 1 && fa.MustFollow(vs[0], callsAsInstrs(sv)) == nil && fa.MustFollow(sts[0], callsAsInstrs(sa)) == nil
			r.Check(okP, k, "reduced asset and validator persisted", "SetAsset in each iteration, SetValidator after the loop, on every success path", "a reduced value is not persisted on some success path", r.P(sts[0]))
			if len(sv) == 1 {
				val := argT(fa, sv[0], 1)
				okT := val.Op == "extract" && val.Args[0].IsCall("keeper.Keeper.GetAllianceValidator") && val.Args[0].CallArgsT()[2].String() == "$valAddr"
				r.Check(okT, k, "only the slashed validator's record is written", "SetValidator(GetAllianceValidator(valAddr))", "the validator persisted is "+val.String(), r.P(sv[0]))
			}
			// range
			first := CallsTo(fn, "keeper.Keeper.GetAllianceValidator")
			if len(first) > 0 {
				r.Check(fa.HasFact(first[0], "$fraction", ">", "0") && fa.HasFact(first[0], "$fraction", "<=", "1"), k, "fraction in (0,1]", "everything is dominated by the rejection of fraction <= 0 or fraction > 1", "the slash proceeds without the fraction having been checked to lie in (0,1]", r.P(first[0]))
			}
			// pending entries are slashed too, with the same arguments
			for _, sub := range []string{"keeper.Keeper.slashRedelegations", "keeper.Keeper.slashUndelegations"} {
				cs := CallsTo(fn, sub)
				ok := len(cs) == 1 && argT(fa, cs[0], 1).String() == "$valAddr" && argT(fa, cs[0], 2).String() == "$fraction" && fa.MustFollow(fn.Blocks[0].Instrs[0], callsAsInstrs(cs)) == nil
				r.Check(ok, k, "calls "+sub+" with the same validator and fraction", "on every success path", "pending entries are not slashed with the hook's validator and fraction on every success path", e.Pos(fn.Pos()))
				// the bonded part is complete before the steps that can fail are started: x/staking only logs the hook's
				// error and keeps what was written, so a validator record that is persisted after them is lost whenever
				// they fail, while the asset totals written in the loop stay reduced (round 10)
				if len(cs) == 1 && len(sv) == 1 {
					if trail := fa.MustPassThrough(nil, cs[0], callsAsInstrs(sv)); trail != nil {
						r.Bad(k, "validator record persisted before "+sub, "the slashed validator's reduced shares are written only after the slash of its pending entries: when that step returns an error (x/staking logs it and does not revert) the asset totals are already reduced and the validator keeps all its shares: its delegators gain instead of losing the fraction, and the validators' shares exceed the asset total", trail, r.P(cs[0]))
					} else {
						r.OK(k, "validator record persisted before "+sub, "every path to the call passes SetValidator", r.P(sv[0]))
					}
				}
			}
		}})

	register(&Rule{ID: "C06.hook", Props: []string{"C06", "C08", "C07"}, Floor: 2,
		Doc: "the slash hook passes validator and fraction through unchanged",
		Run: func(e *Engine, r *RuleRun) {
			fn := r.Need("keeper.Hooks.BeforeValidatorSlashed")
			if fn == nil {
				return
			}
			fa := e.FA(fn)
			c := r.One(fn, "slash", "keeper.Keeper.SlashValidator")
			if c != nil {
				r.Check(argT(fa, c, 1).String() == "$valAddr" && argT(fa, c, 2).String() == "$fraction", FuncKey(fn), "arguments passed through", "SlashValidator(ctx, valAddr, fraction)", "the hook slashes "+argT(fa, c, 1).String()+" by "+argT(fa, c, 2).String(), r.P(c))
				if trail := fa.EntryMustPass([]ssa.Instruction{c}); trail != nil {
					r.Bad(FuncKey(fn), "every slash reported by x/staking reaches SlashValidator", "the hook can return success without calling SlashValidator: bonded shares, pending undelegations and pending redelegations of the validator (which are found through their own indexes, not through the validator's share record) keep their full value although x/staking slashed the validator", trail, r.P(c))
				} else {
					r.OK(FuncKey(fn), "every slash reported by x/staking reaches SlashValidator", "every success path of the hook passes the call", r.P(c))
				}
			}
		}})
}
