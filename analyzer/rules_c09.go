package main

import (
	"fmt"
	"go/token"
	"strings"

	"golang.org/x/tools/go/ssa"
)

// intervalsTerm recognises uint64((BlockTime - last) / interval) and returns (last, interval).
func intervalsTerm(t *Term) (last, interval *Term, ok bool) {
	if t.Op != "conv" || len(t.Args) != 1 {
		return nil, nil, false
	}
	q := t.Args[0]
	if q.Op != "binop" || q.Name != "/" {
		return nil, nil, false
	}
	d := q.Args[0]
	if !d.IsCall("time.Time.Sub") || !isBlockTime(d.Args[0]) {
		return nil, nil, false
	}
	return d.Args[1], q.Args[1], true
}

// clockAdvance recognises last.Add(interval * Duration(n)) and returns (last, interval, n).
func clockAdvance(t *Term) (last, interval, n *Term, ok bool) {
	if !t.IsCall("time.Time.Add") || len(t.Args) != 2 {
		return
	}
	m := t.Args[1]
	if m.Op != "binop" || m.Name != "*" {
		return
	}
	a, b := m.Args[0], m.Args[1]
	if a.Op == "conv" && strings.HasSuffix(a.Name, "Duration") {
		a, b = b, a
	}
	if !(b.Op == "conv" && strings.HasSuffix(b.Name, "Duration")) {
		return
	}
	return t.Args[0], a, b.Args[0], true
}

func init() {
	register(&Rule{ID: "C09.trigger", Props: []string{"C09"}, Floor: 2,
		Doc: "the take-rate hook fires iff BlockTime.After(last + interval) with the stored parameters",
		Run: func(e *Engine, r *RuleRun) {
			fn := r.Need("keeper.Keeper.DeductAssetsHook")
			if fn == nil {
				return
			}
			k, fa := FuncKey(fn), e.FA(fn)
			c := r.One(fn, "deduct", "keeper.Keeper.DeductAssetsWithTakeRate")
			if c == nil {
				return
			}
			last := argT(fa, c, 1)
			ok := last.IsCall("keeper.Keeper.LastRewardClaimTime") && fa.HasGuard(c, func(g Guard) bool {
				// BlockTime.After(next), in the one spelling of librarySynonym: next.Before(BlockTime)
				if !g.Pos || !g.Cond.IsCall("time.Time.Before") || !isBlockTime(g.Cond.Args[1]) {
					return false
				}
				nx := g.Cond.Args[0]
				return nx.IsCall("time.Time.Add") && nx.Args[0].Eq(last) && nx.Args[1].IsCall("keeper.Keeper.RewardClaimInterval")
			})
			r.Check(ok, k, "fires iff block time is after last + interval", "DeductAssetsWithTakeRate(last, ..) under BlockTime.After(last.Add(interval)), both read from the stored parameters", "the take-rate deduction is not triggered exactly when the block time is after the stored clock plus the stored interval, or it is given another clock value than the one tested", r.P(c))
			r.Check(argT(fa, c, 2).String() == "$assets", k, "passes the asset list through", "assets parameter", "deducts on "+argT(fa, c, 2).String(), r.P(c))
			// the other branch has no effect
			n := 0
			for _, a := range e.effectInstrs(fn) {
				if a.Instr != ssa.Instruction(c) {
					n++
					r.Bad(k, "no other effect", "the hook has an effect outside the triggered deduction: "+a.Name, nil, r.P(a.Instr))
				}
			}
			if n == 0 {
				r.OK(k, "no other effect", "the only effect is the guarded deduction")
			}
		}})

	register(&Rule{ID: "C09.n", Props: []string{"C09", "C17"}, Floor: 3,
		Doc: "exponent, clock multiplier and whole-interval count are one term; the clock advances by interval*n from the clock passed in",
		Run: func(e *Engine, r *RuleRun) {
			fn := r.Need("keeper.Keeper.DeductAssetsWithTakeRate")
			if fn == nil {
				return
			}
			k, fa := FuncKey(fn), e.FA(fn)
			pw := r.One(fn, "compounding", "math.LegacyDec.Power")
			if pw == nil {
				return
			}
			n := argT(fa, pw, 0)
			last, interval, ok := intervalsTerm(n)
			r.Check(ok && last.String() == "$lastClaim" && interval.IsCall("keeper.Keeper.RewardClaimInterval"), k, "n = whole intervals since the clock", "uint64((BlockTime - lastClaim) / RewardClaimInterval)", "the compounding exponent is "+n.String(), r.P(pw))
			base := recvT(fa, pw)
			okB := base.IsCall("math.LegacyDec.Sub") && base.Args[0].IsCall("math.LegacyOneDec") && strings.HasSuffix(base.Args[1].String(), ".TakeRate")
			r.Check(okB, k, "base = 1 - takeRate of the asset", "LegacyOneDec().Sub(asset.TakeRate)", "the compounding base is "+base.String(), r.P(pw))
			found := false
			for _, c := range CallsTo(fn, "keeper.Keeper.SetLastRewardClaimTime") {
				l2, i2, n2, ok2 := clockAdvance(argT(fa, c, 1))
				if !ok2 {
					continue
				}
				found = true
				good := ok && l2.Eq(last) && i2.Eq(interval) && n2.Eq(n)
				r.Check(good, k, "clock advances by exactly n intervals", "SetLastRewardClaimTime(lastClaim.Add(interval * n)) with the same lastClaim, interval read and n as the exponent", "the clock is advanced to "+argT(fa, c, 1).String()+", which is not lastClaim + interval x (the n used for compounding)", r.P(c))
			}
			r.Check(found, k, "clock advance site", "found", "no SetLastRewardClaimTime(lastClaim.Add(interval*n)) call: the clock never advances by whole intervals", e.Pos(fn.Pos()))
		}})

	register(&Rule{ID: "C09.guards", Props: []string{"C09", "C14"}, Floor: 5,
		Doc: "an asset is charged only with positive total, positive rate, after its start time, and never down to zero",
		Run: func(e *Engine, r *RuleRun) {
			fn := r.Need("keeper.Keeper.DeductAssetsWithTakeRate")
			if fn == nil {
				return
			}
			k, fa := FuncKey(fn), e.FA(fn)
			sts := StoresToField(fn, "types.AllianceAsset", "TotalTokens")
			if len(sts) != 1 {
				r.Bad(k, "deduction site", "expected one TotalTokens store", nil)
				return
			}
			st := sts[0]
			root, _, _ := fa.addrPath(st.Addr)
			a := "*(" + strings.TrimPrefix(root, "ptr:") + ")"
			r.Check(fa.HasFact(st, a+".TotalTokens", ">", "0"), k, "only assets with a positive staked total", "TotalTokens.IsPositive()", "an asset with zero staked total can be charged", r.P(st))
			r.Check(fa.HasFact(st, a+".TakeRate", ">", "0"), k, "only assets with a positive take rate", "TakeRate.IsPositive()", "an asset with take rate zero can be charged", r.P(st))
			started := fa.HasGuard(st, func(g Guard) bool {
				return g.Pos && g.Cond.IsCall("types.AllianceAsset.RewardsStarted") && g.Cond.Args[0].String() == a && isBlockTime(g.Cond.Args[1])
			})
			r.Check(started, k, "only after the asset's reward start time", "asset.RewardsStarted(BlockTime)", "an asset can be charged the take rate before its reward start time", r.P(st))
			v := fa.Term(st.Val)
			okT := v.IsCall("math.LegacyDec.TruncateInt") && v.Args[0].IsCall("math.LegacyDec.MulInt") && v.Args[0].Args[0].IsCall("math.LegacyDec.Power") && v.Args[0].Args[1].String() == a+".TotalTokens"
			r.Check(okT, k, "new total = floor(multiplier * old total)", "multiplier.MulInt(asset.TotalTokens).TruncateInt()", "the new total is "+v.String(), r.P(st))
			if okT {
				newAmt := v.Args[0]
				r.Check(fa.HasFact(st, constName(newAmt), ">", "1"), k, "a rate below one never drives the total to zero", "deduction skipped unless multiplier*total > 1", "the deduction is applied even when the product is <= 1 (the total can be driven to zero)", r.P(st))
			}
		}})

	register(&Rule{ID: "C09.nonzero", Props: []string{"C09", "C03", "C05"}, Floor: 1,
		Doc: "the take rate never writes a staked total of zero: the deduction is skipped unless the very product that is stored exceeds one (the take-rate path has no share reset, and a zero total makes the next delegation divide by zero)",
		Run: func(e *Engine, r *RuleRun) {
			fn := r.Need("keeper.Keeper.DeductAssetsWithTakeRate")
			if fn == nil {
				return
			}
			k, fa := FuncKey(fn), e.FA(fn)
			sts := StoresToField(fn, "types.AllianceAsset", "TotalTokens")
			if len(sts) != 1 {
				r.Bad(k, "deduction site", "expected one TotalTokens store", nil)
				return
			}
			st := sts[0]
			v := fa.Term(st.Val)
			if !v.IsCall("math.LegacyDec.TruncateInt") {
				r.Bad(k, "stored total is guarded against zero", "the stored total is not the truncation of a guarded product: "+v.String(), nil, r.P(st))
				return
			}
			r.Check(fa.HasFact(st, constName(v.Args[0]), ">", "1"), k, "stored total is guarded against zero", "the store is dominated by `product > 1` on the very term whose truncation is stored", "the take rate can store floor(x) for a product x that was not tested to exceed one: the staked total can reach zero while validator-share records stay (no reset on this path) and the next Delegate divides by zero", r.P(st))
		}})

	register(&Rule{ID: "C09.clockowner", Props: []string{"C09"}, Floor: 3,
		Doc: "the take-rate clock (Params.LastTakeRateClaimTime) is written only by the take-rate hook and by genesis import; other parameter writers preserve the stored clock",
		Run: func(e *Engine, r *RuleRun) {
			n := 0
			for _, c := range e.CallersOf("keeper.Keeper.SetParams") {
				if c.Fn.Pkg.Pkg.Path() == pApp {
					continue
				}
				n++
				fk, fa := FuncKey(c.Fn), e.FA(c.Fn)
				call := c.Instr.(ssa.CallInstruction)
				a := argT(fa, call, 1)
				base, clock := ovrGet(a, ".LastTakeRateClaimTime")
				construct := "clock value stored by this parameter write"
				switch {
				case fk == "keeper.Keeper.SetLastRewardClaimTime":
					ok := base != nil && strings.HasPrefix(stripOrd(base.String()), "keeper.Keeper.GetParams") && clock != nil && clock.String() == "$lastTime"
					r.Check(ok, fk, construct, "stored parameters with only the clock replaced by the argument", "the clock setter stores "+a.String(), r.P(call))
					for _, cc := range e.CallersOf("keeper.Keeper.SetLastRewardClaimTime") {
						ck := FuncKey(cc.Fn)
						if cc.Fn.Pkg.Pkg.Path() == pApp {
							continue
						}
						r.Check(ck == "keeper.Keeper.DeductAssetsWithTakeRate", ck, "caller of the clock setter", "only the take-rate hook (clock values decided by C09.n / C09.clock)", "the take-rate clock is set from "+ck, r.P(cc.Instr))
					}
				case fk == "keeper.Keeper.InitGenesis" || strings.HasPrefix(fk, "migv5."):
					r.OK(fk, construct, "genesis import / migration: the imported parameters are the state", r.P(call))
				default:
					// any other writer must keep the stored clock: the value written is the stored parameters with
					// overrides that do not touch the clock
					keeps := base != nil && strings.HasPrefix(stripOrd(base.String()), "keeper.Keeper.GetParams") && clock == nil
					r.Check(keeps, fk, construct, "stored parameters with overrides other than the clock", "a parameter update stores a take-rate clock that comes from outside the take-rate hook ("+a.String()+"): a governance proposal written days earlier rewinds the clock when it executes (the elapsed intervals are charged a second time, and to stake deposited in between), a future value suspends the take rate, and a changed interval re-slices time that already elapsed", r.P(call))
				}
			}
			r.Check(n >= 3, "-", "parameter writers found", fmt.Sprintf("%d callers of SetParams", n), fmt.Sprintf("only %d callers of SetParams found", n))
		}})

	register(&Rule{ID: "C09.clock", Props: []string{"C09"}, Floor: 1,
		Doc: "every non-error exit on which n was computed passes SetLastRewardClaimTime",
		Run: func(e *Engine, r *RuleRun) {
			fn := r.Need("keeper.Keeper.DeductAssetsWithTakeRate")
			if fn == nil {
				return
			}
			k, fa := FuncKey(fn), e.FA(fn)
			var quo ssa.Instruction
			for _, b := range fn.Blocks {
				for _, in := range b.Instrs {
					if bo, ok := in.(*ssa.BinOp); ok && bo.Op == token.QUO && quo == nil {
						quo = in
					}
				}
			}
			if quo == nil {
				r.Bad(k, "interval count", "no division computing the number of intervals", nil)
				return
			}
			sets := callsAsInstrs(CallsTo(fn, "keeper.Keeper.SetLastRewardClaimTime"))
			if trail := fa.MustFollow(quo, sets); trail != nil {
				fp := fa.EscapeEdges(quo, sets, func(ret *ssa.Return) bool { return !fa.IsErrorExit(ret) })
				r.BadAt(k, "clock advanced on every exit after n was computed", "the hook can return without moving the take-rate clock although whole intervals have elapsed: the next deduction charges all of them at once, including stake deposited in the meantime", trail, fp, r.P(quo))
			} else {
				r.OK(k, "clock advanced on every exit after n was computed", "every success exit passes SetLastRewardClaimTime", r.P(quo))
			}
			// exits BEFORE n is computed: the hook was entered because an interval has elapsed (or the clock was never
			// set); leaving without counting the intervals and without setting the clock freezes it, and the first
			// deduction afterwards charges the whole idle time to stake that arrived in the meantime (seed round 9)
			via := append([]ssa.Instruction{quo}, sets...)
			nExits := 0
			for _, b := range fn.Blocks {
				if len(b.Instrs) == 0 {
					continue
				}
				ret, ok := b.Instrs[len(b.Instrs)-1].(*ssa.Return)
				if !ok || len(ret.Results) == 0 {
					continue
				}
				if fa.provablyNonNil(ret.Results[len(ret.Results)-1], ret, 0) {
					continue // error exit
				}
				nExits++
				if trail := fa.MustPassThrough(nil, ret, via); trail != nil {
					r.Bad(k, "no success exit before the intervals are counted leaves the clock untouched", "the take-rate hook returns successfully without counting the elapsed intervals and without setting the clock: while that exit is taken the clock stands still, and the next deduction compounds over the whole time, charging stake for intervals during which it was not staked", trail, r.P(ret))
				}
			}
			r.Check(nExits >= 2, k, "success exits examined", fmt.Sprintf("%d success exits: each passes the interval count or a clock write", nExits), fmt.Sprintf("only %d success exits found", nExits))
		}})

	register(&Rule{ID: "C14.clamp", Props: []string{"C14", "C17"}, Floor: 3,
		Doc: "the decayed weight handed to UpdateAllianceAsset is clamped to [Min, Max]",
		Run: func(e *Engine, r *RuleRun) {
			fn := r.Need("keeper.Keeper.RewardWeightChangeHook")
			if fn == nil {
				return
			}
			k, fa := FuncKey(fn), e.FA(fn)
			up := r.One(fn, "apply", "keeper.Keeper.UpdateAllianceAsset")
			if up == nil {
				return
			}
			sts := StoresToField(fn, "types.AllianceAsset", "RewardWeight")
			var decay, toMin, toMax *ssa.Store
			for _, s := range sts {
				v := fa.Term(s.Val)
				switch {
				case v.IsCall("math.LegacyDec.Mul"):
					decay = s
				case strings.HasSuffix(v.String(), ".RewardWeightRange.Min"):
					toMin = s
				case strings.HasSuffix(v.String(), ".RewardWeightRange.Max"):
					toMax = s
				}
			}
			// the decayed weight stored first and a clamp helper applied to the stored value afterwards: two stores, the
			// second one of the joined form below (its innermost value is the first store's, read back)
			if decay != nil && toMin == nil && toMax == nil && len(sts) == 2 {
				other := sts[0]
				if other == decay {
					other = sts[1]
				}
				if fa.Term(other.Val).Op == "phi" && fa.Dominates(decay, other) {
					sts, decay = []*ssa.Store{other}, nil
				}
			}
			if decay == nil && len(sts) == 1 {
				// the same computation on a local value (the shape an extracted helper has): one store of
				// phi(phi(decayed, Min), Max), each bound taken on the edge that the comparison guards
				st := sts[0]
				bounded := func(t *Term, suffix string, op string) (*Term, bool) {
					phi, isPhi := t.Instr.(*ssa.Phi)
					if t.Op != "phi" || !isPhi || len(phi.Edges) != 2 {
						return nil, false
					}
					for i, ed := range phi.Edges {
						bt := fa.Term(ed)
						if !strings.HasSuffix(bt.String(), suffix) {
							continue
						}
						inner := fa.Term(phi.Edges[1-i])
						pred := phi.Block().Preds[i]
						gs := fa.GuardsOfBlock(pred)
						for si, sb := range pred.Succs {
							if sb == phi.Block() && len(pred.Succs) == 2 && pred.Succs[0] != pred.Succs[1] {
								if g, ok := fa.EdgeFact(pred, si); ok {
									gs = append(gs, g)
								}
							}
						}
						for _, g := range gs {
							rs := relsOf(g)
							if len(rs) == 1 && relImplies(rs[0], Rel{A: inner.String(), Op: op, B: bt.String()}) {
								return inner, true
							}
						}
					}
					return nil, false
				}
				final := fa.Term(st.Val)
				afterMin, okMax := bounded(final, ".RewardWeightRange.Max", ">")
				var decayed *Term
				okMin := false
				if okMax {
					decayed, okMin = bounded(afterMin, ".RewardWeightRange.Min", "<")
				}
				if !okMax || !okMin || !decayed.IsCall("math.LegacyDec.Mul") {
					r.Bad(k, "decay step", "no RewardWeight := clamp(RewardWeight.Mul(multiplier), Min, Max): the stored weight is "+final.String(), nil, r.P(st))
					return
				}
				r.OK(k, "clamped from below", "weight < Min => Min, on the decayed value", r.P(st))
				r.OK(k, "clamped from above", "weight > Max => Max, on the (possibly raised) value", r.P(st))
				r.OK(k, "both clamp tests precede the update", "the stored value is defined by both comparisons", r.P(up))
				asset := argT(fa, up, 1)
				_, w := ovrGet(asset, ".RewardWeight")
				r.Check(w != nil && w.Eq(final), k, "the clamped in-memory asset is what gets applied", "UpdateAllianceAsset(*asset) after the store", "the asset passed to UpdateAllianceAsset does not carry the clamped weight: "+asset.String(), r.P(up))
				return
			}
			if decay == nil {
				r.Bad(k, "decay step", "no RewardWeight := RewardWeight.Mul(multiplier) store", nil, e.Pos(fn.Pos()))
				return
			}
			okMin := toMin != nil && fa.Dominates(decay, toMin) && fa.HasGuard(toMin, func(g Guard) bool {
				rs := relsOf(g)
				return len(rs) == 1 && relImplies(rs[0], Rel{A: fa.Term(decay.Val).String(), Op: "<", B: fa.Term(toMin.Val).String()})
			})
			r.Check(okMin, k, "clamped from below", "if weight < Min { weight = Min } on the decayed value", "the decayed weight is not raised to the range minimum when it falls below it", r.P(decay))
			okMax := toMax != nil && fa.Dominates(decay, toMax) && fa.HasGuard(toMax, func(g Guard) bool {
				rs := relsOf(g)
				if len(rs) != 1 {
					return false
				}
				a, op, b := rs[0].A, rs[0].Op, rs[0].B
				if op == "<" { // Max < weight, the spelling of librarySynonym for weight.GT(Max)
					a, op, b = b, ">", a
				}
				return op == ">" && b == fa.Term(toMax.Val).String() && strings.HasPrefix(a, "mem<")
			})
			r.Check(okMax, k, "clamped from above", "if weight > Max { weight = Max } on the (possibly raised) value", "the decayed weight is not lowered to the range maximum when it exceeds it", r.P(decay))
			// both clamp tests lie on every path from the decay to the update
			if toMin != nil && toMax != nil {
				okPath := fa.MustPassThrough(decay, up, []ssa.Instruction{lastInstr(ifBlockOf(fa, toMin))}) == nil && fa.MustPassThrough(decay, up, []ssa.Instruction{lastInstr(ifBlockOf(fa, toMax))}) == nil
				r.Check(okPath, k, "both clamp tests precede the update", "every path from the decay to UpdateAllianceAsset passes both comparisons", "a path from the decay step to the update bypasses a clamp test", r.P(up))
			}
			asset := argT(fa, up, 1)
			_, w := ovrGet(asset, ".RewardWeight")
			r.Check(w != nil && strings.HasPrefix(w.String(), "mem<"), k, "the clamped in-memory asset is what gets applied", "UpdateAllianceAsset(*asset) after the stores", "the asset passed to UpdateAllianceAsset does not carry the clamped weight: "+asset.String(), r.P(up))
		}})

	register(&Rule{ID: "C14.n", Props: []string{"C14", "C17"}, Floor: 4,
		Doc: "decay exponent, clock multiplier and interval count are one term; step skipped for interval 0, rate 1, or an interval not yet elapsed",
		Run: func(e *Engine, r *RuleRun) {
			fn := r.Need("keeper.Keeper.RewardWeightChangeHook")
			if fn == nil {
				return
			}
			k, fa := FuncKey(fn), e.FA(fn)
			pw := r.One(fn, "compounding", "math.LegacyDec.Power")
			if pw == nil {
				return
			}
			n := argT(fa, pw, 0)
			last, interval, ok := intervalsTerm(n)
			okT := ok && strings.HasSuffix(last.String(), ".LastRewardChangeTime") && strings.HasSuffix(interval.String(), ".RewardChangeInterval") && strings.HasSuffix(recvT(fa, pw).String(), ".RewardChangeRate")
			r.Check(okT, k, "n = whole change intervals since the decay clock", "RewardChangeRate.Power(uint64((BlockTime - LastRewardChangeTime) / RewardChangeInterval))", "the decay exponent is "+n.String(), r.P(pw))
			sts := StoresToField(fn, "types.AllianceAsset", "LastRewardChangeTime")
			okC := len(sts) == 1
			if okC {
				l2, i2, n2, ok2 := clockAdvance(fa.Term(sts[0].Val))
				okC = ok2 && ok && l2.Eq(last) && i2.Eq(interval) && n2.Eq(n)
			}
			r.Check(okC, k, "decay clock advances by exactly n intervals", "LastRewardChangeTime := old.Add(interval * n) with the same terms", "the decay clock is not advanced by interval x (the n used for compounding)", r.P(pw))
			if ok {
				r.Check(fa.HasFact(pw, interval.String(), "!=", "0"), k, "no step when the interval is zero", "dominated by interval != 0", "the decay step (and its division) can run with a zero interval", r.P(pw))
				rate := recvT(fa, pw)
				r.Check(fa.HasFact(pw, rate.String(), "!=", "1"), k, "no step when the rate is one", "dominated by !rate.Equal(1)", "the decay step runs with rate 1", r.P(pw))
				due := fa.HasGuard(pw, func(g Guard) bool {
					return !g.Pos && g.Cond.IsCall("time.Time.Before") && isBlockTime(g.Cond.Args[0]) && g.Cond.Args[1].IsCall("time.Time.Add") && g.Cond.Args[1].Args[0].Eq(last) && g.Cond.Args[1].Args[1].Eq(interval)
				})
				r.Check(due, k, "no step before a whole interval has elapsed", "dominated by !(last+interval).After(BlockTime)", "the decay step can run before the next change is due", r.P(pw))
			}
		}})

	register(&Rule{ID: "C14.clockstart", Props: []string{"C14", "C17"}, Floor: 2,
		Doc: "the decay clock is restarted by an update exactly when decay was inactive before, with the same notion of `inactive` as the decay hook",
		Run: func(e *Engine, r *RuleRun) {
			up := r.Need("keeper.Keeper.UpdateAllianceAsset")
			hook := r.Need("keeper.Keeper.RewardWeightChangeHook")
			if up == nil || hook == nil {
				return
			}
			k, fa := FuncKey(up), e.FA(up)
			// the hook's notion of inactive: edges that skip the step before the due-time test
			inactive := func(g Guard, recv string) string {
				if !g.Pos {
					return ""
				}
				c := g.Cond
				if c.Op == "binop" && c.Name == "==" && c.Args[1].Name == "0" && c.Args[0].String() == recv+".RewardChangeInterval" {
					return "interval == 0"
				}
				if c.IsCall("math.LegacyDec.Equal") && c.Args[0].String() == recv+".RewardChangeRate" && c.Args[1].IsCall("math.LegacyOneDec") {
					return "rate == 1"
				}
				return ""
			}
			hfa := e.FA(hook)
			hookKinds := map[string]bool{}
			for _, b := range hook.Blocks {
				for i := range b.Succs {
					if g, ok := hfa.EdgeFact(b, i); ok {
						recv := ""
						if g.Cond.Op == "binop" && len(g.Cond.Args) > 0 {
							recv = strings.TrimSuffix(g.Cond.Args[0].String(), ".RewardChangeInterval")
						} else if len(g.Cond.Args) > 0 {
							recv = strings.TrimSuffix(g.Cond.Args[0].String(), ".RewardChangeRate")
						}
						if kind := inactive(g, recv); kind != "" {
							hookKinds[kind] = true
						}
					}
				}
			}
			r.Check(hookKinds["interval == 0"] && hookKinds["rate == 1"], FuncKey(hook), "decay inactive := interval == 0 or rate == 1", "the hook skips assets on exactly these two conditions", "the decay hook no longer skips assets with interval 0 / rate 1", e.Pos(hook.Pos()))
			// the clock restart in UpdateAllianceAsset
			var restart *ssa.Store
			for _, b := range up.Blocks {
				for _, in := range b.Instrs {
					if st, ok := in.(*ssa.Store); ok {
						if f, ok := st.Addr.(*ssa.FieldAddr); ok && typeKey(f.X.Type()) == "types.AllianceAsset" && derefStruct(f.X.Type()).Field(f.Field).Name() == "LastRewardChangeTime" && isBlockTime(fa.Term(st.Val)) {
							restart = st
						}
					}
				}
			}
			if restart == nil {
				r.Bad(k, "decay clock restart", "no `LastRewardChangeTime = BlockTime` in UpdateAllianceAsset: switching decay on would apply all intervals since the old clock at once", nil, e.Pos(up.Pos()))
				return
			}
			stored := ""
			for _, c := range CallsTo(up, "keeper.Keeper.GetAssetByDenom") {
				stored = extractT(fa, c, 0).String()
			}
			kinds := map[string]bool{}
			okAll := true
			b := restart.Block()
			for _, p := range b.Preds {
				found := ""
				for i, s := range p.Succs {
					if s == b {
						if g, ok := fa.EdgeFact(p, i); ok {
							found = inactive(g, stored)
						}
					}
				}
				if found == "" {
					okAll = false
				} else {
					kinds[found] = true
				}
			}
			r.Check(okAll && kinds["interval == 0"] && kinds["rate == 1"], k, "clock restarts iff decay was inactive (stored interval == 0 or stored rate == 1)", "the restart is entered exactly through the two `inactive` tests on the stored asset", "the decay clock restart in UpdateAllianceAsset is guarded by another condition than the hook's notion of inactive decay (interval == 0 or rate == 1 of the stored asset): an asset whose clock never ran can keep a stale clock when decay is switched on, and all intervals since then are applied in one step", r.P(restart))
		}})

	register(&Rule{ID: "C14.activation", Props: []string{"C14", "C13"}, Floor: 1,
		Doc: "an asset becomes active only after every validator's pending rewards were settled",
		Run: func(e *Engine, r *RuleRun) {
			// Rewards are split when they are withdrawn from x/distribution, not when they are earned.  A weight change is
			// made non-retroactive by UpdateAllianceAsset, which settles every validator first (C14.settleorder).  The
			// end of the warm-up is a weight change from 0 to w; the only per-asset activation step is
			// InitializeAllianceAssets.
			fn := r.Need("keeper.Keeper.InitializeAllianceAssets")
			if fn == nil {
				return
			}
			settles := false
			for _, f := range e.Reach(fn) {
				if FuncKey(f) == "keeper.Keeper.ClaimValidatorRewards" {
					settles = true
				}
			}
			r.Check(settles, FuncKey(fn), "activation settles every validator first", "the activation step reaches ClaimValidatorRewards", "the end of an asset's warm-up is not preceded by a settlement of the validators: rewards that the module's stake earned BEFORE the asset's reward start time and that are still pending in x/distribution are split, at the first withdrawal after the start time, among the started assets including the new one (its stakers are paid for a period in which the asset earned nothing, the others are short by that amount)", e.Pos(fn.Pos()))
		}})

	register(&Rule{ID: "C14.range", Props: []string{"C14", "C16"}, Floor: 2,
		Doc: "UpdateAllianceAsset persists only a weight inside the new range",
		Run: func(e *Engine, r *RuleRun) {
			fn := r.Need("keeper.Keeper.UpdateAllianceAsset")
			if fn == nil {
				return
			}
			k, fa := FuncKey(fn), e.FA(fn)
			for _, c := range CallsTo(fn, "keeper.Keeper.SetAsset") {
				a := argT(fa, c, 1)
				_, w := ovrGet(a, ".RewardWeight")
				_, rg := ovrGet(a, ".RewardWeightRange")
				if w == nil || rg == nil {
					r.Bad(k, "weight and range persisted together", "the persisted asset does not take both weight and range from the update", nil, r.P(c))
					continue
				}
				r.Check(fa.HasFact(c, w.String(), ">=", mkField(rg, "Min").String()), k, "weight >= range.min", "dominated by the rejection of Min > weight", "a weight below the range minimum can be persisted", r.P(c))
				r.Check(fa.HasFact(c, w.String(), "<=", mkField(rg, "Max").String()), k, "weight <= range.max", "dominated by the rejection of Max < weight", "a weight above the range maximum can be persisted", r.P(c))
			}
		}})

	register(&Rule{ID: "C14.settleorder", Props: []string{"C14", "C13"}, Floor: 4,
		Doc: "on a weight change every validator is settled and snapshotted with the old weight before the new weight is stored",
		Run: func(e *Engine, r *RuleRun) {
			fn := r.Need("keeper.Keeper.UpdateAllianceAsset")
			if fn == nil || len(fn.AnonFuncs) != 1 {
				if fn != nil {
					r.Bad(FuncKey(fn), "settle closure", "expected exactly one closure", nil)
				}
				return
			}
			k, fa := FuncKey(fn), e.FA(fn)
			cl := fn.AnonFuncs[0]
			cfa := e.FA(cl)
			cv := CallsTo(cl, "keeper.Keeper.ClaimValidatorRewards")
			sn := CallsTo(cl, "keeper.Keeper.SetRewardWeightChangeSnapshot")
			if len(cv) != 1 || len(sn) != 1 {
				r.Bad(k, "settle then snapshot", "the per-validator closure does not contain exactly one ClaimValidatorRewards and one SetRewardWeightChangeSnapshot", nil, e.Pos(cl.Pos()))
				return
			}
			r.Check(cfa.Dominates(cv[0], sn[0]) && argT(cfa, cv[0], 1).Eq(argT(cfa, sn[0], 2)), k, "settle then snapshot, same validator", "ClaimValidatorRewards(v) dominates SetRewardWeightChangeSnapshot(asset, v)", "the snapshot can be taken before the validator's pending rewards were pulled into the index, or for another validator", r.P(sn[0]))
			v := argT(cfa, cv[0], 1)
			r.Check(v.Op == "extract" && v.Args[0].IsCall("keeper.Keeper.GetAllianceValidator") && v.Args[0].CallArgsT()[2].String() == "$valAddr", k, "validator of this iteration", "GetAllianceValidator(valAddr)", "closure settles "+v.String(), r.P(cv[0]))
			as := argT(cfa, sn[0], 1)
			// the stored record is identified by its role: the variable that receives GetAssetByDenom(update.Denom)
			// (possibly through whole-value copies: a helper that takes the asset by value and is inlined)
			isLookup := func(v ssa.Value) bool {
				ex, ok := v.(*ssa.Extract)
				if !ok || ex.Index != 0 {
					return false
				}
				c, ok := ex.Tuple.(*ssa.Call)
				return ok && CalleeKey(c.Common()) == "keeper.Keeper.GetAssetByDenom"
			}
			copies := map[*ssa.Alloc]bool{} // variables that hold the looked-up record
			var fromLookup func(v ssa.Value, depth int) bool
			fromLookup = func(v ssa.Value, depth int) bool {
				if depth > 4 {
					return false
				}
				if isLookup(v) {
					return true
				}
				if u, ok := v.(*ssa.UnOp); ok && u.Op == token.MUL {
					if al, ok := u.X.(*ssa.Alloc); ok {
						// every whole-value store into the variable comes from the lookup
						n, okAll := 0, true
						for _, ref := range *al.Referrers() {
							if st, ok := ref.(*ssa.Store); ok && st.Addr == ssa.Value(al) {
								n++
								if !fromLookup(st.Val, depth+1) {
									okAll = false
								}
							}
						}
						if n > 0 && okAll {
							copies[al] = true
							return true
						}
					}
				}
				return false
			}
			var storedAlloc *ssa.Alloc
			okAs := false
			if as.Op == "deref" && len(as.Args) == 1 && as.Args[0].Op == "fv" {
				for _, b := range fn.Blocks {
					for _, in := range b.Instrs {
						if mc, ok := in.(*ssa.MakeClosure); ok && mc.Fn == ssa.Value(cl) {
							for i, fv := range cl.FreeVars {
								if fv.Name() == as.Args[0].Name && i < len(mc.Bindings) {
									if al, ok := mc.Bindings[i].(*ssa.Alloc); ok {
										n, okAll := 0, true
										for _, ref := range *al.Referrers() {
											if st, ok := ref.(*ssa.Store); ok && st.Addr == ssa.Value(al) {
												n++
												if !fromLookup(st.Val, 0) {
													okAll = false
												}
											}
										}
										if n > 0 && okAll {
											okAs = true
											storedAlloc = al
											copies[al] = true
										}
									}
								}
							}
						}
					}
				}
			}
			r.Check(okAs, k, "snapshot of the stored asset", "the captured variable that holds GetAssetByDenom's result (stored record)", "snapshot is taken of "+as.String(), r.P(sn[0]))
			// no write to the captured asset before the iteration
			it := CallsTo(fn, "keeper.Keeper.IterateAllianceValidatorInfo")
			okW := len(it) == 1
			if okW {
				for _, b := range fn.Blocks {
					for _, in := range b.Instrs {
						if st, ok := in.(*ssa.Store); ok {
							if al, ok := rootAlloc(st.Addr); ok && (al == storedAlloc || copies[al]) {
								if _, isF := st.Addr.(*ssa.FieldAddr); isF && fa.Reaches(st, it[0]) {
									okW = false
								}
							}
						}
					}
				}
			}
			r.Check(okW, k, "old weight snapshotted", "no field of the stored asset is overwritten before the validators are iterated", "the stored asset is modified before the snapshots are taken: they would record the new weight as the previous one", e.Pos(fn.Pos()))
			// new weight persisted after
			sa := CallsTo(fn, "keeper.Keeper.SetAsset")
			r.Check(len(sa) == 1 && len(it) == 1 && !fa.Reaches(sa[0], it[0]), k, "new weight persisted after the snapshots", "SetAsset is after the iteration", "the asset is persisted before the snapshots", e.Pos(fn.Pos()))
			// snapshot content: previous weight and the validator's current history
			if nf := r.Need("types.NewRewardWeightChangeSnapshot"); nf != nil {
				nfa := e.FA(nf)
				ok := false
				for _, ret := range Returns(nf) {
					t := nfa.Term(ret.Results[0])
					_, pw := ovrGet(t, ".PrevRewardWeight")
					_, rh := ovrGet(t, ".RewardHistories")
					if pw != nil && pw.String() == "$asset.RewardWeight" && rh != nil && strings.Contains(rh.String(), "GlobalRewardHistory") {
						ok = true
					}
				}
				r.Check(ok, FuncKey(nf), "snapshot records the asset's weight and the validator's indices", "PrevRewardWeight := asset.RewardWeight, RewardHistories := val.GlobalRewardHistory", "the snapshot does not record the weight of the asset passed in and the validator's current reward indices", e.Pos(nf.Pos()))
			}
		}})

	register(&Rule{ID: "C14.warmup", Props: []string{"C14", "C13", "C09", "C10"}, Floor: 5,
		Doc: "RewardsStarted gates reward split, claim and initialisation, and means t >= start",
		Run: func(e *Engine, r *RuleRun) {
			if fn := r.Need("types.AllianceAsset.RewardsStarted"); fn != nil {
				fa := e.FA(fn)
				// the result is a disjunction of comparisons; normalise each disjunct to "blockTime <op> X" and require
				// X = receiver.RewardStartTime and the ops to add up to >=
				var disj []*Term
				var walk func(v ssa.Value, depth int)
				walk = func(v ssa.Value, depth int) {
					if depth > 4 {
						return
					}
					if phi, ok := v.(*ssa.Phi); ok {
						for k, ed := range phi.Edges {
							t := fa.Term(ed)
							if t.Op == "const" && t.Name == "true" {
								// the branch condition that leads here
								pred := phi.Block().Preds[k]
								if iff, ok := lastInstr(pred).(*ssa.If); ok {
									disj = append(disj, fa.Term(iff.Cond))
								}
								continue
							}
							if t.Op == "const" && t.Name == "false" {
								continue
							}
							walk(ed, depth+1)
						}
						return
					}
					disj = append(disj, fa.Term(v))
				}
				for _, ret := range Returns(fn) {
					walk(ret.Results[0], 0)
				}
				ops := map[string]bool{}
				okAll := len(disj) > 0
				for _, d := range disj {
					pos := true
					for d.Op == "unop" && d.Name == "!" {
						d = d.Args[0]
						pos = !pos
					}
					rels := relsOf(Guard{Cond: d, Pos: pos})
					if d.Op == "binop" && d.Args[0].IsCall("time.Time.Compare") {
						// Compare(a, b) <op> 0  ==  a <op> b
						c := d.Args[0].CallArgsT()
						op := d.Name
						if !pos {
							op = negOp[op]
						}
						rels = []Rel{{TA: c[0], TB: c[1], Op: op}}
					}
					if len(rels) != 1 || rels[0].TA == nil || rels[0].TB == nil {
						okAll = false
						break
					}
					a, b, op := rels[0].TA, rels[0].TB, rels[0].Op
					if b.String() == "$blockTime" {
						a, b, op = b, a, flipOp[op]
					}
					if a.String() != "$blockTime" || !strings.HasSuffix(b.String(), "$a.RewardStartTime") {
						okAll = false
						break
					}
					ops[op] = true
				}
				ge := ops[">="] && len(ops) == 1 || (ops[">"] && ops["=="] && len(ops) == 2) || (ops[">="] && (ops[">"] || ops["=="]) && !ops["<"] && !ops["<="] && !ops["!="])
				r.Check(okAll && ge, FuncKey(fn), "RewardsStarted(t) means t >= RewardStartTime", "the result is the disjunction of comparisons of blockTime with the receiver's RewardStartTime that add up to >=", "RewardsStarted is not `block time >= reward start time`", e.Pos(fn.Pos()))
			}
			if fn := r.Need("keeper.shouldSkipRewardsToAsset"); fn != nil {
				// "not skipped" implies RewardsStarted(asset, block time): decided on what the helper's outcome implies
				// at a call site, so that any equivalent boolean form of the helper counts
				ok := false
				for _, cs := range e.CallersOf("keeper.shouldSkipRewardsToAsset") {
					cfa := e.FA(cs.Fn)
					call, isCall := cs.Instr.(ssa.CallInstruction)
					if !isCall {
						continue
					}
					cv, isVal := call.(ssa.Value)
					if !isVal {
						continue
					}
					ct := cfa.Term(cv)
					args := ct.CallArgsT()
					if len(args) < 2 {
						continue
					}
					okSite := false
					for _, hg := range e.helperGuards(Guard{Cond: ct, Pos: false}) {
						if hg.Pos && hg.Cond.IsCall("types.AllianceAsset.RewardsStarted") && hg.Cond.Args[0].Eq(args[1]) && isBlockTime(hg.Cond.Args[1]) {
							okSite = true
						}
					}
					ok = okSite
					if !okSite {
						break
					}
				}
				r.Check(ok, FuncKey(fn), "assets in warm-up are skipped in the reward split", "!RewardsStarted(BlockTime) => skip", "an asset that has not started is not excluded from the reward split", e.Pos(fn.Pos()))
			}
			if fn := r.Need("keeper.Keeper.AddAssetsToRewardPool"); fn != nil {
				fa := e.FA(fn)
				n := 0
				okAll := true
				for _, st := range StoresToField(fn, "types.RewardHistory", "Index") {
					n++
					if !fa.HasGuard(st, func(g Guard) bool { return !g.Pos && g.Cond.IsCall("keeper.shouldSkipRewardsToAsset") }) {
						okAll = false
						r.Bad(FuncKey(fn), "index increment only for non-skipped assets", "a reward index is increased for an asset without the skip test (warm-up, zero stake) having been applied", nil, r.P(st))
					}
				}
				if okAll {
					r.Check(n >= 2, FuncKey(fn), "index increment only for non-skipped assets", "every index store is under !shouldSkipRewardsToAsset(asset)", "no index stores found")
				}
			}
			if fn := r.Need("keeper.Keeper.ClaimDelegationRewards"); fn != nil {
				fa := e.FA(fn)
				for _, c := range CallsTo(fn, "types.BankKeeper.SendCoinsFromModuleToAccount") {
					ok := fa.HasGuard(c, func(g Guard) bool {
						return g.Pos && g.Cond.IsCall("types.AllianceAsset.RewardsStarted") && isBlockTime(g.Cond.Args[1]) && g.Cond.Args[0].Op == "extract" && g.Cond.Args[0].Args[0].IsCall("keeper.Keeper.GetAssetByDenom")
					})
					r.Check(ok, FuncKey(fn), "no payout before the asset's start time", "payout dominated by asset.RewardsStarted(BlockTime)", "rewards can be paid for an asset that has not started", r.P(c))
				}
			}
			if fn := r.Need("keeper.Keeper.InitializeAllianceAssets"); fn != nil {
				fa := e.FA(fn)
				sts := StoresToField(fn, "types.AllianceAsset", "IsInitialized")
				ok := len(sts) == 1 && fa.HasGuard(sts[0], func(g Guard) bool {
					return g.Pos && g.Cond.IsCall("types.AllianceAsset.RewardsStarted") && isBlockTime(g.Cond.Args[1])
				})
				r.Check(ok, FuncKey(fn), "initialised only once started", "IsInitialized := true under RewardsStarted(BlockTime)", "an asset can be marked initialised before its start time", e.Pos(fn.Pos()))
			}
		}})
}

func lastInstr(b *ssa.BasicBlock) ssa.Instruction {
	if b == nil || len(b.Instrs) == 0 {
		return nil
	}
	return b.Instrs[len(b.Instrs)-1]
}

// ifBlockOf returns the block whose If decides whether store st executes (the immediate dominator ending in If).
func ifBlockOf(fa *FuncAnalysis, st ssa.Instruction) *ssa.BasicBlock {
	for d := st.Block().Idom(); d != nil; d = d.Idom() {
		if _, ok := lastInstr(d).(*ssa.If); ok {
			return d
		}
	}
	return nil
}
