package main

import (
	"fmt"
	"go/token"
	"strings"

	"golang.org/x/tools/go/ssa"
)

// S.entries: who may change the membership of a queue bucket.
//
// A QueuedUndelegation / QueuedRedelegation bucket is shared by every validator and denom of one delegator for one
// completion time.  Coins owed (C01), the payout loop (C02), slashing (C07), the redelegation bookkeeping (C15) and
// the queries (C20) all rely on: an entry enters a bucket only by being appended when it is queued, and leaves only
// when the whole bucket is deleted at maturity.  Per-entry changes go through the element pointers.  So the only
// writes of the `Entries` field are the append in queueUndelegation / queueRedelegation (and the literal of a new
// bucket); nothing assigns elements of the slice.

var entriesWriters = map[string]string{
	"keeper.Keeper.queueUndelegation | QueuedUndelegation.Entries": "appends the queued entry to the bucket read for (completion time, delegator)",
	"keeper.Keeper.queueRedelegation | QueuedRedelegation.Entries": "appends the queued entry to the bucket read for the completion time",
}

func init() {
	register(&Rule{ID: "S.entries", Props: []string{"C01", "C02", "C07", "C15", "C20"}, Floor: 3,
		Doc: "queue-bucket membership changes only by the append that queues an entry",
		Run: func(e *Engine, r *RuleRun) {
			seen := map[string]bool{}
			nFn := 0
			for _, fn := range e.SMFuncs() {
				nFn++
				fk := FuncKey(fn)
				fa := e.FA(fn)
				for _, b := range fn.Blocks {
					for _, in := range b.Instrs {
						st, ok := in.(*ssa.Store)
						if !ok {
							continue
						}
						// (1) assignment of the Entries field
						if f, ok := st.Addr.(*ssa.FieldAddr); ok {
							tn := strings.TrimPrefix(typeKey(f.X.Type()), "types.")
							fname := derefStruct(f.X.Type()).Field(f.Field).Name()
							if (tn == "QueuedUndelegation" || tn == "QueuedRedelegation") && fname == "Entries" && !isInitStore(fa, st) {
								key := fk + " | " + tn + ".Entries"
								construct := "write " + tn + ".Entries"
								why, reviewed := entriesWriters[key]
								if !reviewed {
									r.Bad(fk, construct, "the entry list of a queue bucket is reassigned here: entries of other validators / denoms that share the bucket, or entries that are still indexed, can drop out of it (coins stay in custody unrecorded, index keys stay behind, queries and payout disagree)", nil, r.P(st))
									continue
								}
								seen[key] = true
								v := fa.Term(st.Val)
								okApp := v.IsCall("builtin.append") && len(v.Args) == 2 && strings.HasSuffix(v.Args[0].String(), ".Entries") && v.Args[1].Op == "list" && len(v.Args[1].Args) == 1
								r.Check(okApp, fk, construct, "append(<bucket read from the store>.Entries, one new entry): "+why, "the reviewed writer no longer appends exactly one entry to the list it read: "+v.String(), r.P(st))
							}
						}
						// (2) assignment of an element of an Entries slice
						if ia, ok := st.Addr.(*ssa.IndexAddr); ok {
							if ld, ok := ia.X.(*ssa.UnOp); ok && ld.Op == token.MUL {
								if f, ok := ld.X.(*ssa.FieldAddr); ok {
									tn := strings.TrimPrefix(typeKey(f.X.Type()), "types.")
									fname := derefStruct(f.X.Type()).Field(f.Field).Name()
									if (tn == "QueuedUndelegation" || tn == "QueuedRedelegation") && fname == "Entries" {
										r.Bad(fk, "write element of "+tn+".Entries", "an element of a queue bucket's entry list is replaced here; entries change only through their own fields", nil, r.P(st))
									}
								}
							}
						}
					}
				}
			}
			for k, why := range entriesWriters {
				fk, f, _ := strings.Cut(k, " | ")
				if !seen[k] {
					r.Undecided(fk, "write "+f, "reviewed writer not found ("+why+")")
				}
			}
			r.Check(nFn >= 200, "-", "functions scanned", fmt.Sprintf("%d state-machine functions scanned for writes of bucket entry lists", nFn), "too few functions scanned")
		}})
}
