package main

import (
	"fmt"
	"regexp"
	"sort"
	"strings"

	"golang.org/x/tools/go/ssa"
)

// F.formulas: the operator trees of the share-price and reward-split formulas, compared as canonical terms.
// Any change of these trees changes the fixed-point result (the operations round), so a deviation is a
// behavioural change of the quantity the properties talk about; which value is *right* is not decided here -
// the reviewed tree is the reference, as for every other table.

var ordinalRe = regexp.MustCompile(`@[0-9]+`)

type formulaSpec struct {
	fn    string
	what  string
	rets  []string // expected canonical terms of the (non-error) returns, ordinals stripped, in block order
	props []string
}

var formulaSpecs = []formulaSpec{
	{"types.ConvertNewTokenToShares", "shares for new tokens = totalShares/totalTokens x tokens (1:1 for an empty pool)",
		[]string{"math.LegacyNewDecFromInt($newTokens)", "math.LegacyDec.MulInt(math.LegacyDec.Quo($totalShares, $totalTokens), $newTokens)"}, []string{"C04", "C03"}},
	{"types.ConvertNewShareToDecToken", "tokens for shares = shares/totalShares x totalTokens (all tokens for an empty pool)",
		[]string{"$totalTokens", "math.LegacyDec.Mul(math.LegacyDec.Quo($shares, $totalShares), $totalTokens)"}, []string{"C04", "C20", "C13"}},
	{"types.GetValidatorShares", "validator shares are priced on the asset's totals",
		[]string{"types.ConvertNewTokenToShares(math.LegacyNewDecFromInt($asset.TotalTokens), $asset.TotalValidatorShares, $token)"}, []string{"C04", "C03"}},
	{"types.AllianceValidator.TotalTokensWithAsset", "a validator's tokens = its share of the asset's staked total",
		[]string{"types.ConvertNewShareToDecToken(math.LegacyNewDecFromInt($asset.TotalTokens), $asset.TotalValidatorShares, types.AllianceValidator.ValidatorSharesWithDenom)"}, []string{"C04", "C13", "C20", "C10"}},
	{"types.GetDelegationSharesFromTokens", "delegation shares are priced on the validator's tokens and delegator-share total",
		[]string{"math.LegacyNewDecFromInt($token)", "types.ConvertNewTokenToShares(types.AllianceValidator.TotalTokensWithAsset, types.AllianceValidator.TotalDelegationSharesWithDenom, $token)"}, []string{"C04", "C03"}},
	{"types.GetDelegationTokens", "reported balance = floor(tokens of the shares + rounding epsilon)",
		[]string{"sdk.NewCoin($asset.Denom, math.LegacyDec.TruncateInt(math.LegacyDec.Add(types.ConvertNewShareToDecToken(types.AllianceValidator.TotalTokensWithAsset, types.AllianceValidator.TotalDelegationSharesWithDenom, $del.Shares), types.Rounder)))"}, []string{"C20", "C04", "C13"}},
	{"types.AllianceValidator.TotalDelegationSharesWithDenom", "delegator-share total of a denom",
		[]string{"sdk.DecCoins.AmountOf(*($v.AllianceValidatorInfo).TotalDelegatorShares, $denom)"}, []string{"C03", "C04"}},
}

func init() {
	propset := map[string]bool{}
	for _, s := range formulaSpecs {
		for _, p := range s.props {
			propset[p] = true
		}
	}
	var props []string
	for p := range propset {
		props = append(props, p)
	}
	register(&Rule{ID: "F.formulas", Props: props, Floor: 7,
		Doc: "share-price formulas have the reviewed operator trees",
		Run: func(e *Engine, r *RuleRun) {
			for _, s := range formulaSpecs {
				fn := r.Need(s.fn)
				if fn == nil {
					continue
				}
				fa := e.FA(fn)
				// the cases of the result (one per return, or per incoming value of a single-exit result variable),
				// compared as a set
				var got []string
				for _, rc := range fa.ReturnCases(0) {
					got = append(got, ordinalRe.ReplaceAllString(rc.T.String(), ""))
				}
				// a formula given as a call of another module function (one reviewed helper defined by another) is judged on
				// that function's cases with the arguments substituted
				if len(got) == 1 {
					if rcs := fa.ReturnCases(0); len(rcs) == 1 {
						if ex := e.expandTopCall(rcs[0].T); len(ex) > 0 {
							match := false
							for _, w := range s.rets {
								if w == got[0] {
									match = true
								}
							}
							if !match {
								got = nil
								for _, t := range ex {
									got = append(got, ordinalRe.ReplaceAllString(t.String(), ""))
								}
							}
						}
					}
				}
				sort.Strings(got)
				want := append([]string{}, s.rets...)
				sort.Strings(want)
				ok := len(got) == len(want)
				if ok {
					for i := range got {
						if got[i] != want[i] {
							ok = false
						}
					}
				}
				r.Check(ok, s.fn, "formula: "+s.what, strings.Join(s.rets, " | "), "the formula is now "+strings.Join(got, " | ")+" (reviewed: "+strings.Join(s.rets, " | ")+"): every fixed-point operation rounds, so a different operator tree changes the values positions are priced at", e.Pos(fn.Pos()))
			}
		}})

	register(&Rule{ID: "F.tolerances", Props: []string{"C05", "C04", "C03"}, Floor: 3,
		Doc: "the acceptance conditions of ValidateDelegatedAmount (full-exit tolerance, rejection threshold, cap) have the reviewed form",
		Run: func(e *Engine, r *RuleRun) {
			fn := r.Need("keeper.Keeper.ValidateDelegatedAmount")
			if fn == nil {
				return
			}
			fa := e.FA(fn)
			var conds []string
			for _, b := range fn.Blocks {
				if iff, ok := lastInstr(b).(*ssa.If); ok {
					conds = append(conds, ordinalRe.ReplaceAllString(fa.Term(iff.Cond).String(), ""))
				}
			}
			need := "types.GetDelegationSharesFromTokens"
			want := []struct{ what, cond, why string }{
				{"full-exit tolerance", "math.LegacyDec.LT(math.LegacyDec.Abs(math.LegacyDec.Sub($delegation.Shares, " + need + ")), types.Rounder)", "a request within the rounding epsilon of the whole position withdraws all of its shares"},
				{"rejection threshold", "math.LegacyDec.LT($delegation.Shares, math.LegacyDec.TruncateDec(" + need + "))", "a request is rejected only when the position holds less than the whole-share part of what it needs (the reported balance is rounded up by the same epsilon, so the fractional excess must be tolerated)"},
				{"cap at the position's shares", "math.LegacyDec.LT($delegation.Shares, " + need + ")", "the shares removed never exceed what the position holds"},
			}
			for _, w := range want {
				found := false
				for _, c := range conds {
					if c == w.cond {
						found = true
					}
				}
				r.Check(found, FuncKey(fn), "tolerance: "+w.what, w.cond, "the condition `"+w.cond+"` is gone ("+w.why+"); conditions now: "+strings.Join(conds, " ; "), e.Pos(fn.Pos()))
			}
		}})

	register(&Rule{ID: "C13.split", Props: []string{"C13", "C12"}, Floor: 4,
		Doc: "reward split: per-asset staked weight, normalisation, per-token index increment and payout have the reviewed operator trees",
		Run: func(e *Engine, r *RuleRun) {
			if fn := r.Need("keeper.Keeper.AddAssetsToRewardPool"); fn != nil {
				k, fa := FuncKey(fn), e.FA(fn)
				// stakedRewardWeight = RewardWeight.Mul(val.TotalTokensWithAsset(asset)).QuoInt(asset.TotalTokens)
				okW := false
				for _, c := range CallsTo(fn, "math.LegacyDec.QuoInt") {
					t := resultT(fa, c)
					if t.Args[0].IsCall("math.LegacyDec.Mul") && strings.HasSuffix(t.Args[0].Args[0].String(), ".RewardWeight") && t.Args[0].Args[1].IsCall("types.AllianceValidator.TotalTokensWithAsset") && strings.HasSuffix(t.Args[1].String(), ".TotalTokens") {
						okW = true
					}
				}
				r.Check(okW, k, "asset weight on the validator = rewardWeight x validator tokens / asset total", "RewardWeight.Mul(val.TotalTokensWithAsset(asset)).QuoInt(asset.TotalTokens)", "the per-asset staked reward weight is not rewardWeight x (asset tokens on the validator / asset total)", e.Pos(fn.Pos()))
				// total is the sum of the weights; normalisation divides by that sum
				okN, okD := false, false
				var sumPhi *ssa.Phi // the normalising sum, identified by its role: the divisor of the normalised weight
				for _, st := range StoresToField(fn, "types.RewardHistory", "Index") {
					v := fa.Term(st.Val)
					if v.IsCall("math.LegacyDec.Add") {
						v = v.Args[1]
					}
					// difference = NewDecFromInt(c.Amount).Mul(normalizedWeight).Quo(totalTokens)
					if v.IsCall("math.LegacyDec.Quo") && v.Args[1].IsCall("types.AllianceValidator.TotalTokensWithAsset") && v.Args[0].IsCall("math.LegacyDec.Mul") &&
						v.Args[0].Args[0].IsCall("math.LegacyNewDecFromInt") && strings.HasSuffix(v.Args[0].Args[0].Args[0].String(), ".Amount") {
						okD = true
						nw := v.Args[0].Args[1]
						if nw.IsCall("math.LegacyDec.Quo") && nw.Args[0].Op == "index" && nw.Args[1].Op == "phi" {
							okN = true
							sumPhi, _ = nw.Args[1].Instr.(*ssa.Phi)
						}
					}
				}
				r.Check(okD, k, "index increment = coin amount x normalised weight / validator's tokens of the asset", "NewDecFromInt(c.Amount).Mul(normalizedWeight).Quo(val.TotalTokensWithAsset(asset))", "the reward index increment no longer has the reviewed form", e.Pos(fn.Pos()))
				r.Check(okN, k, "normalised weight = asset weight / sum of weights", "assetStakedRewardWeights[denom].Quo(totalStakedRewardWeight)", "the per-asset weight is not normalised by the sum over the non-skipped assets", e.Pos(fn.Pos()))
				// the sum accumulates exactly the stored weights
				okSum := false
				for _, b := range fn.Blocks {
					for _, in := range b.Instrs {
						if phi, ok := in.(*ssa.Phi); ok && sumPhi != nil && (phi == sumPhi || phiFeeds(phi, sumPhi)) {
							// edges of the accumulator phi, looking through the merge phi that a `continue` in an
							// index loop introduces at the post block
							var edges []ssa.Value
							for _, ed := range phi.Edges {
								if p2, ok := ed.(*ssa.Phi); ok && p2 != phi {
									edges = append(edges, p2.Edges...)
								} else {
									edges = append(edges, ed)
								}
							}
							for _, ed := range edges {
								t := fa.Term(ed)
								if t.IsCall("math.LegacyDec.Add") && t.Args[1].IsCall("math.LegacyDec.QuoInt") && (t.Args[0].Eq(fa.Term(phi)) || t.Args[0].Op == "phi") {
									okSum = true
								}
							}
						}
					}
				}
				r.Check(okSum, k, "sum of weights accumulates each asset's weight", "total = total.Add(stakedRewardWeight)", "the normalising sum is not the sum of the per-asset weights", e.Pos(fn.Pos()))
			}
			if fn := r.Need("keeper.accumulateRewards"); fn != nil {
				k, fa := FuncKey(fn), e.FA(fn)
				okP := false
				for _, c := range CallsTo(fn, "sdk.NewCoin") {
					a := argT(fa, c, 1)
					if a.IsCall("math.LegacyDec.TruncateInt") && a.Args[0].IsCall("math.LegacyDec.Mul") && a.Args[0].Args[0].IsCall("math.LegacyDec.Sub") &&
						strings.HasSuffix(a.Args[0].Args[0].Args[0].String(), ".Index") && a.Args[0].Args[1].Op == "phi" {
						okP = true
					}
				}
				r.Check(okP, k, "payout = floor((current index - position's index) x claim weight)", "(history.Index.Sub(rewardHistory.Index)).Mul(claimWeight).TruncateInt()", "the payout no longer has the reviewed form", e.Pos(fn.Pos()))
				okT := false
				for _, c := range CallsTo(fn, "math.LegacyNewDecFromInt", "math.Int.ToLegacyDec") { // one conversion, two spellings
					a := argT(fa, c, 0)
					if CallRecv(c.Common()) != nil {
						a = recvT(fa, c)
					}
					if a.Op == "field" && a.Name == "Amount" && a.Args[0].IsCall("types.GetDelegationTokens") {
						ga := a.Args[0].CallArgsT()
						// the three values the function was called for: parameters, or fields of a parameter that groups them
						// (the three have distinct types, so `a parameter-rooted value of the right type` is unambiguous)
						okT = len(ga) == 3 && paramRooted(ga[0]) && paramRooted(ga[1]) && paramRooted(ga[2])
					}
				}
				r.Check(okT, k, "claim weight = the position's current token value", "NewDecFromInt(GetDelegationTokens(delegation, validator, asset).Amount)", "the payout is no longer weighted by the token value of the claiming delegation", e.Pos(fn.Pos()))
			}
		}})

	register(&Rule{ID: "C03.roundsub", Props: []string{"C03"}, Floor: 2,
		Doc: "rounding-tolerant subtraction clamps sub-unit overdrafts to zero and nothing else",
		Run: func(e *Engine, r *RuleRun) {
			fn := r.Need("types.SubtractDecCoinsWithRounding")
			if fn == nil {
				return
			}
			k, fa := FuncKey(fn), e.FA(fn)
			// two subtractions from the accumulator: clamp branch subtracts (denom, a1) under a2 > a1 && a2-a1 < 1; else subtracts d2
			var clamp, plain bool
			for _, c := range CallsTo(fn, "sdk.DecCoins.Sub") {
				// the coin subtracted, case by case (two calls in two branches, or one call of a value chosen before)
				coins := argT(fa, c, 0)
				var el *Term
				if coins.IsCall("sdk.NewDecCoins") && len(coins.Args) == 1 {
					el = singleCoin(&Term{Op: "call", Name: "sdk.NewCoins", Args: []*Term{coins.Args[0]}})
				}
				if el == nil {
					r.Bad(k, "clamp branch", "cannot recognise the coin that is subtracted: "+coins.String(), nil, r.P(c))
					continue
				}
				for _, vc := range fa.ValueCases(el, c) {
					d, a := decCoinOf(vc.T)
					if d != nil && a != nil && a.IsCall("sdk.DecCoins.AmountOf") {
						// decided on relations, so that GT/LT, their negated LTE/GTE forms and swapped operands all count
						gt, lt := false, false
						for _, g := range vc.Guards {
							for _, rel := range relsOf(g) {
								if rel.TA == nil || rel.TB == nil {
									continue
								}
								ta, tb, op := rel.TA, rel.TB, rel.Op
								if ta.Eq(a) {
									ta, tb, op = tb, ta, flipOp[op]
								}
								if op == ">" && tb.Eq(a) && strings.HasSuffix(ta.String(), ".Amount") {
									gt = true
								}
								ta, tb, op = rel.TA, rel.TB, rel.Op
								if ta.IsCall("math.LegacyOneDec") {
									ta, tb, op = tb, ta, flipOp[op]
								}
								if op == "<" && tb.IsCall("math.LegacyOneDec") && ta.IsCall("math.LegacyDec.Sub") && ta.Args[1].Eq(a) && strings.HasSuffix(ta.Args[0].String(), ".Amount") {
									lt = true
								}
							}
						}
						clamp = gt && lt
						if !clamp {
							r.Bad(k, "clamp branch", "the available amount is subtracted (result clamped to zero) on a path that is not `requested > available and the excess is below one share`", nil, r.P(c))
						}
					} else if strings.Contains(vc.T.String(), "$d2s[") {
						plain = true
					}
				}
			}
			r.Check(clamp, k, "sub-unit overdraft is clamped to the available amount", "under a2 > a1 && a2 - a1 < 1 subtract a1", "the clamp branch is missing or has other conditions", e.Pos(fn.Pos()))
			r.Check(plain, k, "otherwise the requested amount is subtracted as is", "d1Copy.Sub(d2)", "the plain branch does not subtract the requested coin", e.Pos(fn.Pos()))
		}})
	_ = fmt.Sprint
}

// F.divfirst: divide-before-multiply in 18-digit fixed point.  x.Quo(y) is rounded to 18 decimals; multiplying the
// rounded quotient by an amount A carries an absolute error of up to 5e-19 x A.  For token amounts at 18-decimal
// scale (1e18 base units and above) that exceeds one base unit, which the "exact" clauses of C20 (reported balance
// is what can be undelegated), C15 (exactly the requested value moves) and C10 (within two base units) do not allow.
// Multiplying first and dividing last keeps the error below one unit of the last place of the result.
func init() {
	register(&Rule{ID: "F.divfirst", Props: []string{"C20", "C15", "C10"}, Floor: 3,
		Doc: "value formulas multiply before they divide",
		Run: func(e *Engine, r *RuleRun) {
			isQuo := func(t *Term) bool {
				return t != nil && (t.IsCall("math.LegacyDec.Quo") || t.IsCall("math.LegacyDec.QuoInt") || t.IsCall("math.LegacyDec.QuoTruncate"))
			}
			n := 0
			for _, fn := range e.SMFuncs() {
				p := fn.Pkg.Pkg.Path()
				if p != pKeeper && p != pTypes {
					continue
				}
				fa := e.FA(fn)
				fk := FuncKey(fn)
				cnt := map[string]int{}
				for _, c := range CallsTo(fn, "math.LegacyDec.Mul", "math.LegacyDec.MulInt", "math.LegacyDec.MulTruncate") {
					recv, arg := recvT(fa, c), argT(fa, c, 0)
					if !isQuo(recv) && !isQuo(arg) {
						continue
					}
					n++
					q := recv
					other := arg
					if !isQuo(recv) {
						q, other = arg, recv
					}
					_ = q
					name := strings.TrimPrefix(CalleeKey(c.Common()), "math.LegacyDec.")
					cnt[name]++
					construct := fmt.Sprintf("divfirst:%s#%d", name, cnt[name])
					if fk == "keeper.Keeper.AddAssetsToRewardPool" {
						r.OK(fk, construct, "reward index increment: the resolution of the 18-digit reward index is part of C13's stated tolerance and C12 is decided on the rounding direction (C12.round)", r.P(c))
						continue
					}
					r.Bad(fk, construct, "a rounded quotient is multiplied by "+stripOrd(other.String())+": the absolute error is up to 5e-19 times that factor, i.e. more than one base unit once token amounts reach 18-decimal scale (hunt: with 1e18 and 2e18 staked the reported balance is 2e18+1 and cannot be undelegated; a redelegation of 1001e18 moves 157.8 units too little out of the source and 281.5 too much into the destination; the rebalance over-mints 115 711 units for one of three validators with 3e23 native stake each)", nil, r.P(c))
				}
			}
			r.Check(n >= 3, "-", "multiplications of a quotient found", fmt.Sprintf("%d", n), fmt.Sprintf("only %d found: the scan is not seeing the value formulas", n))
		}})
}

// phiFeeds: phi flows into target through phi edges only (loop-header and merge phis of one accumulator variable).
func phiFeeds(phi, target *ssa.Phi) bool {
	seen := map[*ssa.Phi]bool{}
	var visit func(p *ssa.Phi) bool
	visit = func(p *ssa.Phi) bool {
		if p == phi {
			return true
		}
		if seen[p] {
			return false
		}
		seen[p] = true
		for _, ed := range p.Edges {
			if q, ok := ed.(*ssa.Phi); ok && visit(q) {
				return true
			}
		}
		return false
	}
	return visit(target)
}

// paramRooted: t is a parameter or a chain of field selections / dereferences of one.
func paramRooted(t *Term) bool {
	for {
		switch t.Op {
		case "param":
			return true
		case "field", "deref":
			if len(t.Args) == 0 {
				return false
			}
			t = t.Args[0]
		default:
			return false
		}
	}
}

// expandTopCall: t is a call of a module function with a body: the cases of that function's (first) result with its
// parameters replaced by the call's arguments.  nil when t is not such a call.
func (e *Engine) expandTopCall(t *Term) []*Term {
	if t.Op != "ncall" && t.Op != "call" {
		return nil
	}
	call, ok := t.Instr.(ssa.CallInstruction)
	if !ok {
		return nil
	}
	fn := Devirt(call.Common())
	if fn == nil || fn.Blocks == nil || fn.Pkg == nil || !smPkgs[fn.Pkg.Pkg.Path()] {
		return nil
	}
	hfa := e.FA(fn)
	m := map[string]*Term{}
	args := t.CallArgsT()
	for i, p := range fn.Params {
		if i < len(args) {
			m[reviewedParamName(p)] = args[i]
		}
	}
	var out []*Term
	for _, rc := range hfa.ReturnCases(0) {
		out = append(out, subst(rc.T, m))
	}
	return out
}
