package main

import (
	"golang.org/x/tools/go/ssa"
)

// C03.valdelete: an alliance validator record is deleted only when it carries no shares.
//
// The record holds the validator's ValidatorShares (summed into asset.TotalValidatorShares), its
// TotalDelegatorShares (the sum of the delegations on it) and the reward indices.  Deleting it while
// delegations still point at it breaks both share sums, and - because every user operation starts with
// GetAllianceValidator, which needs the x/staking validator - leaves those delegators unable to undelegate,
// redelegate or claim.
func init() {
	register(&Rule{ID: "C03.valdelete", Props: []string{"C03", "C05", "C08", "C10"}, Floor: 1,
		Doc: "DeleteValidatorInfo is reached only for a record without delegator and validator shares",
		Run: func(e *Engine, r *RuleRun) {
			n := 0
			for _, c := range e.CallersOf("keeper.Keeper.DeleteValidatorInfo") {
				if c.Fn.Pkg.Pkg.Path() == pApp {
					continue
				}
				n++
				fk, fa := FuncKey(c.Fn), e.FA(c.Fn)
				call := c.Instr.(ssa.CallInstruction)
				va := argT(fa, call, 1)
				// a dominating guard on the record loaded for the same address: no shares left
				ok := fa.HasGuard(call, func(g Guard) bool {
					hit := false
					g.Cond.Walk(func(x *Term) {
						if x.Op != "field" || (x.Name != "TotalDelegatorShares" && x.Name != "ValidatorShares") {
							return
						}
						// the record must be the one loaded for the address that is deleted
						x.Walk(func(y *Term) {
							if y.IsCall("keeper.Keeper.GetAllianceValidatorInfo") || y.IsCall("keeper.Keeper.GetAllianceValidator") {
								for _, a := range y.CallArgsT() {
									if a.Eq(va) {
										hit = true
									}
								}
							}
						})
					})
					return hit
				})
				r.Check(ok, fk, "validator record deleted only when it has no shares", "dominated by a test that the record loaded for the same address has no delegator/validator shares", "the alliance validator record of "+va.String()+" is deleted without testing that no alliance delegation still points at it: x/staking removes a validator as soon as it is unbonded with zero NATIVE delegator shares, which alliance delegations do not prevent when the module never staked on it (asset in warm-up, weight zero, validator never bonded); the delegators are then locked (GetAllianceValidator fails) and asset.TotalValidatorShares exceeds the sum over validators", r.P(call))
			}
			if n == 0 {
				r.Undecided("keeper.Keeper.DeleteValidatorInfo", "callers", "no caller of DeleteValidatorInfo found")
			}
		}})
}
