package main

import (
	"go/types"
	"sort"
	"strings"

	"golang.org/x/tools/go/ssa"
)

// Atom is one externally visible effect of a call or store instruction.
type Atom struct {
	Kind  string // bank store staking distr fieldwrite emit
	Name  string
	Fn    *ssa.Function
	Instr ssa.Instruction
}

func (a Atom) String() string { return a.Kind + ":" + a.Name }

// moduleName resolves a module-name argument to one of the names the module uses.
func moduleName(t *Term) string {
	switch t.Op {
	case "const":
		s := strings.Trim(t.Name, "\"")
		return s
	case "field":
		if t.Name == "feeCollectorName" {
			return "feeCollector"
		}
	}
	return "?" + t.String()
}

var bankMoves = map[string][]int{ // method -> indices (after ctx) of module-name args; -1 account
	"types.BankKeeper.MintCoins":                    {1},
	"types.BankKeeper.BurnCoins":                    {1},
	"types.BankKeeper.SendCoinsFromModuleToModule":  {1, 2},
	"types.BankKeeper.SendCoinsFromAccountToModule": {-1, 2},
	"types.BankKeeper.SendCoinsFromModuleToAccount": {1, -1},
}

// BankAtomName: "SendCoinsFromModuleToModule(alliance->feeCollector)"
func bankAtomName(fa *FuncAnalysis, c *ssa.CallCommon) (string, bool) {
	key := CalleeKey(c)
	idx, ok := bankMoves[key]
	if !ok {
		return "", false
	}
	var parts []string
	for _, i := range idx {
		if i < 0 {
			parts = append(parts, "account")
		} else if i < len(c.Args) {
			parts = append(parts, moduleName(fa.Term(c.Args[i])))
		}
	}
	return strings.TrimPrefix(key, "types.BankKeeper.") + "(" + strings.Join(parts, "->") + ")", true
}

var storeWriteMethods = map[string]string{
	"corestore.KVStore.Set": "Set", "corestore.KVStore.Delete": "Delete",
	"storetypes.KVStore.Set": "Set", "storetypes.KVStore.Delete": "Delete",
	"storetypes.BasicKVStore.Set": "Set", "storetypes.BasicKVStore.Delete": "Delete",
}
var storeReadMethods = map[string]string{
	"corestore.KVStore.Get": "Get", "storetypes.KVStore.Get": "Get", "corestore.KVStore.Has": "Has", "storetypes.KVStore.Has": "Has",
	"corestore.KVStore.Iterator": "Iterator", "storetypes.KVStore.Iterator": "Iterator",
	"corestore.KVStore.ReverseIterator": "Iterator", "storetypes.KVStore.ReverseIterator": "Iterator",
	"storetypes.KVStorePrefixIterator": "PrefixIterator", "prefix.NewStore": "PrefixStore",
}

// KeyClass names the key constructor (or prefix variable) that produced a key term.
func KeyClass(t *Term) string {
	if t == nil {
		return "?"
	}
	switch t.Op {
	case "call":
		if strings.HasPrefix(t.Name, "types.Get") || strings.HasPrefix(t.Name, "types.Parse") || strings.HasPrefix(t.Name, "types.Create") {
			return strings.TrimPrefix(t.Name, "types.")
		}
		if t.Name == "builtin.append" && len(t.Args) > 0 {
			return KeyClass(t.Args[0])
		}
	case "global":
		if strings.HasSuffix(t.Name, "Key") {
			return strings.TrimPrefix(t.Name, "types.")
		}
	case "extract":
		return KeyClass(t.Args[0]) + "#" + t.Name
	case "ncall":
		if strings.HasSuffix(t.Name, "Iterator.Key") {
			return "iter.Key(" + KeyClass(t.Args[0]) + ")"
		}
		return t.Name
	case "param":
		return "$" + t.Name
	}
	return "?" + t.Op
}

// DirectAtoms computes the effects that instructions of fn itself (not callees, not closures) have.
func (e *Engine) DirectAtoms(fn *ssa.Function) []Atom {
	fa := e.FA(fn)
	var out []Atom
	for _, b := range fn.Blocks {
		for _, in := range b.Instrs {
			switch x := in.(type) {
			case ssa.CallInstruction:
				c := x.Common()
				key := CalleeKey(c)
				if name, ok := bankAtomName(fa, c); ok {
					out = append(out, Atom{"bank", name, fn, in})
				} else if m, ok := storeWriteMethods[key]; ok {
					kc := "?"
					if len(c.Args) > 0 {
						kc = KeyClass(fa.Term(c.Args[0]))
					}
					out = append(out, Atom{"store", m + "(" + kc + ")", fn, in})
				} else if strings.HasPrefix(key, "types.StakingKeeper.") {
					out = append(out, Atom{"staking", strings.TrimPrefix(key, "types.StakingKeeper."), fn, in})
				} else if strings.HasPrefix(key, "types.DistributionKeeper.") {
					out = append(out, Atom{"distr", strings.TrimPrefix(key, "types.DistributionKeeper."), fn, in})
				} else if strings.HasSuffix(key, ".EmitTypedEvent") || strings.HasSuffix(key, ".EmitEvent") || strings.HasSuffix(key, ".EmitEvents") {
					out = append(out, Atom{"emit", key, fn, in})
				} else if strings.HasPrefix(key, "sdkbankkeeper.") || strings.HasPrefix(key, "banktypes.") {
					out = append(out, Atom{"sdkbank", key, fn, in})
				}
			case *ssa.Store:
				if fa2, ok := x.Addr.(*ssa.FieldAddr); ok {
					st := derefStruct(fa2.X.Type())
					if st != nil {
						tn := typeKey(fa2.X.Type())
						if strings.HasPrefix(tn, "types.") {
							out = append(out, Atom{"fieldwrite", strings.TrimPrefix(tn, "types.") + "." + st.Field(fa2.Field).Name(), fn, in})
						}
					}
				}
			}
		}
	}
	return out
}

// Callees returns the source functions (with bodies, in scope) that fn may transfer control to:
// static callees, closures it creates, and function values it passes along.
func (e *Engine) Callees(fn *ssa.Function) []*ssa.Function {
	seen := map[*ssa.Function]bool{}
	var out []*ssa.Function
	add := func(f *ssa.Function) {
		if f == nil || f.Blocks == nil || seen[f] || f.Pkg == nil {
			return
		}
		p := f.Pkg.Pkg.Path()
		if !smPkgs[p] && p != pApp {
			return
		}
		if e.isGenerated(f.Pos()) {
			return
		}
		seen[f] = true
		out = append(out, f)
	}
	for _, b := range fn.Blocks {
		for _, in := range b.Instrs {
			switch x := in.(type) {
			case ssa.CallInstruction:
				add(Devirt(x.Common()))
				for _, a := range x.Common().Args {
					if f, ok := a.(*ssa.Function); ok {
						add(f)
					}
				}
			case *ssa.MakeClosure:
				if f, ok := x.Fn.(*ssa.Function); ok {
					add(f)
				}
			}
		}
	}
	return out
}

// Reach returns fn and every in-scope function transitively reachable from it, sorted by key.
func (e *Engine) Reach(fn *ssa.Function, stopAt ...string) []*ssa.Function {
	stop := map[string]bool{}
	for _, s := range stopAt {
		stop[s] = true
	}
	seen := map[*ssa.Function]bool{fn: true}
	work := []*ssa.Function{fn}
	for len(work) > 0 {
		f := work[0]
		work = work[1:]
		for _, c := range e.Callees(f) {
			if !seen[c] && !stop[FuncKey(c)] {
				seen[c] = true
				work = append(work, c)
			}
		}
	}
	var out []*ssa.Function
	for f := range seen {
		out = append(out, f)
	}
	sort.Slice(out, func(i, j int) bool { return FuncKey(out[i]) < FuncKey(out[j]) })
	return out
}

// TreeAtoms: all atoms in the call tree of fn (optionally not descending into stopAt functions).
func (e *Engine) TreeAtoms(fn *ssa.Function, stopAt ...string) []Atom {
	var out []Atom
	for _, f := range e.Reach(fn, stopAt...) {
		out = append(out, e.DirectAtoms(f)...)
	}
	return out
}

// CallersOf returns SM/app call sites (function, instruction) whose static callee has the given key.
func (e *Engine) CallersOf(key string) []Atom {
	var out []Atom
	for _, fn := range e.SrcFuncs {
		p := fn.Pkg.Pkg.Path()
		if !smPkgs[p] && p != pApp {
			continue
		}
		for _, c := range Calls(fn) {
			if CalleeKey(c.Common()) == key {
				out = append(out, Atom{"call", key, fn, c})
			}
		}
	}
	return out
}

// topFunc returns the outermost named function enclosing fn.
func topFunc(fn *ssa.Function) *ssa.Function {
	for fn.Parent() != nil {
		fn = fn.Parent()
	}
	return fn
}

func isPointerTo(t types.Type, name string) bool {
	p, ok := t.Underlying().(*types.Pointer)
	return ok && typeKey(p.Elem()) == name
}
