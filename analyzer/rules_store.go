package main

import (
	"fmt"
	"go/ast"
	"go/token"
	"sort"
	"strconv"
	"strings"

	"golang.org/x/tools/go/ssa"
)

// storeWriters: the closed set of SM sites that write or delete store keys, by key class.
// value: prefix variable the key belongs to + reason.
var storeWriters = map[string][2]string{
	"keeper.Keeper.createAllianceValidatorInfo | Set(GetAllianceValidatorInfoKey)":                            {"ValidatorInfoKey", "creates an empty validator record on first use"},
	"keeper.Keeper.DeleteValidatorInfo | Delete(GetAllianceValidatorInfoKey)":                                 {"ValidatorInfoKey", "validator removed by staking (AfterValidatorRemoved)"},
	"keeper.Keeper.SetValidator | Set(GetAllianceValidatorInfoKey)":                                           {"ValidatorInfoKey", "persists validator shares / reward history"},
	"keeper.Keeper.SetValidatorInfo | Set(GetAllianceValidatorInfoKey)":                                       {"ValidatorInfoKey", "dust reset and genesis import"},
	"keeper.Keeper.SetDelegation | Set(GetDelegationKey)":                                                     {"DelegationKey", "persists a delegation"},
	"keeper.Keeper.reduceDelegationShares | Delete(GetDelegationKey)":                                         {"DelegationKey", "position emptied"},
	"keeper.Keeper.ClearDustDelegation | Delete(GetDelegationKey)":                                            {"DelegationKey", "dust position removed"},
	"keeper.Keeper.addRedelegation | Set(GetRedelegationKey)":                                                 {"RedelegationKey", "pending redelegation record"},
	"keeper.Keeper.addRedelegation | Set(GetRedelegationIndexKey)":                                            {"RedelegationByValidatorIndexKey", "by-source index of the record"},
	"keeper.Keeper.queueRedelegation | Set(GetRedelegationQueueKey)":                                          {"RedelegationQueueKey", "time queue of the record"},
	"keeper.Keeper.DeleteRedelegation | Delete(GetRedelegationKey)":                                           {"RedelegationKey", "record matured"},
	"keeper.Keeper.DeleteRedelegation | Delete(GetRedelegationIndexKey)":                                      {"RedelegationByValidatorIndexKey", "record matured"},
	"keeper.Keeper.CompleteRedelegations | Delete(iter.Key(RedelegationQueueKey))":                            {"RedelegationQueueKey", "matured queue bucket"},
	"keeper.Keeper.setQueuedUndelegations | Set(GetUndelegationQueueKey)":                                     {"UndelegationQueueKey", "unbonding bucket"},
	"keeper.Keeper.setUnbondingIndexByVal | Set(GetUnbondingIndexKey)":                                        {"UndelegationByValidatorIndexKey", "per-validator index of a bucket"},
	"keeper.Keeper.slashUndelegations | Set(ParseUnbondingIndexKeyToUndelegationKey#0)":                       {"UndelegationQueueKey", "slashed bucket written back under the key it was read from"},
	"keeper.Keeper.CompleteUnbondings | Delete(iter.Key(keeper.Keeper.IterateUndelegationsByCompletionTime))": {"UndelegationQueueKey", "matured bucket paid"},
	"keeper.Keeper.CompleteUnbondings | Delete(GetUnbondingIndexKey)":                                         {"UndelegationByValidatorIndexKey", "index of a paid entry"},
	"keeper.Keeper.SetAsset | Set(GetAssetKey)":                                                               {"AssetKey", "persists an asset"},
	"keeper.Keeper.deleteAsset | Delete(GetAssetKey)":                                                         {"AssetKey", "asset removed by governance"},
	"keeper.Keeper.QueueAssetRebalanceEvent | Set(AssetRebalanceQueueKey)":                                    {"AssetRebalanceQueueKey", "rebalance flag"},
	"keeper.Keeper.ConsumeAssetRebalanceEvent | Delete(AssetRebalanceQueueKey)":                               {"AssetRebalanceQueueKey", "rebalance flag consumed"},
	"keeper.Keeper.setRewardWeightChangeSnapshot | Set(GetRewardWeightChangeSnapshotKey)":                     {"RewardWeightChangeSnapshotKey", "weight-change snapshot"},
	"keeper.Keeper.SetParams | Set(ParamsKey)":                                                                {"ParamsKey", "module parameters"},
}

type storeSite struct {
	fn   *ssa.Function
	call ssa.CallInstruction
	atom string
}

func iterClass(t *Term) string {
	// iter.Key(<iterator term>) -> class of the iterator's lower bound or wrapper name
	if t.Op == "ncall" && strings.HasSuffix(t.Name, "Iterator.Key") && len(t.Args) > 0 {
		it := t.Args[0]
		if it.Op == "ncall" && (strings.HasSuffix(it.Name, "KVStore.Iterator") || it.Name == "storetypes.KVStorePrefixIterator") {
			a := it.CallArgsT()
			if len(a) >= 2 {
				return "iter.Key(" + KeyClass(a[1]) + ")"
			}
		}
		if it.Op == "ncall" {
			return "iter.Key(" + it.Name + ")"
		}
	}
	return ""
}

func (e *Engine) storeSites() []storeSite {
	var out []storeSite
	for _, fn := range e.SMFuncs() {
		fa := e.FA(fn)
		for _, c := range Calls(fn) {
			key := CalleeKey(c.Common())
			m, ok := storeWriteMethods[key]
			if !ok {
				continue
			}
			kt := argT(fa, c, 0)
			kc := iterClass(kt)
			if kc == "" {
				kc = KeyClass(kt)
			}
			out = append(out, storeSite{fn, c, m + "(" + kc + ")"})
		}
	}
	return out
}

// prefixVars reads the prefix byte of every key-prefix variable from types/keys.go (AST), e.g. AssetKey -> 0x11.
func (e *Engine) prefixVars() map[string]string {
	out := map[string]string{}
	p := e.ByPath[pTypes]
	if p == nil {
		return out
	}
	for _, f := range p.Syntax {
		for _, d := range f.Decls {
			gd, ok := d.(*ast.GenDecl)
			if !ok || gd.Tok != token.VAR {
				continue
			}
			for _, s := range gd.Specs {
				vs := s.(*ast.ValueSpec)
				for i, n := range vs.Names {
					if i >= len(vs.Values) {
						continue
					}
					cl, ok := vs.Values[i].(*ast.CompositeLit)
					if !ok || len(cl.Elts) != 1 {
						continue
					}
					at, ok := cl.Type.(*ast.ArrayType)
					if !ok || at.Len != nil {
						continue
					}
					if id, ok := at.Elt.(*ast.Ident); !ok || id.Name != "byte" {
						continue
					}
					if bl, ok := cl.Elts[0].(*ast.BasicLit); ok && bl.Kind == token.INT {
						if v, err := strconv.ParseInt(bl.Value, 0, 32); err == nil {
							out[n.Name] = fmt.Sprintf("0x%02x", v)
						}
					}
				}
			}
		}
	}
	return out
}

func init() {
	register(&Rule{ID: "S.writers", Props: []string{"C02", "C15", "C16", "C18"}, Floor: 20,
		Doc: "closed set of store write/delete sites per key class",
		Run: func(e *Engine, r *RuleRun) {
			pv := e.prefixVars()
			for _, s := range e.storeSites() {
				fk := FuncKey(s.fn)
				ent, ok := storeWriters[fk+" | "+s.atom]
				if !ok {
					r.Bad(fk, "store:"+s.atom, "store write at a site that is not in the reviewed writer table: no rule accounts for who may write this key class (index/queue/record agreement, genesis coverage)", nil, r.P(s.call))
					continue
				}
				if _, ok := pv[ent[0]]; !ok {
					r.Undecided(fk, "store:"+s.atom, "prefix variable "+ent[0]+" no longer exists in types/keys.go", r.P(s.call))
					continue
				}
				r.OK(fk, "store:"+s.atom, "reviewed writer of prefix "+ent[0]+"="+pv[ent[0]]+": "+ent[1], r.P(s.call))
			}
			// distinct prefix bytes
			seen := map[string]string{}
			var names []string
			for n := range pv {
				names = append(names, n)
			}
			sort.Strings(names)
			for _, n := range names {
				if o, dup := seen[pv[n]]; dup {
					r.Bad("types", "prefix "+pv[n], "prefix byte "+pv[n]+" is used by both "+o+" and "+n, nil)
				}
				seen[pv[n]] = n
			}
			r.Check(len(pv) >= 13, "types", "prefix inventory", fmt.Sprintf("%d distinct prefix variables read from types/keys.go", len(pv)), fmt.Sprintf("only %d prefix variables found in types/keys.go", len(pv)))
		}})
}
