package main

import (
	"fmt"
	"strings"

	"golang.org/x/tools/go/ssa"
)

// isBlockTime: t is the current block time (no arithmetic): ctx.BlockTime() or ctx.BlockHeader().Time
func isBlockTime(t *Term) bool {
	ctxOK := func(c *Term) bool {
		if c.Op == "param" {
			return true
		}
		return c.IsCall("sdk.UnwrapSDKContext") && c.Args[0].Op == "param"
	}
	if t.IsCall("sdk.Context.BlockTime") && len(t.Args) == 1 && ctxOK(t.Args[0]) {
		return true
	}
	if t.Op == "field" && t.Name == "Time" && t.Args[0].IsCall("sdk.Context.BlockHeader") && ctxOK(t.Args[0].Args[0]) {
		return true
	}
	return false
}

// isCompletionTime: t == BlockTime.Add(UnbondingTime(ctx)) with the staking keeper's unbonding time
func isCompletionTime(t *Term) bool {
	if !t.IsCall("time.Time.Add") || len(t.Args) != 2 || !isBlockTime(t.Args[0]) {
		return false
	}
	u := t.Args[1]
	return u.Op == "extract" && u.Name == "0" && u.Args[0].IsCall("types.StakingKeeper.UnbondingTime")
}

func init() {
	register(&Rule{ID: "C02.completion", Props: []string{"C02", "C15", "C07", "C20", "C08"}, Floor: 6,
		Doc: "completion time is the single term BlockTime + UnbondingTime, used for queue key, index key and result",
		Run: func(e *Engine, r *RuleRun) {
			if q := r.Need("keeper.Keeper.queueUndelegation"); q != nil {
				fk, fa := FuncKey(q), e.FA(q)
				setq := r.One(q, "bucket write", "keeper.Keeper.setQueuedUndelegations")
				idx := r.One(q, "index write", "keeper.Keeper.setUnbondingIndexByVal")
				if setq != nil && idx != nil {
					t := argT(fa, setq, 1)
					r.Check(isCompletionTime(t), fk, "completion time", "BlockTime(ctx).Add(stakingKeeper.UnbondingTime(ctx))", "the unbonding completion time is not block time + staking unbonding period: "+t.String(), r.P(setq))
					r.Check(argT(fa, idx, 2).Eq(t), fk, "index key time == bucket key time", "same completion-time term", "the per-validator index is written under a different time ("+argT(fa, idx, 2).String()+") than the bucket ("+t.String()+")", r.P(idx))
					r.Check(argT(fa, idx, 3).Eq(argT(fa, setq, 2)) && argT(fa, idx, 3).Op == "param", fk, "index key delegator == bucket key delegator", "same delegator parameter", "index and bucket are keyed by different delegators", r.P(idx))
					r.Check(argT(fa, idx, 1).Op == "param" && argT(fa, idx, 4).Op == "field" && argT(fa, idx, 4).Name == "Denom" && argT(fa, idx, 4).Args[0].Op == "param", fk, "index key validator/denom", "validator parameter and coin.Denom", "index key validator/denom are "+argT(fa, idx, 1).String()+" / "+argT(fa, idx, 4).String(), r.P(idx))
					okRet := true
					n := 0
					for _, ret := range fa.SuccessExits() {
						n++
						if !fa.Term(ret.Results[0]).Eq(t) {
							okRet = false
						}
					}
					r.Check(okRet && n > 0, fk, "returned completion time", "success returns the same term", "the completion time reported to the caller differs from the one used for the queue key", e.Pos(q.Pos()))
					if trail := fa.MustFollow(setq, []ssa.Instruction{idx}); trail != nil {
						r.Bad(fk, "bucket write => index write", "a success path writes the bucket without its per-validator index (slashing and queries would miss it)", trail, r.P(setq))
					} else {
						r.OK(fk, "bucket write => index write", "every success path after the bucket write passes the index write", r.P(idx))
					}
				}
			}
			if fn := r.Need("keeper.Keeper.Redelegate"); fn != nil {
				fk, fa := FuncKey(fn), e.FA(fn)
				add := r.One(fn, "record the pending redelegation", "keeper.Keeper.addRedelegation")
				if add != nil {
					t := argT(fa, add, 5)
					r.Check(isCompletionTime(t), fk, "completion time", "BlockTime + UnbondingTime", "the redelegation completion time is not block time + staking unbonding period: "+t.String(), r.P(add))
				}
			}
			if a := r.Need("keeper.Keeper.addRedelegation"); a != nil {
				fk, fa := FuncKey(a), e.FA(a)
				q := r.One(a, "queue write", "keeper.Keeper.queueRedelegation")
				if q != nil {
					r.Check(argT(fa, q, 5).Op == "param" && argT(fa, q, 5).Name == "completionTime", fk, "queue time == record time", "queueRedelegation receives the completionTime parameter", "queue entry time is "+argT(fa, q, 5).String(), r.P(q))
					for _, c := range CallsTo(a, "types.GetRedelegationKey", "types.GetRedelegationIndexKey") {
						k := CalleeKey(c.Common())
						i := 3
						if k == "types.GetRedelegationIndexKey" {
							i = 1
						}
						r.Check(argT(fa, c, i).Op == "param" && argT(fa, c, i).Name == "completionTime", fk, k+" time", "key built with the completionTime parameter", "key time is "+argT(fa, c, i).String(), r.P(c))
					}
				}
			}
		}})

	register(&Rule{ID: "C02.scan", Props: []string{"C02", "C15", "C07"}, Floor: 4,
		Doc: "maturity scans are Iterator(bare prefix, QueueKeyByTime(BlockTime)) with no arithmetic on the bound",
		Run: func(e *Engine, r *RuleRun) {
			if fn := r.Need("keeper.Keeper.CompleteUnbondings"); fn != nil {
				fk, fa := FuncKey(fn), e.FA(fn)
				it := r.One(fn, "maturity scan", "keeper.Keeper.IterateUndelegationsByCompletionTime")
				if it != nil {
					r.Check(isBlockTime(argT(fa, it, 1)), fk, "scan bound == block time", "bound is BlockTime(ctx)", "unbondings are matured against "+argT(fa, it, 1).String()+" instead of the block time", r.P(it))
				}
			}
			if fn := r.Need("keeper.Keeper.IterateUndelegationsByCompletionTime"); fn != nil {
				fk, fa := FuncKey(fn), e.FA(fn)
				it := r.One(fn, "iterator", "storetypes.KVStore.Iterator", "corestore.KVStore.Iterator")
				if it != nil {
					lo, hi := argT(fa, it, 0), argT(fa, it, 1)
					r.Check(lo.Op == "global" && lo.Name == "types.UndelegationQueueKey", fk, "scan start", "bare UndelegationQueueKey prefix", "scan starts at "+lo.String(), r.P(it))
					r.Check(hi.IsCall("types.GetUndelegationQueueKeyByTime") && hi.Args[0].Op == "param", fk, "scan end", "GetUndelegationQueueKeyByTime(bound parameter)", "scan ends at "+hi.String(), r.P(it))
				}
			}
			if fn := r.Need("keeper.Keeper.CompleteRedelegations"); fn != nil {
				fk, fa := FuncKey(fn), e.FA(fn)
				it := r.One(fn, "maturity scan", "storetypes.KVStore.Iterator", "corestore.KVStore.Iterator")
				if it != nil {
					lo, hi := argT(fa, it, 0), argT(fa, it, 1)
					r.Check(lo.Op == "global" && lo.Name == "types.RedelegationQueueKey", fk, "scan start", "bare RedelegationQueueKey prefix", "scan starts at "+lo.String(), r.P(it))
					r.Check(hi.IsCall("types.GetRedelegationQueueKey") && isBlockTime(hi.Args[0]), fk, "scan end == block time", "GetRedelegationQueueKey(BlockTime)", "redelegations are matured against "+hi.String(), r.P(it))
				}
			}
		}})

	register(&Rule{ID: "C02.payloop", Props: []string{"C02", "C15"}, Floor: 5,
		Doc: "per paid entry the per-validator index key built from the entry's own fields is deleted",
		Run: func(e *Engine, r *RuleRun) {
			fn := r.Need("keeper.Keeper.CompleteUnbondings")
			if fn == nil {
				return
			}
			fk, fa := FuncKey(fn), e.FA(fn)
			pay := r.One(fn, "payout", "types.BankKeeper.SendCoinsFromModuleToAccount")
			if pay == nil {
				return
			}
			bal := singleCoin(argT(fa, pay, 3))
			if bal == nil || bal.Op != "field" {
				r.Bad(fk, "entry", "payout amount is not an entry field", nil, r.P(pay))
				return
			}
			entry := bal.Args[0]
			var idxDel ssa.CallInstruction
			for _, c := range CallsTo(fn, "corestore.KVStore.Delete", "storetypes.KVStore.Delete") {
				if argT(fa, c, 0).IsCall("types.GetUnbondingIndexKey") {
					idxDel = c
				}
			}
			if idxDel == nil {
				r.Bad(fk, "index entry deleted", "no store.Delete(GetUnbondingIndexKey(...)) in the payout loop: the per-validator index of a paid entry is left behind", nil, r.P(pay))
				return
			}
			k := argT(fa, idxDel, 0).Args
			okV := k[0].Op == "extract" && k[0].Args[0].IsCall("sdk.ValAddressFromBech32") && k[0].Args[0].Args[0].Eq(mkField(entry, "ValidatorAddress"))
			r.Check(okV, fk, "index key validator == entry validator", "parsed from the same entry", "index key validator is "+k[0].String(), r.P(idxDel))
			okT := k[1].Op == "extract" && k[1].Name == "0" && k[1].Args[0].IsCall("types.ParseUndelegationQueueKeyForCompletionTime") &&
				k[1].Args[0].Args[0].Op == "ncall" && strings.HasSuffix(k[1].Args[0].Args[0].Name, "Iterator.Key")
			r.Check(okT, fk, "index key time == bucket key time", "completion time parsed from the bucket's own key", "index key time is "+k[1].String(), r.P(idxDel))
			r.Check(k[2].Eq(mkField(mkField(entry, "Balance"), "Denom")), fk, "index key denom == entry denom", "entry.Balance.Denom", "index key denom is "+k[2].String(), r.P(idxDel))
			r.Check(k[3].Eq(argT(fa, pay, 2)), fk, "index key delegator == payout recipient", "same parsed delegator", "index key delegator is "+k[3].String(), r.P(idxDel))
			if phi := loopPhiOf(entry); phi != nil {
				if trail := fa.EveryIterationPasses(phi, []ssa.Instruction{idxDel}); trail != nil {
					r.Bad(fk, "every paid entry's index is deleted", "an iteration can finish without deleting the entry's index key", trail, r.P(idxDel))
				} else {
					r.OK(fk, "every paid entry's index is deleted", "no path to the next entry bypasses the index deletion", r.P(idxDel))
				}
			} else {
				r.Undecided(fk, "every paid entry's index is deleted", "cannot find the entry loop", r.P(pay))
			}
		}})

	register(&Rule{ID: "C02.onlypayer", Props: []string{"C02", "C11", "C17"}, Floor: 3,
		Doc: "CompleteUnbondings is called only by EndBlocker; EndBlocker calls it on every path",
		Run: func(e *Engine, r *RuleRun) {
			callers := e.CallersOf("keeper.Keeper.CompleteUnbondings")
			for _, c := range callers {
				k := FuncKey(topFunc(c.Fn))
				r.Check(k == "alliance.EndBlocker", k, "caller of CompleteUnbondings", "end-of-block processing", "payout of unbondings is invoked from "+k+", outside end-of-block processing", r.P(c.Instr))
			}
			r.Check(len(callers) >= 1, "alliance.EndBlocker", "calls CompleteUnbondings", "called", "nothing calls CompleteUnbondings: matured unbondings are never paid")
			if eb := r.Need("alliance.EndBlocker"); eb != nil && len(callers) > 0 {
				fa := e.FA(eb)
				var cs []ssa.Instruction
				for _, c := range callers {
					if c.Fn == eb {
						cs = append(cs, c.Instr)
					}
				}
				if trail := fa.MustPassThrough(nil, lastReturnOrNil(eb), cs); false && trail != nil {
					_ = trail
				}
				if trail := fa.MustFollowAllExits(eb.Blocks[0].Instrs[0], cs); trail != nil {
					r.Bad("alliance.EndBlocker", "CompleteUnbondings on every path", "end-of-block processing can finish without maturing unbondings", trail)
				} else {
					r.OK("alliance.EndBlocker", "CompleteUnbondings on every path", "every path through EndBlocker passes CompleteUnbondings")
				}
			}
		}})

	register(&Rule{ID: "C15.keyset", Props: []string{"C15", "C02", "C18"}, Floor: 12,
		Doc: "keys written when a pending entry is created are exactly those deleted when it completes, built from the entry's own fields",
		Run: func(e *Engine, r *RuleRun) {
			del := r.Need("keeper.Keeper.DeleteRedelegation")
			add := r.Need("keeper.Keeper.addRedelegation")
			cr := r.Need("keeper.Keeper.CompleteRedelegations")
			if del == nil || add == nil || cr == nil {
				return
			}
			// DeleteRedelegation: both keys deleted on every success path, from the record's fields + completion param
			fk, fa := FuncKey(del), e.FA(del)
			var recDel, idxDel ssa.CallInstruction
			for _, c := range CallsTo(del, "corestore.KVStore.Delete", "storetypes.KVStore.Delete") {
				switch {
				case argT(fa, c, 0).IsCall("types.GetRedelegationKey"):
					recDel = c
				case argT(fa, c, 0).IsCall("types.GetRedelegationIndexKey"):
					idxDel = c
				}
			}
			if recDel == nil || idxDel == nil {
				r.Bad(fk, "deletes record and index", "DeleteRedelegation does not delete both the record key and the by-source index key", nil, e.Pos(del.Pos()))
				return
			}
			parsed := func(t *Term, parser, field string) bool {
				return t.Op == "extract" && t.Name == "0" && t.Args[0].IsCall(parser) && t.Args[0].Args[0].Op == "field" && t.Args[0].Args[0].Name == field && t.Args[0].Args[0].Args[0].Op == "param"
			}
			rk := argT(fa, recDel, 0).Args
			ik := argT(fa, idxDel, 0).Args
			r.Check(parsed(rk[0], "sdk.AccAddressFromBech32", "DelegatorAddress") && rk[1].String() == "$redel.Balance.Denom" && parsed(rk[2], "sdk.ValAddressFromBech32", "DstValidatorAddress") && rk[3].Op == "param",
				fk, "record key from the entry's fields", "(delegator, denom, destination, completion) of the entry", "record key deleted is built from "+argT(fa, recDel, 0).String(), r.P(recDel))
			r.Check(parsed(ik[0], "sdk.ValAddressFromBech32", "SrcValidatorAddress") && ik[1].Op == "param" && ik[2].String() == "$redel.Balance.Denom" && parsed(ik[3], "sdk.ValAddressFromBech32", "DstValidatorAddress") && parsed(ik[4], "sdk.AccAddressFromBech32", "DelegatorAddress"),
				fk, "index key from the entry's fields", "(source, completion, denom, destination, delegator) of the entry", "index key deleted is built from "+argT(fa, idxDel, 0).String(), r.P(idxDel))
			if trail := fa.MustFollow(recDel, []ssa.Instruction{idxDel}); trail != nil {
				r.Bad(fk, "record delete => index delete", "a success path deletes the record but leaves its by-source index", trail, r.P(recDel))
			} else {
				r.OK(fk, "record delete => index delete", "index deletion follows on every success path", r.P(idxDel))
			}
			if trail := fa.MustFollow(del.Blocks[0].Instrs[0], []ssa.Instruction{recDel}); trail != nil {
				r.Bad(fk, "record deleted on success", "DeleteRedelegation can succeed without deleting the record (the onward-hop restriction would never lift)", trail)
			} else {
				r.OK(fk, "record deleted on success", "every success path deletes the record", r.P(recDel))
			}
			// addRedelegation writes the same two key constructors + queue
			ak, afa := FuncKey(add), e.FA(add)
			var recSet, idxSet ssa.CallInstruction
			for _, c := range CallsTo(add, "corestore.KVStore.Set", "storetypes.KVStore.Set") {
				switch {
				case argT(afa, c, 0).IsCall("types.GetRedelegationKey"):
					recSet = c
				case argT(afa, c, 0).IsCall("types.GetRedelegationIndexKey"):
					idxSet = c
				}
			}
			qc := CallsTo(add, "keeper.Keeper.queueRedelegation")
			if recSet == nil || idxSet == nil || len(qc) != 1 {
				r.Bad(ak, "writes record, index and queue", "addRedelegation does not write record, by-source index and time queue", nil, e.Pos(add.Pos()))
				return
			}
			sk := argT(afa, recSet, 0).Args
			xk := argT(afa, idxSet, 0).Args
			r.Check(sk[0].Op == "param" && sk[1].String() == "$coin.Denom" && sk[2].Op == "param" && sk[2].Name == "dstVal" && sk[3].Op == "param",
				ak, "record key arguments", "(delAddr, coin.Denom, dstVal, completionTime)", "record key is built from "+argT(afa, recSet, 0).String(), r.P(recSet))
			r.Check(xk[0].Op == "param" && xk[0].Name == "srcVal" && xk[1].Eq(sk[3]) && xk[2].Eq(sk[1]) && xk[3].Eq(sk[2]) && xk[4].Eq(sk[0]),
				ak, "index key agrees with record key", "index (srcVal, time, denom, dstVal, delAddr) uses the record key's components", "the by-source index key ("+argT(afa, idxSet, 0).String()+") does not use the same delegator/denom/destination/time as the record key ("+argT(afa, recSet, 0).String()+")", r.P(idxSet))
			if trail := afa.MustFollow(recSet, []ssa.Instruction{idxSet}); trail != nil {
				r.Bad(ak, "record write => index write", "a success path writes the record without its by-source index (a slash of the source would miss it)", trail, r.P(recSet))
			} else if trail := afa.MustFollow(idxSet, callsAsInstrs(qc)); trail != nil {
				r.Bad(ak, "record write => queue write", "a success path writes the record without queueing it for completion (it would never mature)", trail, r.P(idxSet))
			} else {
				r.OK(ak, "record write => index and queue write", "index and queue writes follow on every success path", r.P(idxSet))
			}
			// CompleteRedelegations: every queued entry is deleted with the completion parsed from the queue key; bucket deleted
			ck, cfa := FuncKey(cr), e.FA(cr)
			dc := r.One(cr, "delete matured entry", "keeper.Keeper.DeleteRedelegation")
			if dc != nil {
				ent := argT(cfa, dc, 1)
				comp := argT(cfa, dc, 2)
				okE := ent.Op == "deref" && loopPhiOf(ent) != nil
				r.Check(okE, ck, "entry deleted is the queued entry", "element of the decoded queue bucket", "DeleteRedelegation receives "+ent.String(), r.P(dc))
				okC := comp.IsCall("types.ParseRedelegationQueueKey") && comp.Args[0].Op == "ncall" && strings.HasSuffix(comp.Args[0].Name, "Iterator.Key")
				r.Check(okC, ck, "completion parsed from the queue key", "ParseRedelegationQueueKey(iter.Key())", "completion time passed is "+comp.String(), r.P(dc))
				var bdel []ssa.Instruction
				for _, c := range CallsTo(cr, "corestore.KVStore.Delete", "storetypes.KVStore.Delete") {
					if k := argT(cfa, c, 0); k.Op == "ncall" && strings.HasSuffix(k.Name, "Iterator.Key") {
						bdel = append(bdel, c)
					}
				}
				r.Check(len(bdel) == 1, ck, "matured queue bucket deleted", "store.Delete(iter.Key())", fmt.Sprintf("%d deletions of the queue bucket", len(bdel)), r.P(dc))
				if okE {
					if trail := cfa.EveryIterationPasses(loopPhiOf(ent), []ssa.Instruction{dc}); trail != nil {
						r.Bad(ck, "every queued entry is deleted", "an entry of a matured bucket can be skipped", trail, r.P(dc))
					} else {
						r.OK(ck, "every queued entry is deleted", "no path to the next entry bypasses DeleteRedelegation", r.P(dc))
					}
				}
			}
			// the queue entry must carry everything DeleteRedelegation needs to rebuild both keys: on every path to the
			// bucket write a fresh entry (delegator, source, destination, coin) of this call is added to the bucket
			if qf := r.Need("keeper.Keeper.queueRedelegation"); qf != nil {
				qk, qa := FuncKey(qf), e.FA(qf)
				lits := Complits(qf, "types.Redelegation")
				if len(lits) < 1 {
					r.Bad(qk, "queue entry literal", fmt.Sprintf("expected a Redelegation value built from the parameters, found %d", len(lits)), nil, e.Pos(qf.Pos()))
				}
				for i, a := range LiteralAllocs(qa, qf, "types.Redelegation") {
					f := complitFields(qa, a)
					ok := f["DelegatorAddress"] != nil && f["DelegatorAddress"].String() == "sdk.AccAddress.String($delAddr)" &&
						f["SrcValidatorAddress"] != nil && f["SrcValidatorAddress"].String() == "sdk.ValAddress.String($srcVal)" &&
						f["DstValidatorAddress"] != nil && f["DstValidatorAddress"].String() == "sdk.ValAddress.String($dstVal)" &&
						f["Balance"] != nil && f["Balance"].String() == "$coin"
					r.Check(ok, qk, fmt.Sprintf("queue entry literal #%d = (delAddr, srcVal, dstVal, coin)", i+1), "all four parameters recorded", "a queued redelegation entry does not record the delegator, source, destination and coin of this call: its record/index keys cannot be rebuilt at maturity", r.P(a))
				}
				var setq ssa.CallInstruction
				for _, c := range CallsTo(qf, "corestore.KVStore.Set", "storetypes.KVStore.Set") {
					if argT(qa, c, 0).IsCall("types.GetRedelegationQueueKey") {
						setq = c
					}
				}
				if setq == nil {
					r.Bad(qk, "queue bucket write", "no store.Set(GetRedelegationQueueKey(...))", nil, e.Pos(qf.Pos()))
				} else {
					// the bucket variable is identified by its role: it is what is marshalled into the value written
					var bucketAllocs map[*ssa.Alloc]bool
					if args := setq.Common().Args; len(args) > 0 {
						if mc, ok := args[len(args)-1].(*ssa.Call); ok && len(mc.Common().Args) > 0 {
							bucketAllocs = rootAllocSet(unwrapIface(mc.Common().Args[len(mc.Common().Args)-1]))
						}
					}
					var puts []ssa.Instruction
					for _, b := range qf.Blocks {
						for _, in := range b.Instrs {
							if st, ok := in.(*ssa.Store); ok {
								if al, ok := rootAlloc(st.Addr); ok && bucketAllocs[al] {
									v := qa.Term(st.Val)
									for _, a := range lits {
										if v.Contains(qa.Term(a)) {
											puts = append(puts, st)
										}
									}
								}
							}
						}
					}
					// ... and the bucket is written on every success path (an early `return nil` for an entry that looks like a
					// duplicate leaves the by-source index of this call without a queue entry that deletes it)
					if trail := qa.MustFollow(qf.Blocks[0].Instrs[0], []ssa.Instruction{setq}); trail != nil {
						r.Bad(qk, "queue bucket written on every success path", "queueRedelegation can return success without writing the queue bucket: the record and the by-source index that addRedelegation wrote for this call have no queue entry, and nothing deletes them at maturity", trail, r.P(setq))
					} else {
						r.OK(qk, "queue bucket written on every success path", "every success path passes store.Set(GetRedelegationQueueKey(..))", r.P(setq))
					}
					if trail := qa.MustPassThrough(nil, setq, puts); trail != nil || len(puts) == 0 {
						r.Bad(qk, "entry added before queue bucket write", "the queue bucket can be written on a path that did not add an entry for this redelegation (e.g. merged into another entry): the by-source index written by addRedelegation for this call has no queue entry that will delete it at maturity", trail, r.P(setq))
					} else {
						r.OK(qk, "entry added before queue bucket write", "every path to the bucket write appends/creates the entry of this call", r.P(setq))
					}
					r.Check(argT(qa, setq, 0).Args[0].String() == "$completionTime", qk, "queue key time", "GetRedelegationQueueKey(completionTime)", "queue key time is "+argT(qa, setq, 0).String(), r.P(setq))
				}
			}
			// unbonding family: keys written in queueUndelegation (bucket, index) == keys deleted in CompleteUnbondings: C01.pair.complete + C02.payloop
			r.OK("keeper.Keeper.CompleteUnbondings", "unbonding key family", "bucket delete: C01.pair.complete; index delete: C02.payloop; writers: C02.completion")
		}})
}

func lastReturnOrNil(fn *ssa.Function) ssa.Instruction {
	rs := Returns(fn)
	if len(rs) == 0 {
		return nil
	}
	return rs[len(rs)-1]
}
