package main

import (
	"fmt"
	"go/ast"
	"go/format"
	"go/token"
	"go/types"
	"sort"
	"strings"

	"golang.org/x/tools/go/packages"
)

// Loops over constant tables.
//
// "Table-driven" rewrites turn a sequence of `if cond_i { return err_i }` into
//
//	var checks = []struct{ failed func(*Msg) bool; reason string }{ {..}, {..} }
//	for _, c := range checks { if c.failed(msg) { return nil, status.Error(code, c.reason) } }
//
// The rules read conditions and guards from the control flow of the handler; a loop over closures stored in a
// package-level slice hides all of it.  When the table provably never changes, the loop is the sequence of its body
// for element 1, 2, ..: the overlay spells that sequence out (one block per element, the fields the body reads bound
// to locals), and the closure pass then puts the function literals back in line.
//
// Conditions, each checked:
//   - the ranged expression is an unexported package-level variable of the same package (possibly through local variables that
//     are defined once from it), declared with a slice / array composite literal of struct elements;
//   - every mention of that variable in the package is such a range expression, the initialiser of such a local, or
//     the operand of len(): nothing can write the table or hand it to code that could;
//   - the loop has no key variable (or `_`), the value variable is only read through its fields, and the body has no
//     break / continue that binds to the loop, no label, no goto;
//   - names used by the element expressions mean the same thing at the loop (no shadowing, same import names).
//   - at most 40 elements.

func unrollConstTables(pkgs []*packages.Package, src func(string) []byte) (map[string][]byte, []string) {
	overlay := map[string][]byte{}
	var notes []string
	seq := 0
	for _, p := range pkgs {
		if !smPkgs[p.PkgPath] || p.TypesInfo == nil {
			continue
		}
		info := p.TypesInfo
		// candidate tables: package-level vars with a composite literal of struct elements
		type table struct {
			obj   types.Object
			lit   *ast.CompositeLit
			file  *ast.File
			elemT *types.Struct
			bad   string
		}
		tables := map[types.Object]*table{}
		for _, f := range p.Syntax {
			for _, d := range f.Decls {
				gd, ok := d.(*ast.GenDecl)
				if !ok || gd.Tok != token.VAR {
					continue
				}
				for _, sp := range gd.Specs {
					vs, ok := sp.(*ast.ValueSpec)
					if !ok || len(vs.Names) != 1 || len(vs.Values) != 1 {
						continue
					}
					cl, ok := vs.Values[0].(*ast.CompositeLit)
					if !ok {
						continue
					}
					o := info.Defs[vs.Names[0]]
					if o == nil || o.Exported() {
						continue // an exported table can be written by another package
					}
					var et types.Type
					switch u := o.Type().Underlying().(type) {
					case *types.Slice:
						et = u.Elem()
					case *types.Array:
						et = u.Elem()
					}
					if et == nil {
						continue
					}
					st, ok := et.Underlying().(*types.Struct)
					if !ok || len(cl.Elts) == 0 || len(cl.Elts) > 40 {
						continue
					}
					okElts := true
					for _, e := range cl.Elts {
						if _, isKV := e.(*ast.KeyValueExpr); isKV {
							okElts = false // indexed elements
						}
						if _, isCL := e.(*ast.CompositeLit); !isCL {
							okElts = false
						}
					}
					if !okElts {
						continue
					}
					tables[o] = &table{obj: o, lit: cl, file: f, elemT: st}
				}
			}
		}
		if len(tables) == 0 {
			continue
		}
		// uses of the tables: range expressions, alias definitions, len()
		type loopSite struct {
			rs    *ast.RangeStmt
			t     *table
			file  *ast.File
			fname string
			fd    *ast.FuncDecl
		}
		var loops []*loopSite
		for i, f := range p.Syntax {
			if i >= len(p.CompiledGoFiles) {
				continue
			}
			fname := p.CompiledGoFiles[i]
			allowed := map[*ast.Ident]bool{}
			for _, d := range f.Decls {
				fd, ok := d.(*ast.FuncDecl)
				if !ok || fd.Body == nil {
					continue
				}
				// local aliases: defined once from a table (or another alias), used only as range expression / alias source / `_ =`
				aliasOf := map[types.Object]*table{}
				changed := true
				for changed {
					changed = false
					ast.Inspect(fd.Body, func(n ast.Node) bool {
						var lhs *ast.Ident
						var rhs ast.Expr
						switch x := n.(type) {
						case *ast.AssignStmt:
							if x.Tok == token.DEFINE && len(x.Lhs) == 1 && len(x.Rhs) == 1 {
								lhs, _ = x.Lhs[0].(*ast.Ident)
								rhs = x.Rhs[0]
							}
						case *ast.ValueSpec:
							if len(x.Names) == 1 && len(x.Values) == 1 {
								lhs, rhs = x.Names[0], x.Values[0]
							}
						}
						if lhs == nil {
							return true
						}
						id, ok := ast.Unparen(rhs).(*ast.Ident)
						if !ok {
							return true
						}
						src := info.Uses[id]
						t := tables[src]
						if t == nil {
							t = aliasOf[src]
						}
						if o := info.Defs[lhs]; t != nil && o != nil && aliasOf[o] == nil {
							aliasOf[o] = t
							changed = true
						}
						return true
					})
				}
				aliasBad := map[types.Object]bool{}
				ast.Inspect(fd.Body, func(n ast.Node) bool {
					switch x := n.(type) {
					case *ast.RangeStmt:
						if id, ok := ast.Unparen(x.X).(*ast.Ident); ok {
							o := info.Uses[id]
							t := tables[o]
							if t == nil {
								t = aliasOf[o]
							}
							if t != nil {
								allowed[id] = true
								loops = append(loops, &loopSite{x, t, f, fname, fd})
							}
						}
					case *ast.CallExpr:
						if fn, ok := x.Fun.(*ast.Ident); ok && fn.Name == "len" && len(x.Args) == 1 && info.Uses[fn] == types.Universe.Lookup("len") {
							if id, ok := ast.Unparen(x.Args[0]).(*ast.Ident); ok {
								allowed[id] = true
							}
						}
					case *ast.AssignStmt:
						if len(x.Lhs) == 1 && len(x.Rhs) == 1 {
							if id, ok := ast.Unparen(x.Rhs[0]).(*ast.Ident); ok {
								if l, ok := x.Lhs[0].(*ast.Ident); ok {
									if x.Tok == token.ASSIGN && l.Name == "_" {
										allowed[id] = true
									}
									if x.Tok == token.DEFINE && aliasOf[info.Defs[l]] != nil {
										allowed[id] = true
									}
								}
							}
						}
					case *ast.ValueSpec:
						if len(x.Names) == 1 && len(x.Values) == 1 && aliasOf[info.Defs[x.Names[0]]] != nil {
							if id, ok := ast.Unparen(x.Values[0]).(*ast.Ident); ok {
								allowed[id] = true
							}
						}
					}
					return true
				})
				ast.Inspect(fd.Body, func(n ast.Node) bool {
					if id, ok := n.(*ast.Ident); ok && !allowed[id] {
						if o := info.Uses[id]; o != nil && aliasOf[o] != nil {
							aliasBad[o] = true
							aliasOf[o].bad = "a local copy of the table is used other than as a range expression"
						}
					}
					return true
				})
			}
			ast.Inspect(f, func(n ast.Node) bool {
				if id, ok := n.(*ast.Ident); ok && !allowed[id] {
					if t := tables[info.Uses[id]]; t != nil {
						t.bad = "the table is used other than as a range expression"
					}
				}
				return true
			})
		}
		byFile := map[string][]*loopSite{}
		for _, l := range loops {
			byFile[l.fname] = append(byFile[l.fname], l)
		}
		var fnames []string
		for fn := range byFile {
			fnames = append(fnames, fn)
		}
		sort.Strings(fnames)
		for _, fname := range fnames {
			text := src(fname)
			if text == nil {
				continue
			}
			type edit struct {
				a, b int
				text string
			}
			var edits []edit
			for _, l := range byFile[fname] {
				if l.t.bad != "" {
					notes = append(notes, "table "+l.t.obj.Name()+": loop not unrolled ("+l.t.bad+")")
					continue
				}
				seq++
				repl, err := unrollOne(p, l.rs, l.t.lit, l.t.elemT, l.t.file, l.file, seq, src, fname)
				if err != nil {
					notes = append(notes, "table "+l.t.obj.Name()+": loop not unrolled ("+err.Error()+")")
					continue
				}
				edits = append(edits, edit{p.Fset.Position(l.rs.Pos()).Offset, p.Fset.Position(l.rs.End()).Offset, repl})
				notes = append(notes, fmt.Sprintf("loop over the constant table %s (%d elements) in %s written out", l.t.obj.Name(), len(l.t.lit.Elts), l.fd.Name.Name))
			}
			if len(edits) == 0 {
				continue
			}
			sort.Slice(edits, func(i, j int) bool { return edits[i].a > edits[j].a })
			okF := true
			for i := 1; i < len(edits); i++ {
				if edits[i].b > edits[i-1].a {
					okF = false
				}
			}
			if !okF {
				continue
			}
			for _, ed := range edits {
				text = append(append(append([]byte{}, text[:ed.a]...), []byte(ed.text)...), text[ed.b:]...)
			}
			if out, err := format.Source(text); err == nil {
				text = out
			}
			overlay[fname] = text
		}
	}
	sort.Strings(notes)
	return overlay, notes
}

func unrollOne(p *packages.Package, rs *ast.RangeStmt, lit *ast.CompositeLit, st *types.Struct, tfile, lfile *ast.File, seq int, src func(string) []byte, fname string) (string, error) {
	info := p.TypesInfo
	fset := p.Fset
	off := func(pos token.Pos) int { return fset.Position(pos).Offset }
	if rs.Tok != token.DEFINE {
		return "", fmt.Errorf("loop variables are assigned, not defined")
	}
	if rs.Key != nil {
		if id, ok := rs.Key.(*ast.Ident); !ok || id.Name != "_" {
			return "", fmt.Errorf("the loop uses the index")
		}
	}
	val, ok := rs.Value.(*ast.Ident)
	if !ok || val.Name == "_" {
		return "", fmt.Errorf("no value variable")
	}
	vobj := info.Defs[val]
	if vobj == nil {
		return "", fmt.Errorf("value variable not resolved")
	}
	// body: value variable only through field selections that are read
	type fieldUse struct {
		sel *ast.SelectorExpr
		idx int
	}
	var uses []fieldUse
	selOf := map[*ast.Ident]*ast.SelectorExpr{}
	bad := ""
	ast.Inspect(rs.Body, func(n ast.Node) bool {
		switch x := n.(type) {
		case *ast.SelectorExpr:
			if id, ok := x.X.(*ast.Ident); ok && info.Uses[id] == vobj {
				selOf[id] = x
			}
		case *ast.LabeledStmt:
			bad = "label in the loop body"
		case *ast.BranchStmt:
			if x.Tok == token.GOTO || x.Label != nil {
				bad = "goto / labelled branch in the loop body"
			}
		case *ast.AssignStmt:
			for _, l := range x.Lhs {
				if s, ok := ast.Unparen(l).(*ast.SelectorExpr); ok {
					if id, ok := s.X.(*ast.Ident); ok && info.Uses[id] == vobj {
						bad = "the loop body assigns a field of the element"
					}
				}
			}
		case *ast.UnaryExpr:
			if x.Op == token.AND {
				if s, ok := ast.Unparen(x.X).(*ast.SelectorExpr); ok {
					if id, ok := s.X.(*ast.Ident); ok && info.Uses[id] == vobj {
						bad = "the loop body takes the address of a field of the element"
					}
				}
			}
		case *ast.IncDecStmt:
			if s, ok := ast.Unparen(x.X).(*ast.SelectorExpr); ok {
				if id, ok := s.X.(*ast.Ident); ok && info.Uses[id] == vobj {
					bad = "the loop body changes a field of the element"
				}
			}
		}
		return true
	})
	if bad != "" {
		return "", fmt.Errorf("%s", bad)
	}
	ast.Inspect(rs.Body, func(n ast.Node) bool {
		if id, ok := n.(*ast.Ident); ok && info.Uses[id] == vobj {
			s := selOf[id]
			if s == nil {
				bad = "the element is used as a whole"
				return false
			}
			fi := -1
			for i := 0; i < st.NumFields(); i++ {
				if st.Field(i).Name() == s.Sel.Name {
					fi = i
				}
			}
			if fi < 0 {
				bad = "the element is used through a method or promoted field"
				return false
			}
			uses = append(uses, fieldUse{s, fi})
		}
		return true
	})
	if bad != "" {
		return "", fmt.Errorf("%s", bad)
	}
	// break / continue binding to the loop
	var scan func(n ast.Node, inLoop, inSwitch bool)
	scan = func(n ast.Node, inLoop, inSwitch bool) {
		if n == nil || bad != "" {
			return
		}
		switch x := n.(type) {
		case *ast.FuncLit:
			return
		case *ast.BranchStmt:
			if x.Tok == token.BREAK && !inLoop && !inSwitch {
				bad = "break in the loop body"
			}
			if x.Tok == token.CONTINUE && !inLoop {
				bad = "continue in the loop body"
			}
			return
		case *ast.ForStmt:
			scan(x.Body, true, inSwitch)
			return
		case *ast.RangeStmt:
			scan(x.Body, true, inSwitch)
			return
		case *ast.SwitchStmt:
			scan(x.Body, inLoop, true)
			return
		case *ast.TypeSwitchStmt:
			scan(x.Body, inLoop, true)
			return
		case *ast.SelectStmt:
			scan(x.Body, inLoop, true)
			return
		}
		ast.Inspect(n, func(c ast.Node) bool {
			if c == n || c == nil {
				return true
			}
			scan(c, inLoop, inSwitch)
			return false
		})
	}
	scan(rs.Body, false, false)
	if bad != "" {
		return "", fmt.Errorf("%s", bad)
	}
	// names of the element expressions at the loop
	tsrc, lsrc := src(fset.Position(tfile.Pos()).Filename), src(fname)
	if tsrc == nil || lsrc == nil {
		return "", fmt.Errorf("source not available")
	}
	inner := p.Types.Scope().Innermost(rs.Pos())
	if inner == nil {
		return "", fmt.Errorf("scope of the loop not found")
	}
	limports := map[string]string{}
	for _, im := range lfile.Imports {
		path := strings.Trim(im.Path.Value, "\"")
		name := ""
		if im.Name != nil {
			name = im.Name.Name
		} else if ip := p.Imports[path]; ip != nil {
			name = ip.Name
		}
		limports[path] = name
	}
	checkNames := func(e ast.Expr) {
		ast.Inspect(e, func(n ast.Node) bool {
			id, ok := n.(*ast.Ident)
			if !ok || bad != "" {
				return bad == ""
			}
			o := info.Uses[id]
			if o == nil {
				return true
			}
			if pn, isPkg := o.(*types.PkgName); isPkg {
				if limports[pn.Imported().Path()] != id.Name {
					bad = "package " + pn.Imported().Path() + " has another name in the file of the loop"
					return false
				}
				if _, found := inner.LookupParent(id.Name, rs.Pos()); found == nil || found.Pos() != token.NoPos && found != o {
					if fp, ok := found.(*types.PkgName); !ok || fp.Imported() != pn.Imported() {
						bad = "name " + id.Name + " is shadowed at the loop"
					}
				}
				return true
			}
			if o.Parent() == p.Types.Scope() || o.Parent() == types.Universe {
				if _, found := inner.LookupParent(id.Name, rs.Pos()); found != o {
					bad = "name " + id.Name + " is shadowed at the loop"
				}
			}
			return true
		})
	}
	qualFail := ""
	qual := func(pk *types.Package) string {
		if pk == p.Types {
			return ""
		}
		if nme, ok := limports[pk.Path()]; ok && nme != "" && nme != "_" && nme != "." {
			return nme
		}
		qualFail = pk.Path()
		return pk.Name()
	}
	// fields the body reads
	usedField := map[int]bool{}
	for _, u := range uses {
		usedField[u.idx] = true
	}
	var fidx []int
	for i := range usedField {
		fidx = append(fidx, i)
	}
	sort.Ints(fidx)
	bodyA, bodyE := off(rs.Body.Lbrace)+1, off(rs.Body.Rbrace)
	var sb strings.Builder
	sb.WriteString("{\n")
	for ei, e := range lit.Elts {
		cl := e.(*ast.CompositeLit)
		vals := map[int]ast.Expr{}
		keyed := false
		for _, x := range cl.Elts {
			if _, ok := x.(*ast.KeyValueExpr); ok {
				keyed = true
			}
		}
		for xi, x := range cl.Elts {
			if kv, ok := x.(*ast.KeyValueExpr); ok {
				kid, ok := kv.Key.(*ast.Ident)
				if !ok {
					return "", fmt.Errorf("element key is not a field name")
				}
				fi := -1
				for i := 0; i < st.NumFields(); i++ {
					if st.Field(i).Name() == kid.Name {
						fi = i
					}
				}
				if fi < 0 {
					return "", fmt.Errorf("element key %s is not a field", kid.Name)
				}
				vals[fi] = kv.Value
			} else {
				if keyed || xi >= st.NumFields() {
					return "", fmt.Errorf("mixed element literal")
				}
				vals[xi] = x
			}
		}
		pre := fmt.Sprintf("inlT%d_%d_", seq, ei+1)
		sb.WriteString("{\n")
		for _, fi := range fidx {
			name := pre + st.Field(fi).Name()
			ft := types.TypeString(st.Field(fi).Type(), qual)
			if v := vals[fi]; v != nil {
				checkNames(v)
				if bad != "" {
					return "", fmt.Errorf("%s", bad)
				}
				vt := string(tsrc[off(v.Pos()):off(v.End())])
				if _, isLit := ast.Unparen(v).(*ast.FuncLit); isLit {
					fmt.Fprintf(&sb, "%s := %s\n_ = %s\n", name, vt, name)
				} else {
					fmt.Fprintf(&sb, "var %s %s = %s\n_ = %s\n", name, ft, vt, name)
				}
			} else {
				fmt.Fprintf(&sb, "var %s %s\n_ = %s\n", name, ft, name)
			}
		}
		// body with the field selections replaced
		body := append([]byte{}, lsrc[bodyA:bodyE]...)
		type rep struct {
			a, e int
			t    string
		}
		var reps []rep
		for _, u := range uses {
			reps = append(reps, rep{off(u.sel.Pos()), off(u.sel.End()), pre + st.Field(u.idx).Name()})
		}
		sort.Slice(reps, func(i, j int) bool { return reps[i].a > reps[j].a })
		for _, r := range reps {
			body = append(append(append([]byte{}, body[:r.a-bodyA]...), []byte(r.t)...), body[r.e-bodyA:]...)
		}
		sb.Write(body)
		sb.WriteString("\n}\n")
	}
	sb.WriteString("}")
	if qualFail != "" {
		return "", fmt.Errorf("type of package %s is not importable by name in the file of the loop", qualFail)
	}
	return sb.String(), nil
}
