package main

import (
	"fmt"
	"go/types"
	"regexp"
	"sort"
	"strconv"
	"strings"

	"golang.org/x/tools/go/ssa"
)

// errOrigin: where a possibly non-nil error value returned by an SM function is created.
type errOrigin struct {
	Kind string // NEW SENTINEL EXT PARSE
	Name string
	Fn   *ssa.Function
	Pos  ssa.Instruction
}

func (o errOrigin) Key() string { return FuncKey(topFunc(o.Fn)) + " | " + o.Kind + "(" + o.Name + ")" }

type originSet map[string]errOrigin

func isErrorType(t types.Type) bool {
	return types.Identical(t, types.Universe.Lookup("error").Type())
}

var parseFns = map[string]bool{"sdk.AccAddressFromBech32": true, "sdk.ValAddressFromBech32": true, "sdk.ParseTimeBytes": true, "types.AllianceValidator.GetValAddress": true,
	"types.ParseRedelegationIndexForRedelegationKey": true, "types.ParseUnbondingIndexKeyToUndelegationKey": true, "types.ParseUndelegationQueueKeyForCompletionTime": true,
	"types.GetTimeFromUndelegationKey": true, "sdk.ValidateDenom": true}

type originCtx struct {
	e    *Engine
	memo map[*ssa.Function]originSet
	busy map[*ssa.Function]bool
}

// originsOf: origins of the errors that fn can return.
// nilRequestGuard: the call is dominated by the true edge of `p == nil` for a pointer parameter p of its function.
func (oc *originCtx) nilRequestGuard(c ssa.CallInstruction) bool {
	fn := c.Parent()
	if fn == nil || fn.Parent() != nil {
		return false
	}
	fa := oc.e.FA(fn)
	return fa.HasGuard(c, func(g Guard) bool {
		if g.Cond.Op != "binop" || !((g.Cond.Name == "==" && g.Pos) || (g.Cond.Name == "!=" && !g.Pos)) {
			return false
		}
		a, b := g.Cond.Args[0], g.Cond.Args[1]
		if b.Op == "param" {
			a, b = b, a
		}
		if a.Op != "param" || b.Op != "const" || b.Name != "nil" {
			return false
		}
		for _, p := range fn.Params {
			if reviewedParamName(p) == a.Name {
				_, isPtr := p.Type().Underlying().(*types.Pointer)
				return isPtr
			}
		}
		return false
	})
}

func (oc *originCtx) originsOf(fn *ssa.Function) originSet {
	if s, ok := oc.memo[fn]; ok {
		return s
	}
	if oc.busy[fn] {
		return originSet{}
	}
	oc.busy[fn] = true
	res := originSet{}
	ei := errResultIndex(fn)
	if ei >= 0 {
		fa := oc.e.FA(fn)
		for _, ret := range Returns(fn) {
			if ei >= len(ret.Results) {
				continue
			}
			if t := fa.Term(ret.Results[ei]); t.Op == "const" && t.Name == "nil" {
				continue
			}
			oc.resolve(fn, ret.Results[ei], res, map[ssa.Value]bool{})
		}
	}
	delete(oc.busy, fn)
	oc.memo[fn] = res
	return res
}

func (oc *originCtx) add(res originSet, o errOrigin) { res[o.Key()] = o }

func (oc *originCtx) resolve(fn *ssa.Function, v ssa.Value, res originSet, seen map[ssa.Value]bool) {
	if seen[v] {
		return
	}
	seen[v] = true
	switch x := v.(type) {
	case *ssa.Const:
		return
	case *ssa.Phi:
		for _, ed := range x.Edges {
			oc.resolve(fn, ed, res, seen)
		}
	case *ssa.MakeInterface:
		oc.resolve(fn, x.X, res, seen)
	case *ssa.ChangeInterface:
		oc.resolve(fn, x.X, res, seen)
	case *ssa.ChangeType:
		oc.resolve(fn, x.X, res, seen)
	case *ssa.TypeAssert:
		oc.resolve(fn, x.X, res, seen)
	case *ssa.Extract:
		if c, ok := x.Tuple.(*ssa.Call); ok {
			oc.resolveCall(fn, c, res)
		}
	case *ssa.Call:
		oc.resolveCall(fn, x, res)
	case *ssa.UnOp:
		switch a := x.X.(type) {
		case *ssa.Global:
			oc.add(res, errOrigin{"SENTINEL", globalName(a), fn, x})
		case *ssa.Alloc:
			oc.resolveSlot(fn, a, res, seen)
		case *ssa.FreeVar:
			// captured error variable of the enclosing function
			if p := fn.Parent(); p != nil {
				for i, fv := range fn.FreeVars {
					if fv == a {
						// find the binding in the parent
						for _, b := range p.Blocks {
							for _, in := range b.Instrs {
								if mc, ok := in.(*ssa.MakeClosure); ok && mc.Fn == ssa.Value(fn) && i < len(mc.Bindings) {
									if al, ok := mc.Bindings[i].(*ssa.Alloc); ok {
										oc.resolveSlot(p, al, res, seen)
									}
								}
							}
						}
					}
				}
			}
		default:
			oc.add(res, errOrigin{"EXT", "unresolved load", fn, x})
		}
	case *ssa.Parameter:
		oc.add(res, errOrigin{"EXT", "error parameter " + x.Name(), fn, nil})
	default:
		oc.add(res, errOrigin{"EXT", fmt.Sprintf("unresolved %T", v), fn, nil})
	}
}

// resolveSlot: every store into the error variable `a` of fn, including stores made by closures that captured it.
func (oc *originCtx) resolveSlot(fn *ssa.Function, a *ssa.Alloc, res originSet, seen map[ssa.Value]bool) {
	if seen[a] {
		return
	}
	seen[a] = true
	for _, ref := range *a.Referrers() {
		switch x := ref.(type) {
		case *ssa.Store:
			if x.Addr == ssa.Value(a) {
				oc.resolve(fn, x.Val, res, seen)
			}
		case *ssa.MakeClosure:
			cf, _ := x.Fn.(*ssa.Function)
			if cf == nil {
				continue
			}
			for i, b := range x.Bindings {
				if b == ssa.Value(a) && i < len(cf.FreeVars) {
					fv := cf.FreeVars[i]
					if fv.Referrers() == nil {
						continue
					}
					for _, r2 := range *fv.Referrers() {
						if st, ok := r2.(*ssa.Store); ok && st.Addr == ssa.Value(fv) {
							oc.resolve(cf, st.Val, res, seen)
						}
					}
				}
			}
		}
	}
}

func (oc *originCtx) resolveCall(fn *ssa.Function, c *ssa.Call, res originSet) {
	key := CalleeKey(c.Common())
	if isErrCtor(key) {
		msg := ""
		for _, a := range c.Common().Args {
			if k, ok := a.(*ssa.Const); ok && k.Value != nil && k.Value.Kind().String() == "String" {
				msg = strconv.Quote(strings.TrimSpace(firstWords(constString(k), 6)))
				break
			}
		}
		// wrapping an existing error is not an origin: follow the wrapped value
		wrapped := false
		for _, a := range c.Common().Args {
			if isErrorType(a.Type()) {
				oc.resolve(fn, a, res, map[ssa.Value]bool{})
				wrapped = true
			} else if sl, ok := a.(*ssa.Slice); ok {
				// variadic args: look for error-typed elements
				if al, ok := sl.X.(*ssa.Alloc); ok {
					for _, ref := range *al.Referrers() {
						if ia, ok := ref.(*ssa.IndexAddr); ok {
							for _, r2 := range *ia.Referrers() {
								if st, ok := r2.(*ssa.Store); ok {
									if mi, ok := st.Val.(*ssa.MakeInterface); ok && isErrorType(mi.X.Type()) {
										oc.resolve(fn, mi.X, res, map[ssa.Value]bool{})
										wrapped = true
									}
									if ci, ok := st.Val.(*ssa.ChangeInterface); ok && isErrorType(ci.X.Type()) {
										oc.resolve(fn, ci.X, res, map[ssa.Value]bool{})
										wrapped = true
									}
								}
							}
						}
					}
				}
			}
		}
		if strings.HasPrefix(key, "errorsmod.Error.Wrap") {
			// sentinel.Wrapf(...): the receiver is the origin
			if len(c.Common().Args) > 0 {
				if u, ok := c.Common().Args[0].(*ssa.UnOp); ok {
					if g, ok := u.X.(*ssa.Global); ok {
						oc.add(res, errOrigin{"SENTINEL", globalName(g), fn, c})
						return
					}
				}
			}
		}
		_ = msg
		if !wrapped {
			// keyed by constructor and its ordinal among the function's constructor sites (not by message text)
			// a constructor under `if <pointer parameter> == nil` answers a nil request: it is classified by its guard,
			// and does not take part in the numbering (adding such a check must not renumber the reviewed origins)
			if oc.nilRequestGuard(c) {
				oc.add(res, errOrigin{"NILREQ", key + " under a nil-parameter test", fn, c})
				return
			}
			n := 0
			for _, oc2 := range Calls(topFunc(fn)) {
				if isErrCtor(CalleeKey(oc2.Common())) && !oc.nilRequestGuard(oc2) {
					n++
					if oc2 == ssa.CallInstruction(c) {
						break
					}
				}
			}
			oc.add(res, errOrigin{"NEW", ctorFamily(key) + "#" + strconv.Itoa(n), fn, c})
		}
		return
	}
	if callee := Devirt(c.Common()); callee != nil && callee.Blocks != nil && callee.Pkg != nil && smPkgs[callee.Pkg.Pkg.Path()] && !oc.e.isGenerated(callee.Pos()) {
		if parseFns[key] {
			oc.add(res, errOrigin{"PARSE", key, fn, c})
			return
		}
		for _, o := range oc.originsOf(callee) {
			res[o.Key()] = o
		}
		return
	}
	if parseFns[key] {
		oc.add(res, errOrigin{"PARSE", key, fn, c})
		return
	}
	oc.add(res, errOrigin{"EXT", key, fn, c})
}

func firstWords(s string, n int) string {
	s = strings.Trim(s, "\"")
	w := strings.Fields(s)
	if len(w) > n {
		w = w[:n]
	}
	return strings.Join(w, " ")
}

type originVerdict struct{ kind, reason string }

// Reviewed verdicts for business origins (NEW / SENTINEL) per total entry point.
var errorOriginTable = map[string]map[string]originVerdict{
	"keeper.Hooks.BeforeValidatorSlashed": {
		"keeper.Keeper.SlashValidator | NEW(fmt.Errorf#1)":                                       {"precondition", "fraction range error: staking computes the fraction as min(burn/tokens, 1) with tokens > 0 and calls the hook only when it is positive"},
		"keeper.Keeper.GetAllianceValidator | NEW(fmt.Errorf#1)":                                 {"precondition", "validator-not-found: the slashed validator exists in staking (Slash loaded it); a redelegation destination normally exists while the module holds stake on it (staking removes a validator only with zero delegator shares). EXCEPTION reported separately as finding F14 (rule C03.valdelete, also listed under C08): a destination on which the module never staked can be removed while alliance positions still point at it"},
		"keeper.Keeper.SlashValidator | SENTINEL(types.ErrUnknownAsset)":                         {"precondition", "a denom with validator shares has an asset: DeleteAsset requires zero tokens and ResetAssetAndValidators strips the denom from every validator when the total returns to zero"},
		"keeper.Keeper.ClaimDelegationRewards | SENTINEL(types.ErrUnknownAsset)":                 {"guarded", "C08.claimguard: the claim inside slashRedelegations is dominated by a successful GetAssetByDenom for the same denom"},
		"keeper.Keeper.ClaimDelegationRewards | SENTINEL(stakingtypes.ErrNoDelegatorForAddress)": {"guarded", "C08.claimguard: the claim inside slashRedelegations is dominated by a successful GetDelegation for the same key"},
	},
	"keeper.MsgServer.Delegate": {
		"keeper.MsgServer.Delegate | NEW(status.Errorf#1)":                                       {"request", "amount must be positive"},
		"keeper.Keeper.GetAllianceValidator | NEW(fmt.Errorf#1)":                                 {"request", "the validator does not exist in x/staking"},
		"keeper.Keeper.Delegate | NEW(status.Errorf#1)":                                          {"request", "the denom is not a whitelisted alliance asset"},
		"keeper.Keeper.ClaimDelegationRewards | SENTINEL(stakingtypes.ErrNoDelegatorForAddress)": {"guarded", "C08.claimguard: the claim is dominated by a successful GetDelegation for the same key"},
		"keeper.Keeper.ClaimDelegationRewards | SENTINEL(types.ErrUnknownAsset)":                 {"precondition", "the same denom was found by GetAssetByDenom at the start of the operation (C01.pair.delegate anchors that lookup)"},
	},
	"keeper.MsgServer.Undelegate": {
		"keeper.MsgServer.Undelegate | NEW(status.Errorf#1)":                                     {"request", "amount must be positive"},
		"keeper.Keeper.GetAllianceValidator | NEW(fmt.Errorf#1)":                                 {"request", "the validator does not exist in x/staking"},
		"keeper.Keeper.Undelegate | NEW(status.Errorf#1)":                                        {"request", "unknown asset"},
		"keeper.Keeper.Undelegate | SENTINEL(stakingtypes.ErrNoDelegatorForAddress)":             {"request", "the delegator has no position of this denom on this validator"},
		"keeper.Keeper.Undelegate | SENTINEL(types.ErrInsufficientTokens)":                       {"request", "amount above the position's token value; that the full REPORTED balance passes is a numeric boundary, covered only by the reviewed-reference rules F.tolerances and C20.balance (the reported balance is the cap's own formula)"},
		"keeper.Keeper.ValidateDelegatedAmount | SENTINEL(stakingtypes.ErrInsufficientShares)":   {"request", "amount above the position's shares (tolerances: F.tolerances)"},
		"keeper.Keeper.ClaimDelegationRewards | SENTINEL(stakingtypes.ErrNoDelegatorForAddress)": {"guarded", "C08.claimguard: dominated by a successful GetDelegation for the same key"},
		"keeper.Keeper.ClaimDelegationRewards | SENTINEL(types.ErrUnknownAsset)":                 {"precondition", "the same denom was found by GetAssetByDenom at the start of the operation"},
	},
	"keeper.MsgServer.Redelegate": {
		"keeper.MsgServer.Redelegate | NEW(status.Errorf#1)":                                     {"request", "amount must be positive"},
		"keeper.Keeper.GetAllianceValidator | NEW(fmt.Errorf#1)":                                 {"request", "source or destination validator does not exist in x/staking"},
		"keeper.Keeper.Redelegate | NEW(status.Errorf#1)":                                        {"request", "source and destination are the same validator"},
		"keeper.Keeper.Redelegate | NEW(status.Errorf#2)":                                        {"request", "unknown asset"},
		"keeper.Keeper.Redelegate | SENTINEL(stakingtypes.ErrNoDelegatorForAddress)":             {"request", "no position on the source validator"},
		"keeper.Keeper.Redelegate | SENTINEL(stakingtypes.ErrTransitiveRedelegation)":            {"request", "a redelegation INTO the source validator is still pending (C15: the onward hop is blocked until maturity; C15.transitive decides the lookup key)"},
		"keeper.Keeper.Redelegate | SENTINEL(types.ErrInsufficientTokens)":                       {"request", "amount above the position's token value (see Undelegate)"},
		"keeper.Keeper.ValidateDelegatedAmount | SENTINEL(stakingtypes.ErrInsufficientShares)":   {"request", "amount above the position's shares"},
		"keeper.Keeper.ClaimDelegationRewards | SENTINEL(stakingtypes.ErrNoDelegatorForAddress)": {"guarded", "C08.claimguard: both claims are dominated by a successful GetDelegation for their key"},
		"keeper.Keeper.ClaimDelegationRewards | SENTINEL(types.ErrUnknownAsset)":                 {"precondition", "the same denom was found by GetAssetByDenom at the start of the operation"},
	},
	"keeper.MsgServer.ClaimDelegationRewards": {
		"keeper.MsgServer.ClaimDelegationRewards | NEW(status.Errorf#1)":                         {"request", "empty denom"},
		"keeper.Keeper.GetAllianceValidator | NEW(fmt.Errorf#1)":                                 {"request", "the validator does not exist in x/staking"},
		"keeper.Keeper.ClaimDelegationRewards | SENTINEL(stakingtypes.ErrNoDelegatorForAddress)": {"request", "the delegator has no position: nothing to claim"},
		"keeper.Keeper.ClaimDelegationRewards | SENTINEL(types.ErrUnknownAsset)":                 {"request", "unknown denom; an asset can be deleted only while nothing is staked in it (C16.delete), so no position with a positive balance is affected"},
	},
	"alliance.EndBlocker": {
		"keeper.Keeper.UpdateAllianceAsset | SENTINEL(types.ErrUnknownAsset)":           {"precondition", "RewardWeightChangeHook passes assets that GetAllAssets just loaded"},
		"keeper.Keeper.UpdateAllianceAsset | SENTINEL(types.ErrRewardWeightOutOfBound)": {"guarded", "C14.clamp: the decayed weight is clamped into the asset's own range before the call"},
		"keeper.Keeper.GetAllianceValidator | NEW(fmt.Errorf#1)":                        {"precondition", "validator info exists only for staking validators; AfterValidatorRemoved deletes it"},
		"types.ValidatePositiveDuration | NEW(fmt.Errorf#1)":                            {"precondition", "SetLastRewardClaimTime re-stores parameters that every writer validated (C17.accept)"},
	},
}

func originRule(id string, props []string, entry string, floor int) {
	originRuleMsg(id, props, entry, floor, "which must not fail (staking only logs a failing slash hook; a failing EndBlocker halts the chain); it is not in the reviewed table of excluded/guarded origins")
}

func originRuleMsg(id string, props []string, entry string, floor int, msg string) {
	register(&Rule{ID: id, Props: props, Floor: floor,
		Doc: "every business-error origin that can propagate to " + entry + " is in the reviewed table",
		Run: func(e *Engine, r *RuleRun) {
			fn := r.Need(entry)
			if fn == nil {
				return
			}
			oc := &originCtx{e: e, memo: map[*ssa.Function]originSet{}, busy: map[*ssa.Function]bool{}}
			set := oc.originsOf(fn)
			var keys []string
			for k := range set {
				keys = append(keys, k)
			}
			sort.Strings(keys)
			ext := 0
			table := errorOriginTable[entry]
			for _, k := range keys {
				o := set[k]
				if o.Kind == "EXT" || o.Kind == "PARSE" {
					ext++
					continue
				}
				if o.Kind == "NILREQ" {
					continue // the answer to a nil request pointer: never a valid request
				}
				pos := "-"
				if o.Pos != nil {
					pos = r.P(o.Pos)
				}
				fk := FuncKey(topFunc(o.Fn))
				construct := "origin:" + o.Kind + "(" + o.Name + ")"
				if v, ok := table[k]; ok {
					if prem, has := originPremises[entry+" | "+k]; has {
						// the reason of the entry rests on a fact about other code: checked, not assumed
						if holds, why := prem(e); !holds {
							r.Bad(fk, construct+" [premise]", "the reviewed reason for excluding this origin ("+v.reason+") no longer holds: "+why+"; the error can now reach "+entry, nil, pos)
							continue
						}
					}
					r.OK(fk, construct, v.kind+": "+v.reason, pos)
				} else {
					r.Bad(fk, construct, "a business error created here can propagate to "+entry+", "+msg, nil, pos)
				}
			}
			r.Check(ext > 0, entry, "external/parse origins", fmt.Sprintf("%d error origins from external keeper calls and parsing of stored data are assumptions (A2)", ext), "no external origins found: the propagation analysis is not reaching the call tree")
		}})
}

func init() {
	originRule("C08.origins", []string{"C08"}, "keeper.Hooks.BeforeValidatorSlashed", 4)
	originRule("C17.origins", []string{"C17"}, "alliance.EndBlocker", 5)
	userMsg := "a user operation that must succeed for every valid request in every reachable state; this origin is not in the reviewed table, which lists every rejection as `request` (the answer to an invalid request: unknown asset or validator, amount above the position, pending redelegation), `guarded` or `finding`"
	originRuleMsg("C05.origins.delegate", []string{"C05"}, "keeper.MsgServer.Delegate", 3, userMsg)
	originRuleMsg("C05.origins.undelegate", []string{"C05"}, "keeper.MsgServer.Undelegate", 3, userMsg)
	originRuleMsg("C05.origins.redelegate", []string{"C05", "C15"}, "keeper.MsgServer.Redelegate", 3, userMsg)
	originRuleMsg("C05.origins.claim", []string{"C05"}, "keeper.MsgServer.ClaimDelegationRewards", 3, userMsg)

	// CompleteRedelegations stops at the first error of DeleteRedelegation and returns the count: the bucket it was
	// working on is not deleted and is found again by every later block, so nothing behind it ever completes.  That is
	// tolerable for store failures (A2) and unparsable stored addresses only: DeleteRedelegation must not create
	// business errors of its own (round 8, C18h: "record not found" made the duplicate queue entries that a genesis
	// import leaves - InitGenesis queues every imported redelegation twice - block the queue for good).
	register(&Rule{ID: "C15.deletetotal", Props: []string{"C15", "C18", "C17"}, Floor: 1,
		Doc: "deleting a matured redelegation fails only on store or address-parse errors (it is idempotent for missing records)",
		Run: func(e *Engine, r *RuleRun) {
			fn := r.Need("keeper.Keeper.DeleteRedelegation")
			if fn == nil {
				return
			}
			oc := &originCtx{e: e, memo: map[*ssa.Function]originSet{}, busy: map[*ssa.Function]bool{}}
			set := oc.originsOf(fn)
			var keys []string
			for k := range set {
				keys = append(keys, k)
			}
			sort.Strings(keys)
			bad := 0
			for _, k := range keys {
				o := set[k]
				if o.Kind == "EXT" || o.Kind == "PARSE" || o.Kind == "NILREQ" {
					continue
				}
				bad++
				pos := "-"
				if o.Pos != nil {
					pos = r.P(o.Pos)
				}
				r.Bad(FuncKey(topFunc(o.Fn)), "origin:"+o.Kind+"("+o.Name+")", "DeleteRedelegation can fail with an error of the module's own making; CompleteRedelegations stops at the first error without removing the queue bucket, so one such entry (for instance the duplicate that a genesis import queues) keeps every later redelegation from completing: the onward-hop restriction is never lifted and the imported module stops behaving like the original", nil, pos)
			}
			if bad == 0 {
				r.OK(FuncKey(fn), "only external / parse error origins", fmt.Sprintf("%d origins, all store or address-parse errors", len(keys)), e.Pos(fn.Pos()))
			}
		}})

	register(&Rule{ID: "C08.claimguard", Props: []string{"C08", "C05"}, Floor: 5,
		Doc: "inside operations and callbacks a reward claim is dominated by a successful lookup of the same delegation (and asset in callbacks)",
		Run: func(e *Engine, r *RuleRun) {
			exempt := map[string]string{
				"keeper.MsgServer.ClaimDelegationRewards":      "user-facing: the error is the answer",
				"keeper.QueryServer.AllianceDelegationRewards": "query: has its own not-found answer",
				"bindings.QueryPlugin.GetDelegationRewards":    "query binding: the error is the answer",
			}
			for _, c := range e.CallersOf("keeper.Keeper.ClaimDelegationRewards") {
				fk := FuncKey(c.Fn)
				if p := c.Fn.Pkg.Pkg.Path(); p == pApp {
					continue
				}
				if why, ok := exempt[fk]; ok {
					r.OK(fk, "claim (exempt)", why, r.P(c.Instr))
					continue
				}
				fa := e.FA(c.Fn)
				call := c.Instr.(ssa.CallInstruction)
				del, val, denom := argT(fa, call, 1), argT(fa, call, 2), argT(fa, call, 3)
				okDel := fa.HasGuard(call, func(g Guard) bool {
					if !g.Pos || g.Cond.Op != "extract" || g.Cond.Name != "1" || !g.Cond.Args[0].IsCall("keeper.Keeper.GetDelegation") {
						return false
					}
					a := g.Cond.Args[0].CallArgsT()
					if !a[2].Eq(del) || !a[4].Eq(denom) {
						return false
					}
					// validator address belongs to the validator passed to the claim
					va := a[3]
					if va.Op == "extract" && va.Args[0].IsCall("types.AllianceValidator.GetValAddress") && va.Args[0].CallArgsT()[0].Eq(val) {
						return true
					}
					if val.Op == "extract" && val.Args[0].IsCall("keeper.Keeper.GetAllianceValidator") && val.Args[0].CallArgsT()[2].Eq(va) {
						return true
					}
					return false
				})
				construct := "claim for " + stripOrd(val.String()) + " dominated by found delegation"
				r.Check(okDel, fk, construct, "GetDelegation(same delegator, that validator's address, same denom) found", "ClaimDelegationRewards fails with ErrNoDelegatorForAddress when the position no longer exists; here it is called without a dominating successful lookup of that delegation, so the enclosing operation/callback fails instead of skipping", r.P(call))
				if fk == "keeper.Keeper.slashRedelegations" {
					okA := fa.HasGuard(call, func(g Guard) bool {
						return g.Pos && g.Cond.Op == "extract" && g.Cond.Name == "1" && g.Cond.Args[0].IsCall("keeper.Keeper.GetAssetByDenom") && g.Cond.Args[0].CallArgsT()[2].Eq(denom)
					})
					r.Check(okA, fk, "claim dominated by found asset", "GetAssetByDenom(same denom) found", "inside the slash callback the claim can fail with ErrUnknownAsset: the asset lookup that tolerates a missing asset comes after the claim", r.P(call))
				}
			}
		}})

	register(&Rule{ID: "C08.dstlookup", Props: []string{"C08", "C07", "C02"}, Floor: 1,
		Doc: "inside the slash callback the destination validator of a redelegation is looked up only after the destination position was found",
		Run: func(e *Engine, r *RuleRun) {
			fn := r.Need("keeper.Keeper.slashRedelegations")
			if fn == nil {
				return
			}
			fk, fa := FuncKey(fn), e.FA(fn)
			n := 0
			for _, c := range CallsTo(fn, "keeper.Keeper.GetAllianceValidator") {
				n++
				va := argT(fa, c, 1)
				ok := fa.HasGuard(c, func(g Guard) bool {
					if !g.Pos || g.Cond.Op != "extract" || g.Cond.Name != "1" || !g.Cond.Args[0].IsCall("keeper.Keeper.GetDelegation") {
						return false
					}
					a := g.Cond.Args[0].CallArgsT()
					return len(a) >= 5 && a[3].Eq(va)
				})
				r.Check(ok, fk, "destination validator lookup dominated by found destination position", "GetDelegation(delegator, that validator, denom) found", "GetAllianceValidator fails when x/staking has removed the destination validator; a pending redelegation record outlives the position it created (the delegator can undelegate everything and the validator can then be removed), so without a dominating successful lookup of that position one dangling record makes the whole slash callback fail: every pending unbonding and later redelegation of the slashed validator stays unslashed and no rebalance is queued", r.P(c))
			}
			if n == 0 {
				r.OK(fk, "destination validator lookup dominated by found destination position", "no validator lookup in the redelegation slash", e.Pos(fn.Pos()))
			}
		}})

	register(&Rule{ID: "C08.swallow", Props: []string{"C08"}, Floor: 1,
		Doc: "fact: x/staking does not propagate the error of BeforeValidatorSlashed (so assumption A1 must not be applied to the hook)",
		Run: func(e *Engine, r *RuleRun) {
			fn := e.Fn("stakingkeeper.Keeper.Slash")
			if fn == nil {
				r.Undecided("stakingkeeper.Keeper.Slash", "anchor", "x/staking Slash not found in the loaded program")
				return
			}
			fa := e.FA(fn)
			found := false
			for _, c := range Calls(fn) {
				if !strings.HasSuffix(CalleeKey(c.Common()), ".BeforeValidatorSlashed") {
					continue
				}
				found = true
				// is there a return of this error?
				propagated := false
				for _, ret := range Returns(fn) {
					ei := errResultIndex(fn)
					if ei >= 0 && ei < len(ret.Results) {
						if t := fa.Term(ret.Results[ei]); t.Contains(resultT(fa, c)) {
							propagated = true
						}
					}
				}
				if propagated {
					r.OK(FuncKey(fn), "hook error handling", "NOTE: this SDK version propagates the hook's error; the hook is then covered by tx atomicity", r.P(c))
				} else {
					r.OK(FuncKey(fn), "hook error handling", "the hook's error is logged and dropped (no return carries it): a failing alliance hook leaves the slash half-applied, hence every path of the hook counts", r.P(c))
				}
			}
			if !found {
				r.Undecided(FuncKey(fn), "hook call", "no call of BeforeValidatorSlashed in x/staking Slash")
			}
		}})
}

var ordRe = regexp.MustCompile(`@[0-9]+`)

// stripOrd removes instruction ordinals from a term string so that it can be used in a stable construct key.
func stripOrd(s string) string { return ordRe.ReplaceAllString(s, "") }


// ctorFamily: constructors that differ only in whether the text is a format (status.Error / status.Errorf,
// errors.New / fmt.Errorf) are one origin kind; the reviewed tables name the formatting one.
func ctorFamily(k string) string {
	switch k {
	case "status.Error":
		return "status.Errorf"
	case "errors.New":
		return "fmt.Errorf"
	}
	return k
}


// originPremises: table entries whose reason is a statement about other code carry that statement as a check.
var originPremises = map[string]func(e *Engine) (bool, string){
	// "validator info exists only for staking validators; AfterValidatorRemoved deletes it" - round 13 (C17m): once the
	// removal hook keeps the record of a removed validator (for instance while it carries shares, which is what a repair
	// of F14 has to do), every end-of-block walk over the info records looks up a validator that x/staking no longer
	// has; whether that error is swallowed or returned is then what decides between a silent skip and a halted chain.
	"alliance.EndBlocker | keeper.Keeper.GetAllianceValidator | NEW(fmt.Errorf#1)": func(e *Engine) (bool, string) {
		fn := e.Fn("keeper.Hooks.AfterValidatorRemoved")
		if fn == nil {
			return false, "keeper.Hooks.AfterValidatorRemoved does not resolve"
		}
		dels := callsAsInstrs(CallsTo(fn, "keeper.Keeper.DeleteValidatorInfo"))
		if len(dels) == 0 {
			return false, "AfterValidatorRemoved no longer deletes the validator info"
		}
		if trail := e.FA(fn).EntryMustPass(dels); trail != nil {
			return false, "AfterValidatorRemoved can return successfully without deleting the validator info (" + strings.Join(trail, " -> ") + "): info records of validators that x/staking has removed stay behind and the end-of-block lookups of them fail"
		}
		return true, ""
	},
}

// C10.infolive - the same premise, stated for the rebalance: RebalanceBondTokenWeights (and the two other end-of-block
// walks) iterate the validator-info records and stop at the first record whose validator x/staking does not have
// (the lookup error ends the callback and is then overwritten by the iterator's nil result).  A record that outlives
// its validator therefore silently cuts every validator behind it out of the rebalance (round 15, C10o: the removal
// hook kept the record while it has shares; validators sorting after the removed one were no longer adjusted).
func init() {
	register(&Rule{ID: "C10.infolive", Props: []string{"C10"}, Floor: 1,
		Doc: "validator-info records do not outlive their x/staking validator (the rebalance walk stops at such a record)",
		Run: func(e *Engine, r *RuleRun) {
			prem := originPremises["alliance.EndBlocker | keeper.Keeper.GetAllianceValidator | NEW(fmt.Errorf#1)"]
			holds, why := prem(e)
			r.Check(holds, "keeper.Hooks.AfterValidatorRemoved", "validator info removed with the validator", "DeleteValidatorInfo on every success path", "info records can outlive their validator: "+why+"; RebalanceBondTokenWeights stops its walk at the first such record, and every validator whose address sorts after it is neither counted nor adjusted any more")
		}})
}
