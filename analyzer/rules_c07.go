package main

import (
	"fmt"
	"go/types"
	"strings"

	"golang.org/x/tools/go/ssa"
)

// indexDerivedBucket reports whether the bucket decoded by the Unmarshal call `um` was fetched with a key
// derived from the per-validator unbonding index (prefix 0x32), and returns the index-key term.
func indexDerivedBucket(fa *FuncAnalysis, um ssa.CallInstruction) (bool, *Term) {
	src := argT(fa, um, 0)
	if !(src.Op == "ncall" || src.Op == "extract") {
		return false, nil
	}
	get := src
	if src.Op == "extract" {
		get = src.Args[0]
	}
	if !strings.HasSuffix(get.Name, "KVStore.Get") {
		return false, nil
	}
	key := get.CallArgsT()[1]
	var ik *Term
	key.Walk(func(x *Term) {
		if x.Op == "ncall" && strings.HasSuffix(x.Name, "Iterator.Key") && ik == nil {
			it := x.Args[0]
			switch {
			case it.IsCall("keeper.Keeper.IterateUndelegationsBySrcValidator"):
				ik = x
			case it.IsCall("storetypes.KVStorePrefixIterator"):
				p := it.CallArgsT()[1]
				if p.IsCall("types.GetUndelegationsIndexOrderedByValidatorKey") || (p.Op == "global" && p.Name == "types.UndelegationByValidatorIndexKey") {
					ik = x
				}
			}
		}
	})
	return ik != nil, ik
}

type entryLoop struct {
	fn    *ssa.Function
	phi   *ssa.Phi
	elem  *Term // *(bucket.Entries[i])
	um    ssa.CallInstruction
	ikey  *Term
	uses  []ssa.Instruction
	index bool
}

// undelegationEntryLoops finds the range loops over QueuedUndelegation.Entries in SM functions.
func (e *Engine) undelegationEntryLoops() []entryLoop {
	var out []entryLoop
	for _, fn := range e.SMFuncs() {
		fa := e.FA(fn)
		seen := map[*ssa.Phi]bool{}
		for _, b := range fn.Blocks {
			for _, in := range b.Instrs {
				ia, ok := in.(*ssa.IndexAddr)
				if !ok {
					continue
				}
				sl, ok := ia.X.Type().Underlying().(*types.Slice)
				if !ok || !isPointerTo(sl.Elem(), "types.Undelegation") {
					continue
				}
				st := fa.Term(ia.X)
				if !(st.Op == "field" && st.Name == "Entries" && st.Args[0].Op == "out") {
					continue
				}
				um, ok := st.Args[0].Instr.(ssa.CallInstruction)
				if !ok || !strings.HasSuffix(CalleeKey(um.Common()), "Unmarshal") {
					continue
				}
				phi := loopPhiOf(fa.Term(ia.Index))
				if phi == nil || seen[phi] {
					continue
				}
				seen[phi] = true
				// element pointer = load of the IndexAddr
				var elemPtr *Term
				for _, ref := range *ia.Referrers() {
					if u, ok := ref.(*ssa.UnOp); ok {
						elemPtr = fa.Term(u)
					}
				}
				if elemPtr == nil {
					continue
				}
				el := entryLoop{fn: fn, phi: phi, elem: &Term{Op: "deref", Args: []*Term{elemPtr}}, um: um}
				el.index, el.ikey = indexDerivedBucket(fa, um)
				loop := fa.NaturalLoop(phi.Block())
				ptrS := elemPtr.String()
				for _, lb := range fn.Blocks {
					if !loop[lb] {
						continue
					}
					for _, li := range lb.Instrs {
						switch x := li.(type) {
						case *ssa.Store:
							root, _, _ := fa.addrPath(x.Addr)
							if root == "ptr:"+ptrS || strings.Contains(fa.Term(x.Val).String(), ptrS) {
								el.uses = append(el.uses, li)
							}
						case ssa.CallInstruction:
							k := CalleeKey(x.Common())
							if isPure(k, x.Common()) && k != "builtin.append" {
								continue
							}
							for _, a := range x.Common().Args {
								if strings.Contains(fa.Term(a).String(), ptrS) {
									el.uses = append(el.uses, li)
									break
								}
							}
						}
					}
				}
				out = append(out, el)
			}
		}
	}
	return out
}

// eqGuardMentions: a dominating equality comparison one of whose sides is the given term.
func eqGuardOn(fa *FuncAnalysis, in ssa.Instruction, side *Term) (bool, *Term) {
	var other *Term
	ok := fa.HasGuard(in, func(g Guard) bool {
		if g.Cond.Op != "binop" || !((g.Cond.Name == "==" && g.Pos) || (g.Cond.Name == "!=" && !g.Pos)) {
			return false
		}
		if g.Cond.Args[0].Eq(side) {
			other = g.Cond.Args[1]
			return true
		}
		if g.Cond.Args[1].Eq(side) {
			other = g.Cond.Args[0]
			return true
		}
		return false
	})
	return ok, other
}

func scopeRule(id string, props []string, floor int, want func(fk string) bool, doc string) {
	register(&Rule{ID: id, Props: props, Floor: floor, Doc: doc, Run: func(e *Engine, r *RuleRun) {
		for _, el := range e.undelegationEntryLoops() {
			fk := FuncKey(el.fn)
			if !want(fk) {
				continue
			}
			fa := e.FA(el.fn)
			construct := "loop:QueuedUndelegation.Entries via per-validator index"
			if !el.index {
				r.OK(fk, "loop:QueuedUndelegation.Entries via primary key", "bucket reached by its own key: every entry belongs to the bucket being processed (exempt)", r.P(el.phi))
				continue
			}
			if len(el.uses) == 0 {
				r.Undecided(fk, construct, "loop over index-reached entries has no recognisable use of the entry", r.P(el.phi))
				continue
			}
			va := mkField(el.elem, "ValidatorAddress")
			dn := mkField(mkField(el.elem, "Balance"), "Denom")
			missing := ""
			var at ssa.Instruction
			for _, u := range el.uses {
				okV, ov := eqGuardOn(fa, u, va)
				okD, od := eqGuardOn(fa, u, dn)
				if !okV || !okD {
					what := []string{}
					if !okV {
						what = append(what, "validator")
					}
					if !okD {
						what = append(what, "denom")
					}
					missing = strings.Join(what, " and ")
					at = u
					break
				}
				// the compared values must come from the index key or from the function's filter parameters
				fromKeyOrParam := func(t *Term) bool {
					if strings.Contains(t.String(), "$") {
						return true
					}
					// a key of the same index iterator (iter.Key() may be called again inside the iteration)
					same := false
					t.Walk(func(x *Term) {
						if x.Op == "ncall" && strings.HasSuffix(x.Name, "Iterator.Key") && el.ikey != nil && x.Args[0].Eq(el.ikey.Args[0]) {
							same = true
						}
					})
					return same
				}
				if !fromKeyOrParam(ov) || !fromKeyOrParam(od) {
					missing = "validator/denom of the index key (compared with " + ov.String() + " / " + od.String() + ")"
					at = u
					break
				}
			}
			if missing != "" {
				r.Bad(fk, construct, "a bucket reached through the per-validator unbonding index holds every entry of that (time, delegator) pair; this loop uses each entry without comparing its "+missing+" with the index key: entries of other validators or denoms are affected/reported", nil, r.P(at), r.P(el.phi))
			} else {
				r.OK(fk, construct, fmt.Sprintf("all %d uses of the entry are guarded by equality of its validator and denom with the index key / filter", len(el.uses)), r.P(el.phi))
			}
		}
	}})
}

func init() {
	scopeRule("C07.scope", []string{"C07", "C02"}, 1, func(fk string) bool { return strings.Contains(fk, "slash") || !strings.Contains(fk, "GetUnbondings") },
		"slashing loops over index-reached unbonding entries filter by the index key's validator and denom")
	scopeRule("C20.scope", []string{"C20"}, 2, func(fk string) bool { return strings.Contains(fk, "GetUnbondings") },
		"query loops over index-reached unbonding entries filter by the index key's validator and denom")

	register(&Rule{ID: "C07.maturity", Props: []string{"C07"}, Floor: 4,
		Doc: "slashing of pending entries is dominated by the strict maturity skip completion < BlockTime (complement of the maturity scan)",
		Run: func(e *Engine, r *RuleRun) {
			type site struct {
				fn      string
				parser  string
				effects []string
			}
			for _, s := range []site{
				{"keeper.Keeper.slashUndelegations", "types.ParseUnbondingIndexKeyToUndelegationKey", []string{"types.BankKeeper.SendCoinsFromModuleToModule", "corestore.KVStore.Set"}},
				{"keeper.Keeper.slashRedelegations", "types.ParseRedelegationIndexForRedelegationKey", []string{"keeper.Keeper.SetValidator", "keeper.Keeper.SetDelegation", "keeper.Keeper.reduceDelegationShares"}},
			} {
				fn := r.Need(s.fn)
				if fn == nil {
					continue
				}
				fa := e.FA(fn)
				for _, c := range CallsTo(fn, s.effects...) {
					construct := "maturity guard at " + CalleeKey(c.Common())
					found, exact := false, false
					var seenFact string
					for _, f := range fa.FactsAt(c) {
						if f.TA == nil || f.TB == nil {
							continue
						}
						a, b, op := f.TA, f.TB, f.Op
						if isBlockTime(a) {
							a, b, op = b, a, flipOp[op]
						}
						if !isBlockTime(b) {
							continue
						}
						if a.Op == "extract" && a.Name == "1" && a.Args[0].IsCall(s.parser) {
							found = true
							seenFact = f.String()
							if op == ">=" {
								exact = true
							}
						}
					}
					if !found {
						r.Bad(s.fn, construct, "a slashing effect on a pending entry is not dominated by any comparison of the entry's completion time (parsed from the index key) with the block time: matured entries would be slashed", nil, r.P(c))
					} else if !exact {
						r.Bad(s.fn, construct, "the maturity test is not `skip iff completion < block time`: the dominating fact is "+seenFact+"; entries completing exactly at the block time are still pending (the maturity scan is end-exclusive) and must be slashed, entries before it must not", nil, r.P(c))
					} else {
						r.OK(s.fn, construct, "dominated by completion >= BlockTime (skip iff completion.Before(BlockTime))", r.P(c))
					}
				}
			}
		}})

	register(&Rule{ID: "C07.redel.amount", Props: []string{"C07", "C03", "C06"}, Floor: 6,
		Doc: "the destination position of a pending redelegation is reduced by trunc(fraction*recorded balance), capped by ValidateDelegatedAmount, same term on delegation and validator",
		Run: func(e *Engine, r *RuleRun) {
			fn := r.Need("keeper.Keeper.slashRedelegations")
			if fn == nil {
				return
			}
			fk, fa := FuncKey(fn), e.FA(fn)
			vd := r.One(fn, "shares to slash", "keeper.Keeper.ValidateDelegatedAmount")
			um := r.One(fn, "decode record", "codec.BinaryCodec.MustUnmarshal")
			if vd == nil || um == nil {
				return
			}
			rec := &Term{Op: "out", Name: CalleeKey(um.Common()) + "@" + fmt.Sprint(fa.ord[um])}
			src := argT(fa, um, 0)
			okSrc := src.Op == "extract" && strings.HasSuffix(src.Args[0].Name, "KVStore.Get")
			if okSrc {
				k := src.Args[0].CallArgsT()[1]
				okSrc = k.Op == "extract" && k.Name == "0" && k.Args[0].IsCall("types.ParseRedelegationIndexForRedelegationKey") && strings.HasSuffix(k.Args[0].Args[0].Name, "Iterator.Key")
			}
			r.Check(okSrc, fk, "record addressed by the index key", "store.Get(ParseRedelegationIndexForRedelegationKey(iter.Key()))", "the redelegation record is read from "+src.String(), r.P(um))
			coin := argT(fa, vd, 1)
			bal := mkField(rec, "Balance")
			okAmt := coin.IsCall("sdk.NewCoin") && coin.Args[0].Eq(mkField(bal, "Denom")) && coin.Args[1].IsCall("math.LegacyDec.TruncateInt") &&
				coin.Args[1].Args[0].IsCall("math.LegacyDec.MulInt") && coin.Args[1].Args[0].Args[0].Op == "param" && coin.Args[1].Args[0].Args[1].Eq(mkField(bal, "Amount"))
			r.Check(okAmt, fk, "tokens to slash == trunc(fraction * recorded balance)", "NewCoin(record.Balance.Denom, fraction.MulInt(record.Balance.Amount).TruncateInt())", "the amount slashed from the destination is "+coin.String(), r.P(vd))
			dl := argT(fa, vd, 0)
			okDl := dl.Op == "extract" && dl.Args[0].IsCall("keeper.Keeper.GetDelegation")
			if okDl {
				a := dl.Args[0].CallArgsT()
				parsed := func(t *Term, parser, field string) bool {
					return t.Op == "extract" && t.Name == "0" && t.Args[0].IsCall(parser) && t.Args[0].Args[0].Eq(mkField(rec, field))
				}
				okDl = parsed(a[2], "sdk.AccAddressFromBech32", "DelegatorAddress") && parsed(a[3], "sdk.ValAddressFromBech32", "DstValidatorAddress") && a[4].Eq(mkField(bal, "Denom"))
			}
			r.Check(okDl, fk, "position slashed is (record delegator, record destination, record denom)", "GetDelegation(parse(record.DelegatorAddress), parse(record.DstValidatorAddress), record.Balance.Denom)", "the position slashed is "+dl.String(), r.P(vd))
			sh := extractT(fa, vd, 0)
			// capped variant: sharesToSlash = validated amount, or everything the position holds when that fails
			for _, b := range fn.Blocks {
				for _, in := range b.Instrs {
					if phi, ok := in.(*ssa.Phi); ok {
						hasV, okAll := false, true
						for _, ed := range phi.Edges {
							t := fa.Term(ed)
							switch {
							case t.Eq(sh):
								hasV = true
							case t.Eq(mkField(dl, "Shares")):
							default:
								okAll = false
							}
						}
						if hasV && okAll {
							sh = fa.Term(phi)
						}
					}
				}
			}
			// the delegation is reduced either in place (Shares := Shares.Sub(sh)) or through reduceDelegationShares(.., sh, delegation),
			// which subtracts its shares parameter from the delegation it is given and deletes the record at zero (C03.pair.delegation)
			sts := StoresToField(fn, "types.Delegation", "Shares")
			reds := CallsTo(fn, "keeper.Keeper.reduceDelegationShares")
			okS := false
			var persistD ssa.Instruction
			switch {
			case len(sts) == 1 && len(reds) == 0:
				v := fa.Term(sts[0].Val)
				okS = v.IsCall("math.LegacyDec.Sub") && v.Args[0].Eq(mkField(dl, "Shares")) && v.Args[1].Eq(sh)
				if sd := CallsTo(fn, "keeper.Keeper.SetDelegation"); len(sd) == 1 {
					persistD = sd[0]
				}
			case len(sts) == 0 && len(reds) == 1:
				okS = argT(fa, reds[0], 4).Eq(sh) && argT(fa, reds[0], 5).Eq(dl) && argT(fa, reds[0], 1).Eq(dl.Args[0].CallArgsT()[2])
				persistD = reds[0]
			}
			r.Check(okS, fk, "delegation shares reduced by the validated amount", "Shares := Shares.Sub(sharesToSlash), in place or through reduceDelegationShares(.., sharesToSlash, that delegation)", "delegation shares are not reduced by exactly the ValidateDelegatedAmount result", r.P(vd))
			vs := StoresToField(fn, "types.AllianceValidatorInfo", "TotalDelegatorShares")
			okV := len(vs) == 1
			if okV {
				v := fa.Term(vs[0].Val)
				okV = v.IsCall("sdk.DecCoins.Sub") && strings.Contains(v.Args[1].String(), sh.String())
				if okV {
					el := singleCoin(&Term{Op: "call", Name: "sdk.NewCoins", Args: []*Term{v.Args[1].Args[0]}})
					okV = el != nil && el.IsCall("sdk.NewDecCoinFromDec") && el.Args[1].Eq(sh)
				}
			}
			r.Check(okV, fk, "validator's delegator-share total reduced by the same amount", "TotalDelegatorShares.Sub([denom, sharesToSlash])", "the validator's delegator-share total is not reduced by the same shares as the delegation", r.P(vd))
			setV := CallsTo(fn, "keeper.Keeper.SetValidator")
			if persistD != nil && len(setV) == 1 && len(vs) == 1 {
				if trail := fa.MustFollow(vs[0], []ssa.Instruction{setV[0]}); trail != nil {
					r.Bad(fk, "both reductions persisted", "validator share total reduced in memory but not persisted", trail, r.P(vs[0]))
				} else if trail := fa.MustFollow(setV[0], []ssa.Instruction{persistD}); trail != nil {
					r.Bad(fk, "both reductions persisted", "a success path persists the validator's reduced total without persisting the reduced delegation", trail, r.P(setV[0]))
				} else {
					r.OK(fk, "both reductions persisted", "SetValidator then the delegation write on every success path", r.P(persistD))
				}
			} else {
				r.Bad(fk, "both reductions persisted", "expected one SetValidator and one write of the reduced delegation (SetDelegation or reduceDelegationShares)", nil)
			}
		}})

	register(&Rule{ID: "C07.keydetermines", Props: []string{"C07", "C18"}, Floor: 3,
		Doc: "an upserted record only takes parameter values that are attributes of its key",
		Run: func(e *Engine, r *RuleRun) {
			fn := r.Need("keeper.Keeper.addRedelegation")
			if fn == nil {
				return
			}
			fk, fa := FuncKey(fn), e.FA(fn)
			var keyT *Term
			for _, c := range CallsTo(fn, "corestore.KVStore.Get", "storetypes.KVStore.Get") {
				keyT = argT(fa, c, 0)
			}
			lits := LiteralAllocs(fa, fn, "types.Redelegation")
			if keyT == nil || !keyT.IsCall("types.GetRedelegationKey") {
				r.Undecided(fk, "upsert key", "cannot find the Get(GetRedelegationKey(...)) of the upsert")
				return
			}
			// the literal may be assigned directly to the local: find the init stores of the local record
			fields := map[string]*Term{}
			if len(lits) > 0 {
				fields = complitFields(fa, lits[0])
				// the record local itself may come first (it takes a field update on the merge path and a whole copy of the
				// literal on the create path): the literal is the local that is given the key attributes
				for _, l := range lits {
					if f := complitFields(fa, l); f["DelegatorAddress"] != nil && fields["DelegatorAddress"] == nil {
						fields = f
					}
				}
			} else {
				for _, b := range fn.Blocks {
					for _, in := range b.Instrs {
						if st, ok := in.(*ssa.Store); ok {
							if f, ok := st.Addr.(*ssa.FieldAddr); ok && typeKey(f.X.Type()) == "types.Redelegation" && isInitStore(fa, st) {
								fields[derefStruct(f.X.Type()).Field(f.Field).Name()] = fa.Term(st.Val)
							}
						}
					}
				}
			}
			if len(fields) == 0 {
				r.Undecided(fk, "record literal", "cannot find the literal that creates the record")
				return
			}
			keyParams := map[string]bool{}
			keyT.Walk(func(x *Term) {
				if x.Op == "param" {
					keyParams[x.Name] = true
				}
			})
			for _, f := range []string{"DelegatorAddress", "SrcValidatorAddress", "DstValidatorAddress", "Balance"} {
				v := fields[f]
				if v == nil {
					r.Bad(fk, "field:Redelegation."+f, "record literal does not set "+f, nil)
					continue
				}
				var params []string
				v.Walk(func(x *Term) {
					if x.Op == "param" {
						params = append(params, x.Name)
					}
				})
				ok := true
				for _, p := range params {
					if !keyParams[p] {
						ok = false
					}
				}
				construct := "field:Redelegation." + f + " vs key " + KeyClass(keyT)
				if ok {
					r.OK(fk, construct, "value derives only from key attributes "+strings.Join(params, ","), r.P(fn.Blocks[0].Instrs[0]))
				} else {
					r.Bad(fk, construct, "the record is upserted under key "+keyT.String()+" but its field "+f+" is set from "+strings.Join(params, ",")+", which is not part of the key: a second write under the same key with a different value is merged into the first record and the field silently keeps the first value (while the by-source index keeps them apart)", nil, e.Pos(fn.Pos()))
				}
			}
		}})
}
