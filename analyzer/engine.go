package main

import (
	"fmt"
	"go/ast"
	"go/token"
	"go/types"
	"os"
	"path/filepath"
	"sort"
	"strings"

	"golang.org/x/tools/go/packages"
	"golang.org/x/tools/go/ssa"
	"golang.org/x/tools/go/ssa/ssautil"
)

// Package path aliases used in every key the rules and tables mention.
const (
	modPath       = "github.com/terra-money/alliance"
	pKeeper       = modPath + "/x/alliance/keeper"
	pTypes        = modPath + "/x/alliance/types"
	pAlliance     = modPath + "/x/alliance"
	pBindings     = modPath + "/x/alliance/bindings"
	pBindTypes    = modPath + "/x/alliance/bindings/types"
	pMigV4        = modPath + "/x/alliance/migrations/v4"
	pMigV5        = modPath + "/x/alliance/migrations/v5"
	pBank         = modPath + "/custom/bank"
	pBankKeeper   = modPath + "/custom/bank/keeper"
	pBankTypes    = modPath + "/custom/bank/types"
	pApp          = modPath + "/app"
	pStakingKeep  = "github.com/cosmos/cosmos-sdk/x/staking/keeper"
	pStakingTypes = "github.com/cosmos/cosmos-sdk/x/staking/types"
)

var aliases = map[string]string{
	pKeeper:                              "keeper",
	pTypes:                               "types",
	pAlliance:                            "alliance",
	pBindings:                            "bindings",
	pBindTypes:                           "bindtypes",
	pMigV4:                               "migv4",
	pMigV5:                               "migv5",
	pBank:                                "bank",
	pBankKeeper:                          "bankkeeper",
	pBankTypes:                           "banktypes",
	pApp:                                 "app",
	pStakingKeep:                         "stakingkeeper",
	pStakingTypes:                        "stakingtypes",
	"github.com/cosmos/cosmos-sdk/types": "sdk",
	"github.com/cosmos/cosmos-sdk/types/address":       "address",
	"github.com/cosmos/cosmos-sdk/types/query":         "query",
	"github.com/cosmos/cosmos-sdk/types/errors":        "sdkerrors",
	"github.com/cosmos/cosmos-sdk/runtime":             "runtime",
	"github.com/cosmos/cosmos-sdk/codec":               "codec",
	"github.com/cosmos/cosmos-sdk/telemetry":           "telemetry",
	"github.com/cosmos/cosmos-sdk/x/bank/keeper":       "sdkbankkeeper",
	"github.com/cosmos/cosmos-sdk/x/bank/types":        "sdkbanktypes",
	"github.com/cosmos/cosmos-sdk/x/auth/keeper":       "authkeeper",
	"github.com/cosmos/cosmos-sdk/x/gov/types":         "govtypes",
	"github.com/cosmos/cosmos-sdk/x/gov/types/v1beta1": "govv1beta1",
	"github.com/cosmos/cosmos-sdk/x/params/types":      "paramtypes",
	"cosmossdk.io/math":                                "math",
	"cosmossdk.io/errors":                              "errorsmod",
	"cosmossdk.io/core/store":                          "corestore",
	"cosmossdk.io/store/types":                         "storetypes",
	"cosmossdk.io/store/prefix":                        "prefix",
	"cosmossdk.io/store":                               "cstore",
	"google.golang.org/grpc/status":                    "status",
	"google.golang.org/grpc/codes":                     "codes",
}

// State-machine scope: packages in which rules look for constructs.
var smPkgs = map[string]bool{
	pKeeper: true, pTypes: true, pAlliance: true, pBindings: true, pBindTypes: true,
	pMigV4: true, pMigV5: true, pBank: true, pBankKeeper: true, pBankTypes: true,
}

type Engine struct {
	writesMemo map[*ssa.Function]bool
	globalInit map[*ssa.Global]*Term
	Dir        string
	transient  map[*types.TypeName]bool
	Pkgs       []*packages.Package
	ByPath     map[string]*packages.Package
	Prog       *ssa.Program
	SSA        map[string]*ssa.Package
	Fset       *token.FileSet

	// all source functions (incl. anonymous) in SM packages, app and staking keeper
	SrcFuncs []*ssa.Function
	fnByKey  map[string]*ssa.Function

	stats struct {
		Packages, Funcs, Instrs, CallsResolved, CallsDynamic int
	}
	fa map[*ssa.Function]*FuncAnalysis

	// source-level inlining of new helpers (inline.go)
	Inlined     []string
	InlineNotes []string
	Overlay     map[string][]byte // the source files as analysed, where they differ from the files on disk
	implCache   map[*types.Interface][]types.Type
	DeadHelpers []string
}

func alias(path string) string {
	if a, ok := aliases[path]; ok {
		return a
	}
	return path
}

// Load type-checks the working tree under dir and builds SSA for the module's packages.  New unexported helpers
// (functions that the reviewed tree does not have) are inlined at source level first, see inline.go.
func Load(dir string) (*Engine, error) {
	e, err := loadOverlay(dir, nil)
	if err != nil || os.Getenv("ALLIANCECHECK_NOINLINE") != "" {
		return e, err
	}
	overlay := map[string][]byte{}
	var sigNotes []string
	// parameter objects and dropped results first: what is left may be a permutation of the reviewed signature
	for round := 0; round < 4; round++ {
		ov, nts := expandParamObjects(e.Pkgs, readSource(overlay))
		if len(ov) == 0 {
			sigNotes = append(sigNotes, nts...)
			break
		}
		merged := map[string][]byte{}
		for k, v := range overlay {
			merged[k] = v
		}
		for k, v := range ov {
			merged[k] = v
		}
		if d := os.Getenv("ALLIANCECHECK_DEBUG_INLINE"); strings.HasPrefix(d, "/") {
			for k, v := range ov {
				_ = os.WriteFile(filepath.Join(d, fmt.Sprintf("po%d_%s", round, filepath.Base(k))), v, 0o644)
			}
		}
		e2, err2 := loadOverlay(dir, merged)
		if err2 != nil {
			sigNotes = append(sigNotes, "parameter-object expansion abandoned: "+strings.SplitN(err2.Error(), "\n", 3)[0])
			break
		}
		e, overlay = e2, merged
		sigNotes = append(sigNotes, nts...)
	}
	if ov, nts := restoreDroppedResults(e.Pkgs, readSource(overlay)); len(ov) > 0 {
		merged := map[string][]byte{}
		for k, v := range overlay {
			merged[k] = v
		}
		for k, v := range ov {
			merged[k] = v
		}
		if d := os.Getenv("ALLIANCECHECK_DEBUG_INLINE"); strings.HasPrefix(d, "/") {
			for k, v := range ov {
				_ = os.WriteFile(filepath.Join(d, "dr_"+filepath.Base(k)), v, 0o644)
			}
		}
		if e2, err2 := loadOverlay(dir, merged); err2 == nil {
			e, overlay = e2, merged
			sigNotes = append(sigNotes, nts...)
		} else {
			sigNotes = append(sigNotes, "result restoration abandoned: "+strings.SplitN(err2.Error(), "\n", 3)[0])
		}
	} else {
		sigNotes = append(sigNotes, nts...)
	}
	if ov, nts := restoreNarrowedParams(e.Pkgs, readSource(overlay)); len(ov) > 0 {
		merged := map[string][]byte{}
		for k, v := range overlay {
			merged[k] = v
		}
		for k, v := range ov {
			merged[k] = v
		}
		if d := os.Getenv("ALLIANCECHECK_DEBUG_INLINE"); strings.HasPrefix(d, "/") {
			for k, v := range ov {
				_ = os.WriteFile(filepath.Join(d, "np_"+filepath.Base(k)), v, 0o644)
			}
		}
		if e2, err2 := loadOverlay(dir, merged); err2 == nil {
			e, overlay = e2, merged
			sigNotes = append(sigNotes, nts...)
		} else {
			sigNotes = append(sigNotes, "parameter widening abandoned: "+strings.SplitN(err2.Error(), "\n", 3)[0])
		}
	}
	if ov, nts := normaliseSignatures(e.Pkgs, readSource(overlay)); len(ov) > 0 {
		if d := os.Getenv("ALLIANCECHECK_DEBUG_INLINE"); strings.HasPrefix(d, "/") {
			for k, v := range ov {
				_ = os.WriteFile(filepath.Join(d, "sig_"+filepath.Base(k)), v, 0o644)
			}
		}
		if e2, err2 := loadOverlay(dir, ov); err2 == nil {
			e = e2
			overlay = ov
			sigNotes = nts
		} else {
			sigNotes = append(nts, "signature normalisation abandoned: "+strings.SplitN(err2.Error(), "\n", 3)[0])
		}
	} else {
		sigNotes = nts
	}
	if ov, nts := dropConstParams(e.Pkgs, readSource(overlay)); len(ov) > 0 {
		merged := map[string][]byte{}
		for k, v := range overlay {
			merged[k] = v
		}
		for k, v := range ov {
			merged[k] = v
		}
		if e2, err2 := loadOverlay(dir, merged); err2 == nil {
			e, overlay = e2, merged
			sigNotes = append(sigNotes, nts...)
		} else {
			sigNotes = append(sigNotes, "constant-parameter removal abandoned: "+strings.SplitN(err2.Error(), "\n", 3)[0])
		}
	} else {
		sigNotes = append(sigNotes, nts...)
	}
	if ov, nts := synthFlagSplit(e.Pkgs, readSource(overlay)); len(ov) > 0 {
		merged := map[string][]byte{}
		for k, v := range overlay {
			merged[k] = v
		}
		for k, v := range ov {
			merged[k] = v
		}
		if e2, err2 := loadOverlay(dir, merged); err2 == nil {
			e, overlay = e2, merged
			sigNotes = append(sigNotes, nts...)
		} else {
			sigNotes = append(sigNotes, "flag-split reconstruction abandoned: "+strings.SplitN(err2.Error(), "\n", 3)[0])
		}
	} else {
		sigNotes = append(sigNotes, nts...)
	}
	funcRenames = detectRenames(e.Pkgs)
	if len(funcRenames) > 0 {
		// keys are computed while loading: load again with the rename table in place
		if e2, err2 := loadOverlay(dir, overlay); err2 == nil {
			e = e2
		}
	}
	var inlined, notes []string
	notes = append(notes, sigNotes...)
	if ov, nts := etaExpandMethodValues(e.Pkgs, readSource(overlay)); len(ov) > 0 {
		merged := map[string][]byte{}
		for k, v := range overlay {
			merged[k] = v
		}
		for k, v := range ov {
			merged[k] = v
		}
		if e2, err2 := loadOverlay(dir, merged); err2 == nil {
			e, overlay = e2, merged
			notes = append(notes, nts...)
		} else {
			notes = append(notes, "method-value expansion abandoned: "+strings.SplitN(err2.Error(), "\n", 3)[0])
		}
	}
	cur := e
	inlSeq = 0
	for round := 0; round < 4; round++ {
		if nov, nn := inlineNamedConds(cur.Pkgs, readSource(overlay)); len(nov) > 0 {
			merged := map[string][]byte{}
			for k, v := range overlay {
				merged[k] = v
			}
			for k, v := range nov {
				merged[k] = v
			}
			if nx, err := loadOverlay(dir, merged); err == nil {
				cur, overlay = nx, merged
				notes = append(notes, nn...)
			}
		}
		if hov, hn := hoistCondCalls(cur.Pkgs, readSource(overlay)); len(hov) > 0 {
			merged := map[string][]byte{}
			for k, v := range overlay {
				merged[k] = v
			}
			for k, v := range hov {
				merged[k] = v
			}
			if nx, err := loadOverlay(dir, merged); err == nil {
				cur, overlay = nx, merged
				notes = append(notes, hn...)
			}
		}
		ov, done, nts := inlineNewHelpers(cur.Pkgs, readSource(overlay))
		notes = append(notes, nts...)
		if len(ov) > 0 {
			for k, v := range ov {
				overlay[k] = v
			}
			if d := os.Getenv("ALLIANCECHECK_DEBUG_INLINE"); strings.HasPrefix(d, "/") {
				for k, v := range ov {
					_ = os.WriteFile(filepath.Join(d, fmt.Sprintf("r%d_%s", round, filepath.Base(k))), v, 0o644)
				}
			}
			next, err := loadOverlay(dir, overlay)
			if err != nil {
				// the rewrite did not type-check: analyse the program as it is written
				e.InlineNotes = append(notes, "inlining abandoned: "+strings.SplitN(err.Error(), "\n", 3)[0]+" ...")
				curEngine = e
				return e, nil
			}
			inlined = append(inlined, done...)
			cur = next
		}
		// loops over constant tables of closures are written out (one block per element)
		tov, tnts := unrollConstTables(cur.Pkgs, readSource(overlay))
		notes = append(notes, tnts...)
		if len(tov) > 0 {
			merged := map[string][]byte{}
			for k, v := range overlay {
				merged[k] = v
			}
			for k, v := range tov {
				merged[k] = v
			}
			if d := os.Getenv("ALLIANCECHECK_DEBUG_INLINE"); strings.HasPrefix(d, "/") {
				for k, v := range tov {
					_ = os.WriteFile(filepath.Join(d, fmt.Sprintf("t%d_%s", round, filepath.Base(k))), v, 0o644)
				}
			}
			if nx, err := loadOverlay(dir, merged); err == nil {
				cur, overlay = nx, merged
			} else {
				notes = append(notes, "table unrolling abandoned: "+strings.SplitN(err.Error(), "\n", 3)[0])
				tov = nil
			}
		}
		// local closures that are only called (what an inlined callback-taking helper leaves behind)
		cov, cdone, cnts := inlineLocalClosures(cur.Pkgs, readSource(overlay))
		notes = append(notes, cnts...)
		if len(cov) > 0 {
			merged := map[string][]byte{}
			for k, v := range overlay {
				merged[k] = v
			}
			for k, v := range cov {
				merged[k] = v
			}
			if d := os.Getenv("ALLIANCECHECK_DEBUG_INLINE"); strings.HasPrefix(d, "/") {
				for k, v := range cov {
					_ = os.WriteFile(filepath.Join(d, fmt.Sprintf("c%d_%s", round, filepath.Base(k))), v, 0o644)
				}
			}
			if nx, err := loadOverlay(dir, merged); err == nil {
				cur, overlay = nx, merged
				inlined = append(inlined, cdone...)
			} else {
				notes = append(notes, "closure inlining abandoned: "+strings.SplitN(err.Error(), "\n", 3)[0])
				cov = nil
			}
		}
		if len(ov) == 0 && len(cov) == 0 && len(tov) == 0 {
			break
		}
	}
	// method objects back to locals (after every helper and method has been inlined)
	if sov, snts := scalarReplaceTransients(cur, readSource(overlay)); len(sov) > 0 {
		merged := map[string][]byte{}
		for k, v := range overlay {
			merged[k] = v
		}
		for k, v := range sov {
			merged[k] = v
		}
		if d := os.Getenv("ALLIANCECHECK_DEBUG_INLINE"); strings.HasPrefix(d, "/") {
			for k, v := range sov {
				_ = os.WriteFile(filepath.Join(d, "s_"+filepath.Base(k)), v, 0o644)
			}
		}
		if nx, err := loadOverlay(dir, merged); err == nil {
			cur, overlay = nx, merged
			notes = append(notes, snts...)
		} else {
			notes = append(notes, "scalar replacement abandoned: "+strings.SplitN(err.Error(), "\n", 3)[0])
		}
	} else {
		notes = append(notes, snts...)
	}
	cur.Inlined = inlined
	cur.InlineNotes = notes
	cur.Overlay = overlay
	cur.hideDeadHelpers()
	curEngine = cur
	return cur, nil
}

// hideDeadHelpers removes new unexported functions without any remaining caller from the rule-visible function lists
// (they are the left-over declarations of inlined helpers, or dead code).
func (e *Engine) hideDeadHelpers() {
	called := map[*ssa.Function]bool{}
	for _, fn := range e.SrcFuncs {
		for _, b := range fn.Blocks {
			for _, in := range b.Instrs {
				if c, ok := in.(ssa.CallInstruction); ok {
					if cal := c.Common().StaticCallee(); cal != nil {
						called[cal] = true
					}
				}
				// function values
				for _, op := range in.Operands(nil) {
					if op != nil && *op != nil {
						if f, ok := (*op).(*ssa.Function); ok {
							called[f] = true
						}
					}
				}
			}
		}
	}
	wasInlined := map[string]bool{}
	for _, k := range e.Inlined {
		wasInlined[k] = true
	}
	var keep []*ssa.Function
	for _, fn := range e.SrcFuncs {
		top := topFunc(fn)
		k := FuncKey(top)
		// (an exported new function is hidden only if it was inlined at its call sites: without callers in the module
		// it may still be an entry point for other code, and stays visible to the who-may tables)
		if smPkgs[top.Pkg.Pkg.Path()] && !baselineFuncs[k] && !called[top] && top.Object() != nil && (!top.Object().Exported() || wasInlined[k]) && top.Name() != "init" {
			e.DeadHelpers = append(e.DeadHelpers, FuncKey(fn))
			delete(e.fnByKey, FuncKey(fn))
			continue
		}
		keep = append(keep, fn)
	}
	e.SrcFuncs = keep
}

func loadOverlay(dir string, overlay map[string][]byte) (*Engine, error) {
	os.Unsetenv("GOWORK")
	cfg := &packages.Config{
		Mode: packages.LoadSyntax, Dir: dir, Tests: false, Overlay: overlay,
		// -trimpath keeps the directory out of the build cache keys, so that the export data of unchanged packages is
		// shared between scratch copies of the repository (the self-test analyses hundreds of them)
		BuildFlags: []string{"-trimpath"},
		Env:        append(os.Environ(), "GOFLAGS=-mod=mod", "GOPROXY=off", "GOSUMDB=off", "GOTOOLCHAIN=local", "GOWORK=off"),
	}
	pkgs, err := packages.Load(cfg, "./x/alliance/...", "./custom/...", "./app/...", pStakingKeep)
	if err != nil {
		return nil, fmt.Errorf("load: %v", err)
	}
	e := &Engine{Dir: dir, Pkgs: pkgs, ByPath: map[string]*packages.Package{}, SSA: map[string]*ssa.Package{},
		fnByKey: map[string]*ssa.Function{}, fa: map[*ssa.Function]*FuncAnalysis{}}
	var errs []string
	for _, p := range pkgs {
		e.ByPath[p.PkgPath] = p
		for _, pe := range p.Errors {
			errs = append(errs, p.PkgPath+": "+pe.Error())
		}
		if p.Fset != nil {
			e.Fset = p.Fset
		}
	}
	if len(errs) > 0 {
		sort.Strings(errs)
		if len(errs) > 8 {
			errs = errs[:8]
		}
		return nil, fmt.Errorf("type errors in loaded packages:\n  %s", strings.Join(errs, "\n  "))
	}
	for p := range smPkgs {
		if e.ByPath[p] == nil {
			return nil, fmt.Errorf("state-machine package %s was not loaded", p)
		}
	}
	if e.ByPath[pApp] == nil || e.ByPath[pStakingKeep] == nil {
		return nil, fmt.Errorf("app or x/staking/keeper package was not loaded")
	}
	prog, spkgs := ssautil.Packages(pkgs, ssa.InstantiateGenerics)
	prog.Build()
	e.Prog = prog
	for i, sp := range spkgs {
		if sp != nil {
			e.SSA[pkgs[i].PkgPath] = sp
		}
	}
	e.stats.Packages = len(pkgs)
	// index functions
	want := func(path string) bool { return smPkgs[path] || path == pApp || path == pStakingKeep }
	for fn := range ssautil.AllFunctions(prog) {
		if fn.Pkg == nil || fn.Synthetic != "" || fn.Blocks == nil {
			continue
		}
		if !want(fn.Pkg.Pkg.Path()) {
			continue
		}
		if e.isGenerated(fn.Pos()) {
			continue
		}
		e.SrcFuncs = append(e.SrcFuncs, fn)
	}
	sort.Slice(e.SrcFuncs, func(i, j int) bool { return e.SrcFuncs[i].Pos() < e.SrcFuncs[j].Pos() })
	for _, fn := range e.SrcFuncs {
		k := FuncKey(fn)
		if _, dup := e.fnByKey[k]; !dup {
			e.fnByKey[k] = fn
		}
		if smPkgs[fn.Pkg.Pkg.Path()] {
			e.stats.Funcs++
			for _, b := range fn.Blocks {
				e.stats.Instrs += len(b.Instrs)
				for _, in := range b.Instrs {
					if c, ok := in.(ssa.CallInstruction); ok {
						if c.Common().StaticCallee() != nil || c.Common().IsInvoke() {
							e.stats.CallsResolved++
						} else if _, isB := c.Common().Value.(*ssa.Builtin); isB {
							e.stats.CallsResolved++
						} else {
							e.stats.CallsDynamic++
						}
					}
				}
			}
		}
	}
	curEngine = e
	return e, nil
}

func (e *Engine) isGenerated(pos token.Pos) bool {
	if !pos.IsValid() {
		return false
	}
	f := e.Fset.Position(pos).Filename
	return strings.HasSuffix(f, ".pb.go") || strings.HasSuffix(f, ".pb.gw.go")
}

// SMFuncs returns the source functions of the state-machine scope.
func (e *Engine) SMFuncs() []*ssa.Function {
	var out []*ssa.Function
	for _, fn := range e.SrcFuncs {
		if smPkgs[fn.Pkg.Pkg.Path()] {
			out = append(out, fn)
		}
	}
	return out
}

// FuncKey: "keeper.Keeper.Delegate", "types.GetAssetKey", "keeper.Keeper.UpdateAllianceAsset$1" for closures.
func FuncKey(fn *ssa.Function) string {
	if fn == nil {
		return "<nil>"
	}
	if fn.Parent() != nil {
		// anonymous: parent key + $n
		name := fn.Name() // e.g. UpdateAllianceAsset$1
		idx := strings.LastIndex(name, "$")
		suffix := ""
		if idx >= 0 {
			suffix = name[idx:]
		}
		return FuncKey(fn.Parent()) + suffix
	}
	pkg := ""
	if fn.Pkg != nil {
		pkg = alias(fn.Pkg.Pkg.Path())
	} else if fn.Object() != nil && fn.Object().Pkg() != nil {
		pkg = alias(fn.Object().Pkg().Path())
	}
	if fn.Signature != nil && fn.Signature.Recv() != nil {
		return renamed(pkg + "." + recvName(fn.Signature.Recv().Type()) + "." + fn.Name())
	}
	if o := fn.Origin(); o != nil && o != fn {
		return FuncKey(o)
	}
	return renamed(pkg + "." + fn.Name())
}

// funcRenames maps the key of a function of the current tree to the key it had in the reviewed tree when it is the
// unique unexported function that took the place of a reviewed function with the same receiver and parameter types
// (a rename).  Rules and tables keep addressing it by the reviewed name.
var funcRenames = map[string]string{}

func renamed(k string) string {
	if o, ok := funcRenames[k]; ok {
		return o
	}
	return k
}

func recvName(t types.Type) string {
	if p, ok := t.(*types.Pointer); ok {
		t = p.Elem()
	}
	if n, ok := t.(*types.Named); ok {
		return n.Obj().Name()
	}
	if a, ok := t.(*types.Alias); ok {
		return a.Obj().Name()
	}
	return t.String()
}

// typeKey: "types.BankKeeper", "math.LegacyDec"
func typeKey(t types.Type) string {
	for {
		if p, ok := t.(*types.Pointer); ok {
			t = p.Elem()
			continue
		}
		break
	}
	switch n := t.(type) {
	case *types.Named:
		if n.Obj().Pkg() == nil {
			return n.Obj().Name()
		}
		return alias(n.Obj().Pkg().Path()) + "." + n.Obj().Name()
	case *types.Alias:
		return typeKey(types.Unalias(n))
	}
	return t.String()
}

// CalleeKey gives the resolved identity of a call:
//
//	static   "keeper.Keeper.Delegate", "sdk.NewCoin", "math.LegacyDec.Quo"
//	invoke   "types.BankKeeper.MintCoins" (interface named type + method)
//	builtin  "builtin.append"
//	dynamic  "dyn" (call of a function value)
//
// Devirt resolves the callee of a call: the static callee, or for an interface method call the one module method it
// can reach when that is certain - the interface value was made from a concrete type just before (a helper that
// takes an interface was inlined), or the interface is a NEW unexported interface of the module (not in the reviewed
// tree) that exactly one named type of the module implements (a dependency hidden behind an interface).  Calls
// through reviewed interfaces (BankKeeper, StakingKeeper, ..) stay what they are: the rules name them.
func Devirt(c *ssa.CallCommon) *ssa.Function {
	if f := c.StaticCallee(); f != nil {
		return f
	}
	if !c.IsInvoke() || curEngine == nil || curEngine.Prog == nil {
		return nil
	}
	prog := curEngine.Prog
	lookup := func(t types.Type) *ssa.Function {
		ms := prog.MethodSets.MethodSet(t)
		if sel := ms.Lookup(c.Method.Pkg(), c.Method.Name()); sel != nil {
			return prog.MethodValue(sel)
		}
		return nil
	}
	if mi, ok := c.Value.(*ssa.MakeInterface); ok {
		if f := lookup(mi.X.Type()); f != nil {
			return f
		}
	}
	named, ok := c.Value.Type().(*types.Named)
	if !ok || named.Obj().Pkg() == nil || !smPkgs[named.Obj().Pkg().Path()] || named.Obj().Exported() {
		return nil
	}
	if baselineTypes[alias(named.Obj().Pkg().Path())+"."+named.Obj().Name()] {
		return nil
	}
	iface, ok := named.Underlying().(*types.Interface)
	if !ok {
		return nil
	}
	// among the implementers, those that declare the method themselves (types that merely embed such a type promote
	// the same method)
	var direct []types.Type
	for _, t := range curEngine.implementers(iface) {
		ms := prog.MethodSets.MethodSet(t)
		sel := ms.Lookup(c.Method.Pkg(), c.Method.Name())
		if sel == nil {
			return nil
		}
		if len(sel.Index()) == 1 {
			direct = append(direct, t)
		}
	}
	if len(direct) != 1 {
		return nil
	}
	return lookup(direct[0])
}

// implementers: the named types of the module's packages (value or pointer form) that implement iface.
func (e *Engine) implementers(iface *types.Interface) []types.Type {
	if e.implCache == nil {
		e.implCache = map[*types.Interface][]types.Type{}
	}
	if r, ok := e.implCache[iface]; ok {
		return r
	}
	var out []types.Type
	for _, p := range e.Pkgs {
		if p.Types == nil || !strings.HasPrefix(p.PkgPath, modPath) {
			continue
		}
		sc := p.Types.Scope()
		for _, n := range sc.Names() {
			tn, ok := sc.Lookup(n).(*types.TypeName)
			if !ok || tn.IsAlias() {
				continue
			}
			t := tn.Type()
			if _, isIface := t.Underlying().(*types.Interface); isIface {
				continue
			}
			switch {
			case types.Implements(t, iface):
				out = append(out, t)
			case types.Implements(types.NewPointer(t), iface):
				out = append(out, types.NewPointer(t))
			}
		}
	}
	e.implCache[iface] = out
	return out
}

func CalleeKey(c *ssa.CallCommon) string {
	if c.IsInvoke() {
		if f := Devirt(c); f != nil {
			return FuncKey(f)
		}
		return typeKey(c.Value.Type()) + "." + c.Method.Name()
	}
	if f := c.StaticCallee(); f != nil {
		return FuncKey(f)
	}
	if b, ok := c.Value.(*ssa.Builtin); ok {
		return "builtin." + b.Name()
	}
	return "dyn"
}

func (e *Engine) Fn(key string) *ssa.Function { return e.fnByKey[key] }

func (e *Engine) Pos(p token.Pos) string {
	if !p.IsValid() {
		return "-"
	}
	pp := e.Fset.Position(p)
	rel, err := filepath.Rel(e.Dir, pp.Filename)
	if err != nil || strings.HasPrefix(rel, "..") {
		rel = pp.Filename
		if i := strings.Index(rel, "/pkg/mod/"); i >= 0 {
			rel = rel[i+len("/pkg/mod/"):]
		}
	}
	return fmt.Sprintf("%s:%d", rel, pp.Line)
}

func (e *Engine) InstrPos(in ssa.Instruction) string {
	if in == nil {
		return "-"
	}
	p := in.Pos()
	if !p.IsValid() {
		if v, ok := in.(ssa.Value); ok {
			_ = v
		}
		// fall back to the nearest positioned instruction in the block
		b := in.Block()
		if b != nil {
			for _, x := range b.Instrs {
				if x.Pos().IsValid() {
					p = x.Pos()
					if x == in {
						break
					}
				}
				if x == in && p.IsValid() {
					break
				}
			}
		}
	}
	return e.Pos(p)
}

// Calls returns the call instructions of fn (not of nested closures), in block/instruction order.
func Calls(fn *ssa.Function) []ssa.CallInstruction {
	var out []ssa.CallInstruction
	for _, b := range fn.Blocks {
		for _, in := range b.Instrs {
			if c, ok := in.(ssa.CallInstruction); ok {
				out = append(out, c)
			}
		}
	}
	return out
}

// CallsTo returns call sites in fn whose callee key is one of keys.
func CallsTo(fn *ssa.Function, keys ...string) []ssa.CallInstruction {
	var out []ssa.CallInstruction
	for _, c := range Calls(fn) {
		k := CalleeKey(c.Common())
		for _, w := range keys {
			if k == w {
				out = append(out, c)
			}
		}
	}
	return out
}

// WithClosures returns fn followed by all transitively nested anonymous functions.
func WithClosures(fn *ssa.Function) []*ssa.Function {
	out := []*ssa.Function{fn}
	for _, a := range fn.AnonFuncs {
		out = append(out, WithClosures(a)...)
	}
	return out
}

// FileOf returns the syntax file containing pos among the loaded packages.
func (e *Engine) FileOf(pkgPath string, pos token.Pos) *ast.File {
	p := e.ByPath[pkgPath]
	if p == nil {
		return nil
	}
	for _, f := range p.Syntax {
		if f.Pos() <= pos && pos <= f.End() {
			return f
		}
	}
	return nil
}

// CallArgs returns the arguments of a call without the receiver (for static method calls the receiver is Args[0]).
func CallArgs(c *ssa.CallCommon) []ssa.Value {
	if c.IsInvoke() {
		return c.Args
	}
	if f := c.StaticCallee(); f != nil && f.Signature.Recv() != nil && len(c.Args) > 0 {
		return c.Args[1:]
	}
	return c.Args
}

func CallRecv(c *ssa.CallCommon) ssa.Value {
	if c.IsInvoke() {
		return c.Value
	}
	if f := c.StaticCallee(); f != nil && f.Signature.Recv() != nil && len(c.Args) > 0 {
		return c.Args[0]
	}
	return nil
}
