package main

import (
	"fmt"
	"go/constant"
	"go/token"
	"go/types"
	"sort"
	"strconv"
	"strings"

	"golang.org/x/tools/go/ssa"
)

// FuncAnalysis holds the per-function facts: instruction order, memory model, terms.
type FuncAnalysis struct {
	e  *Engine
	Fn *ssa.Function

	ord     map[ssa.Instruction]int // global order (block index major)
	idx     map[ssa.Instruction]int // index in block
	defs    []memDef
	defKey  map[string]int
	defOf   map[ssa.Instruction][]int // instruction -> def ids it generates
	capt    map[*ssa.Alloc]bool
	inState map[*ssa.BasicBlock]memState
	loadRes map[*ssa.UnOp]loadResolution
	terms   map[ssa.Value]*Term
	busy    map[ssa.Value]bool
	idxTerm map[string]*Term // "[idx]" path component -> index term
}

type memDef struct {
	kind  string // store call clob
	instr ssa.Instruction
	val   ssa.Value // store
	root  string
	path  string
}

// memState: root -> path -> set of def ids (-1 = "absent on some incoming path")
type memState map[string]map[string]map[int]bool

type loadResolution struct {
	root      string
	rootVal   ssa.Value
	path      []string
	basePath  string // the entry that provides the base ("" with found=false => none)
	baseFound bool
	baseDefs  []int
	overrides []ovr
}
type ovr struct {
	rel  string
	defs []int
}

func (e *Engine) FA(fn *ssa.Function) *FuncAnalysis {
	if fa, ok := e.fa[fn]; ok {
		return fa
	}
	fa := &FuncAnalysis{e: e, Fn: fn, ord: map[ssa.Instruction]int{}, idx: map[ssa.Instruction]int{},
		defKey: map[string]int{}, defOf: map[ssa.Instruction][]int{}, capt: map[*ssa.Alloc]bool{}, inState: map[*ssa.BasicBlock]memState{},
		loadRes: map[*ssa.UnOp]loadResolution{}, terms: map[ssa.Value]*Term{}, busy: map[ssa.Value]bool{}, idxTerm: map[string]*Term{}}
	e.fa[fn] = fa
	n := 0
	for _, b := range fn.Blocks {
		for i, in := range b.Instrs {
			fa.ord[in] = n
			fa.idx[in] = i
			n++
		}
	}
	fa.buildMemory()
	return fa
}

// ---------------------------------------------------------------- purity

var purePkgPrefixes = []string{"math.", "time.", "sdk.NewCoin", "sdk.NewCoins", "sdk.NewDecCoins", "sdk.NewDecCoinFromDec",
	"sdk.NewDecCoin", "sdk.NewInt64Coin", "sdk.Coins.", "sdk.DecCoins.", "sdk.Coin.", "sdk.DecCoin.", "sdk.Context.Block", "sdk.Context.EventManager",
	"sdk.UnwrapSDKContext", "sdk.AccAddressFromBech32", "sdk.ValAddressFromBech32", "sdk.MustAccAddressFromBech32",
	"sdk.AccAddress.", "sdk.ValAddress.", "sdk.FormatTimeBytes", "sdk.ParseTimeBytes", "sdk.Uint64ToBigEndian", "sdk.BigEndianToUint64",
	"sdk.ValidateDenom", "address.MustLengthPrefix", "bytes.", "strings.", "builtin.len", "builtin.append", "builtin.cap",
	"stakingtypes.Validator.", "stakingtypes.Delegation.", "url.QueryUnescape", "sdk.FormatInvariant",
	"status.Errorf", "status.Error", "fmt.Errorf", "fmt.Sprintf", "errors.New", "errorsmod.",
}

// isPure: calls whose result is a function of their argument values only (no store access,
// no hidden mutable state).  Methods that read through the embedded pointers of
// types.AllianceValidator are *not* pure (DESIGN 3.3): they are identified by instruction.
func isPure(key string, c *ssa.CallCommon) bool {
	if strings.HasPrefix(key, "types.") {
		// package-level helpers and value-receiver methods of x/alliance/types
		if c != nil {
			for _, a := range c.Args {
				if strings.HasSuffix(typeKey(a.Type()), "types.AllianceValidator") {
					return false
				}
				if _, isPtr := a.Type().Underlying().(*types.Pointer); isPtr && !strings.Contains(key, "Msg") {
					return false
				}
			}
		}
		if strings.HasPrefix(key, "types.BankKeeper.") || strings.HasPrefix(key, "types.StakingKeeper.") ||
			strings.HasPrefix(key, "types.DistributionKeeper.") || strings.HasPrefix(key, "types.AccountKeeper.") {
			return key == "types.AccountKeeper.GetModuleAddress"
		}
		return true
	}
	for _, p := range purePkgPrefixes {
		if strings.HasPrefix(key, p) {
			return true
		}
	}
	return false
}

// ---------------------------------------------------------------- addresses

func pathJoin(p []string) string { return strings.Join(p, "") }

func hasPrefixPath(q, p string) bool { // p is a (component-wise) prefix of q
	if !strings.HasPrefix(q, p) {
		return false
	}
	if len(q) == len(p) {
		return true
	}
	c := q[len(p)]
	return c == '.' || c == '['
}

// addrPath decomposes an address-valued SSA value into a root and an access path.
func (fa *FuncAnalysis) addrPath(v ssa.Value) (root string, rootVal ssa.Value, path []string) {
	switch x := v.(type) {
	case *ssa.Alloc:
		return "alloc#" + strconv.Itoa(fa.ord[x]), x, nil
	case *ssa.FieldAddr:
		r, rv, p := fa.addrPath(x.X)
		st := derefStruct(x.X.Type())
		name := "f" + strconv.Itoa(x.Field)
		if st != nil && x.Field < st.NumFields() {
			name = st.Field(x.Field).Name()
		}
		return r, rv, append(append([]string{}, p...), "."+name)
	case *ssa.IndexAddr:
		it := fa.Term(x.Index)
		comp := "[" + it.String() + "]"
		fa.idxTerm[comp] = it
		if _, isPtr := x.X.Type().Underlying().(*types.Pointer); isPtr {
			r, rv, p := fa.addrPath(x.X)
			return r, rv, append(append([]string{}, p...), comp)
		}
		// slice value: rooted at the slice term
		t := fa.Term(x.X)
		return "ptr:" + t.String(), x.X, []string{comp}
	case *ssa.Global:
		return "global:" + globalName(x), x, nil
	}
	t := fa.Term(v)
	return "ptr:" + t.String(), v, nil
}

func derefStruct(t types.Type) *types.Struct {
	if p, ok := t.Underlying().(*types.Pointer); ok {
		t = p.Elem()
	}
	s, _ := t.Underlying().(*types.Struct)
	return s
}

func globalName(g *ssa.Global) string {
	if g.Pkg != nil {
		return alias(g.Pkg.Pkg.Path()) + "." + g.Name()
	}
	return g.Name()
}

// ---------------------------------------------------------------- memory dataflow

func (fa *FuncAnalysis) buildMemory() {
	fn := fa.Fn
	// captured allocs: address stored somewhere, bound into a closure, or converted to an interface
	for _, b := range fn.Blocks {
		for _, in := range b.Instrs {
			switch x := in.(type) {
			case *ssa.MakeClosure:
				cf, _ := x.Fn.(*ssa.Function)
				for i, bv := range x.Bindings {
					if a, ok := bv.(*ssa.Alloc); ok {
						// only closures that may write the captured variable make it volatile
						if cf == nil || i >= len(cf.FreeVars) || freeVarMayBeWritten(cf, cf.FreeVars[i], 0) {
							fa.capt[a] = true
						}
					}
				}
			case *ssa.Store:
				if a, ok := x.Val.(*ssa.Alloc); ok {
					// storing a pointer to a fresh composite into a slot is the &T{} idiom; only treat
					// as captured when the alloc is later written through (cheap: never) - keep precise
					_ = a
				}
			}
		}
	}
	// The dataflow needs terms for ptr roots, and terms need load resolutions: resolve iteratively
	// in reverse post-order; loads in loops that depend on later stores get mem<> terms via the fixpoint.
	changed := true
	for iter := 0; changed && iter < 12; iter++ {
		changed = false
		fa.terms = map[ssa.Value]*Term{}
		newIn := map[*ssa.BasicBlock]memState{}
		for _, b := range fn.Blocks { // blocks are in a deterministic order; iterate to fixpoint below
			newIn[b] = nil
		}
		out := map[*ssa.BasicBlock]memState{}
		// inner fixpoint on states with the *previous* round's load resolutions for ptr-root naming
		for round := 0; round < 20; round++ {
			stable := true
			for _, b := range fn.Blocks {
				var st memState
				if len(b.Preds) == 0 || b == fn.Blocks[0] {
					st = memState{}
				} else {
					visited := false
					for _, p := range b.Preds {
						if out[p] != nil {
							visited = true
						}
					}
					if !visited {
						continue // optimistic: not reached yet in this fixpoint
					}
					st = mergeStates(b.Preds, out)
				}
				if !statesEqual(newIn[b], st) {
					stable = false
				}
				newIn[b] = st
				cur := copyState(st)
				for _, in := range b.Instrs {
					fa.transfer(cur, in, true)
				}
				out[b] = cur
			}
			if stable {
				break
			}
		}
		// record load resolutions with final in-states
		newRes := map[*ssa.UnOp]loadResolution{}
		fa.inState = newIn
		for _, b := range fn.Blocks {
			if newIn[b] == nil && b != fn.Blocks[0] {
				continue // unreachable block
			}
			cur := copyState(newIn[b])
			for _, in := range b.Instrs {
				if u, ok := in.(*ssa.UnOp); ok && u.Op == token.MUL {
					newRes[u] = fa.resolveLoad(cur, u)
				}
				fa.transfer(cur, in, true)
			}
		}
		if !resEqual(fa.loadRes, newRes) {
			changed = true
		}
		fa.loadRes = newRes
		fa.terms = map[ssa.Value]*Term{}
	}
}

// freeVarMayBeWritten: the closure stores through the captured pointer, or lets it escape.
func freeVarMayBeWritten(fn *ssa.Function, fv *ssa.FreeVar, depth int) bool {
	if depth > 3 || fv.Referrers() == nil {
		return true
	}
	var check func(v ssa.Value) bool
	check = func(v ssa.Value) bool {
		refs := v.Referrers()
		if refs == nil {
			return true
		}
		for _, r := range *refs {
			switch x := r.(type) {
			case *ssa.Store:
				if x.Addr == v || x.Val == v {
					return true
				}
			case *ssa.UnOp:
				// load: fine
			case *ssa.FieldAddr:
				if check(x) {
					return true
				}
			case *ssa.IndexAddr:
				if check(x) {
					return true
				}
			case *ssa.MakeClosure:
				cf, _ := x.Fn.(*ssa.Function)
				for i, b := range x.Bindings {
					if b == v {
						if cf == nil || i >= len(cf.FreeVars) || freeVarMayBeWritten(cf, cf.FreeVars[i], depth+1) {
							return true
						}
					}
				}
			case *ssa.DebugRef:
			default:
				return true // passed to a call, converted, stored elsewhere...
			}
		}
		return false
	}
	return check(fv)
}

func resEqual(a, b map[*ssa.UnOp]loadResolution) bool {
	if len(a) != len(b) {
		return false
	}
	for k, x := range a {
		y, ok := b[k]
		if !ok || x.root != y.root || pathJoin(x.path) != pathJoin(y.path) || x.basePath != y.basePath ||
			x.baseFound != y.baseFound || fmt.Sprint(x.baseDefs) != fmt.Sprint(y.baseDefs) || fmt.Sprint(x.overrides) != fmt.Sprint(y.overrides) {
			return false
		}
	}
	return true
}

func copyState(s memState) memState {
	o := memState{}
	for r, m := range s {
		mm := map[string]map[int]bool{}
		for p, ds := range m {
			d2 := map[int]bool{}
			for k := range ds {
				d2[k] = true
			}
			mm[p] = d2
		}
		o[r] = mm
	}
	return o
}

func statesEqual(a, b memState) bool {
	if a == nil || b == nil {
		return a == nil && b == nil
	}
	if len(a) != len(b) {
		return false
	}
	for r, m := range a {
		n, ok := b[r]
		if !ok || len(m) != len(n) {
			return false
		}
		for p, ds := range m {
			es, ok := n[p]
			if !ok || len(ds) != len(es) {
				return false
			}
			for k := range ds {
				if !es[k] {
					return false
				}
			}
		}
	}
	return true
}

func mergeStates(preds []*ssa.BasicBlock, out map[*ssa.BasicBlock]memState) memState {
	res := memState{}
	var have []memState
	for _, p := range preds {
		if s, ok := out[p]; ok && s != nil {
			have = append(have, s)
		}
	}
	if len(have) == 0 {
		return res
	}
	for _, s := range have {
		for r, m := range s {
			if res[r] == nil {
				res[r] = map[string]map[int]bool{}
			}
			for p, ds := range m {
				if res[r][p] == nil {
					res[r][p] = map[int]bool{}
				}
				for k := range ds {
					res[r][p][k] = true
				}
			}
		}
	}
	// absent markers
	for r, m := range res {
		for p := range m {
			for _, s := range have {
				if s[r] == nil || s[r][p] == nil {
					m[p][-1] = true
				}
			}
		}
	}
	return res
}

func (fa *FuncAnalysis) newDef(d memDef) int {
	k := strconv.Itoa(fa.ord[d.instr]) + "|" + d.kind + "|" + d.root + "|" + d.path
	if id, ok := fa.defKey[k]; ok {
		fa.defs[id] = d
		return id
	}
	fa.defs = append(fa.defs, d)
	id := len(fa.defs) - 1
	fa.defKey[k] = id
	fa.defOf[d.instr] = append(fa.defOf[d.instr], id)
	return id
}

func setDef(st memState, root, path string, id int) {
	m := st[root]
	if m == nil {
		m = map[string]map[int]bool{}
		st[root] = m
	}
	for q := range m {
		if hasPrefixPath(q, path) {
			delete(m, q)
		}
	}
	m[path] = map[int]bool{id: true}
}

func unwrapIface(v ssa.Value) ssa.Value {
	for {
		switch x := v.(type) {
		case *ssa.MakeInterface:
			v = x.X
		case *ssa.ChangeType:
			v = x.X
		case *ssa.ChangeInterface:
			v = x.X
		default:
			return v
		}
	}
}

func (fa *FuncAnalysis) transfer(st memState, in ssa.Instruction, record bool) {
	switch x := in.(type) {
	case *ssa.Phi:
		// a loop-carried value is redefined: memory named through it now denotes another location
		name := fa.Term(x).String()
		for root, m := range st {
			if strings.Contains(root, name) {
				delete(st, root)
				continue
			}
			for p := range m {
				if strings.Contains(p, name) {
					delete(m, p)
				}
			}
		}
	case *ssa.Store:
		root, _, path := fa.addrPath(x.Addr)
		id := fa.newDef(memDef{kind: "store", instr: in, val: x.Val, root: root, path: pathJoin(path)})
		setDef(st, root, pathJoin(path), id)
	case ssa.CallInstruction:
		c := x.Common()
		key := CalleeKey(c)
		pure := isPure(key, c)
		args := make([]ssa.Value, len(c.Args))
		for i, a := range c.Args {
			args[i] = unwrapIface(a)
		}
		for _, a := range args {
			if _, isPtr := a.Type().Underlying().(*types.Pointer); !isPtr {
				continue
			}
			switch a.(type) {
			case *ssa.Alloc, *ssa.FieldAddr, *ssa.IndexAddr:
				if pure && !strings.HasPrefix(key, "types.") {
					continue
				}
				root, _, path := fa.addrPath(a)
				id := fa.newDef(memDef{kind: "call", instr: in, root: root, path: pathJoin(path)})
				setDef(st, root, pathJoin(path), id)
			}
		}
		if !pure {
			// closures that captured locals may run inside any impure call
			for a := range fa.capt {
				root := "alloc#" + strconv.Itoa(fa.ord[a])
				if fa.ord[a] > fa.ord[in] && a.Block() == in.Block() {
					continue
				}
				id := fa.newDef(memDef{kind: "clob", instr: in, root: root, path: ""})
				setDef(st, root, "", id)
			}
			// pointer-rooted memory: clobbered by calls that receive a pointer of the same pointee type
			for root := range st {
				if !strings.HasPrefix(root, "ptr:") {
					continue
				}
				for _, a := range args {
					if pt, ok := a.Type().Underlying().(*types.Pointer); ok {
						tk := typeKey(pt.Elem())
						if tk != "" && rootMayPointTo(fa, root, tk, a) {
							id := fa.newDef(memDef{kind: "clob", instr: in, root: root, path: ""})
							setDef(st, root, "", id)
						}
					}
				}
			}
		}
	}
}

// rootMayPointTo: a pointer argument of pointee type tk may alias memory rooted at root only when it is that very pointer.
func rootMayPointTo(fa *FuncAnalysis, root, tk string, arg ssa.Value) bool {
	return "ptr:"+fa.Term(arg).String() == root
}

func (fa *FuncAnalysis) resolveLoad(st memState, u *ssa.UnOp) loadResolution {
	root, rv, path := fa.addrPath(u.X)
	res := loadResolution{root: root, rootVal: rv, path: path}
	m := st[root]
	pj := pathJoin(path)
	best := ""
	found := false
	for q := range m {
		if hasPrefixPath(pj, q) && (!found || len(q) > len(best)) {
			best, found = q, true
		}
	}
	if found {
		res.baseFound = true
		res.basePath = best
		res.baseDefs = sortedInts(m[best])
	}
	var ovs []ovr
	for q, ds := range m {
		if len(q) > len(pj) && hasPrefixPath(q, pj) {
			ovs = append(ovs, ovr{rel: q[len(pj):], defs: sortedInts(ds)})
		}
	}
	sort.Slice(ovs, func(i, j int) bool { return ovs[i].rel < ovs[j].rel })
	res.overrides = ovs
	return res
}

func splitPath(p string) []string {
	var out []string
	cur := ""
	depth := 0
	for i := 0; i < len(p); i++ {
		c := p[i]
		if depth == 0 && (c == '.' || c == '[') && cur != "" {
			out = append(out, cur)
			cur = ""
		}
		if c == '[' {
			depth++
		}
		if c == ']' {
			depth--
		}
		cur += string(c)
	}
	if cur != "" {
		out = append(out, cur)
	}
	return out
}

func (fa *FuncAnalysis) defsTerm(ids []int) *Term {
	if len(ids) == 1 && ids[0] >= 0 {
		d := fa.defs[ids[0]]
		switch d.kind {
		case "store":
			return fa.Term(d.val)
		case "call":
			c := d.instr.(ssa.CallInstruction)
			return &Term{Op: "out", Name: CalleeKey(c.Common()) + "@" + strconv.Itoa(fa.ord[d.instr]), Instr: d.instr}
		default:
			return &Term{Op: "clob", Name: strconv.Itoa(fa.ord[d.instr]), Instr: d.instr}
		}
	}
	var parts []string
	for _, id := range ids {
		if id < 0 {
			parts = append(parts, "absent")
		} else {
			parts = append(parts, strconv.Itoa(fa.ord[fa.defs[id].instr]))
		}
	}
	return &Term{Op: "mem", Name: strings.Join(parts, "|")}
}

// capturedDefinition: the free variable is a local of the enclosing function that is assigned exactly once (its
// definition, before the closure is made) and that neither the closure nor anything nested in it can write: its value
// inside the closure is the value it was defined with (`denom := asset.Denom` hoisted out of a callback).  The term is
// the enclosing function's; nil when any of this cannot be shown.
func (fa *FuncAnalysis) capturedDefinition(fv *ssa.FreeVar) *Term {
	par := fa.Fn.Parent()
	if par == nil || fa.e == nil {
		return nil
	}
	idx := -1
	for i, f := range fa.Fn.FreeVars {
		if f == fv {
			idx = i
		}
	}
	if idx < 0 || freeVarMayBeWritten(fa.Fn, fv, 0) {
		return nil
	}
	var cell *ssa.Alloc
	var made *ssa.MakeClosure
	n := 0
	for _, b := range par.Blocks {
		for _, in := range b.Instrs {
			if mc, ok := in.(*ssa.MakeClosure); ok && mc.Fn == ssa.Value(fa.Fn) && idx < len(mc.Bindings) {
				n++
				made = mc
				cell, _ = mc.Bindings[idx].(*ssa.Alloc)
			}
		}
	}
	if n != 1 || cell == nil {
		return nil
	}
	var def *ssa.Store
	for _, ref := range *cell.Referrers() {
		switch x := ref.(type) {
		case *ssa.Store:
			if x.Addr != ssa.Value(cell) || def != nil {
				return nil
			}
			def = x
		case *ssa.UnOp, *ssa.DebugRef:
		case *ssa.MakeClosure:
			cf, _ := x.Fn.(*ssa.Function)
			for i, b := range x.Bindings {
				if b == ssa.Value(cell) && (cf == nil || i >= len(cf.FreeVars) || freeVarMayBeWritten(cf, cf.FreeVars[i], 0)) {
					return nil
				}
			}
		default:
			return nil // address taken otherwise
		}
	}
	if def == nil {
		return nil
	}
	// only plain values (no struct whose fields could be written through another path)
	switch cell.Type().(*types.Pointer).Elem().Underlying().(type) {
	case *types.Basic:
	default:
		return nil
	}
	pfa := fa.e.FA(par)
	if pfa == nil || pfa == fa {
		return nil
	}
	// the definition comes before the closure exists (otherwise the closure could run with the zero value)
	if made == nil || !pfa.Dominates(def, made) {
		return nil
	}
	return pfa.Term(def.Val)
}

func (fa *FuncAnalysis) loadTerm(u *ssa.UnOp) *Term {
	res, ok := fa.loadRes[u]
	if !ok {
		// first pass (resolutions not yet available): structural placeholder
		return &Term{Op: "opaque", Name: "load@" + strconv.Itoa(fa.ord[u]), Instr: u}
	}
	var base *Term
	pj := pathJoin(res.path)
	if res.baseFound {
		bt := fa.defsTerm(res.baseDefs)
		rest := splitPath(pj[len(res.basePath):])
		base = fa.mkPath(bt, rest)
	} else {
		// never written in this function before this point
		switch rv := res.rootVal.(type) {
		case *ssa.Alloc:
			base = fa.mkPath(&Term{Op: "zero", Name: rv.Comment + "@" + strconv.Itoa(fa.ord[rv])}, res.path)
		case *ssa.Global:
			if it := fa.e.immutableGlobalInit(rv); it != nil && len(res.path) == 0 {
				base = it
				break
			}
			base = fa.mkPath(&Term{Op: "global", Name: globalName(rv)}, res.path)
		default:
			if fv, isFV := res.rootVal.(*ssa.FreeVar); isFV {
				if dt := fa.capturedDefinition(fv); dt != nil {
					base = fa.mkPath(dt, res.path)
					break
				}
			}
			if _, isSlice := res.rootVal.Type().Underlying().(*types.Slice); isSlice {
				base = fa.mkPath(fa.Term(res.rootVal), res.path)
			} else {
				base = fa.mkPath(&Term{Op: "deref", Args: []*Term{fa.Term(res.rootVal)}}, res.path)
			}
		}
	}
	if len(res.overrides) == 0 {
		return base
	}
	args := []*Term{base}
	for _, o := range res.overrides {
		args = append(args, &Term{Op: "set", Name: o.rel, Args: []*Term{fa.defsTerm(o.defs)}})
	}
	return &Term{Op: "override", Args: args}
}

// ---------------------------------------------------------------- terms

func (fa *FuncAnalysis) Term(v ssa.Value) *Term {
	if v == nil {
		return &Term{Op: "const", Name: "<none>"}
	}
	if t, ok := fa.terms[v]; ok {
		return t
	}
	if fa.busy[v] {
		return &Term{Op: "opaque", Name: "cyc:" + v.Name(), Val: v}
	}
	fa.busy[v] = true
	t := fa.term0(v)
	delete(fa.busy, v)
	if t.Val == nil {
		t.Val = v
	}
	fa.terms[v] = t
	return t
}

func constString(c *ssa.Const) string {
	if c.Value == nil {
		return "nil"
	}
	if c.Value.Kind() == constant.String {
		return strconv.Quote(constant.StringVal(c.Value))
	}
	return c.Value.ExactString()
}

func (fa *FuncAnalysis) term0(v ssa.Value) *Term {
	switch x := v.(type) {
	case *ssa.Parameter:
		return &Term{Op: "param", Name: reviewedParamName(x)}
	case *ssa.FreeVar:
		return &Term{Op: "fv", Name: x.Name()}
	case *ssa.Const:
		return &Term{Op: "const", Name: constString(x)}
	case *ssa.Global:
		return &Term{Op: "global", Name: "&" + globalName(x)}
	case *ssa.Function:
		return &Term{Op: "global", Name: "func:" + FuncKey(x)}
	case *ssa.Builtin:
		return &Term{Op: "global", Name: "builtin:" + x.Name()}
	case *ssa.Alloc:
		return &Term{Op: "alloc", Name: x.Comment + "@" + strconv.Itoa(fa.ord[x]), Instr: x}
	case *ssa.FieldAddr:
		r, rv, p := fa.addrPath(x)
		_ = r
		var base *Term
		if a, ok := rv.(*ssa.Alloc); ok {
			base = fa.Term(a)
		} else if g, ok := rv.(*ssa.Global); ok {
			base = fa.Term(g)
		} else {
			base = fa.Term(rv)
		}
		return &Term{Op: "unop", Name: "&", Args: []*Term{fa.mkPath(base, p)}}
	case *ssa.IndexAddr:
		return &Term{Op: "unop", Name: "&", Args: []*Term{{Op: "index", Args: []*Term{fa.Term(x.X), fa.Term(x.Index)}}}}
	case *ssa.Field:
		st, _ := x.X.Type().Underlying().(*types.Struct)
		name := "f" + strconv.Itoa(x.Field)
		if st != nil {
			name = st.Field(x.Field).Name()
		}
		return mkField(fa.Term(x.X), name)
	case *ssa.Index:
		return &Term{Op: "index", Args: []*Term{fa.Term(x.X), fa.Term(x.Index)}}
	case *ssa.Lookup:
		return &Term{Op: "index", Args: []*Term{fa.Term(x.X), fa.Term(x.Index)}}
	case *ssa.UnOp:
		if x.Op == token.MUL {
			return fa.loadTerm(x)
		}
		return &Term{Op: "unop", Name: x.Op.String(), Args: []*Term{fa.Term(x.X)}}
	case *ssa.BinOp:
		return &Term{Op: "binop", Name: x.Op.String(), Args: []*Term{fa.Term(x.X), fa.Term(x.Y)}}
	case *ssa.Convert:
		return &Term{Op: "conv", Name: types.TypeString(x.Type(), func(p *types.Package) string { return alias(p.Path()) }), Args: []*Term{fa.Term(x.X)}}
	case *ssa.ChangeType:
		return fa.Term(x.X)
	case *ssa.ChangeInterface:
		return fa.Term(x.X)
	case *ssa.MakeInterface:
		return fa.Term(x.X)
	case *ssa.TypeAssert:
		return &Term{Op: "conv", Name: "assert", Args: []*Term{fa.Term(x.X)}}
	case *ssa.Extract:
		return &Term{Op: "extract", Name: strconv.Itoa(x.Index), Args: []*Term{fa.Term(x.Tuple)}}
	case *ssa.Slice:
		// varargs idiom: slice of a fresh array whose elements were stored one by one
		if a, ok := x.X.(*ssa.Alloc); ok && x.Low == nil && x.High == nil {
			if arr, ok := a.Type().Underlying().(*types.Pointer).Elem().Underlying().(*types.Array); ok {
				elems := make([]*Term, arr.Len())
				okAll := true
				for i := range elems {
					elems[i] = fa.lastStoreToIndex(a, int(i), x)
					if elems[i] == nil {
						okAll = false
					}
				}
				if okAll {
					return &Term{Op: "list", Args: elems}
				}
			}
		}
		args := []*Term{fa.Term(x.X)}
		for _, b := range []ssa.Value{x.Low, x.High, x.Max} {
			if b == nil {
				args = append(args, &Term{Op: "const", Name: "_"})
			} else {
				args = append(args, fa.Term(b))
			}
		}
		return &Term{Op: "call", Name: "slice", Args: args}
	case *ssa.Phi:
		return &Term{Op: "phi", Name: x.Comment + "@b" + strconv.Itoa(x.Block().Index) + "." + strconv.Itoa(fa.idx[x]), Instr: x, Val: x}
	case *ssa.MakeClosure:
		return &Term{Op: "closure", Name: FuncKey(x.Fn.(*ssa.Function)), Instr: x}
	case *ssa.Call:
		c := x.Common()
		key := CalleeKey(c)
		var args []*Term
		if c.IsInvoke() {
			args = append(args, fa.Term(c.Value))
		}
		for _, a := range c.Args {
			args = append(args, fa.Term(a))
		}
		if key == "dyn" {
			args = append([]*Term{fa.Term(c.Value)}, args...)
		}
		if isPure(key, c) {
			op := "call"
			key, args = librarySynonym(key, args)
			return &Term{Op: op, Name: key, Args: args, Instr: x}
		}
		args = append(args, &Term{Op: "const", Name: strconv.Itoa(fa.ord[x])})
		return &Term{Op: "ncall", Name: key, Args: args, Instr: x}
	case *ssa.Range:
		return &Term{Op: "opaque", Name: "range@" + strconv.Itoa(fa.ord[x]), Instr: x}
	case *ssa.Next:
		return &Term{Op: "opaque", Name: "next@" + strconv.Itoa(fa.ord[x]), Instr: x}
	case *ssa.MakeSlice, *ssa.MakeMap, *ssa.MakeChan:
		in := v.(ssa.Instruction)
		return &Term{Op: "opaque", Name: "make@" + strconv.Itoa(fa.ord[in]), Instr: in}
	}
	if in, ok := v.(ssa.Instruction); ok {
		return &Term{Op: "opaque", Name: fmt.Sprintf("%T@%d", v, fa.ord[in]), Instr: in}
	}
	return &Term{Op: "opaque", Name: fmt.Sprintf("%T:%s", v, v.Name())}
}

// lastStoreToIndex finds, in the block of use, the store to &a[i] preceding use.
func (fa *FuncAnalysis) lastStoreToIndex(a *ssa.Alloc, i int, use ssa.Instruction) *Term {
	var found *Term
	for _, r := range *a.Referrers() {
		ia, ok := r.(*ssa.IndexAddr)
		if !ok {
			continue
		}
		c, ok := ia.Index.(*ssa.Const)
		if !ok || c.Value == nil {
			return nil
		}
		if n, _ := constant.Int64Val(c.Value); int(n) != i {
			continue
		}
		for _, rr := range *ia.Referrers() {
			if st, ok := rr.(*ssa.Store); ok && st.Addr == ia && fa.ord[st] < fa.ord[use] {
				found = fa.Term(st.Val)
			}
		}
	}
	return found
}

// StructAt returns the value of the memory rooted at pointer value p as seen just before instruction at.
func (fa *FuncAnalysis) StructAt(p ssa.Value, at ssa.Instruction) *Term {
	b := at.Block()
	cur := copyState(fa.inState[b])
	// replay the block up to `at` without disturbing recorded defs: defs are append-only and ids are
	// stable because buildMemory's last pass visited instructions in the same order; look ids up instead.
	for _, in := range b.Instrs {
		if in == at {
			break
		}
		fa.replay(cur, in)
	}
	root, rv, path := fa.addrPath(p)
	fake := loadResolution{root: root, rootVal: rv, path: path}
	m := cur[root]
	pj := pathJoin(path)
	best, found := "", false
	for q := range m {
		if hasPrefixPath(pj, q) && (!found || len(q) > len(best)) {
			best, found = q, true
		}
	}
	if found {
		fake.baseFound, fake.basePath, fake.baseDefs = true, best, sortedInts(m[best])
	}
	for q, ds := range m {
		if len(q) > len(pj) && hasPrefixPath(q, pj) {
			fake.overrides = append(fake.overrides, ovr{rel: q[len(pj):], defs: sortedInts(ds)})
		}
	}
	sort.Slice(fake.overrides, func(i, j int) bool { return fake.overrides[i].rel < fake.overrides[j].rel })
	tmp := &ssa.UnOp{}
	fa.loadRes[tmp] = fake
	t := fa.loadTerm(tmp)
	delete(fa.loadRes, tmp)
	return t
}

// replay applies the memory effect of in using the def ids recorded by the final pass.
func (fa *FuncAnalysis) replay(st memState, in ssa.Instruction) {
	for _, id := range fa.defOf[in] {
		d := fa.defs[id]
		setDef(st, d.root, d.path, id)
	}
}

// reviewedParamName: the name the parameter at this position had in the reviewed tree (baseline_params.go) while the
// function still has the same number of parameters with the same types; the current name otherwise.
func reviewedParamName(p *ssa.Parameter) string {
	fn := p.Parent()
	if fn == nil {
		return p.Name()
	}
	base, ok := baselineParams[FuncKey(fn)]
	if !ok || len(base) != len(fn.Params) {
		return p.Name()
	}
	idx := -1
	for i, q := range fn.Params {
		if typeKey(q.Type())+ptrMark(q.Type()) != base[i][1] {
			return p.Name()
		}
		if q == p {
			idx = i
		}
	}
	if idx < 0 {
		return p.Name()
	}
	return base[idx][0]
}

// librarySynonym gives the one spelling under which the rules see library calls that compute the same thing for every
// value: a.GT(b) is b.LT(a), a.GTE(b) is b.LTE(a), t.After(u) is u.Before(t) (cosmossdk.io/math and time define them
// by the same comparison with the operands swapped); Coin.IsZero is Amount.IsZero; Time.IsZero is Equal(time.Time{});
// Int.ToLegacyDec is LegacyNewDecFromInt.
func librarySynonym(key string, args []*Term) (string, []*Term) {
	swap := func(k string) (string, []*Term) {
		if len(args) == 2 {
			return k, []*Term{args[1], args[0]}
		}
		return key, args
	}
	switch key {
	case "math.LegacyDec.GT":
		return swap("math.LegacyDec.LT")
	case "math.LegacyDec.GTE":
		return swap("math.LegacyDec.LTE")
	case "math.Int.GT":
		return swap("math.Int.LT")
	case "math.Int.GTE":
		return swap("math.Int.LTE")
	case "time.Time.After":
		return swap("time.Time.Before")
	case "sdk.Coin.IsZero":
		if len(args) == 1 {
			return "math.Int.IsZero", []*Term{{Op: "field", Name: "Amount", Args: []*Term{args[0]}}}
		}
	case "time.Time.IsZero":
		if len(args) == 1 {
			return "time.Time.Equal", []*Term{args[0], {Op: "const", Name: "nil"}}
		}
	case "math.LegacyDec.Equal", "math.Int.Equal":
		// x.Equal(zero) is x.IsZero()
		if len(args) == 2 {
			recv := strings.TrimSuffix(key, ".Equal")
			for i, a := range args {
				if constName(a) == "0" && a.Op != "const" {
					return recv + ".IsZero", []*Term{args[1-i]}
				}
			}
		}
	case "math.Int.ToLegacyDec":
		if len(args) == 1 {
			return "math.LegacyNewDecFromInt", args
		}
	}
	return key, args
}

// immutableGlobalInit: g is a package-level variable of a state-machine package that is written exactly once, by the
// package initialiser, with the result of a pure call without arguments (`var oneDec = math.LegacyOneDec()`), and is
// otherwise only read as a whole.  A read of it is then a read of that call: hoisting a constant-like value into a
// package-level variable changes nothing the rules look at.  (A variable that anything else can write or take the
// address of stays a global - C19.nomemstate judges those.)
func (e *Engine) immutableGlobalInit(g *ssa.Global) *Term {
	if e == nil || g.Pkg == nil || !smPkgs[g.Pkg.Pkg.Path()] {
		return nil
	}
	if e.globalInit == nil {
		e.globalInit = map[*ssa.Global]*Term{}
	}
	if t, ok := e.globalInit[g]; ok {
		return t
	}
	e.globalInit[g] = nil
	var fns []*ssa.Function
	if in := g.Pkg.Func("init"); in != nil {
		fns = append(fns, in)
	}
	for _, fn := range e.SrcFuncs {
		if fn.Pkg == g.Pkg {
			fns = append(fns, fn)
		}
	}
	var def *ssa.Store
	var defFn *ssa.Function
	for _, fn := range fns {
		for _, b := range fn.Blocks {
			for _, in := range b.Instrs {
				uses := false
				for _, op := range in.Operands(nil) {
					if op != nil && *op == ssa.Value(g) {
						uses = true
					}
				}
				if !uses {
					continue
				}
				switch x := in.(type) {
				case *ssa.UnOp:
					// a load of the whole value
				case *ssa.Store:
					if x.Addr != ssa.Value(g) || def != nil || fn.Name() != "init" || fn.Parent() != nil {
						return nil
					}
					def, defFn = x, fn
				case *ssa.DebugRef:
				default:
					return nil
				}
			}
		}
	}
	if def == nil {
		return nil
	}
	c, ok := def.Val.(*ssa.Call)
	if !ok || len(c.Call.Args) != 0 || c.Call.IsInvoke() {
		return nil
	}
	key := CalleeKey(c.Common())
	if !isPure(key, c.Common()) {
		return nil
	}
	_ = defFn
	t := &Term{Op: "call", Name: key}
	e.globalInit[g] = t
	return t
}
