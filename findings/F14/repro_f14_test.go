package tests_test

import (
	"testing"
	"time"

	"cosmossdk.io/math"
	"github.com/stretchr/testify/assert"
	"github.com/stretchr/testify/require"

	sdk "github.com/cosmos/cosmos-sdk/types"
	authtypes "github.com/cosmos/cosmos-sdk/x/auth/types"
	stakingkeeper "github.com/cosmos/cosmos-sdk/x/staking/keeper"
	stakingtypes "github.com/cosmos/cosmos-sdk/x/staking/types"

	test_helpers "github.com/terra-money/alliance/app"
	"github.com/terra-money/alliance/x/alliance"
	"github.com/terra-money/alliance/x/alliance/keeper"
	"github.com/terra-money/alliance/x/alliance/types"
)

// TestReproValidatorRemovedWhileAllianceDelegationsExist
//
// A validator V carries alliance delegations but the alliance module never staked native tokens on it (the asset
// is still in its warm-up period when V leaves the active set). V's only native delegator (its operator) leaves,
// x/staking removes V after the unbonding time through its real end blocker and fires AfterValidatorRemoved.
// Everything below goes through the real msg servers / end blockers; no state is written by hand.
func TestReproValidatorRemovedWhileAllianceDelegationsExist(t *testing.T) {
	app, ctx := createTestContext(t)
	startTime := time.Now().UTC()
	height := int64(10)
	ctx = ctx.WithBlockTime(startTime).WithBlockHeight(height)

	allianceMsgServer := keeper.MsgServer{Keeper: app.AllianceKeeper}
	stakingMsgServer := stakingkeeper.NewMsgServerImpl(app.StakingKeeper)
	moduleAddr := app.AccountKeeper.GetModuleAddress(types.ModuleName)

	bondDenom, err := app.StakingKeeper.BondDenom(ctx)
	require.NoError(t, err)
	unbondingTime, err := app.StakingKeeper.UnbondingTime(ctx)
	require.NoError(t, err)
	rewardDelay := app.AllianceKeeper.RewardDelayTime(ctx)
	t.Logf("staking unbonding time = %s, alliance reward delay (warm-up) = %s", unbondingTime, rewardDelay)

	// endBlock runs the two end blockers in the same order the app does (staking, then alliance)
	endBlock := func(c sdk.Context) {
		_, err := app.StakingKeeper.EndBlocker(c)
		require.NoError(t, err)
		require.NoError(t, alliance.EndBlocker(c, app.AllianceKeeper))
	}
	nextBlock := func(c sdk.Context, dt time.Duration) sdk.Context {
		height++
		return c.WithBlockHeight(height).WithBlockTime(c.BlockTime().Add(dt))
	}

	// --- W: the genesis validator (keeps the chain alive) ---
	genesisDelegations, err := app.StakingKeeper.GetAllDelegations(ctx)
	require.NoError(t, err)
	require.Len(t, genesisDelegations, 1)
	valAddrW, err := sdk.ValAddressFromBech32(genesisDelegations[0].ValidatorAddress)
	require.NoError(t, err)

	// --- accounts ---
	addrs := test_helpers.AddTestAddrsIncremental(app, ctx, 3, sdk.NewCoins(
		sdk.NewCoin(bondDenom, math.NewInt(10_000_000)),
		sdk.NewCoin(AllianceDenom, math.NewInt(5_000_000)),
	))
	operatorV, user, userW := addrs[0], addrs[1], addrs[2]
	valAddrV := sdk.ValAddress(operatorV)

	// --- V: created through the real staking msg server, self delegation only ---
	pk := test_helpers.CreateTestPubKeys(1)[0]
	createMsg, err := stakingtypes.NewMsgCreateValidator(
		valAddrV.String(), pk, sdk.NewCoin(bondDenom, math.NewInt(2_000_000)),
		stakingtypes.NewDescription("V", "", "", "", ""),
		stakingtypes.NewCommissionRates(math.LegacyZeroDec(), math.LegacyOneDec(), math.LegacyOneDec()),
		math.OneInt(),
	)
	require.NoError(t, err)
	_, err = stakingMsgServer.CreateValidator(ctx, createMsg)
	require.NoError(t, err)
	endBlock(ctx)
	v, err := app.StakingKeeper.GetValidator(ctx, valAddrV)
	require.NoError(t, err)
	require.True(t, v.IsBonded(), "V should be bonded after the first end block")
	t.Logf("V=%s status=%s tokens=%s delegatorShares=%s", valAddrV, v.Status, v.Tokens, v.DelegatorShares)

	// --- alliance asset created through the real msg server: RewardStartTime = now + RewardDelayTime ---
	ctx = nextBlock(ctx, time.Second*5)
	_, err = allianceMsgServer.CreateAlliance(ctx, &types.MsgCreateAlliance{
		Authority:            authtypes.NewModuleAddress("gov").String(),
		Denom:                AllianceDenom,
		RewardWeight:         math.LegacyNewDec(1),
		TakeRate:             math.LegacyZeroDec(),
		RewardChangeRate:     math.LegacyOneDec(),
		RewardChangeInterval: 0,
		RewardWeightRange:    types.RewardWeightRange{Min: math.LegacyZeroDec(), Max: math.LegacyNewDec(5)},
	})
	require.NoError(t, err)
	asset, found := app.AllianceKeeper.GetAssetByDenom(ctx, AllianceDenom)
	require.True(t, found)
	require.True(t, asset.RewardStartTime.After(ctx.BlockTime()))
	t.Logf("asset %s rewardWeight=%s rewardStartTime=%s (block time %s) -> warm-up", asset.Denom, asset.RewardWeight, asset.RewardStartTime, ctx.BlockTime())

	// --- user delegates 1_000_000 to V, another user delegates 1_000_000 to W, both during the warm-up ---
	delegated := sdk.NewCoin(AllianceDenom, math.NewInt(1_000_000))
	_, err = allianceMsgServer.Delegate(ctx, &types.MsgDelegate{DelegatorAddress: user.String(), ValidatorAddress: valAddrV.String(), Amount: delegated})
	require.NoError(t, err)
	_, err = allianceMsgServer.Delegate(ctx, &types.MsgDelegate{DelegatorAddress: userW.String(), ValidatorAddress: valAddrW.String(), Amount: delegated})
	require.NoError(t, err)
	endBlock(ctx)

	_, err = app.StakingKeeper.GetDelegation(ctx, moduleAddr, valAddrV)
	require.Error(t, err, "alliance module must hold NO native delegation on V during warm-up")
	t.Logf("alliance module native delegation on V after rebalancing: %v", err)
	infoV, found := app.AllianceKeeper.GetAllianceValidatorInfo(ctx, valAddrV)
	require.True(t, found)
	t.Logf("alliance validator info of V before removal: totalDelegatorShares=%s validatorShares=%s", infoV.TotalDelegatorShares, infoV.ValidatorShares)
	_, stop := alliance.RunAllInvariants(ctx, app.AllianceKeeper)
	require.False(t, stop, "invariants hold before the validator is removed")

	// --- V's only native delegator (the operator) undelegates everything through the real staking msg server ---
	ctx = nextBlock(ctx, time.Second*5)
	undelegateTime := ctx.BlockTime()
	_, err = stakingMsgServer.Undelegate(ctx, &stakingtypes.MsgUndelegate{
		DelegatorAddress: operatorV.String(),
		ValidatorAddress: valAddrV.String(),
		Amount:           sdk.NewCoin(bondDenom, math.NewInt(2_000_000)),
	})
	require.NoError(t, err)
	endBlock(ctx)
	v, err = app.StakingKeeper.GetValidator(ctx, valAddrV)
	require.NoError(t, err)
	t.Logf("after operator undelegated: V status=%s jailed=%v tokens=%s delegatorShares=%s", v.Status, v.Jailed, v.Tokens, v.DelegatorShares)
	require.True(t, v.IsUnbonding())
	require.True(t, v.DelegatorShares.IsZero())
	_, err = app.StakingKeeper.GetDelegation(ctx, moduleAddr, valAddrV)
	require.Error(t, err, "still no native module delegation on V")

	// --- the warm-up ends (default 7d < 21d unbonding): W gets module stake, V (not bonded) does not ---
	ctx = nextBlock(ctx, rewardDelay+time.Minute)
	endBlock(ctx)
	ctx = nextBlock(ctx, time.Second*5)
	endBlock(ctx)
	asset, _ = app.AllianceKeeper.GetAssetByDenom(ctx, AllianceDenom)
	require.True(t, asset.RewardsStarted(ctx.BlockTime()))
	delW, err := app.StakingKeeper.GetDelegation(ctx, moduleAddr, valAddrW)
	require.NoError(t, err, "module stakes on the bonded validator W once rewards started")
	_, err = app.StakingKeeper.GetDelegation(ctx, moduleAddr, valAddrV)
	require.Error(t, err)
	t.Logf("rewards started: module native shares on W=%s, on V: %v", delW.Shares, err)

	// --- advance beyond the staking unbonding time; the real staking end blocker removes V ---
	ctx = nextBlock(ctx, undelegateTime.Add(unbondingTime).Sub(ctx.BlockTime())+time.Minute)
	endBlock(ctx)
	_, err = app.StakingKeeper.GetValidator(ctx, valAddrV)
	require.ErrorIs(t, err, stakingtypes.ErrNoValidatorFound, "x/staking removed V through its own end blocker")
	t.Logf("x/staking removed V via EndBlocker (UnbondAllMatureValidators -> RemoveValidator): GetValidator -> %v", err)
	_, found = app.AllianceKeeper.GetAllianceValidatorInfo(ctx, valAddrV)
	t.Logf("alliance validator info of V still present after removal: %v", found)
	assert.False(t, found, "AfterValidatorRemoved hook of alliance was expected to have deleted the info (shows the hook fired)")
	ctx = nextBlock(ctx, time.Second*5)
	endBlock(ctx)

	// ================= assertions of the hypothesis =================
	// (a) ledger still counts the stake
	del, found := app.AllianceKeeper.GetDelegation(ctx, user, valAddrV, AllianceDenom)
	assert.True(t, found, "(a) alliance delegation record on V still exists")
	asset, _ = app.AllianceKeeper.GetAssetByDenom(ctx, AllianceDenom)
	t.Logf("(a) delegation found=%v shares=%s; asset TotalTokens=%s TotalValidatorShares=%s; module account balance=%s",
		found, del.Shares, asset.TotalTokens, asset.TotalValidatorShares, app.BankKeeper.GetBalance(ctx, moduleAddr, AllianceDenom))
	assert.Equal(t, math.NewInt(2_000_000), asset.TotalTokens, "(a) asset.TotalTokens still includes the 1_000_000 delegated to V")

	// (b) undelegate
	balBefore := app.BankKeeper.GetBalance(ctx, user, AllianceDenom)
	_, err = allianceMsgServer.Undelegate(ctx, &types.MsgUndelegate{DelegatorAddress: user.String(), ValidatorAddress: valAddrV.String(), Amount: delegated})
	t.Logf("(b) MsgUndelegate full amount -> err=%v", err)
	assert.NoError(t, err, "(b) MsgServer.Undelegate for the full amount must succeed")

	// (b') redelegate to W
	_, err = allianceMsgServer.Redelegate(ctx, &types.MsgRedelegate{DelegatorAddress: user.String(), ValidatorSrcAddress: valAddrV.String(), ValidatorDstAddress: valAddrW.String(), Amount: delegated})
	t.Logf("(b') MsgRedelegate V->W -> err=%v", err)
	assert.NoError(t, err, "(b') MsgServer.Redelegate away from V must succeed")

	// (c) claim
	_, err = allianceMsgServer.ClaimDelegationRewards(ctx, &types.MsgClaimDelegationRewards{DelegatorAddress: user.String(), ValidatorAddress: valAddrV.String(), Denom: AllianceDenom})
	t.Logf("(c) MsgClaimDelegationRewards -> err=%v", err)
	assert.NoError(t, err, "(c) MsgServer.ClaimDelegationRewards must succeed")

	// (d) invariants
	// manual ledger check with the working iterator (GetAllAllianceValidatorInfo, which ValidatorSharesInvariant uses,
	// decodes with UnmarshalInterface and yields empty infos, so that invariant cannot see anything)
	sumValShares := math.LegacyZeroDec()
	_ = app.AllianceKeeper.IterateAllianceValidatorInfo(ctx, func(va sdk.ValAddress, info types.AllianceValidatorInfo) bool {
		t.Logf("(d) remaining alliance validator info %s: validatorShares=%s totalDelegatorShares=%s", va, info.ValidatorShares, info.TotalDelegatorShares)
		sumValShares = sumValShares.Add(sdk.NewDecCoins(info.ValidatorShares...).AmountOf(AllianceDenom))
		return false
	})
	infosViaGetAll, err := app.AllianceKeeper.GetAllAllianceValidatorInfo(ctx)
	t.Logf("(d) GetAllAllianceValidatorInfo (used by ValidatorSharesInvariant) -> %+v err=%v", infosViaGetAll, err)
	t.Logf("(d) manual: asset.TotalValidatorShares=%s, sum of validators' ValidatorShares=%s", asset.TotalValidatorShares, sumValShares)
	assert.True(t, asset.TotalValidatorShares.Equal(sumValShares), "(d) manual ledger check: asset.TotalValidatorShares == sum of ValidatorShares")
	res, stop := alliance.ValidatorSharesInvariant(app.AllianceKeeper)(ctx)
	t.Logf("(d) ValidatorSharesInvariant broken=%v %s", stop, res)
	assert.False(t, stop, "(d) ValidatorSharesInvariant must hold")
	res, stop = alliance.DelegatorSharesInvariant(app.AllianceKeeper)(ctx)
	t.Logf("(d) DelegatorSharesInvariant broken=%v %s", stop, res)
	assert.False(t, stop, "(d) DelegatorSharesInvariant must hold")
	res, stop = alliance.RunAllInvariants(ctx, app.AllianceKeeper)
	assert.False(t, stop, "(d) RunAllInvariants must hold: %s", res)

	// the coins stay in the module account, the user never gets them back even after another unbonding period
	ctx = nextBlock(ctx, unbondingTime+time.Hour)
	endBlock(ctx)
	balAfter := app.BankKeeper.GetBalance(ctx, user, AllianceDenom)
	t.Logf("user balance before=%s after another unbonding period=%s; module account still holds %s",
		balBefore, balAfter, app.BankKeeper.GetBalance(ctx, moduleAddr, AllianceDenom))
	assert.True(t, balAfter.Amount.Equal(balBefore.Amount.Add(delegated.Amount)), "user should have got the 1_000_000 back")

	// Informational only (no assertion): is there a way out if the operator re-creates a validator at the same address?
	ctx = nextBlock(ctx, time.Second*5)
	_, err = stakingMsgServer.CreateValidator(ctx, createMsg)
	t.Logf("(extra) operator re-creates validator V at the same address -> err=%v", err)
	if err == nil {
		endBlock(ctx)
		func() {
			defer func() {
				if r := recover(); r != nil {
					t.Logf("(extra) MsgUndelegate after re-creation PANICKED: %v", r)
				}
			}()
			cacheCtx, _ := ctx.CacheContext()
			_, err := allianceMsgServer.Undelegate(cacheCtx, &types.MsgUndelegate{DelegatorAddress: user.String(), ValidatorAddress: valAddrV.String(), Amount: delegated})
			t.Logf("(extra) MsgUndelegate after V was re-created -> err=%v", err)
			res, stop := alliance.DelegatorSharesInvariant(app.AllianceKeeper)(cacheCtx)
			t.Logf("(extra) DelegatorSharesInvariant after that: broken=%v %s", stop, res)
		}()
	}
}
